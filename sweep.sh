#!/bin/sh
# ./sweep.sh <first seed> <last seed> [tier]: every check at every seed, in parallel; prints the runs that did not exit 0
cd "$(dirname "$0")" || exit 2
(cd lean && lake build TradingVerif TradingVerif.Props.All) >/dev/null 2>&1 || { echo "setup failed"; exit 2; }
mkdir -p /tmp/sweep_$$
for sd in $(seq $1 $2); do for i in 01 02 03 04 05 06 07 08 09 10 11 12 13 14 15 16 17 18 19; do echo "$sd C$i"; done; done |
  xargs -P ${JOBS:-10} -L 1 sh -c 'VERIF_SEED=$0 ./check $1 '"${3:-quick}"' > /tmp/sweep_'$$'/$1-$0.log 2>&1; rc=$?; [ $rc -ne 0 ] && { echo "$1 seed=$0 rc=$rc"; grep -h "VIOLATION\|INFRA\|Traceback" /tmp/sweep_'$$'/$1-$0.log | head -3; }; true'
echo "sweep $1..$2 finished"
rm -rf /tmp/sweep_$$
