import TradingVerif.Props.C06
#print axioms TV.idle_growth
#print axioms TV.idle_floor
#print axioms TV.loan_growth
#print axioms TV.positive_never_charged
#print axioms TV.accrue_same_instant_zero
#print axioms TV.bal_split
#print axioms TV.bal_fold
#print axioms TV.accrue_spec
#print axioms TV.query_changes_nothing
#print axioms TV.first_query_starts_clock
#print axioms TV.earlier_time_rejected
#print axioms TV.margin_earns_nothing
#print axioms TV.accrue_split
#print axioms TV.tiny_rate_still_earns
#print axioms TV.tiny_rate_still_charges
