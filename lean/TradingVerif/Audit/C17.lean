import TradingVerif.Props.C17
#print axioms TV.contains_box
#print axioms TV.contains_boxv
#print axioms TV.contains_discrete
#print axioms TV.contains_wrong_kind
#print axioms TV.invalid_action_rejected
#print axioms TV.rejected_when_due
#print axioms TV.valid_action_request
#print axioms TV.cash_entry_ignored
#print axioms TV.denote_spec
#print axioms TV.in_space_action_executed
