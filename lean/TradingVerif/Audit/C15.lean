import TradingVerif.Props.C15
#print axioms TV.steps_in_fold
#print axioms TV.episode_size
#print axioms TV.start_fits
#print axioms TV.refused_iff_none_fits
#print axioms TV.walk_forward_spec
#print axioms TV.walk_forward_disjoint
#print axioms TV.wfStarts_sorted
#print axioms TV.mem_wfStarts
#print axioms TV.episode_length_exact
#print axioms TV.walk_forward_complete
#print axioms TV.walk_forward_contiguous
#print axioms TV.walk_forward_starts_multiple
#print axioms TV.walk_forward_empty_iff
