import TradingVerif.Props.C03
#print axioms TV.only_traded_contract_moves
#print axioms TV.transact_reaches
#print axioms TV.foldl_transact_pos
#print axioms TV.tradeFor_exact
#print axioms TV.untargeted_closed_entry
#print axioms TV.targeted_entry
#print axioms TV.weights_target_value
#print axioms TV.snap_excluded_point
#print axioms TV.exec_reaches
#print axioms TV.rebalance_ok_decomp
#print axioms TV.rebalance_reaches
#print axioms TV.rebalance_reaches_contracts
#print axioms TV.rebalance_reaches_weights
#print axioms TV.exec_closes_untargeted
#print axioms TV.rebalance_closes_untargeted
