import TradingVerif.Props.C12
#print axioms TV.trade_emitted_iff
#print axioms TV.liquidation_always_emitted
#print axioms TV.whole_lot_quantity
#print axioms TV.sub_lot_skipped
#print axioms TV.no_cash_no_zero_trade
#print axioms TV.mkTrade_ok_iff
#print axioms TV.truncK_abs_le
#print axioms TV.truncK_eq_zero_iff
#print axioms TV.truncK_int
#print axioms TV.truncK_sign
#print axioms TV.makeTrades_spec
#print axioms TV.emitted_iff
#print axioms TV.liquidation_never_filtered
