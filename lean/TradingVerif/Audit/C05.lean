import TradingVerif.Props.C05
#print axioms TV.mtm_margin_eq
#print axioms TV.mark_one_margin_eq
#print axioms TV.transact_margin_eq
#print axioms TV.margin_nonneg
#print axioms TV.margin_flat_zero
#print axioms TV.spot_margin_zero
#print axioms TV.sweep_conserves
#print axioms TV.nlv_decomposition
#print axioms TV.weight_def
#print axioms TV.notional_def
#print axioms TV.nlv_decomposition_inv
#print axioms TV.flat_margin_zero_after_mark
#print axioms TV.flat_margin_zero_at_valuation
#print axioms TV.nlv_decomposition_open
#print axioms TV.stepOp_ex
#print axioms TV.shared_exchange_stays_shared
#print axioms TV.two_accounts_isolated
