import TradingVerif.Props.C02
import TradingVerif.Props.C18
#print axioms TV.grid_le_last
#print axioms TV.sorted_upto
#print axioms TV.batches_depend_on_past
#print axioms TV.latent_within_latency
#print axioms TV.processNonlatent_congr
#print axioms TV.envStep_congr
#print axioms TV.sortEvents_filter
#print axioms TV.bucket_le_iff
#print axioms TV.notify_mod_pending
#print axioms TV.processNonlatent_mod_pending
#print axioms TV.envStep_mod_pending
#print axioms TV.envStep_frame
#print axioms TV.run_no_lookahead
#print axioms TV.reset_no_lookahead
#print axioms TV.episode_no_lookahead
#print axioms TV.episode_no_lookahead_streams
#print axioms TV.Tab.tabular_obs_causal
