import TradingVerif.Props.C08
#print axioms TV.qrun_spec
#print axioms TV.fifo_delay
#print axioms TV.fifo_delay_get
#print axioms TV.stepPre_queue
#print axioms TV.reset_queue
#print axioms TV.null_action_in_space
#print axioms TV.null_action_denotes
#print axioms TV.execution_books
#print axioms TV.rebalance_trades_use_current_quotes
#print axioms TV.envStep_queue
#print axioms TV.episode_fifo
#print axioms TV.episode_fifo_reset
