import TradingVerif.Props.C18
#print axioms TV.Tab.queue_window
#print axioms TV.Tab.queue_length
#print axioms TV.Tab.everyNth_length
#print axioms TV.Tab.obs_shape
#print axioms TV.Tab.thin_keeps_latest
#print axioms TV.Tab.clip_bounds
#print axioms TV.Tab.prepare_bounds
#print axioms TV.Tab.ffill_causal
#print axioms TV.Tab.prepare_causal
#print axioms TV.Tab.ffillFrom_spec
#print axioms TV.Tab.quotes_widened
#print axioms TV.Tab.timesteps_spec
#print axioms TV.Tab.tabular_obs_causal
#print axioms TV.Tab.queue_full_window
#print axioms TV.Tab.warmup_serves_table
#print axioms TV.Tab.warmup_short_pads
