import TradingVerif.Props.C10
#print axioms TV.notify_mod_clock
#print axioms TV.processLatent_mod_clock
#print axioms TV.processNonlatent_mod_clock
#print axioms TV.reset_ignores_clock
#print axioms TV.envStep_mod_clock
#print axioms TV.isolation
#print axioms TV.partitions_immutable
#print axioms TV.isolation_chain_counterexample
#print axioms TV.replay_after_any_lifetime
#print axioms TV.replay_after_any_lifetime_perturbed
