import TradingVerif.Props.C11
#print axioms TV.bisectRight_spec
#print axioms TV.bisectRight_split
#print axioms TV.lead_live
#print axioms TV.lead_monotone
#print axioms TV.lead_offset
#print axioms TV.chain_key_is_lead
#print axioms TV.plain_key_is_itself
#print axioms TV.roll_closes_old_lead
#print axioms TV.roll_window_nonempty
#print axioms TV.makeRequest_ok
#print axioms TV.chain_others_flat
