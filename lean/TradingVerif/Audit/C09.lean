import TradingVerif.Props.C09
#print axioms TV.valuation_raises_iff
#print axioms TV.raising_valuation_positive
#print axioms TV.valuation_no_raise
#print axioms TV.insolvent_rebalance_no_trade
#print axioms TV.insolvent_decision_ends_episode
#print axioms TV.done_refuses
#print axioms TV.done_refuses_forever
#print axioms TV.reported_done_is_done
#print axioms TV.ruin_step_escapes_witness
#print axioms TV.ruin_step_reports_done_partial
