import TradingVerif.Props.C07
#print axioms TV.one_entry_per_executed_decision
#print axioms TV.record_times_nodup
#print axioms TV.request_time_is_clock
#print axioms TV.entry_is_actual
#print axioms TV.checkpoint_nlv_eq_ledger
#print axioms TV.reward_def
#print axioms TV.clipTo_range
#print axioms TV.simple_returns_compound
