import TradingVerif.Props.C07
#print axioms TV.one_entry_per_executed_decision
#print axioms TV.record_times_nodup
#print axioms TV.request_time_is_clock
#print axioms TV.entry_is_actual
#print axioms TV.checkpoint_nlv_eq_ledger
#print axioms TV.reward_def
#print axioms TV.clipTo_range
#print axioms TV.simple_returns_compound
#print axioms TV.foldl_notifyEvent_clock
#print axioms TV.stepExec_recInv
#print axioms TV.envStep_recInv
#print axioms TV.record_times_increasing
#print axioms TV.reset_ready
#print axioms TV.firstBatch_nonempty
#print axioms TV.record_times_increasing_episode
#print axioms TV.entry_snapshot_consistent
