import TradingVerif.Props.C01
#print axioms TV.ledger_invariant
#print axioms TV.nlv_identity
#print axioms TV.nlv_identity_raising
#print axioms TV.trade_delta
#print axioms TV.trade_delta_spot_eq_future
#print axioms TV.quote_delta
#print axioms TV.mkTrade_uses_given_quotes
#print axioms TV.transact_inv
#print axioms TV.mark1_inv
#print axioms TV.runOps_inv
#print axioms TV.nlv_identity_open
#print axioms TV.stepOp_ex
#print axioms TV.shared_exchange_stays_shared
#print axioms TV.two_accounts_isolated
