import TradingVerif.Props.C13
#print axioms TV.valueOf_missing
#print axioms TV.flat_needs_no_quote
#print axioms TV.valuation_missing_quote_errors
#print axioms TV.weights_missing_quote_errors
#print axioms TV.rebalance_missing_quote_errors
#print axioms TV.rebalance_fails_before_trading
#print axioms TV.trade_needs_both_sides
#print axioms TV.valueOf_ok_iff
#print axioms TV.valuesOn_ok_iff
#print axioms TV.valuesOf_ok_iff
