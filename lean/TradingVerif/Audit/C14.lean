import TradingVerif.Props.C14
#print axioms TV.book_frame
#print axioms TV.book_projection
#print axioms TV.last_quote_wins
#print axioms TV.dead_stays_dead
#print axioms TV.discontinued_forever
#print axioms TV.acq_side
#print axioms TV.mid_spec
#print axioms TV.mid_missing
#print axioms TV.history_any_interleaving
#print axioms TV.history_from_fresh
#print axioms TV.last_update_spec
