/-
  C16 — performance metrics equal their definitions and are scale-invariant.
  The model *is* the textbook definition of each metric; the theorems are the relations between them
  (scale invariance, ranges, the CAGR equation) and the acceptance condition of `validate`.
-/
import Mathlib.Analysis.SpecialFunctions.Pow.Real
import Mathlib.Tactic.FieldSimp
import Mathlib.Tactic.Linarith
import TradingVerif.Model.Metrics
set_option linter.unusedSectionVars false
set_option linter.unusedVariables false
namespace TV.Met
variable {K : Type} [Field K] [LinearOrder K] [IsStrictOrderedRing K]

/-! ### validation -/

/-- **A series is accepted iff it is a valid level series**: every value present and positive, a datetime
    index without missing entries, strictly increasing (hence no duplicates). -/
theorem validate_accepts_iff (d : Bool) (l : List (Row K)) :
    validate d l = true ↔
      (∀ r ∈ l, ∃ v, r.value = some v ∧ 0 < v) ∧ d = true ∧ (∀ r ∈ l, r.time.isSome = true) ∧
      strictlyIncreasing (l.filterMap (·.time)) = true := by
  unfold validate
  simp only [Bool.and_eq_true, List.all_eq_true]
  constructor
  · rintro ⟨⟨⟨⟨h1, h2⟩, h3⟩, h4⟩, h5⟩
    refine ⟨?_, h3, h4, h5⟩
    intro r hr
    have := h2 r hr
    cases hv : r.value with
    | none => simp [hv] at this
    | some v => exact ⟨v, rfl, by simpa [hv] using this⟩
  · rintro ⟨h1, h2, h3, h4⟩
    refine ⟨⟨⟨⟨?_, ?_⟩, h2⟩, h3⟩, h4⟩
    · intro r hr; obtain ⟨v, hv, _⟩ := h1 r hr; simp [hv]
    · intro r hr; obtain ⟨v, hv, hp⟩ := h1 r hr; simp [hv, hp]

/-- each single-defect corruption is rejected -/
theorem validate_rejects_nan (d : Bool) (l : List (Row K)) (r : Row K) (hr : r ∈ l) (h : r.value = none) :
    validate d l = false := by
  by_contra hc
  have := ((validate_accepts_iff d l).mp (by simpa using hc)).1 r hr
  obtain ⟨v, hv, _⟩ := this
  rw [h] at hv; cases hv

theorem validate_rejects_nonpositive (d : Bool) (l : List (Row K)) (r : Row K) (hr : r ∈ l) (v : K)
    (h : r.value = some v) (hv : v ≤ 0) : validate d l = false := by
  by_contra hc
  obtain ⟨v', hv', hp⟩ := ((validate_accepts_iff d l).mp (by simpa using hc)).1 r hr
  rw [h] at hv'; cases hv'
  exact absurd hp (not_lt.mpr hv)

theorem validate_rejects_nondatetime (l : List (Row K)) : validate false l = false := by
  by_contra hc
  have := ((validate_accepts_iff false l).mp (by simpa using hc)).2.1
  cases this

theorem validate_rejects_nat (d : Bool) (l : List (Row K)) (r : Row K) (hr : r ∈ l) (h : r.time = none) :
    validate d l = false := by
  by_contra hc
  have := ((validate_accepts_iff d l).mp (by simpa using hc)).2.2.1 r hr
  rw [h] at this; cases this

/-- duplicated or unsorted index entries: any adjacent pair that does not strictly increase is rejected -/
theorem strictlyIncreasing_adjacent (pre : List Time) (a b : Time) (post : List Time) (h : ¬ a < b) :
    strictlyIncreasing (pre ++ a :: b :: post) = false := by
  induction pre with
  | nil => simp [strictlyIncreasing, h]
  | cons x xs ih =>
      cases xs with
      | nil => simp [strictlyIncreasing, h]
      | cons y ys =>
          simp only [List.cons_append, strictlyIncreasing] at ih ⊢
          simp [ih]

/-! ### several observations per day -/

/-- with at most one observation per day, `level` is the series itself -/
theorem collapse_id (l : List (Time × K)) (h : (l.map (fun p => dateOf p.1)).Pairwise (· ≠ ·)) :
    collapseDays l = l := by
  induction l with
  | nil => rfl
  | cons p ps ih =>
      cases ps with
      | nil => rfl
      | cons q qs =>
          have hp := List.pairwise_cons.mp h
          have hne : dateOf p.1 ≠ dateOf q.1 := hp.1 _ (by simp)
          rw [collapseDays, if_neg hne, ih hp.2]

/-- observations of one day collapse to the last one -/
theorem collapse_same_day (p q : Time × K) (rest : List (Time × K)) (h : dateOf p.1 = dateOf q.1) :
    collapseDays (p :: q :: rest) = collapseDays (q :: rest) := by
  rw [collapseDays, if_pos h]

theorem collapse_sublist (l : List (Time × K)) : (collapseDays l).Sublist l := by
  induction l with
  | nil => exact List.Sublist.slnil
  | cons p ps ih =>
      cases ps with
      | nil => exact List.Sublist.refl _
      | cons q qs =>
          rw [collapseDays]
          split_ifs
          · exact List.Sublist.cons p ih
          · exact List.Sublist.cons_cons p ih

/-! ### scale invariance -/

/-- **Returns do not change when the levels are multiplied by a constant `c ≠ 0`** -/
theorem returns_scale (c : K) (hc : c ≠ 0) (l : List K) (hl : ∀ x ∈ l, x ≠ 0) :
    returns (l.map (c * ·)) = returns l := by
  induction l with
  | nil => rfl
  | cons a as ih =>
      cases as with
      | nil => rfl
      | cons b bs =>
          have ha : a ≠ 0 := hl a (List.mem_cons_self)
          simp only [List.map_cons, returns] at ih ⊢
          rw [ih (fun x hx => hl x (List.mem_cons_of_mem _ hx))]
          congr 1
          field_simp

theorem cummaxFrom_scale (c : K) (hc : 0 < c) (m : K) (l : List K) :
    cummaxFrom (c * m) (l.map (c * ·)) = (cummaxFrom m l).map (c * ·) := by
  induction l generalizing m with
  | nil => rfl
  | cons x xs ih =>
      simp only [List.map_cons, cummaxFrom]
      have hiff : c * m < c * x ↔ m < x := by
        constructor
        · intro h; exact lt_of_mul_lt_mul_left h (le_of_lt hc)
        · intro h; exact mul_lt_mul_of_pos_left h hc
      by_cases hmx : m < x
      · simp only [hmx, hiff.mpr hmx, if_true]
        rw [ih x]
      · have : ¬ c * m < c * x := fun h => hmx (hiff.mp h)
        simp only [hmx, this, if_false]
        rw [ih m]

theorem cummax_scale (c : K) (hc : 0 < c) (l : List K) : cummax (l.map (c * ·)) = (cummax l).map (c * ·) := by
  cases l with
  | nil => rfl
  | cons x xs => simp only [List.map_cons, cummax, cummaxFrom_scale c hc x xs]

/-- the running maximum is positive when the levels are -/
theorem cummaxFrom_pos (m : K) (hm : 0 < m) (l : List K) : ∀ y ∈ cummaxFrom m l, 0 < y := by
  induction l generalizing m with
  | nil => intro y hy; cases hy
  | cons x xs ih =>
      intro y hy
      simp only [cummaxFrom, List.mem_cons] at hy
      by_cases hmx : m < x
      · simp only [hmx, if_true] at hy
        rcases hy with rfl | hy
        · exact lt_trans hm hmx
        · exact ih x (lt_trans hm hmx) y hy
      · simp only [hmx, if_false] at hy
        rcases hy with rfl | hy
        · exact hm
        · exact ih m hm y hy

/-- **Drawdowns do not change when the levels are multiplied by a positive constant** -/
theorem drawdown_scale (c : K) (hc : 0 < c) (l : List K) (hl : ∀ x ∈ l, 0 < x) :
    drawdown (l.map (c * ·)) = drawdown l := by
  unfold drawdown
  rw [cummax_scale c hc l]
  rw [show (l.map (c * ·)).zip ((cummax l).map (c * ·)) = (l.zip (cummax l)).map (fun p => (c * p.1, c * p.2)) by
    rw [List.zip_map]; rfl]
  rw [List.map_map]
  apply List.map_congr_left
  intro p hp
  have hpos : 0 < p.2 := by
    have hmem := (List.of_mem_zip hp).2
    cases l with
    | nil => simp [cummax] at hmem
    | cons x xs =>
        simp only [cummax, List.mem_cons] at hmem
        have hx : 0 < x := hl x (List.mem_cons_self)
        rcases hmem with h | h
        · rw [h]; exact hx
        · exact cummaxFrom_pos x hx xs p.2 h
  simp only [Function.comp]
  have hc' : c ≠ 0 := ne_of_gt hc
  have hp' : p.2 ≠ 0 := ne_of_gt hpos
  field_simp

/-- every metric that is a function of the returns (volatility, VaR, expected shortfall, downside / upside
    volatility, tracking error) is therefore unchanged under a positive scaling of the levels -/
theorem metric_of_returns_scale_invariant {β : Type} (f : List K → β) (c : K) (hc : 0 < c) (l : List K)
    (hl : ∀ x ∈ l, 0 < x) : f (returns (l.map (c * ·))) = f (returns l) := by
  rw [returns_scale c (ne_of_gt hc) l (fun x hx => ne_of_gt (hl x hx))]

/-- … and every metric that is a function of the drawdowns (max drawdown, Martin risk) -/
theorem metric_of_drawdown_scale_invariant {β : Type} (f : List K → β) (c : K) (hc : 0 < c) (l : List K)
    (hl : ∀ x ∈ l, 0 < x) : f (drawdown (l.map (c * ·))) = f (drawdown l) := by
  rw [drawdown_scale c hc l hl]

/-- the ratio last / first, hence CAGR and cumulative return, is unchanged too -/
theorem ratio_scale (c a b : K) (hc : c ≠ 0) (ha : a ≠ 0) : (c * b) / (c * a) = b / a := by
  field_simp

/-! ### drawdown -/

theorem le_cummaxFrom (m : K) (l : List K) :
    ∀ p ∈ l.zip (cummaxFrom m l), p.1 ≤ p.2 ∧ m ≤ p.2 := by
  induction l generalizing m with
  | nil => intro p hp; simp at hp
  | cons x xs ih =>
      intro p hp
      simp only [cummaxFrom, List.zip_cons_cons, List.mem_cons] at hp
      by_cases hmx : m < x
      · simp only [hmx, if_true] at hp
        rcases hp with rfl | hp
        · exact ⟨le_refl _, le_of_lt hmx⟩
        · obtain ⟨h1, h2⟩ := ih x p hp
          exact ⟨h1, le_trans (le_of_lt hmx) h2⟩
      · simp only [hmx, if_false] at hp
        rcases hp with rfl | hp
        · exact ⟨not_lt.mp hmx, le_refl _⟩
        · exact ih m p hp

/-- **Drawdown lies in (−1, 0]** for positive levels -/
theorem drawdown_range (l : List K) (hl : ∀ x ∈ l, 0 < x) : ∀ d ∈ drawdown l, -1 < d ∧ d ≤ 0 := by
  intro d hd
  unfold drawdown at hd
  obtain ⟨p, hp, rfl⟩ := List.mem_map.mp hd
  have hx : 0 < p.1 := hl p.1 (List.of_mem_zip hp).1
  have hle : p.1 ≤ p.2 := by
    cases l with
    | nil => simp [cummax] at hp
    | cons x xs =>
        simp only [cummax, List.zip_cons_cons, List.mem_cons] at hp
        rcases hp with rfl | hp
        · exact le_refl _
        · exact (le_cummaxFrom x xs p hp).1
  have hpos : 0 < p.2 := lt_of_lt_of_le hx hle
  constructor
  · have : 0 < p.1 / p.2 := div_pos hx hpos
    linarith
  · have : p.1 / p.2 ≤ 1 := (div_le_one hpos).mpr hle
    linarith

/-- **Drawdown is 0 at a running high** -/
theorem drawdown_zero_at_high (v m : K) (hm : m ≠ 0) (h : v = m) : v / m - 1 = 0 := by
  rw [h, div_self hm]; ring

/-- `max_drawdown` is the smallest drawdown -/
theorem foldl_min_spec (xs : List K) (x : K) :
    let r := xs.foldl (fun m y => if y < m then y else m) x
    (r = x ∨ r ∈ xs) ∧ r ≤ x ∧ ∀ y ∈ xs, r ≤ y := by
  induction xs generalizing x with
  | nil => simp
  | cons y ys ih =>
      simp only [List.foldl_cons]
      by_cases hyx : y < x
      · simp only [hyx, if_true]
        obtain ⟨h1, h2, h3⟩ := ih y
        refine ⟨?_, le_trans h2 (le_of_lt hyx), ?_⟩
        · rcases h1 with h | h
          · right; rw [h]; exact List.mem_cons_self
          · right; exact List.mem_cons_of_mem _ h
        · intro z hz
          rcases List.mem_cons.mp hz with rfl | hz'
          · exact h2
          · exact h3 z hz'
      · simp only [hyx, if_false]
        obtain ⟨h1, h2, h3⟩ := ih x
        refine ⟨?_, h2, ?_⟩
        · rcases h1 with h | h
          · left; exact h
          · right; exact List.mem_cons_of_mem _ h
        · intro z hz
          rcases List.mem_cons.mp hz with rfl | hz'
          · exact le_trans h2 (not_lt.mp hyx)
          · exact h3 z hz'

theorem max_drawdown_is_min (l : List K) (m : K) (h : maxDrawdown l = some m) :
    m ∈ drawdown l ∧ ∀ d ∈ drawdown l, m ≤ d := by
  unfold maxDrawdown minL at h
  cases hd : drawdown l with
  | nil => rw [hd] at h; cases h
  | cons x xs =>
      rw [hd] at h
      simp only [Option.some.injEq] at h
      obtain ⟨h1, h2, h3⟩ := foldl_min_spec xs x
      rw [h] at h1 h2 h3
      refine ⟨?_, ?_⟩
      · rcases h1 with h | h
        · rw [h]; exact List.mem_cons_self
        · exact List.mem_cons_of_mem _ h
      · intro d hdm
        rcases List.mem_cons.mp hdm with rfl | hd'
        · exact h2
        · exact h3 d hd'

end TV.Met

/-! ### CAGR over the reals -/
namespace TV.Met
noncomputable section

/-- **(1 + CAGR)^years = last / first** -/
theorem cagr_spec (first last years : ℝ) (hr : 0 < last / first) (hy : years ≠ 0) :
    Real.rpow (1 + (Real.rpow (last / first) (1 / years) - 1)) years = last / first := by
  have : 1 + (Real.rpow (last / first) (1 / years) - 1) = Real.rpow (last / first) (1 / years) := by ring
  rw [this]
  simp only [Real.rpow_eq_pow]
  rw [← Real.rpow_mul (le_of_lt hr)]
  rw [one_div, inv_mul_cancel₀ hy, Real.rpow_one]

/-- the model's `cagr` is that expression -/
theorem cagr_def (L : Leaves ℝ) (lv : List ℝ) (ts : List Time) (a b : ℝ) (ha : lv.head? = some a)
    (hb : lv.getLast? = some b) : cagr L lv ts = some (L.pow (b / a) (1 / nrYears ts) - 1) := by
  unfold cagr
  rw [ha, hb]

end
end TV.Met
