/-
  C16 — performance metrics equal their definitions and are scale-invariant.
  The model *is* the textbook definition of each metric; the theorems are the relations between them
  (scale invariance, ranges, the CAGR equation) and the acceptance condition of `validate`.
-/
import Mathlib.Analysis.SpecialFunctions.Pow.Real
import Mathlib.Tactic.FieldSimp
import Mathlib.Tactic.Linarith
import TradingVerif.Model.Metrics
set_option linter.unusedSectionVars false
set_option linter.unusedVariables false
namespace TV.Met
variable {K : Type} [Field K] [LinearOrder K] [IsStrictOrderedRing K]

/-! ### validation -/

/-- **A series is accepted iff it is a valid level series**: every value present and positive, a datetime
    index without missing entries, strictly increasing (hence no duplicates). -/
theorem validate_accepts_iff (d : Bool) (l : List (Row K)) :
    validate d l = true ↔
      (∀ r ∈ l, ∃ v, r.value = some v ∧ 0 < v) ∧ d = true ∧ (∀ r ∈ l, r.time.isSome = true) ∧
      strictlyIncreasing (l.filterMap (·.time)) = true := by
  unfold validate
  simp only [Bool.and_eq_true, List.all_eq_true]
  constructor
  · rintro ⟨⟨⟨⟨h1, h2⟩, h3⟩, h4⟩, h5⟩
    refine ⟨?_, h3, h4, h5⟩
    intro r hr
    have := h2 r hr
    cases hv : r.value with
    | none => simp [hv] at this
    | some v => exact ⟨v, rfl, by simpa [hv] using this⟩
  · rintro ⟨h1, h2, h3, h4⟩
    refine ⟨⟨⟨⟨?_, ?_⟩, h2⟩, h3⟩, h4⟩
    · intro r hr; obtain ⟨v, hv, _⟩ := h1 r hr; simp [hv]
    · intro r hr; obtain ⟨v, hv, hp⟩ := h1 r hr; simp [hv, hp]

/-- each single-defect corruption is rejected -/
theorem validate_rejects_nan (d : Bool) (l : List (Row K)) (r : Row K) (hr : r ∈ l) (h : r.value = none) :
    validate d l = false := by
  by_contra hc
  have := ((validate_accepts_iff d l).mp (by simpa using hc)).1 r hr
  obtain ⟨v, hv, _⟩ := this
  rw [h] at hv; cases hv

theorem validate_rejects_nonpositive (d : Bool) (l : List (Row K)) (r : Row K) (hr : r ∈ l) (v : K)
    (h : r.value = some v) (hv : v ≤ 0) : validate d l = false := by
  by_contra hc
  obtain ⟨v', hv', hp⟩ := ((validate_accepts_iff d l).mp (by simpa using hc)).1 r hr
  rw [h] at hv'; cases hv'
  exact absurd hp (not_lt.mpr hv)

theorem validate_rejects_nondatetime (l : List (Row K)) : validate false l = false := by
  by_contra hc
  have := ((validate_accepts_iff false l).mp (by simpa using hc)).2.1
  cases this

theorem validate_rejects_nat (d : Bool) (l : List (Row K)) (r : Row K) (hr : r ∈ l) (h : r.time = none) :
    validate d l = false := by
  by_contra hc
  have := ((validate_accepts_iff d l).mp (by simpa using hc)).2.2.1 r hr
  rw [h] at this; cases this

/-- duplicated or unsorted index entries: any adjacent pair that does not strictly increase is rejected -/
theorem strictlyIncreasing_adjacent (pre : List Time) (a b : Time) (post : List Time) (h : ¬ a < b) :
    strictlyIncreasing (pre ++ a :: b :: post) = false := by
  induction pre with
  | nil => simp [strictlyIncreasing, h]
  | cons x xs ih =>
      cases xs with
      | nil => simp [strictlyIncreasing, h]
      | cons y ys =>
          simp only [List.cons_append, strictlyIncreasing] at ih ⊢
          simp [ih]

/-! ### several observations per day -/

/-- with at most one observation per day, `level` is the series itself -/
theorem collapse_id (l : List (Time × K)) (h : (l.map (fun p => dateOf p.1)).Pairwise (· ≠ ·)) :
    collapseDays l = l := by
  induction l with
  | nil => rfl
  | cons p ps ih =>
      cases ps with
      | nil => rfl
      | cons q qs =>
          have hp := List.pairwise_cons.mp h
          have hne : dateOf p.1 ≠ dateOf q.1 := hp.1 _ (by simp)
          rw [collapseDays, if_neg hne, ih hp.2]

/-- observations of one day collapse to the last one -/
theorem collapse_same_day (p q : Time × K) (rest : List (Time × K)) (h : dateOf p.1 = dateOf q.1) :
    collapseDays (p :: q :: rest) = collapseDays (q :: rest) := by
  rw [collapseDays, if_pos h]

theorem collapse_sublist (l : List (Time × K)) : (collapseDays l).Sublist l := by
  induction l with
  | nil => exact List.Sublist.slnil
  | cons p ps ih =>
      cases ps with
      | nil => exact List.Sublist.refl _
      | cons q qs =>
          rw [collapseDays]
          split_ifs
          · exact List.Sublist.cons p ih
          · exact List.Sublist.cons_cons p ih

/-! ### scale invariance -/

/-- **Returns do not change when the levels are multiplied by a constant `c ≠ 0`** -/
theorem returns_scale (c : K) (hc : c ≠ 0) (l : List K) (hl : ∀ x ∈ l, x ≠ 0) :
    returns (l.map (c * ·)) = returns l := by
  induction l with
  | nil => rfl
  | cons a as ih =>
      cases as with
      | nil => rfl
      | cons b bs =>
          have ha : a ≠ 0 := hl a (List.mem_cons_self)
          simp only [List.map_cons, returns] at ih ⊢
          rw [ih (fun x hx => hl x (List.mem_cons_of_mem _ hx))]
          congr 1
          field_simp

theorem cummaxFrom_scale (c : K) (hc : 0 < c) (m : K) (l : List K) :
    cummaxFrom (c * m) (l.map (c * ·)) = (cummaxFrom m l).map (c * ·) := by
  induction l generalizing m with
  | nil => rfl
  | cons x xs ih =>
      simp only [List.map_cons, cummaxFrom]
      have hiff : c * m < c * x ↔ m < x := by
        constructor
        · intro h; exact lt_of_mul_lt_mul_left h (le_of_lt hc)
        · intro h; exact mul_lt_mul_of_pos_left h hc
      by_cases hmx : m < x
      · simp only [hmx, hiff.mpr hmx, if_true]
        rw [ih x]
      · have : ¬ c * m < c * x := fun h => hmx (hiff.mp h)
        simp only [hmx, this, if_false]
        rw [ih m]

theorem cummax_scale (c : K) (hc : 0 < c) (l : List K) : cummax (l.map (c * ·)) = (cummax l).map (c * ·) := by
  cases l with
  | nil => rfl
  | cons x xs => simp only [List.map_cons, cummax, cummaxFrom_scale c hc x xs]

/-- the running maximum is positive when the levels are -/
theorem cummaxFrom_pos (m : K) (hm : 0 < m) (l : List K) : ∀ y ∈ cummaxFrom m l, 0 < y := by
  induction l generalizing m with
  | nil => intro y hy; cases hy
  | cons x xs ih =>
      intro y hy
      simp only [cummaxFrom, List.mem_cons] at hy
      by_cases hmx : m < x
      · simp only [hmx, if_true] at hy
        rcases hy with rfl | hy
        · exact lt_trans hm hmx
        · exact ih x (lt_trans hm hmx) y hy
      · simp only [hmx, if_false] at hy
        rcases hy with rfl | hy
        · exact hm
        · exact ih m hm y hy

/-- **Drawdowns do not change when the levels are multiplied by a positive constant** -/
theorem drawdown_scale (c : K) (hc : 0 < c) (l : List K) (hl : ∀ x ∈ l, 0 < x) :
    drawdown (l.map (c * ·)) = drawdown l := by
  unfold drawdown
  rw [cummax_scale c hc l]
  rw [show (l.map (c * ·)).zip ((cummax l).map (c * ·)) = (l.zip (cummax l)).map (fun p => (c * p.1, c * p.2)) by
    rw [List.zip_map]; rfl]
  rw [List.map_map]
  apply List.map_congr_left
  intro p hp
  have hpos : 0 < p.2 := by
    have hmem := (List.of_mem_zip hp).2
    cases l with
    | nil => simp [cummax] at hmem
    | cons x xs =>
        simp only [cummax, List.mem_cons] at hmem
        have hx : 0 < x := hl x (List.mem_cons_self)
        rcases hmem with h | h
        · rw [h]; exact hx
        · exact cummaxFrom_pos x hx xs p.2 h
  simp only [Function.comp]
  have hc' : c ≠ 0 := ne_of_gt hc
  have hp' : p.2 ≠ 0 := ne_of_gt hpos
  field_simp

/-- every metric that is a function of the returns (volatility, VaR, expected shortfall, downside / upside
    volatility, tracking error) is therefore unchanged under a positive scaling of the levels -/
theorem metric_of_returns_scale_invariant {β : Type} (f : List K → β) (c : K) (hc : 0 < c) (l : List K)
    (hl : ∀ x ∈ l, 0 < x) : f (returns (l.map (c * ·))) = f (returns l) := by
  rw [returns_scale c (ne_of_gt hc) l (fun x hx => ne_of_gt (hl x hx))]

/-- … and every metric that is a function of the drawdowns (max drawdown, Martin risk) -/
theorem metric_of_drawdown_scale_invariant {β : Type} (f : List K → β) (c : K) (hc : 0 < c) (l : List K)
    (hl : ∀ x ∈ l, 0 < x) : f (drawdown (l.map (c * ·))) = f (drawdown l) := by
  rw [drawdown_scale c hc l hl]

/-- the ratio last / first, hence CAGR and cumulative return, is unchanged too -/
theorem ratio_scale (c a b : K) (hc : c ≠ 0) (ha : a ≠ 0) : (c * b) / (c * a) = b / a := by
  field_simp

/-! ### drawdown -/

theorem le_cummaxFrom (m : K) (l : List K) :
    ∀ p ∈ l.zip (cummaxFrom m l), p.1 ≤ p.2 ∧ m ≤ p.2 := by
  induction l generalizing m with
  | nil => intro p hp; simp at hp
  | cons x xs ih =>
      intro p hp
      simp only [cummaxFrom, List.zip_cons_cons, List.mem_cons] at hp
      by_cases hmx : m < x
      · simp only [hmx, if_true] at hp
        rcases hp with rfl | hp
        · exact ⟨le_refl _, le_of_lt hmx⟩
        · obtain ⟨h1, h2⟩ := ih x p hp
          exact ⟨h1, le_trans (le_of_lt hmx) h2⟩
      · simp only [hmx, if_false] at hp
        rcases hp with rfl | hp
        · exact ⟨not_lt.mp hmx, le_refl _⟩
        · exact ih m p hp

/-- **Drawdown lies in (−1, 0]** for positive levels -/
theorem drawdown_range (l : List K) (hl : ∀ x ∈ l, 0 < x) : ∀ d ∈ drawdown l, -1 < d ∧ d ≤ 0 := by
  intro d hd
  unfold drawdown at hd
  obtain ⟨p, hp, rfl⟩ := List.mem_map.mp hd
  have hx : 0 < p.1 := hl p.1 (List.of_mem_zip hp).1
  have hle : p.1 ≤ p.2 := by
    cases l with
    | nil => simp [cummax] at hp
    | cons x xs =>
        simp only [cummax, List.zip_cons_cons, List.mem_cons] at hp
        rcases hp with rfl | hp
        · exact le_refl _
        · exact (le_cummaxFrom x xs p hp).1
  have hpos : 0 < p.2 := lt_of_lt_of_le hx hle
  constructor
  · have : 0 < p.1 / p.2 := div_pos hx hpos
    linarith
  · have : p.1 / p.2 ≤ 1 := (div_le_one hpos).mpr hle
    linarith

/-- **Drawdown is 0 at a running high** -/
theorem drawdown_zero_at_high (v m : K) (hm : m ≠ 0) (h : v = m) : v / m - 1 = 0 := by
  rw [h, div_self hm]; ring

/-- `max_drawdown` is the smallest drawdown -/
theorem foldl_min_spec (xs : List K) (x : K) :
    let r := xs.foldl (fun m y => if y < m then y else m) x
    (r = x ∨ r ∈ xs) ∧ r ≤ x ∧ ∀ y ∈ xs, r ≤ y := by
  induction xs generalizing x with
  | nil => simp
  | cons y ys ih =>
      simp only [List.foldl_cons]
      by_cases hyx : y < x
      · simp only [hyx, if_true]
        obtain ⟨h1, h2, h3⟩ := ih y
        refine ⟨?_, le_trans h2 (le_of_lt hyx), ?_⟩
        · rcases h1 with h | h
          · right; rw [h]; exact List.mem_cons_self
          · right; exact List.mem_cons_of_mem _ h
        · intro z hz
          rcases List.mem_cons.mp hz with rfl | hz'
          · exact h2
          · exact h3 z hz'
      · simp only [hyx, if_false]
        obtain ⟨h1, h2, h3⟩ := ih x
        refine ⟨?_, h2, ?_⟩
        · rcases h1 with h | h
          · left; exact h
          · right; exact List.mem_cons_of_mem _ h
        · intro z hz
          rcases List.mem_cons.mp hz with rfl | hz'
          · exact le_trans h2 (not_lt.mp hyx)
          · exact h3 z hz'

theorem max_drawdown_is_min (l : List K) (m : K) (h : maxDrawdown l = some m) :
    m ∈ drawdown l ∧ ∀ d ∈ drawdown l, m ≤ d := by
  unfold maxDrawdown minL at h
  cases hd : drawdown l with
  | nil => rw [hd] at h; cases h
  | cons x xs =>
      rw [hd] at h
      simp only [Option.some.injEq] at h
      obtain ⟨h1, h2, h3⟩ := foldl_min_spec xs x
      rw [h] at h1 h2 h3
      refine ⟨?_, ?_⟩
      · rcases h1 with h | h
        · rw [h]; exact List.mem_cons_self
        · exact List.mem_cons_of_mem _ h
      · intro d hdm
        rcases List.mem_cons.mp hdm with rfl | hd'
        · exact h2
        · exact h3 d hd'

/-! ### quantiles (value at risk) and expected shortfall -/

theorem insertSorted_perm (x : K) (l : List K) : (insertSorted x l).Perm (x :: l) := by
  induction l with
  | nil => exact List.Perm.refl _
  | cons y ys ih =>
      unfold insertSorted
      by_cases h : x ≤ y
      · simp only [h, if_true]; exact List.Perm.refl _
      · simp only [h, if_false]
        exact (List.Perm.cons y ih).trans (List.Perm.swap x y ys)

/-- the sorted values are a rearrangement of the returns: nothing dropped, nothing duplicated -/
theorem sortL_perm (l : List K) : (sortL l).Perm l := by
  induction l with
  | nil => exact List.Perm.refl _
  | cons x xs ih => exact (insertSorted_perm x (sortL xs)).trans (List.Perm.cons x ih)

theorem insertSorted_sorted (x : K) (l : List K) (h : l.Pairwise (· ≤ ·)) :
    (insertSorted x l).Pairwise (· ≤ ·) := by
  induction l with
  | nil => simp [insertSorted]
  | cons y ys ih =>
      unfold insertSorted
      by_cases hxy : x ≤ y
      · simp only [hxy, if_true]
        refine List.Pairwise.cons ?_ h
        intro z hz
        rcases List.mem_cons.mp hz with rfl | hz'
        · exact hxy
        · exact le_trans hxy (List.rel_of_pairwise_cons h hz')
      · simp only [hxy, if_false]
        refine List.Pairwise.cons ?_ (ih (List.Pairwise.of_cons h))
        intro z hz
        rcases List.mem_cons.mp ((insertSorted_perm x ys).mem_iff.mp hz) with rfl | hz'
        · exact le_of_lt (not_le.mp hxy)
        · exact List.rel_of_pairwise_cons h hz'

/-- ... in ascending order -/
theorem sortL_sorted (l : List K) : (sortL l).Pairwise (· ≤ ·) := by
  induction l with
  | nil => simp [sortL]
  | cons x xs ih => exact insertSorted_sorted x _ ih

theorem sortL_length (l : List K) : (sortL l).length = l.length := (sortL_perm l).length_eq

/-- **The quantile is a linear interpolation between two neighbouring order statistics**, hence lies between
    them: with `fl ≤ (n-1)·q ≤ fl + 1` the reported value `v` satisfies `s[fl] ≤ v ≤ s[fl+1]`, both of which are
    observed returns. -/
theorem quantile_bracket (xs : List K) (q : K) (fl : Nat) (a b v : K)
    (ha : (sortL xs)[fl]? = some a) (hb : (sortL xs)[fl + 1]? = some b)
    (hlo : (fl : K) ≤ ((xs.length - 1 : Nat) : K) * q) (hhi : ((xs.length - 1 : Nat) : K) * q ≤ (fl : K) + 1)
    (h : quantileAt xs q fl = some v) :
    a ≤ v ∧ v ≤ b ∧ a ∈ xs ∧ b ∈ xs := by
  unfold quantileAt at h
  simp only [ha, hb, Option.some.injEq] at h
  have hab : a ≤ b := by
    have hs := sortL_sorted xs
    obtain ⟨h1, e1⟩ := List.getElem?_eq_some_iff.mp ha
    obtain ⟨h2, e2⟩ := List.getElem?_eq_some_iff.mp hb
    rw [← e1, ← e2]
    exact List.pairwise_iff_getElem.mp hs fl (fl + 1) h1 h2 (Nat.lt_succ_self fl)
  have hd : 0 ≤ b - a := sub_nonneg.mpr hab
  set f := ((xs.length - 1 : Nat) : K) * q - (fl : K) with hf
  have f0 : 0 ≤ f := by rw [hf]; linarith
  have f1 : f ≤ 1 := by rw [hf]; linarith
  refine ⟨?_, ?_, ?_, ?_⟩
  · rw [← h]; nlinarith [mul_nonneg f0 hd]
  · rw [← h]; nlinarith [mul_nonneg (sub_nonneg.mpr f1) hd]
  · exact (sortL_perm xs).mem_iff.mp (List.mem_of_getElem? ha)
  · exact (sortL_perm xs).mem_iff.mp (List.mem_of_getElem? hb)

/-- at the top order statistic (`q = 1`) the quantile is that statistic itself -/
theorem quantile_top (xs : List K) (q : K) (fl : Nat) (a : K)
    (ha : (sortL xs)[fl]? = some a) (hb : (sortL xs)[fl + 1]? = none) :
    quantileAt xs q fl = some a := by
  unfold quantileAt; simp only [ha, hb]

theorem sumL_le_of_all_le (l : List K) (c : K) (h : ∀ x ∈ l, x ≤ c) : sumL l ≤ (l.length : K) * c := by
  induction l with
  | nil => simp [sumL]
  | cons x xs ih =>
      have h1 := h x List.mem_cons_self
      have h2 := ih (fun y hy => h y (List.mem_cons_of_mem _ hy))
      simp only [sumL, List.length_cons, Nat.cast_succ]
      linarith

/-- **Expected shortfall is no better than the value at risk**: the mean of the returns not above `var` is
    itself not above `var` (whenever there is at least one such return — the quantile itself always is one). -/
theorem expected_shortfall_le_var (rets : List K) (var : K) (hne : ∃ r ∈ rets, r ≤ var) :
    expectedShortfall rets var ≤ var := by
  unfold expectedShortfall mean
  set t := rets.filter (fun r => decide (r ≤ var)) with ht
  have hall : ∀ x ∈ t, x ≤ var := by
    intro x hx; rw [ht] at hx; simpa using (List.mem_filter.mp hx).2
  have hlen : 0 < (t.length : K) := by
    obtain ⟨r, hr, hrv⟩ := hne
    have : r ∈ t := by rw [ht]; exact List.mem_filter.mpr ⟨hr, by simpa using hrv⟩
    exact Nat.cast_pos.mpr (List.length_pos_of_mem this)
  rw [div_le_iff₀ hlen]
  have := sumL_le_of_all_le t var hall
  linarith [mul_comm (t.length : K) var]

/-- ... and is a mean over *exactly* the returns at or below the threshold: scaling the levels leaves the
    selected returns unchanged (`returns_scale`), so the shortfall is scale-invariant too -/
theorem expected_shortfall_only_tail (rets : List K) (var : K) :
    ∀ r ∈ rets.filter (fun r => decide (r ≤ var)), r ∈ rets ∧ r ≤ var := by
  intro r hr
  obtain ⟨h1, h2⟩ := List.mem_filter.mp hr
  exact ⟨h1, by simpa using h2⟩

/-- premises satisfiable: five returns, the 5 % quantile sits between the two lowest -/
example : quantileAt ([3, -2, 1, -1, 2] : List ℚ) (1/20) 0 = some (-2 + (4 * (1/20) - 0) * (-1 - -2)) := by
  decide +kernel

end TV.Met

/-! ### CAGR over the reals -/
namespace TV.Met
noncomputable section

/-- **(1 + CAGR)^years = last / first** -/
theorem cagr_spec (first last years : ℝ) (hr : 0 < last / first) (hy : years ≠ 0) :
    Real.rpow (1 + (Real.rpow (last / first) (1 / years) - 1)) years = last / first := by
  have : 1 + (Real.rpow (last / first) (1 / years) - 1) = Real.rpow (last / first) (1 / years) := by ring
  rw [this]
  simp only [Real.rpow_eq_pow]
  rw [← Real.rpow_mul (le_of_lt hr)]
  rw [one_div, inv_mul_cancel₀ hy, Real.rpow_one]

/-- the model's `cagr` is that expression -/
theorem cagr_def (L : Leaves ℝ) (lv : List ℝ) (ts : List Time) (a b : ℝ) (ha : lv.head? = some a)
    (hb : lv.getLast? = some b) : cagr L lv ts = some (L.pow (b / a) (1 / nrYears ts) - 1) := by
  unfold cagr
  rw [ha, hb]

end
end TV.Met
