/-
  C01 — self-financing trading: NLV moves only by prices, interest, fees and spread.

  `K` is any linear ordered field (the executed instance is ℚ); `pw` (the `**` of the interest
  formula) is an arbitrary function: nothing here depends on it.
  Histories are lists of `Op` (quote update, discontinuation, trade at explicit prices, trade from
  the book's quotes, mark one / all, valuation, weights, accrue, rebalance), of any length, over
  any number of contracts.
-/
import TradingVerif.Lemmas.Valuation
import TradingVerif.Lemmas.Settled
import TradingVerif.Lemmas.Accounts
import Mathlib.Algebra.Order.Field.Rat
import TradingVerif.Model.Legacy
set_option linter.unusedSectionVars false
set_option linter.unusedVariables false
namespace TV
variable {K : Type} [Field K] [LinearOrder K] [IsStrictOrderedRing K] [HasTrunc K]

/-- **Bookkeeping invariant, every reachable state.**  For every finite history on which the
    epsilon snap never fires (known finding K1), the quote-independent ledger identity
    `cash + Σ (margin − [margined] pos·mult·lastMark + mult·Σdq·px) = deposit + interest − commissions`
    holds, the key list is duplicate-free, untouched contracts are empty, and fully-paid contracts
    hold no margin. -/
theorem ledger_invariant (pw : K → K → K) (w : World K) (D : K) (hw : ∀ k, WFSpec (w.spec k))
    (ops : List (Op K)) (hs : (runOps pw w (Broker.init D) ops).snapped = false) :
    Inv w D (runOps pw w (Broker.init D) ops) :=
  runOps_inv pw w D hw ops _ (inv_init w D) hs

/-- **NLV identity.**  After any history, if every held contract has a liquidation quote,
    `net_liquidation_value(raise_if_broke=False)` returns
    `deposit + interest − commissions + Σ_c mult_c·(pos_c·liq_c − Σ dq·px)`,
    longs liquidating at the bid and shorts at the ask. -/
theorem nlv_identity (pw : K → K → K) (w : World K) (D : K) (hw : ∀ k, WFSpec (w.spec k))
    (ops : List (Op K)) (hs : (runOps pw w (Broker.init D) ops).snapped = false)
    (hq : ∀ k ∈ (runOps pw w (Broker.init D) ops).held, Quoted (runOps pw w (Broker.init D) ops) k) :
    (netLiq w false (runOps pw w (Broker.init D) ops)).2 =
      .ok (nlvFormula w D (runOps pw w (Broker.init D) ops)) := by
  have h := ledger_invariant pw w D hw ops hs
  have hid := netLiq_identity w D _ h hw hq
  unfold netLiq
  simp only [hid, Bool.false_and]
  rfl

/-- **NLV identity, flat contracts unquoted.**  The same closed form under the weaker hypothesis that only the
    *open* positions have a liquidation quote: a contract that was traded and closed may have lost its quotes
    (delisted, one-sided or empty book) without the valuation failing or losing the settlement of the closing
    trade (repair F11).  `nlv_identity` is the special case in which every touched contract is quoted. -/
theorem nlv_identity_open (pw : K → K → K) (w : World K) (D : K) (hw : ∀ k, WFSpec (w.spec k))
    (ops : List (Op K)) (hs : (runOps pw w (Broker.init D) ops).snapped = false)
    (hq : OpenQuoted (runOps pw w (Broker.init D) ops)) :
    (netLiq w false (runOps pw w (Broker.init D) ops)).2 =
      .ok (nlvFormula w D (runOps pw w (Broker.init D) ops)) := by
  have h := ledger_invariant pw w D hw ops hs
  have hid := netLiq_identity_open w D _ h hw hq
  unfold netLiq
  simp only [hid, Bool.false_and]
  rfl

/-- The raising valuation returns the same number whenever it returns. -/
theorem nlv_identity_raising (pw : K → K → K) (w : World K) (D : K) (hw : ∀ k, WFSpec (w.spec k))
    (ops : List (Op K)) (hs : (runOps pw w (Broker.init D) ops).snapped = false)
    (hq : ∀ k ∈ (runOps pw w (Broker.init D) ops).held, Quoted (runOps pw w (Broker.init D) ops) k)
    (v : K) (hv : (netLiq w true (runOps pw w (Broker.init D) ops)).2 = .ok v) :
    v = nlvFormula w D (runOps pw w (Broker.init D) ops) := by
  have h := ledger_invariant pw w D hw ops hs
  have hid := netLiq_identity w D _ h hw hq
  unfold netLiq at hv
  simp only [hid] at hv
  split_ifs at hv
  cases hv
  rfl

/-- **One trade** (any execution price, size and sign; opens, adds, reduces, closes or flips)
    changes the closed form — hence NLV — by exactly
    `−commission + mult·(pos'·liq' − pos·liq − dq·px)`. -/
theorem trade_delta (pw : K → K → K) (w : World K) (D : K) (hw : ∀ k, WFSpec (w.spec k))
    (ops : List (Op K)) (t : Trade K)
    (hs : (transact w (runOps pw w (Broker.init D) ops) t).snapped = false) :
    let b := runOps pw w (Broker.init D) ops
    nlvFormula w D (transact w b t) - nlvFormula w D b =
      - t.commission w + (w.spec t.key).mult *
        ((transact w b t).pos t.key * liqv (transact w b t) t.key - b.pos t.key * liqv b t.key
          - t.qty * t.acq) := by
  intro b
  have hs0 := transact_snapped_mono w b t hs
  exact formula_trade_delta w D b t (ledger_invariant pw w D hw ops hs0) hs

/-- The amount of `trade_delta` does not mention how the contract is financed: a future and a
    spot asset with the same multiplier, quoted at the same prices, traded in the same size from
    the same position, change NLV by the same amount. -/
theorem trade_delta_spot_eq_future (w₁ w₂ : World K) (D₁ D₂ : K) (b₁ b₂ : Broker K) (t₁ t₂ : Trade K)
    (h₁ : Inv w₁ D₁ b₁) (h₂ : Inv w₂ D₂ b₂)
    (hs₁ : (transact w₁ b₁ t₁).snapped = false) (hs₂ : (transact w₂ b₂ t₂).snapped = false)
    (hm : (w₁.spec t₁.key).mult = (w₂.spec t₂.key).mult)
    (hfee : t₁.commission w₁ = t₂.commission w₂)
    (hq : t₁.qty = t₂.qty) (hpx : t₁.acq = t₂.acq)
    (hpos : b₁.pos t₁.key = b₂.pos t₂.key)
    (hliq : liqv b₁ t₁.key = liqv b₂ t₂.key)
    (hliq' : liqv (transact w₁ b₁ t₁) t₁.key = liqv (transact w₂ b₂ t₂) t₂.key) :
    nlvFormula w₁ D₁ (transact w₁ b₁ t₁) - nlvFormula w₁ D₁ b₁ =
      nlvFormula w₂ D₂ (transact w₂ b₂ t₂) - nlvFormula w₂ D₂ b₂ := by
  rw [formula_trade_delta w₁ D₁ b₁ t₁ h₁ hs₁, formula_trade_delta w₂ D₂ b₂ t₂ h₂ hs₂]
  have e1 := (transact_effect w₁ b₁ t₁ hs₁).1
  have e2 := (transact_effect w₂ b₂ t₂ hs₂).1
  rw [e1, e2, upd_same, upd_same, hm, hfee, hq, hpx, hpos, hliq, hliq']

/-- **A quote update** for a held contract changes the closed form — hence NLV — by
    `position × multiplier × change in liquidation price`. -/
theorem quote_delta (pw : K → K → K) (w : World K) (D : K) (hw : ∀ k, WFSpec (w.spec k))
    (ops : List (Op K)) (e : MEvent K)
    (hs : (runOps pw w (Broker.init D) ops).snapped = false)
    (hk : e.key ∈ (runOps pw w (Broker.init D) ops).held) :
    let b := runOps pw w (Broker.init D) ops
    nlvFormula w D { b with ex := b.ex.step e } - nlvFormula w D b =
      b.pos e.key * (w.spec e.key).mult * (liqv { b with ex := b.ex.step e } e.key - liqv b e.key) := by
  intro b
  exact formula_quote_delta w D b e (ledger_invariant pw w D hw ops hs) hk

section
variable {α : Type} [Add α] [Sub α] [Mul α] [Div α] [Neg α] [LT α] [LE α]
  [DecidableLT α] [DecidableLE α] [DecidableEq α] [OfNat α 0] [OfNat α 1] [OfNat α 2]

/-- The rebalancing path: a trade built by `make_trades` carries the book's current bid and ask. -/
theorem mkTrade_uses_given_quotes (w : World α) (k : Key) (q bid ask : Option α) (t : Trade α)
    (h : mkTrade w k q bid ask = .ok t) : bid = some t.bid ∧ ask = some t.ask ∧ q = some t.qty ∧ t.key = k := by
  unfold mkTrade at h
  cases bid with
  | none => simp at h
  | some b =>
    cases ask with
    | none => simp at h
    | some a =>
      cases q with
      | none => simp at h
      | some qq =>
        simp only at h
        split_ifs at h
        cases h
        exact ⟨rfl, rfl, rfl, rfl⟩
end

/-! ### Non-vacuity and mutant witnesses (concrete histories, integers; `decide` runs the model) -/

def wES : World Int :=
  { spec := fun k => if k = "ES" then { mult := 50, cashReq := 0, mr := 1 }
                     else { mult := 2, cashReq := 1, mr := 0 }
    fixed := 0, prop := 0, markup := 0, rateKey := "RATE", eps := 0 }

def exQ (bid ask : Int) (k : Key) : Exchange Int :=
  ({} : Exchange Int).step (.quote k 0 (some bid) (some ask))

/-- long 1 ES at 99/101, then buy 1 more: the repaired bookkeeping loses exactly one spread
    (−100 each time: 2 × 50 × (99 − 101)/... ) — NLV 100000 → 99900 → 99800. -/
example :
    let b0 : Broker Int := { Broker.init 100000 with ex := exQ 99 101 "ES" }
    let b1 := transact wES b0 ⟨"ES", 1, 99, 101⟩
    let b2 := transact wES b1 ⟨"ES", 1, 99, 101⟩
    (nlvMarked wES (markAll wES b1)).toOption = some 99900 ∧
    (nlvMarked wES (markAll wES b2)).toOption = some 99800 ∧ b2.snapped = false := by decide

/-- mutant witness (F1): the pre-repair `transact` charges the spread on the whole position:
    99700 instead of 99800 — it violates `trade_delta`. -/
example :
    let b0 : Broker Int := { Broker.init 100000 with ex := exQ 99 101 "ES" }
    let b1 := Legacy.transact wES b0 ⟨"ES", 1, 99, 101⟩
    let b2 := Legacy.transact wES b1 ⟨"ES", 1, 99, 101⟩
    (nlvMarked wES (markAll wES b2)).toOption = some 99700 := by decide

/-- mutant witness (F1, off-market): long 2 at 99/101, sell 2 at 95: the pre-repair code books no
    loss on the close (NLV stays 99800); the repaired one books 2·50·(95−99) = −400. -/
example :
    let b0 : Broker Int := { Broker.init 100000 with ex := exQ 99 101 "ES" }
    let b1 := transact wES b0 ⟨"ES", 2, 99, 101⟩
    let b2 := transact wES b1 ⟨"ES", -2, 95, 95⟩
    let l1 := Legacy.transact wES b0 ⟨"ES", 2, 99, 101⟩
    let l2 := Legacy.transact wES l1 ⟨"ES", -2, 95, 95⟩
    (nlvMarked wES (markAll wES b2)).toOption = some 99400 ∧
    (nlvMarked wES (markAll wES l2)).toOption = some 99800 := by decide

/-- mutant witness (F2): a fully-paid contract with multiplier 2, buy 10 at 100: liquidation value
    without the multiplier gives 99000 instead of 100000. -/
example :
    let b0 : Broker Int := { Broker.init 100000 with ex := exQ 100 100 "SPOT" }
    let b1 := transact wES b0 ⟨"SPOT", 10, 100, 100⟩
    (nlvMarked wES (markAll wES b1)).toOption = some 100000 ∧
    (match Legacy.valueOfLiq wES b1 "SPOT" with | some v => b1.cash + v | none => 0) = 99000 := by decide

/-- mutant witness (F11): long 2 ES at 99/101, the ask is lost (book 95 / –), the position is closed off-market at 90:
    the repaired marking returns the settlement to cash (NLV 100000 − 2·50·(101 − 90) = 98900); before the repair
    it stayed in the margin account of a flat position, which the valuation ignores (NLV 99400, margin −500). -/
example :
    let b0 : Broker Int := { Broker.init 100000 with ex := exQ 99 101 "ES" }
    let b1 := transact wES b0 ⟨"ES", 2, 99, 101⟩
    let b1' : Broker Int := { b1 with ex := b1.ex.step (.quote "ES" 1 (some 95) none) }
    let b2 := transact wES (markAll wES b1') ⟨"ES", -2, 90, 90⟩
    let l1 := Legacy.transactF11 wES b0 ⟨"ES", 2, 99, 101⟩
    let l1' : Broker Int := { l1 with ex := l1.ex.step (.quote "ES" 1 (some 95) none) }
    let l2 := Legacy.transactF11 wES (Legacy.mark1F11 wES "ES" l1') ⟨"ES", -2, 90, 90⟩
    (nlvMarked wES (markAll wES b2)).toOption = some 98900 ∧ b2.margin "ES" = 0 ∧
    (nlvMarked wES l2).toOption = some 99400 ∧ l2.margin "ES" = -500 := by decide

/-! ### `nlv_identity_open`: premises satisfiable and strictly weaker, at `ℚ` -/
section NonVacuityOpen
private def wESQ : World ℚ :=
  { spec := fun k => if k = "ES" then { mult := 50, cashReq := 0, mr := 1 }
                     else { mult := 2, cashReq := 1, mr := 0 }
    fixed := 0, prop := 0, markup := 0, rateKey := "RATE", eps := 0 }

/-- the state of the F11 witness: long 2 ES at 99/101, the ask is lost, the position is closed at 90: flat, book 95 / – -/
private def f11State : Broker ℚ :=
  let b0 : Broker ℚ := { Broker.init 100000 with ex := ({} : Exchange ℚ).step (.quote "ES" 0 (some 99) (some 101)) }
  let b1 := transact wESQ b0 ⟨"ES", 2, 99, 101⟩
  let b1' : Broker ℚ := { b1 with ex := b1.ex.step (.quote "ES" 1 (some 95) none) }
  transact wESQ (markAll wESQ b1') ⟨"ES", -2, 90, 90⟩

/-- non-vacuity of `nlv_identity_open`, and strictness: on this state every *open* position is quoted (there is
    none) while the flat ES has no liquidation (mid) price - the hypothesis of `nlv_identity` fails, that of
    `nlv_identity_open` holds, and the valuation is the closed form 98900. -/
example : OpenQuoted f11State ∧ ¬ (∀ k ∈ f11State.held, Quoted f11State k) ∧
    (netLiq wESQ false f11State).2.toOption = some 98900 := by
  have hh : f11State.held = ["ES"] := by decide +kernel
  have hp : f11State.pos "ES" = 0 := by decide +kernel
  have hl : liqPrice f11State "ES" (f11State.pos "ES") = none := by decide +kernel
  refine ⟨?_, ?_, by decide +kernel⟩
  · intro k hk h0
    rw [hh] at hk
    have : k = "ES" := by simpa using hk
    subst this
    exact absurd hp h0
  · intro h
    obtain ⟨p, e⟩ := h "ES" (by rw [hh]; simp)
    rw [hl] at e
    cases e
end NonVacuityOpen

end TV
