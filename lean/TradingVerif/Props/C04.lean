/-
  C04 — event delivery is complete, exactly-once, on time and in timestamp order.

  Part 1: the transmitter (`_create_partitions`): sort, buckets, latency split.
  Part 2: the environment: what `reset` and each successful `step` hand to the observers, the clock
          during every dispatch.
-/
import TradingVerif.Lemmas.EnvLog
set_option linter.unusedSectionVars false
set_option linter.unusedVariables false
namespace TV

/-! ## Part 1 — partitions -/
section
variable {ρ : Type}

/-- the partitioned events are in non-decreasing timestamp order -/
theorem sorted_pairwise (c : TxCfg ρ) : c.sorted.Pairwise (fun a b => a.time ≤ b.time) := by
  unfold TxCfg.sorted
  simp only
  split_ifs
  · exact (sortEvents_sorted _).filter _
  · exact sortEvents_sorted _

/-- … ties in insertion order (stable sort): two events with `a` inserted before `b` and
    `a.time ≤ b.time` are delivered in that order -/
theorem ties_in_insertion_order (evs : List (TEvent ρ)) (a b : TEvent ρ) (hab : a.time ≤ b.time)
    (h : [a, b].Sublist evs) : [a, b].Sublist (sortEvents evs) := sortEvents_stable evs a b hab h

/-- without markov reset the partitioned events are exactly the events stamped no later than the end of
    the grid: each of them exactly once (a permutation), nothing stamped after the grid -/
theorem sorted_perm (c : TxCfg ρ) (hm : c.markov = false) :
    c.sorted.Perm (c.events.filter (fun e => decide (e.time ≤ c.grid.getLast?.getD 0))) := by
  unfold TxCfg.sorted
  simp only [hm, Bool.false_eq_true, if_false]
  exact sortEvents_perm _

/-- **events stamped after the end of the grid are never delivered** -/
theorem after_grid_never (c : TxCfg ρ) (e : TEvent ρ) (he : e ∈ c.sorted) :
    e.time ≤ c.grid.getLast?.getD 0 := by
  unfold TxCfg.sorted at he
  simp only at he
  have hmem : e ∈ sortEvents (c.events.filter (fun e => decide (e.time ≤ c.grid.getLast?.getD 0))) := by
    split_ifs at he
    · exact (List.mem_filter.mp he).1
    · exact he
  have := ((sortEvents_perm _).mem_iff).mp hmem
  simpa using (List.mem_filter.mp this).2

/-- within a bucket, latent events (within `latency` of the preceding timestep) come before the others -/
theorem bucket_split (c : TxCfg ρ) (g : Time) :
    c.latent g ++ c.nonlatent g = c.sorted.filter (fun e => decide (bucketOf c.grid e.time = some g)) := by
  unfold TxCfg.latent TxCfg.nonlatent
  have h := filter_split_downward (c.sorted.filter (fun e => decide (bucketOf c.grid e.time = some g)))
    (fun e => isLatent c e g)
    (by
      apply ((sorted_pairwise c).filter _).imp
      intro a b hab hb
      simp only [isLatent, decide_eq_true_eq] at hb ⊢
      linarith)
  rw [List.filter_filter, List.filter_filter] at h
  rw [← h]
  congr 1
  · apply List.filter_congr; intro e _; simp [Bool.and_comm]
  · apply List.filter_congr; intro e _; simp [Bool.and_comm]

/-- **Partition theorem for the transmitter**: concatenating, grid point by grid point, the latent and
    then the non-latent batch gives exactly the partitioned events in timestamp order — every event in
    exactly one batch, at the first timestep at or after its timestamp. -/
theorem partition_sorted_concat (c : TxCfg ρ) :
    c.grid.flatMap (fun g => c.latent g ++ c.nonlatent g)
      = c.sorted.filter (fun e => decide (∃ g ∈ c.grid, e.time ≤ g)) := by
  have := concat_buckets c.grid (mkGrid_strict c.timesteps) c.sorted (sorted_pairwise c)
  rw [← this]
  apply List.flatMap_congr
  intro g _
  exact bucket_split c g

/-- every partitioned event does belong to a batch when the grid is not empty -/
theorem partition_complete (c : TxCfg ρ) (hne : c.grid ≠ []) :
    c.grid.flatMap (fun g => c.latent g ++ c.nonlatent g) = c.sorted := by
  rw [partition_sorted_concat]
  apply List.filter_eq_self.mpr
  intro e he
  have hle := after_grid_never c e he
  obtain ⟨l, hl⟩ : ∃ l, c.grid.getLast? = some l := by
    cases h : c.grid.getLast? with
    | none => exact absurd (List.getLast?_eq_none_iff.mp h) hne
    | some l => exact ⟨l, rfl⟩
  rw [hl] at hle
  simp only [decide_eq_true_eq]
  exact ⟨l, List.mem_of_getLast? hl, by simpa using hle⟩

/-- **An event is applied before the pending execution iff it falls within `latency` after the preceding
    timestep** (it is in the latent batch of its bucket), otherwise after it. -/
theorem latent_iff (c : TxCfg ρ) (g : Time) (e : TEvent ρ) :
    e ∈ c.latent g ↔ e ∈ c.sorted ∧ bucketOf c.grid e.time = some g ∧ e.time - prevOf c.grid g ≤ c.latency := by
  unfold TxCfg.latent isLatent
  simp [List.mem_filter]

theorem nonlatent_iff (c : TxCfg ρ) (g : Time) (e : TEvent ρ) :
    e ∈ c.nonlatent g ↔ e ∈ c.sorted ∧ bucketOf c.grid e.time = some g ∧ ¬ e.time - prevOf c.grid g ≤ c.latency := by
  unfold TxCfg.nonlatent isLatent
  simp [List.mem_filter]

/-- the bucket of a delivered event is the first grid point at or after its timestamp -/
theorem delivered_at_first_timestep (c : TxCfg ρ) (g : Time) (e : TEvent ρ)
    (h : e ∈ c.latent g ++ c.nonlatent g) :
    g ∈ c.grid ∧ e.time ≤ g ∧ ∀ g' ∈ c.grid, e.time ≤ g' → g ≤ g' := by
  rw [bucket_split] at h
  have := (List.mem_filter.mp h).2
  exact bucket_spec c.grid (mkGrid_strict c.timesteps) e.time g (by simpa using this)

end

/-! ## Part 2 — the environment -/
section
variable {α : Type} [Add α] [Sub α] [Mul α] [Div α] [Neg α] [LT α] [LE α]
  [DecidableLT α] [DecidableLE α] [DecidableEq α] [OfNat α 0] [OfNat α 1] [OfNat α 2]
  [IntCast α] [HasTrunc α]

/-- what `reset` delivers and how it leaves the cursor -/
theorem reset_delivery (cfg : EnvCfg α) (lo hi : Time) (start : Nat) (clk : Option Time)
    (cur : Time) (rest : List Time)
    (hsteps : cfg.tx.episodeSteps lo hi cfg.episodeLen start = cur :: rest) :
    marketLog (envReset cfg lo hi start clk).log
      = ((cfg.tx.firstBatch cur).1 ++ (cfg.tx.firstBatch cur).2).map entryOf ∧
    LogOK (envReset cfg lo hi start clk).log ∧ (envReset cfg lo hi start clk).steps = cur :: rest ∧
    (rest = [] → (envReset cfg lo hi start clk).done = true) ∧
    (∀ nxt more, rest = nxt :: more →
      (envReset cfg lo hi start clk).done = false ∧ (envReset cfg lo hi start clk).cursor = 2 ∧
      (envReset cfg lo hi start clk).pendLat = cfg.tx.latent nxt ∧
      (envReset cfg lo hi start clk).pendNon = cfg.tx.nonlatent nxt) := by
  unfold envReset
  simp only [hsteps, List.getElem?_cons_zero]
  -- the state handed to the batch processors
  generalize hb : (({ ({ (Broker.init cfg.deposit : Broker α) with
      ex := (Broker.init cfg.deposit : Broker α).ex.step (.quote cfg.world.rateKey 0 (some 0) (some 0)) } : Broker α) with
      ex := { (({ (Broker.init cfg.deposit : Broker α) with
        ex := (Broker.init cfg.deposit : Broker α).ex.step (.quote cfg.world.rateKey 0 (some 0) (some 0)) } : Broker α)).ex
          with lastUpdate := none } } : Broker α)) = b1
  set s1 : EnvState α :=
    { broker := b1, queue := List.replicate cfg.delay (nullAction cfg.space), steps := cur :: rest,
      contractClock := clk, pendLat := (cfg.tx.firstBatch cur).1, pendNon := (cfg.tx.firstBatch cur).2,
      cursor := 1 } with hs1
  obtain ⟨l1, l2, l3, l4, l5, l6, l7, l8⟩ := processLatent_spec s1
  have hc : (processLatent s1).cursor ≠ 0 := by rw [l4]; simp [hs1]
  obtain ⟨n1, n2, n3, n4, n5, n6⟩ := processNonlatent_spec cfg (processLatent s1) hc
  set s2 := processNonlatent cfg (processLatent s1) with hs2
  have hlog0 : LogOK s1.log := by intro e he; simp [hs1] at he
  have hm2 : marketLog s2.log = ((cfg.tx.firstBatch cur).1 ++ (cfg.tx.firstBatch cur).2).map entryOf := by
    rw [n1, l1, l6]; simp [hs1, marketLog]
  have hok2 : LogOK s2.log := n2 (l2 hlog0)
  have hst2 : s2.steps = cur :: rest := by rw [n3, l3]
  rw [l3, l4] at n5 n6
  have key : ∀ s3 : EnvState α, marketLog s3.log = marketLog s2.log → LogOK s3.log →
      s3.steps = s2.steps → s3.done = s2.done → s3.cursor = s2.cursor → s3.pendLat = s2.pendLat →
      s3.pendNon = s2.pendNon →
      marketLog s3.log = ((cfg.tx.firstBatch cur).1 ++ (cfg.tx.firstBatch cur).2).map entryOf ∧
      LogOK s3.log ∧ s3.steps = cur :: rest ∧ (rest = [] → s3.done = true) ∧
      (∀ nxt more, rest = nxt :: more → s3.done = false ∧ s3.cursor = 2 ∧
        s3.pendLat = cfg.tx.latent nxt ∧ s3.pendNon = cfg.tx.nonlatent nxt) := by
    intro s3 e1 e2 e3 e4 e5 e6 e7
    refine ⟨e1.trans hm2, e2, e3.trans hst2, ?_, ?_⟩
    · intro hr
      have := (n5 (by simp [hs1, hr])).1
      rw [e4]; exact this
    · intro nxt more hr
      obtain ⟨a1, a2, a3, a4⟩ := n6 nxt (by simp [hs1, hr])
      exact ⟨by rw [e4, a1, l7], by rw [e5, a2], by rw [e6]; exact a3, by rw [e7]; exact a4⟩
  obtain ⟨f1, f2, f3, f4, f5, _⟩ := notify_frame s2 .reset s2.now none
  have m3 : marketLog (notify s2 .reset s2.now none).log = marketLog s2.log := by
    rw [notify_market]; simp [isMarket]
  split_ifs with hd
  · obtain ⟨g1, g2, g3, g4, g5, _⟩ := notify_frame (notify s2 .reset s2.now none) .done (notify s2 .reset s2.now none).now none
    apply key
    · rw [notify_market]; simp [isMarket, m3]
    · exact notify_logOK _ _ _ _ (notify_logOK _ _ _ _ hok2)
    · rw [g1, f1]
    · rw [g5, f5]
    · rw [g2, f2]
    · rw [g3, f3]
    · rw [g4, f4]
  · exact key _ m3 (notify_logOK _ _ _ _ hok2) f1 f5 f2 f3 f4

/-- `stepPre`: the latent batch is delivered (before the execution), nothing else -/
theorem stepPre_spec (s : EnvState α) (a : Action α) :
    marketLog (stepPre s a).1.log = marketLog s.log ++ s.pendLat.map entryOf ∧
    (LogOK s.log → LogOK (stepPre s a).1.log) ∧ (stepPre s a).1.steps = s.steps ∧
    (stepPre s a).1.cursor = s.cursor ∧ (stepPre s a).1.pendNon = s.pendNon ∧ (stepPre s a).1.done = s.done := by
  unfold stepPre
  obtain ⟨l1, l2, l3, l4, l5, l6, l7, l8⟩ :=
    processLatent_spec ({ s with contractClock := s.now, queue := (a :: s.queue).dropLast } : EnvState α)
  exact ⟨l1, l2, l3, l4, l6, l7⟩

/-- `stepExec` (membership test, request, `Broker.rebalance`) delivers nothing -/
theorem stepExec_spec (pw : α → α → α) (cfg : EnvCfg α) (s1 : EnvState α) (act : Action α) :
    (stepExec pw cfg s1 act).1.log = s1.log ∧ (stepExec pw cfg s1 act).1.steps = s1.steps ∧
    (stepExec pw cfg s1 act).1.cursor = s1.cursor ∧ (stepExec pw cfg s1 act).1.pendNon = s1.pendNon ∧
    (stepExec pw cfg s1 act).1.pendLat = s1.pendLat ∧ (stepExec pw cfg s1 act).1.queue = s1.queue ∧
    (stepExec pw cfg s1 act).1.now = s1.now := by
  unfold stepExec
  split
  · exact ⟨rfl, rfl, rfl, rfl, rfl, rfl, rfl⟩
  · split <;> exact ⟨rfl, rfl, rfl, rfl, rfl, rfl, rfl⟩

/-- `stepFinish`: the non-latent batch is delivered (after the execution), the next batches are loaded -/
theorem stepFinish_spec (lg : α → α) (cfg : EnvCfg α) (s2 s' : EnvState α) (tr : Bool) (out : StepOut α)
    (hc : s2.cursor ≠ 0) (h : stepFinish lg cfg s2 tr = (s', .ok out)) :
    marketLog s'.log = marketLog s2.log ++ s2.pendNon.map entryOf ∧ (LogOK s2.log → LogOK s'.log) ∧
    s'.steps = s2.steps ∧ (s2.steps[s2.cursor]? = none → s'.done = true) ∧
    (∀ cur, s2.steps[s2.cursor]? = some cur →
      s'.cursor = s2.cursor + 1 ∧ s'.pendLat = cfg.tx.latent cur ∧ s'.pendNon = cfg.tx.nonlatent cur) := by
  unfold stepFinish at h
  obtain ⟨n1, n2, n3, n4, n5, n6⟩ := processNonlatent_spec cfg s2 hc
  set s3 := processNonlatent cfg s2 with hs3
  simp only at h
  cases hr : rewardOf lg cfg s3.broker with
  | mk b4 res =>
    rw [hr] at h
    cases res with
    | error e => simp at h
    | ok r =>
      simp only at h
      set s4 : EnvState α := { s3 with broker := b4 } with hs4
      obtain ⟨f1, f2, f3, f4, f5, _⟩ := notify_frame s4 .step s3.now none
      have m5 : marketLog (notify s4 .step s3.now none).log = marketLog s3.log := by
        rw [notify_market]; simp [isMarket, hs4]
      have ok5 : LogOK s3.log → LogOK (notify s4 .step s3.now none).log := fun h0 => notify_logOK s4 _ _ _ h0
      have key : ∀ s6 : EnvState α, marketLog s6.log = marketLog s3.log → (LogOK s3.log → LogOK s6.log) →
          s6.steps = s3.steps → s6.done = s3.done → s6.cursor = s3.cursor → s6.pendLat = s3.pendLat →
          s6.pendNon = s3.pendNon → s6 = s' →
          marketLog s'.log = marketLog s2.log ++ s2.pendNon.map entryOf ∧ (LogOK s2.log → LogOK s'.log) ∧
          s'.steps = s2.steps ∧ (s2.steps[s2.cursor]? = none → s'.done = true) ∧
          (∀ cur, s2.steps[s2.cursor]? = some cur →
            s'.cursor = s2.cursor + 1 ∧ s'.pendLat = cfg.tx.latent cur ∧ s'.pendNon = cfg.tx.nonlatent cur) := by
        intro s6 g1 g2 g3 g4 g5 g6 g7 heq
        subst heq
        refine ⟨g1.trans n1, fun h0 => g2 (n2 h0), g3.trans n3, ?_, ?_⟩
        · intro hn; rw [g4]; exact (n5 hn).1
        · intro cur hcur
          obtain ⟨a1, a2, a3, a4⟩ := n6 cur hcur
          exact ⟨by rw [g5]; exact a2, by rw [g6]; exact a3, by rw [g7]; exact a4⟩
      split_ifs at h with hdone
      · obtain ⟨k1, k2, k3, k4, k5, _⟩ :=
          notify_frame (notify s4 .step s3.now none) .done (notify s4 .step s3.now none).now none
        apply key _ _ _ _ _ _ _ _ (congrArg Prod.fst h)
        · rw [notify_market]; simp [isMarket, m5]
        · intro h0; exact notify_logOK _ _ _ _ (ok5 h0)
        · rw [k1, f1]
        · rw [k5, f5]
        · rw [k2, f2]
        · rw [k3, f3]
        · rw [k4, f4]
      · exact key _ m5 ok5 f1 f5 f2 f3 f4 (congrArg Prod.fst h)

/-- **What a successful `step` delivers**: exactly the pending latent batch before the execution, then the
    pending non-latent batch after it — each event once, in timestamp order, with `env.now()` equal to the
    event's time in every dispatch; then the next timestep's batches are loaded (or the episode ends). -/
theorem step_delivery (pw : α → α → α) (lg : α → α) (cfg : EnvCfg α) (s s' : EnvState α) (a : Action α)
    (out : StepOut α) (hc : s.cursor ≠ 0) (h : envStep pw lg cfg s a = (s', .ok out)) :
    marketLog s'.log = marketLog s.log ++ (s.pendLat ++ s.pendNon).map entryOf ∧
    (LogOK s.log → LogOK s'.log) ∧ s'.steps = s.steps ∧
    (s.steps[s.cursor]? = none → s'.done = true) ∧
    (∀ cur, s.steps[s.cursor]? = some cur →
      s'.cursor = s.cursor + 1 ∧ s'.pendLat = cfg.tx.latent cur ∧ s'.pendNon = cfg.tx.nonlatent cur) := by
  unfold envStep at h
  by_cases hd : s.done = true
  · simp [hd] at h
  simp only [hd, Bool.false_eq_true, if_false] at h
  obtain ⟨p1, p2, p3, p4, p5, p6⟩ := stepPre_spec s a
  obtain ⟨x1, x2, x3, x4, x5, x6, x7⟩ := stepExec_spec pw cfg (stepPre s a).1 (stepPre s a).2
  cases hx : stepExec pw cfg (stepPre s a).1 (stepPre s a).2 with
  | mk s2 res =>
    rw [hx] at h x1 x2 x3 x4
    simp only at x1 x2 x3 x4
    cases res with
    | error e => simp at h
    | ok tr =>
      simp only at h
      have hc2 : s2.cursor ≠ 0 := by rw [x3, p4]; exact hc
      obtain ⟨f1, f2, f3, f4, f5⟩ := stepFinish_spec lg cfg s2 s' tr out hc2 h
      rw [x2, x3, p3, p4] at f4 f5
      refine ⟨?_, ?_, by rw [f3, x2, p3], f4, f5⟩
      · rw [f1, x1, p1, x4, p5]; simp [List.map_append]
      · intro h0; exact f2 (by rw [x1]; exact p2 h0)

/-- **During every dispatch `env.now()` equals the event's time**, for everything `reset` and any sequence
    of `step` calls (successful or not) hand to the observers.  Stated for the successful path; the failing
    paths write through the same `notify`. -/
theorem clock_eq_event_time (cfg : EnvCfg α) (lo hi : Time) (start : Nat) (clk : Option Time)
    (cur : Time) (rest : List Time)
    (hsteps : cfg.tx.episodeSteps lo hi cfg.episodeLen start = cur :: rest) :
    LogOK (envReset cfg lo hi start clk).log :=
  (reset_delivery cfg lo hi start clk cur rest hsteps).2.1

/-- run a list of actions, stopping at the first `step` that does not return normally -/
def runSteps (pw : α → α → α) (lg : α → α) (cfg : EnvCfg α) : EnvState α → List (Action α) → Option (EnvState α)
  | s, [] => some s
  | s, a :: as =>
      match envStep pw lg cfg s a with
      | (s', .ok _) => runSteps pw lg cfg s' as
      | (_, .error _) => none

/-- the events an episode must have delivered after `reset` and `k` steps: the reset batch, then for each of
    the next `k` timesteps its latent batch followed by its non-latent batch -/
def deliveredUpTo (cfg : EnvCfg α) (cur : Time) (rest : List Time) (k : Nat) : List (TEvent (Payload α)) :=
  (cfg.tx.firstBatch cur).1 ++ (cfg.tx.firstBatch cur).2 ++
    (rest.take k).flatMap (fun g => cfg.tx.latent g ++ cfg.tx.nonlatent g)

/-- invariant of an episode after `j` successful steps -/
def EpInv (cfg : EnvCfg α) (cur : Time) (rest : List Time) (s : EnvState α) (j : Nat) : Prop :=
  marketLog s.log = (deliveredUpTo cfg cur rest j).map entryOf ∧ LogOK s.log ∧ s.steps = cur :: rest ∧
  (rest.length ≤ j → s.done = true) ∧
  (∀ nxt, rest[j]? = some nxt → s.cursor = j + 2 ∧ s.pendLat = cfg.tx.latent nxt ∧ s.pendNon = cfg.tx.nonlatent nxt)

theorem epInv_reset (cfg : EnvCfg α) (lo hi : Time) (start : Nat) (clk : Option Time) (cur : Time) (rest : List Time)
    (hsteps : cfg.tx.episodeSteps lo hi cfg.episodeLen start = cur :: rest) :
    EpInv cfg cur rest (envReset cfg lo hi start clk) 0 := by
  obtain ⟨h1, h2, h3, h4, h5⟩ := reset_delivery cfg lo hi start clk cur rest hsteps
  refine ⟨by rw [h1]; simp [deliveredUpTo], h2, h3, ?_, ?_⟩
  · intro hl
    exact h4 (List.length_eq_zero_iff.mp (Nat.le_zero.mp hl))
  · intro nxt hn
    cases rest with
    | nil => simp at hn
    | cons x xs =>
        simp only [List.getElem?_cons_zero, Option.some.injEq] at hn
        subst hn
        obtain ⟨_, a2, a3, a4⟩ := h5 x xs rfl
        exact ⟨a2, a3, a4⟩

theorem epInv_step (pw : α → α → α) (lg : α → α) (cfg : EnvCfg α) (cur : Time) (rest : List Time)
    (s s' : EnvState α) (a : Action α) (out : StepOut α) (j : Nat) (hinv : EpInv cfg cur rest s j)
    (h : envStep pw lg cfg s a = (s', .ok out)) : j < rest.length ∧ EpInv cfg cur rest s' (j + 1) := by
  obtain ⟨i1, i2, i3, i4, i5⟩ := hinv
  -- a successful step means the episode was not over
  have hnd : s.done = false := by
    by_contra hd
    have hd' : s.done = true := by simpa using hd
    unfold envStep at h
    simp [hd'] at h
  have hj : j < rest.length := by
    by_contra hge
    have := i4 (Nat.le_of_not_lt hge)
    rw [this] at hnd; cases hnd
  obtain ⟨nxt, hnxt⟩ : ∃ nxt, rest[j]? = some nxt := ⟨rest[j], List.getElem?_eq_getElem hj⟩
  obtain ⟨c1, c2, c3⟩ := i5 nxt hnxt
  have hc : s.cursor ≠ 0 := by rw [c1]; omega
  obtain ⟨d1, d2, d3, d4, d5⟩ := step_delivery pw lg cfg s s' a out hc h
  refine ⟨hj, ?_, d2 i2, d3.trans i3, ?_, ?_⟩
  · rw [d1, i1, c2, c3]
    unfold deliveredUpTo
    rw [List.take_succ, hnxt]
    simp [List.flatMap_append, List.map_append]
  · intro hl
    apply d4
    rw [i3, c1]
    show (cur :: rest)[j + 2]? = none
    rw [List.getElem?_cons_succ]
    exact List.getElem?_eq_none (by omega)
  · intro n2 hn2
    have : s.steps[s.cursor]? = some n2 := by
      rw [i3, c1]
      show (cur :: rest)[j + 2]? = some n2
      rw [List.getElem?_cons_succ]; exact hn2
    obtain ⟨e1, e2, e3⟩ := d5 n2 this
    exact ⟨by rw [e1, c1], e2, e3⟩

/-- **Episode delivery**: after `reset` and any number `k` of successful steps, the market events handed to
    the observers are exactly the reset batch followed, timestep by timestep, by the latent and then the
    non-latent batch of each of the next `k` event-bearing timesteps of the episode — every one of them
    once, none beyond the `k`-th timestep, with `env.now() = event.time` in every dispatch; and no more
    than `len(steps) - 1` steps can succeed. -/
theorem episode_delivery (pw : α → α → α) (lg : α → α) (cfg : EnvCfg α) (lo hi : Time) (start : Nat)
    (clk : Option Time) (cur : Time) (rest : List Time)
    (hsteps : cfg.tx.episodeSteps lo hi cfg.episodeLen start = cur :: rest)
    (as : List (Action α)) (s' : EnvState α)
    (hrun : runSteps pw lg cfg (envReset cfg lo hi start clk) as = some s') :
    as.length ≤ rest.length ∧
    marketLog s'.log = (deliveredUpTo cfg cur rest as.length).map entryOf ∧ LogOK s'.log := by
  have gen : ∀ (as : List (Action α)) (s : EnvState α) (j : Nat), j ≤ rest.length → EpInv cfg cur rest s j →
      runSteps pw lg cfg s as = some s' → j + as.length ≤ rest.length ∧ EpInv cfg cur rest s' (j + as.length) := by
    intro as
    induction as with
    | nil =>
        intro s j hjl hinv hr
        simp only [runSteps, Option.some.injEq] at hr
        subst hr
        exact ⟨by simpa using hjl, by simpa using hinv⟩
    | cons a as ih =>
        intro s j hjl hinv hr
        simp only [runSteps] at hr
        cases hstep : envStep pw lg cfg s a with
        | mk s1 res =>
          rw [hstep] at hr
          cases res with
          | error e => simp at hr
          | ok out =>
            simp only at hr
            obtain ⟨hj, hinv1⟩ := epInv_step pw lg cfg cur rest s s1 a out j hinv hstep
            obtain ⟨hle, hfin⟩ := ih s1 (j + 1) hj hinv1 hr
            refine ⟨by simp only [List.length_cons]; omega, ?_⟩
            have : j + (a :: as).length = j + 1 + as.length := by simp only [List.length_cons]; omega
            rw [this]; exact hfin
  obtain ⟨hle, hinv⟩ := gen as _ 0 (Nat.zero_le _) (epInv_reset cfg lo hi start clk cur rest hsteps) hrun
  simp only [Nat.zero_add] at hle hinv
  exact ⟨hle, hinv.1, hinv.2.1⟩

end

/-! ## Part 3 — observers see timestamps in non-decreasing order

Every entry of the observer log — market events and the environment's own reset / step / done / new-date
notifications — carries a stamp that is not earlier than any stamp before it, over `reset` and any sequence
of `step` calls (successful, refused or failing). -/

/-- order on stamps: "no event yet" (`none`) precedes everything -/
def stampLE : Option Time → Option Time → Prop
  | none, _ => True
  | some _, none => False
  | some a, some b => a ≤ b

theorem stampLE_refl (a : Option Time) : stampLE a a := by
  cases a with
  | none => trivial
  | some x => exact le_refl x

theorem stampLE_trans {a b c : Option Time} (h1 : stampLE a b) (h2 : stampLE b c) : stampLE a c := by
  cases a with
  | none => trivial
  | some x =>
    cases b with
    | none => exact absurd h1 (by simp [stampLE])
    | some y =>
      cases c with
      | none => exact absurd h2 (by simp [stampLE])
      | some z => exact le_trans (show x ≤ y from h1) (show y ≤ z from h2)

def StampsSorted (l : List LogEntry) : Prop := l.Pairwise (fun a b => stampLE a.stamp b.stamp)

section
variable {α : Type} [Add α] [Sub α] [Mul α] [Div α] [Neg α] [LT α] [LE α]
  [DecidableLT α] [DecidableLE α] [DecidableEq α] [OfNat α 0] [OfNat α 1] [OfNat α 2]
  [IntCast α] [HasTrunc α]

/-- the log is in stamp order, nothing in it is later than the clock, and the last event seen is the clock -/
structure Mono (s : EnvState α) : Prop where
  sorted : StampsSorted s.log
  bound : ∀ e ∈ s.log, stampLE e.stamp s.now
  last : ∀ lt, s.lastEvent = some lt → lt = s.now

/-- what a notification appends: possibly a new-date entry stamped with the previous event's time (which is
    the clock), then the entry itself -/
theorem notify_log_mono (s : EnvState α) (k : LogKind) (t : Option Time) (m : Option (MEvent α))
    (h : ∀ lt, s.lastEvent = some lt → lt = s.now) :
    ∃ X : List LogEntry, (notify s k t m).log = s.log ++ X ++ [⟨k, t, t⟩] ∧ ∀ e ∈ X, e.stamp = s.now := by
  rw [notify_log]
  refine ⟨_, rfl, ?_⟩
  intro e he
  split_ifs at he with hnd
  · simp only [List.mem_singleton] at he
    subst he
    simp only
    cases hle : s.lastEvent with
    | none => unfold isNewDate at hnd; rw [hle] at hnd; simp at hnd
    | some x => exact h x hle
  · cases he

/-- a notification stamped no earlier than the clock keeps the log in order — including the new-date
    notification it may trigger, which carries the previous event's time -/
theorem notify_mono (s : EnvState α) (k : LogKind) (t : Option Time) (m : Option (MEvent α))
    (h : Mono s) (ht : stampLE s.now t) : Mono (notify s k t m) := by
  obtain ⟨_, _, _, _, _, _, fnow, _, flast⟩ := notify_frame s k t m
  obtain ⟨X, hX, hXs⟩ := notify_log_mono s k t m h.last
  refine ⟨?_, ?_, ?_⟩
  · unfold StampsSorted
    rw [hX, List.pairwise_append]
    refine ⟨?_, List.pairwise_singleton _ _, ?_⟩
    · rw [List.pairwise_append]
      refine ⟨h.sorted, ?_, ?_⟩
      · rw [List.pairwise_iff_forall_sublist]
        intro a b hab
        have ha := hXs a (hab.subset (by simp))
        have hb := hXs b (hab.subset (by simp))
        rw [ha, hb]; exact stampLE_refl _
      · intro a ha b hb
        rw [hXs b hb]; exact h.bound a ha
    · intro a ha b hb
      simp only [List.mem_singleton] at hb
      subst hb
      simp only
      rcases List.mem_append.mp ha with ha | ha
      · exact stampLE_trans (h.bound a ha) ht
      · rw [hXs a ha]; exact ht
  · intro e he
    rw [fnow]
    rw [hX] at he
    rcases List.mem_append.mp he with he | he
    · rcases List.mem_append.mp he with he | he
      · exact stampLE_trans (h.bound e he) ht
      · rw [hXs e he]; exact ht
    · simp only [List.mem_singleton] at he
      subst he
      exact stampLE_refl _
  · intro lt hlt'
    rw [flast] at hlt'
    rw [fnow]
    cases hlt'; rfl

/-- delivering a batch that is in time order and not earlier than the clock keeps the log in order; the clock
    ends no later than any bound on the batch and the old clock -/
theorem foldl_notifyEvent_mono (l : List (TEvent (Payload α))) (s : EnvState α) (h : Mono s)
    (hs : l.Pairwise (fun a b => a.time ≤ b.time)) (hb : ∀ e ∈ l, stampLE s.now (some e.time)) :
    Mono (l.foldl notifyEvent s) ∧
    (∀ t, (∀ e ∈ l, e.time ≤ t) → stampLE s.now (some t) → stampLE (l.foldl notifyEvent s).now (some t)) ∧
    (∀ t, (∀ e ∈ l, t ≤ e.time) → stampLE (some t) s.now ∨ s.now = none → l ≠ [] →
      stampLE (some t) (l.foldl notifyEvent s).now) := by
  induction l generalizing s with
  | nil => exact ⟨h, fun t _ ht => ht, fun t _ _ hne => absurd rfl hne⟩
  | cons e es ih =>
      simp only [List.foldl_cons]
      obtain ⟨m, hm⟩ := notifyEvent_eq s e
      have hp := List.pairwise_cons.mp hs
      have h1 : Mono (notifyEvent s e) := by
        rw [hm]; exact notify_mono s _ _ m h (hb e List.mem_cons_self)
      have hnow : (notifyEvent s e).now = some e.time := by
        rw [hm]; exact (notify_frame s _ _ m).2.2.2.2.2.2.1
      obtain ⟨i1, i2, i3⟩ := ih (notifyEvent s e) h1 hp.2
        (by intro e' he'; rw [hnow]; exact hp.1 e' he')
      refine ⟨i1, ?_, ?_⟩
      · intro t hall _
        apply i2 t (fun e' he' => hall e' (List.mem_cons_of_mem _ he'))
        rw [hnow]; exact hall e List.mem_cons_self
      · intro t hall _ _
        by_cases hes : es = []
        · subst hes
          simp only [List.foldl_nil]
          rw [hnow]; exact hall e List.mem_cons_self
        · apply i3 t (fun e' he' => hall e' (List.mem_cons_of_mem _ he')) _ hes
          left; rw [hnow]; exact hall e List.mem_cons_self

/-! ### batches are in time order, bounded by their timestep, and later than every earlier timestep -/
section
variable {ρ : Type}

theorem batch_sorted (c : TxCfg ρ) (g : Time) :
    (c.latent g ++ c.nonlatent g).Pairwise (fun a b => a.time ≤ b.time) := by
  rw [bucket_split]
  exact (sorted_pairwise c).sublist List.filter_sublist

theorem batch_le (c : TxCfg ρ) (g : Time) (e : TEvent ρ) (h : e ∈ c.latent g ++ c.nonlatent g) : e.time ≤ g :=
  (delivered_at_first_timestep c g e h).2.1

theorem batch_gt (c : TxCfg ρ) (g1 g2 : Time) (hg1 : g1 ∈ c.grid) (hlt : g1 < g2) (e : TEvent ρ)
    (h : e ∈ c.latent g2 ++ c.nonlatent g2) : g1 < e.time := by
  by_contra hn
  have hle : e.time ≤ g1 := not_lt.mp hn
  have := (delivered_at_first_timestep c g2 e h).2.2 g1 hg1 hle
  exact absurd (lt_of_lt_of_le hlt this) (lt_irrefl _)

/-- the concatenation of the batches of increasing grid points is in time order -/
theorem flatMap_batches_sorted (c : TxCfg ρ) (L : List Time) (hL : L.Pairwise (· < ·)) (hin : ∀ g ∈ L, g ∈ c.grid) :
    (L.flatMap fun g => c.latent g ++ c.nonlatent g).Pairwise (fun a b => a.time ≤ b.time) := by
  induction L with
  | nil => exact List.Pairwise.nil
  | cons g rest ih =>
      have hp := List.pairwise_cons.mp hL
      simp only [List.flatMap_cons]
      rw [List.pairwise_append]
      refine ⟨batch_sorted c g, ih hp.2 (fun g' hg' => hin g' (List.mem_cons_of_mem _ hg')), ?_⟩
      intro a ha b hb
      obtain ⟨g', hg', hb'⟩ := List.mem_flatMap.mp hb
      have h1 := batch_le c g a ha
      have h2 := batch_gt c g g' (hin g List.mem_cons_self) (hp.1 g' hg') b hb'
      exact le_of_lt (lt_of_le_of_lt h1 h2)

/-- the batch handed out for the first timestep of an episode (history replay, warm-up horizon, or the
    step's own batches under markov reset) is in time order and not later than that timestep -/
theorem firstBatch_sorted (c : TxCfg ρ) (cur : Time) :
    ((c.firstBatch cur).1 ++ (c.firstBatch cur).2).Pairwise (fun a b => a.time ≤ b.time) ∧
    ∀ e ∈ (c.firstBatch cur).1 ++ (c.firstBatch cur).2, e.time ≤ cur := by
  unfold TxCfg.firstBatch
  split_ifs
  · exact ⟨batch_sorted c cur, fun e he => batch_le c cur e he⟩
  · simp only [List.nil_append]
    refine ⟨flatMap_batches_sorted c _ ((mkGrid_strict c.timesteps).sublist List.filter_sublist)
      (fun g hg => (List.mem_filter.mp hg).1), ?_⟩
    intro e he
    obtain ⟨g, hg, heg⟩ := List.mem_flatMap.mp he
    have hgc : g ≤ cur := by
      have := (List.mem_filter.mp hg).2
      simp only [Bool.and_eq_true, decide_eq_true_eq] at this
      exact this.2
    exact le_trans (batch_le c g e heg) hgc

end

/-- the pre-fetched batches are in time order, not earlier than the clock, and belong to the timestep the
    cursor has loaded; the episode's timesteps are increasing grid points -/
structure PendOK (cfg : EnvCfg α) (s : EnvState α) : Prop where
  sorted : (s.pendLat ++ s.pendNon).Pairwise (fun a b => a.time ≤ b.time)
  later : ∀ e ∈ s.pendLat ++ s.pendNon, stampLE s.now (some e.time)
  steps : s.steps.Pairwise (· < ·)
  grid : ∀ g ∈ s.steps, g ∈ cfg.tx.grid
  cursor : 1 ≤ s.cursor
  loaded : ∃ g, s.steps[s.cursor - 1]? = some g ∧ stampLE s.now (some g) ∧ ∀ e ∈ s.pendLat ++ s.pendNon, e.time ≤ g

theorem processLatent_mono (cfg : EnvCfg α) (s : EnvState α) (h : Mono s) (hp : PendOK cfg s) :
    Mono (processLatent s) ∧ PendOK cfg (processLatent s) := by
  have hsl : s.pendLat.Pairwise (fun a b => a.time ≤ b.time) := (List.pairwise_append.mp hp.sorted).1
  obtain ⟨m1, m2, _⟩ := foldl_notifyEvent_mono s.pendLat s h hsl
    (fun e he => hp.later e (List.mem_append_left _ he))
  obtain ⟨_, _, i3, i4, _, i6, _, _⟩ := foldl_notifyEvent s.pendLat s
  obtain ⟨g, hg1, hg2, hg3⟩ := hp.loaded
  have hnow : stampLE (s.pendLat.foldl notifyEvent s).now (some g) :=
    m2 g (fun e he => hg3 e (List.mem_append_left _ he)) hg2
  unfold processLatent
  refine ⟨⟨m1.sorted, m1.bound, m1.last⟩, ?_⟩
  refine ⟨?_, ?_, by simpa [i3] using hp.steps, by simpa [i3] using hp.grid, by simpa [i4] using hp.cursor, ?_⟩
  · simp only [List.nil_append, i6]
    exact (List.pairwise_append.mp hp.sorted).2.1
  · intro e he
    simp only [List.nil_append, i6] at he
    simp only
    -- every non-latent event comes after every latent one; the clock is the last latent event (or unchanged)
    by_cases hl : s.pendLat = []
    · rw [hl]; simp only [List.foldl_nil]
      exact hp.later e (List.mem_append_right _ he)
    · cases hn : (s.pendLat.foldl notifyEvent s).now with
      | none => trivial
      | some t =>
          obtain ⟨last, hlast⟩ : ∃ x, s.pendLat.getLast? = some x := by
            cases hh : s.pendLat.getLast? with
            | none => exact absurd (List.getLast?_eq_none_iff.mp hh) hl
            | some x => exact ⟨x, rfl⟩
          have hbound := m2 last.time (by
            intro e' he'
            have hmem : last ∈ s.pendLat := List.mem_of_getLast? hlast
            -- every element of a sorted list is ≤ its last element
            rcases List.getLast?_eq_some_iff.mp hlast with ⟨pre, hpre⟩
            rw [hpre] at he' hsl
            rcases List.mem_append.mp he' with hin | hin
            · exact (List.pairwise_append.mp hsl).2.2 e' hin last (List.mem_singleton.mpr rfl)
            · simp only [List.mem_singleton] at hin; rw [hin])
            (hp.later last (List.mem_append_left _ (List.mem_of_getLast? hlast)))
          rw [hn] at hbound
          have : last.time ≤ e.time :=
            (List.pairwise_append.mp hp.sorted).2.2 last (List.mem_of_getLast? hlast) e he
          exact le_trans (show t ≤ last.time from hbound) this
  · refine ⟨g, by simpa [i3, i4] using hg1, hnow, ?_⟩
    intro e he
    simp only [List.nil_append, i6] at he
    exact hg3 e (List.mem_append_right _ he)

theorem processNonlatent_mono (cfg : EnvCfg α) (s : EnvState α) (h : Mono s) (hp : PendOK cfg s) :
    Mono (processNonlatent cfg s) ∧ ((processNonlatent cfg s).done = false → PendOK cfg (processNonlatent cfg s)) := by
  have hsn : s.pendNon.Pairwise (fun a b => a.time ≤ b.time) := (List.pairwise_append.mp hp.sorted).2.1
  obtain ⟨m1, m2, _⟩ := foldl_notifyEvent_mono s.pendNon s h hsn
    (fun e he => hp.later e (List.mem_append_right _ he))
  obtain ⟨_, _, i3, i4, _, _, i7, _⟩ := foldl_notifyEvent s.pendNon s
  obtain ⟨g, hg1, hg2, hg3⟩ := hp.loaded
  have hnow : stampLE (s.pendNon.foldl notifyEvent s).now (some g) :=
    m2 g (fun e he => hg3 e (List.mem_append_right _ he)) hg2
  have hc0 : (s.pendNon.foldl notifyEvent s).cursor ≠ 0 := by rw [i4]; have := hp.cursor; omega
  unfold processNonlatent
  simp only
  cases hcur : (List.foldl notifyEvent s s.pendNon).steps[(List.foldl notifyEvent s s.pendNon).cursor]? with
  | none =>
      simp only
      exact ⟨⟨m1.sorted, m1.bound, m1.last⟩, fun hd => by cases hd⟩
  | some g2 =>
      simp only [hc0, if_false, TxCfg.batch]
      refine ⟨⟨m1.sorted, m1.bound, m1.last⟩, fun _ => ?_⟩
      have hcur' : s.steps[s.cursor]? = some g2 := by rw [← i3, ← i4]; exact hcur
      have hg2in : g2 ∈ s.steps := List.mem_of_getElem? hcur'
      have hgin : g ∈ s.steps := List.mem_of_getElem? hg1
      -- consecutive timesteps of the episode are increasing
      have hlt : g < g2 := by
        have hc := hp.cursor
        have e1 : s.steps[s.cursor - 1]? = some g := hg1
        obtain ⟨h1, h1'⟩ := List.getElem?_eq_some_iff.mp e1
        obtain ⟨h2, h2'⟩ := List.getElem?_eq_some_iff.mp hcur'
        have := List.pairwise_iff_getElem.mp hp.steps (s.cursor - 1) s.cursor h1 h2 (by omega)
        rw [h1', h2'] at this; exact this
      refine ⟨?_, ?_, by simpa [i3] using hp.steps, by simpa [i3] using hp.grid, by simp, ?_⟩
      · exact batch_sorted cfg.tx g2
      · intro e he
        simp only at he ⊢
        have hgt := batch_gt cfg.tx g g2 (hp.grid g hgin) hlt e he
        cases hn : (List.foldl notifyEvent s s.pendNon).now with
        | none => trivial
        | some t =>
            rw [hn] at hnow
            exact le_of_lt (lt_of_le_of_lt (show t ≤ g from hnow) hgt)
      · refine ⟨g2, by simpa [i3, i4] using hcur', ?_, fun e he => batch_le cfg.tx g2 e he⟩
        simp only
        cases hn : (List.foldl notifyEvent s s.pendNon).now with
        | none => trivial
        | some t =>
            rw [hn] at hnow
            exact le_of_lt (lt_of_le_of_lt (show t ≤ g from hnow) hlt)

theorem Mono.of_same {s s' : EnvState α} (h : Mono s) (h1 : s'.log = s.log) (h2 : s'.now = s.now)
    (h3 : s'.lastEvent = s.lastEvent) : Mono s' :=
  ⟨by unfold StampsSorted; rw [h1]; exact h.sorted, by rw [h1, h2]; exact h.bound, by rw [h2, h3]; exact h.last⟩

theorem PendOK.of_same {cfg : EnvCfg α} {s s' : EnvState α} (hp : PendOK cfg s) (h1 : s'.pendLat = s.pendLat)
    (h2 : s'.pendNon = s.pendNon) (h3 : s'.steps = s.steps) (h4 : s'.cursor = s.cursor) (h5 : s'.now = s.now) :
    PendOK cfg s' :=
  ⟨by rw [h1, h2]; exact hp.sorted, by rw [h1, h2, h5]; exact hp.later, by rw [h3]; exact hp.steps,
   by rw [h3]; exact hp.grid, by rw [h4]; exact hp.cursor, by rw [h1, h2, h3, h4, h5]; exact hp.loaded⟩

/-- the closing notifications of `reset` / `step` (stamped with the clock) keep everything in order -/
theorem closing_mono (cfg : EnvCfg α) (s : EnvState α) (k : LogKind) (h : Mono s) :
    Mono (let s5 := notify s k s.now none; if s5.done then notify s5 .done s5.now none else s5) ∧
    (let s5 := notify s k s.now none; if s5.done then notify s5 .done s5.now none else s5).done = s.done ∧
    (PendOK cfg s → PendOK cfg (let s5 := notify s k s.now none; if s5.done then notify s5 .done s5.now none else s5)) := by
  have m5 := notify_mono s k s.now none h (stampLE_refl _)
  obtain ⟨f1, f2, f3, f4, f5, _, f7, _, _⟩ := notify_frame s k s.now none
  simp only
  split_ifs with hd
  · have m6 := notify_mono (notify s k s.now none) .done (notify s k s.now none).now none m5 (stampLE_refl _)
    obtain ⟨g1, g2, g3, g4, g5, _, g7, _, _⟩ :=
      notify_frame (notify s k s.now none) .done (notify s k s.now none).now none
    exact ⟨m6, by rw [g5, f5], fun hp => hp.of_same (g3.trans f3) (g4.trans f4) (g1.trans f1) (g2.trans f2)
      (g7.trans f7)⟩
  · exact ⟨m5, f5, fun hp => hp.of_same f3 f4 f1 f2 f7⟩

theorem stepExec_same (pw : α → α → α) (cfg : EnvCfg α) (s1 : EnvState α) (act : Action α) :
    ∃ b d, (stepExec pw cfg s1 act).1 = { s1 with broker := b, done := d } := by
  unfold stepExec
  split
  · exact ⟨s1.broker, s1.done, rfl⟩
  · split <;> exact ⟨_, _, rfl⟩

theorem processNonlatent_done_of_done (cfg : EnvCfg α) (s : EnvState α) (h : s.done = true) :
    (processNonlatent cfg s).done = true := by
  obtain ⟨_, _, _, _, _, _, i7, _⟩ := foldl_notifyEvent s.pendNon s
  unfold processNonlatent
  simp only
  cases (List.foldl notifyEvent s s.pendNon).steps[(List.foldl notifyEvent s s.pendNon).cursor]? with
  | none => rfl
  | some cur => simp only; rw [i7]; exact h

/-- **`step` keeps the observer log in stamp order**, whatever it returns (a result, a refusal, an error) -/
theorem envStep_mono (pw : α → α → α) (lg : α → α) (cfg : EnvCfg α) (s : EnvState α) (a : Action α)
    (h : Mono s) (hp : s.done = false → PendOK cfg s) :
    Mono (envStep pw lg cfg s a).1 ∧
    ((envStep pw lg cfg s a).1.done = false → PendOK cfg (envStep pw lg cfg s a).1) := by
  unfold envStep
  split_ifs with hd
  · exact ⟨h, hp⟩
  · have hd' : s.done = false := by simpa using hd
    have P := hp hd'
    -- stepPre
    have h0 : Mono ({ s with contractClock := s.now, queue := (a :: s.queue).dropLast } : EnvState α) :=
      h.of_same rfl rfl rfl
    have P0 : PendOK cfg ({ s with contractClock := s.now, queue := (a :: s.queue).dropLast } : EnvState α) :=
      P.of_same rfl rfl rfl rfl rfl
    obtain ⟨h1, P1⟩ := processLatent_mono cfg _ h0 P0
    have e1 : (stepPre s a).1 =
        processLatent ({ s with contractClock := s.now, queue := (a :: s.queue).dropLast } : EnvState α) := rfl
    rw [← e1] at h1 P1
    -- stepExec
    obtain ⟨b, d, hsame⟩ := stepExec_same pw cfg (stepPre s a).1 (stepPre s a).2
    cases hres : stepExec pw cfg (stepPre s a).1 (stepPre s a).2 with
    | mk s2 res =>
      rw [hres] at hsame
      simp only at hsame
      have h2 : Mono s2 := by rw [hsame]; exact h1.of_same rfl rfl rfl
      have P2 : PendOK cfg s2 := by rw [hsame]; exact P1.of_same rfl rfl rfl rfl rfl
      cases res with
      | error e => exact ⟨h2, fun _ => P2⟩
      | ok tr =>
          simp only
          obtain ⟨h3, P3⟩ := processNonlatent_mono cfg s2 h2 P2
          unfold stepFinish
          simp only
          cases hrw : rewardOf lg cfg (processNonlatent cfg s2).broker with
          | mk b4 res2 =>
            have h4 : Mono ({ processNonlatent cfg s2 with broker := b4 } : EnvState α) := h3.of_same rfl rfl rfl
            cases res2 with
            | error e =>
                simp only
                exact ⟨h4, fun hdn => (P3 hdn).of_same rfl rfl rfl rfl rfl⟩
            | ok r =>
                simp only
                obtain ⟨c1, c2, c3⟩ := closing_mono cfg ({ processNonlatent cfg s2 with broker := b4 } : EnvState α) .step h4
                refine ⟨c1, fun hdn => c3 ((P3 ?_).of_same rfl rfl rfl rfl rfl)⟩
                have := c2
                simp only at this hdn
                rw [this] at hdn; exact hdn

theorem episodeSteps_sublist_grid {ρ : Type} (c : TxCfg ρ) (lo hi : Time) (len : Option Nat) (start : Nat) :
    (c.episodeSteps lo hi len start).Sublist c.grid := by
  have h1 : (c.episodeSteps lo hi len start).Sublist (c.foldSteps lo hi) := by
    unfold TxCfg.episodeSteps
    cases len with
    | none => exact List.Sublist.refl _
    | some L => exact (List.take_sublist _ _).trans (List.drop_sublist _ _)
  have h2 : (c.foldSteps lo hi).Sublist c.eventSteps := by unfold TxCfg.foldSteps; exact List.filter_sublist
  have h3 : c.eventSteps.Sublist c.grid := by unfold TxCfg.eventSteps; exact List.filter_sublist
  exact h1.trans (h2.trans h3)

/-- the tail of `reset` after the first fetch -/
def resetTail (cfg : EnvCfg α) (s1 : EnvState α) : EnvState α :=
  let s2 := processNonlatent cfg (processLatent s1)
  let s3 := notify s2 .reset s2.now none
  if s3.done then notify s3 .done s3.now none else s3

theorem resetTail_mono (cfg : EnvCfg α) (s1 : EnvState α) (hm1 : Mono s1) (hP1 : PendOK cfg s1) :
    Mono (resetTail cfg s1) ∧ ((resetTail cfg s1).done = false → PendOK cfg (resetTail cfg s1)) := by
  obtain ⟨hm2, hP2⟩ := processLatent_mono cfg s1 hm1 hP1
  obtain ⟨hm3, hP3⟩ := processNonlatent_mono cfg (processLatent s1) hm2 hP2
  obtain ⟨c1, c2, c3⟩ := closing_mono cfg (processNonlatent cfg (processLatent s1)) .reset hm3
  refine ⟨c1, fun hdf => c3 (hP3 ?_)⟩
  have : (resetTail cfg s1).done = (processNonlatent cfg (processLatent s1)).done := c2
  rw [this] at hdf; exact hdf

theorem resetTail_mono_empty (cfg : EnvCfg α) (s1 : EnvState α) (hm1 : Mono s1) (hpl : s1.pendLat = [])
    (hpn : s1.pendNon = []) (hdn : s1.done = true) :
    Mono (resetTail cfg s1) ∧ (resetTail cfg s1).done = true := by
  have hm2 : Mono (processLatent s1) := by
    unfold processLatent; rw [hpl]; exact hm1.of_same rfl rfl rfl
  obtain ⟨_, _, _, _, _, l6, l7, _⟩ := processLatent_spec s1
  have hm3 : Mono (processNonlatent cfg (processLatent s1)) := by
    obtain ⟨m1, _, _⟩ := foldl_notifyEvent_mono (processLatent s1).pendNon (processLatent s1) hm2
      (by rw [l6, hpn]; exact List.Pairwise.nil) (by rw [l6, hpn]; intro e he; cases he)
    unfold processNonlatent
    simp only
    split <;> exact ⟨m1.sorted, m1.bound, m1.last⟩
  have hd3 : (processNonlatent cfg (processLatent s1)).done = true :=
    processNonlatent_done_of_done cfg _ (by rw [l7]; exact hdn)
  obtain ⟨c1, c2, _⟩ := closing_mono cfg (processNonlatent cfg (processLatent s1)) .reset hm3
  have : (resetTail cfg s1).done = (processNonlatent cfg (processLatent s1)).done := c2
  exact ⟨c1, by rw [this]; exact hd3⟩

/-- **`reset` leaves the observer log in stamp order** and the pre-fetched batches ready -/
theorem reset_mono (cfg : EnvCfg α) (lo hi : Time) (start : Nat) (clk : Option Time) :
    Mono (envReset cfg lo hi start clk) ∧
    ((envReset cfg lo hi start clk).done = false → PendOK cfg (envReset cfg lo hi start clk)) := by
  have hsub := episodeSteps_sublist_grid cfg.tx lo hi cfg.episodeLen start
  unfold envReset
  simp only
  cases h0 : (cfg.tx.episodeSteps lo hi cfg.episodeLen start)[0]? with
  | none =>
      simp only
      have key : ∀ s1 : EnvState α, Mono s1 → s1.pendLat = [] → s1.pendNon = [] → s1.done = true →
          Mono (resetTail cfg s1) ∧ ((resetTail cfg s1).done = false → PendOK cfg (resetTail cfg s1)) := by
        intro s1 hm hl hn hd
        obtain ⟨c1, c2⟩ := resetTail_mono_empty cfg s1 hm hl hn hd
        exact ⟨c1, fun hdf => by rw [c2] at hdf; cases hdf⟩
      refine key _ ?_ rfl rfl rfl
      exact ⟨List.Pairwise.nil, (fun e he => by cases he), (fun lt hlt => by cases hlt)⟩
  | some cur0 =>
      simp only
      obtain ⟨fs, fb⟩ := firstBatch_sorted cfg.tx cur0
      refine resetTail_mono cfg _ ?_ ?_
      · exact ⟨List.Pairwise.nil, (fun e he => by cases he), (fun lt hlt => by cases hlt)⟩
      · exact ⟨fs, fun e _ => trivial, (mkGrid_strict cfg.tx.timesteps).sublist hsub,
          fun g hg => hsub.subset hg, le_refl _, ⟨cur0, h0, trivial, fb⟩⟩

/-- **Observers see timestamps in non-decreasing order over a whole episode**: after `reset` and any sequence
    of `step` calls — successful, refused or failing — the stamps of the observer log (market events in
    delivery order *and* the environment's own reset, step, done and new-date notifications) never decrease,
    and nothing in the log is stamped later than the clock. -/
theorem episode_stamps_sorted (pw : α → α → α) (lg : α → α) (cfg : EnvCfg α) (lo hi : Time) (start : Nat)
    (clk : Option Time) (acts : List (Action α)) :
    StampsSorted (acts.foldl (fun s a => (envStep pw lg cfg s a).1) (envReset cfg lo hi start clk)).log ∧
    ∀ e ∈ (acts.foldl (fun s a => (envStep pw lg cfg s a).1) (envReset cfg lo hi start clk)).log,
      stampLE e.stamp (acts.foldl (fun s a => (envStep pw lg cfg s a).1) (envReset cfg lo hi start clk)).now := by
  have gen : ∀ (acts : List (Action α)) (s : EnvState α), Mono s → (s.done = false → PendOK cfg s) →
      Mono (acts.foldl (fun s a => (envStep pw lg cfg s a).1) s) := by
    intro acts
    induction acts with
    | nil => intro s h _; exact h
    | cons a rest ih =>
        intro s h hp
        simp only [List.foldl_cons]
        obtain ⟨h1, hp1⟩ := envStep_mono pw lg cfg s a h hp
        exact ih _ h1 hp1
  obtain ⟨r1, r2⟩ := reset_mono cfg lo hi start clk
  have := gen acts _ r1 r2
  exact ⟨this.sorted, this.bound⟩

end
end TV
