/-
  C04 — event delivery is complete, exactly-once, on time and in timestamp order.

  Part 1: the transmitter (`_create_partitions`): sort, buckets, latency split.
  Part 2: the environment: what `reset` and each successful `step` hand to the observers, the clock
          during every dispatch.
-/
import TradingVerif.Lemmas.EnvLog
set_option linter.unusedSectionVars false
set_option linter.unusedVariables false
namespace TV

/-! ## Part 1 — partitions -/
section
variable {ρ : Type}

/-- the partitioned events are in non-decreasing timestamp order -/
theorem sorted_pairwise (c : TxCfg ρ) : c.sorted.Pairwise (fun a b => a.time ≤ b.time) := by
  unfold TxCfg.sorted
  simp only
  split_ifs
  · exact (sortEvents_sorted _).filter _
  · exact sortEvents_sorted _

/-- … ties in insertion order (stable sort): two events with `a` inserted before `b` and
    `a.time ≤ b.time` are delivered in that order -/
theorem ties_in_insertion_order (evs : List (TEvent ρ)) (a b : TEvent ρ) (hab : a.time ≤ b.time)
    (h : [a, b].Sublist evs) : [a, b].Sublist (sortEvents evs) := sortEvents_stable evs a b hab h

/-- without markov reset the partitioned events are exactly the events stamped no later than the end of
    the grid: each of them exactly once (a permutation), nothing stamped after the grid -/
theorem sorted_perm (c : TxCfg ρ) (hm : c.markov = false) :
    c.sorted.Perm (c.events.filter (fun e => decide (e.time ≤ c.grid.getLast?.getD 0))) := by
  unfold TxCfg.sorted
  simp only [hm, Bool.false_eq_true, if_false]
  exact sortEvents_perm _

/-- **events stamped after the end of the grid are never delivered** -/
theorem after_grid_never (c : TxCfg ρ) (e : TEvent ρ) (he : e ∈ c.sorted) :
    e.time ≤ c.grid.getLast?.getD 0 := by
  unfold TxCfg.sorted at he
  simp only at he
  have hmem : e ∈ sortEvents (c.events.filter (fun e => decide (e.time ≤ c.grid.getLast?.getD 0))) := by
    split_ifs at he
    · exact (List.mem_filter.mp he).1
    · exact he
  have := ((sortEvents_perm _).mem_iff).mp hmem
  simpa using (List.mem_filter.mp this).2

/-- within a bucket, latent events (within `latency` of the preceding timestep) come before the others -/
theorem bucket_split (c : TxCfg ρ) (g : Time) :
    c.latent g ++ c.nonlatent g = c.sorted.filter (fun e => decide (bucketOf c.grid e.time = some g)) := by
  unfold TxCfg.latent TxCfg.nonlatent
  have h := filter_split_downward (c.sorted.filter (fun e => decide (bucketOf c.grid e.time = some g)))
    (fun e => isLatent c e g)
    (by
      apply ((sorted_pairwise c).filter _).imp
      intro a b hab hb
      simp only [isLatent, decide_eq_true_eq] at hb ⊢
      linarith)
  rw [List.filter_filter, List.filter_filter] at h
  rw [← h]
  congr 1
  · apply List.filter_congr; intro e _; simp [Bool.and_comm]
  · apply List.filter_congr; intro e _; simp [Bool.and_comm]

/-- **Partition theorem for the transmitter**: concatenating, grid point by grid point, the latent and
    then the non-latent batch gives exactly the partitioned events in timestamp order — every event in
    exactly one batch, at the first timestep at or after its timestamp. -/
theorem partition_sorted_concat (c : TxCfg ρ) :
    c.grid.flatMap (fun g => c.latent g ++ c.nonlatent g)
      = c.sorted.filter (fun e => decide (∃ g ∈ c.grid, e.time ≤ g)) := by
  have := concat_buckets c.grid (mkGrid_strict c.timesteps) c.sorted (sorted_pairwise c)
  rw [← this]
  apply List.flatMap_congr
  intro g _
  exact bucket_split c g

/-- every partitioned event does belong to a batch when the grid is not empty -/
theorem partition_complete (c : TxCfg ρ) (hne : c.grid ≠ []) :
    c.grid.flatMap (fun g => c.latent g ++ c.nonlatent g) = c.sorted := by
  rw [partition_sorted_concat]
  apply List.filter_eq_self.mpr
  intro e he
  have hle := after_grid_never c e he
  obtain ⟨l, hl⟩ : ∃ l, c.grid.getLast? = some l := by
    cases h : c.grid.getLast? with
    | none => exact absurd (List.getLast?_eq_none_iff.mp h) hne
    | some l => exact ⟨l, rfl⟩
  rw [hl] at hle
  simp only [decide_eq_true_eq]
  exact ⟨l, List.mem_of_getLast? hl, by simpa using hle⟩

/-- **An event is applied before the pending execution iff it falls within `latency` after the preceding
    timestep** (it is in the latent batch of its bucket), otherwise after it. -/
theorem latent_iff (c : TxCfg ρ) (g : Time) (e : TEvent ρ) :
    e ∈ c.latent g ↔ e ∈ c.sorted ∧ bucketOf c.grid e.time = some g ∧ e.time - prevOf c.grid g ≤ c.latency := by
  unfold TxCfg.latent isLatent
  simp [List.mem_filter]

theorem nonlatent_iff (c : TxCfg ρ) (g : Time) (e : TEvent ρ) :
    e ∈ c.nonlatent g ↔ e ∈ c.sorted ∧ bucketOf c.grid e.time = some g ∧ ¬ e.time - prevOf c.grid g ≤ c.latency := by
  unfold TxCfg.nonlatent isLatent
  simp [List.mem_filter]

/-- the bucket of a delivered event is the first grid point at or after its timestamp -/
theorem delivered_at_first_timestep (c : TxCfg ρ) (g : Time) (e : TEvent ρ)
    (h : e ∈ c.latent g ++ c.nonlatent g) :
    g ∈ c.grid ∧ e.time ≤ g ∧ ∀ g' ∈ c.grid, e.time ≤ g' → g ≤ g' := by
  rw [bucket_split] at h
  have := (List.mem_filter.mp h).2
  exact bucket_spec c.grid (mkGrid_strict c.timesteps) e.time g (by simpa using this)

end

/-! ## Part 2 — the environment -/
section
variable {α : Type} [Add α] [Sub α] [Mul α] [Div α] [Neg α] [LT α] [LE α]
  [DecidableLT α] [DecidableLE α] [DecidableEq α] [OfNat α 0] [OfNat α 1] [OfNat α 2]
  [IntCast α] [HasTrunc α]

/-- what `reset` delivers and how it leaves the cursor -/
theorem reset_delivery (cfg : EnvCfg α) (lo hi : Time) (start : Nat) (clk : Option Time)
    (cur : Time) (rest : List Time)
    (hsteps : cfg.tx.episodeSteps lo hi cfg.episodeLen start = cur :: rest) :
    marketLog (envReset cfg lo hi start clk).log
      = ((cfg.tx.firstBatch cur).1 ++ (cfg.tx.firstBatch cur).2).map entryOf ∧
    LogOK (envReset cfg lo hi start clk).log ∧ (envReset cfg lo hi start clk).steps = cur :: rest ∧
    (rest = [] → (envReset cfg lo hi start clk).done = true) ∧
    (∀ nxt more, rest = nxt :: more →
      (envReset cfg lo hi start clk).done = false ∧ (envReset cfg lo hi start clk).cursor = 2 ∧
      (envReset cfg lo hi start clk).pendLat = cfg.tx.latent nxt ∧
      (envReset cfg lo hi start clk).pendNon = cfg.tx.nonlatent nxt) := by
  unfold envReset
  simp only [hsteps, List.getElem?_cons_zero]
  -- the state handed to the batch processors
  generalize hb : (({ ({ (Broker.init cfg.deposit : Broker α) with
      ex := (Broker.init cfg.deposit : Broker α).ex.step (.quote cfg.world.rateKey 0 (some 0) (some 0)) } : Broker α) with
      ex := { (({ (Broker.init cfg.deposit : Broker α) with
        ex := (Broker.init cfg.deposit : Broker α).ex.step (.quote cfg.world.rateKey 0 (some 0) (some 0)) } : Broker α)).ex
          with lastUpdate := none } } : Broker α)) = b1
  set s1 : EnvState α :=
    { broker := b1, queue := List.replicate cfg.delay (nullAction cfg.space), steps := cur :: rest,
      contractClock := clk, pendLat := (cfg.tx.firstBatch cur).1, pendNon := (cfg.tx.firstBatch cur).2,
      cursor := 1 } with hs1
  obtain ⟨l1, l2, l3, l4, l5, l6, l7, l8⟩ := processLatent_spec s1
  have hc : (processLatent s1).cursor ≠ 0 := by rw [l4]; simp [hs1]
  obtain ⟨n1, n2, n3, n4, n5, n6⟩ := processNonlatent_spec cfg (processLatent s1) hc
  set s2 := processNonlatent cfg (processLatent s1) with hs2
  have hlog0 : LogOK s1.log := by intro e he; simp [hs1] at he
  have hm2 : marketLog s2.log = ((cfg.tx.firstBatch cur).1 ++ (cfg.tx.firstBatch cur).2).map entryOf := by
    rw [n1, l1, l6]; simp [hs1, marketLog]
  have hok2 : LogOK s2.log := n2 (l2 hlog0)
  have hst2 : s2.steps = cur :: rest := by rw [n3, l3]
  rw [l3, l4] at n5 n6
  have key : ∀ s3 : EnvState α, marketLog s3.log = marketLog s2.log → LogOK s3.log →
      s3.steps = s2.steps → s3.done = s2.done → s3.cursor = s2.cursor → s3.pendLat = s2.pendLat →
      s3.pendNon = s2.pendNon →
      marketLog s3.log = ((cfg.tx.firstBatch cur).1 ++ (cfg.tx.firstBatch cur).2).map entryOf ∧
      LogOK s3.log ∧ s3.steps = cur :: rest ∧ (rest = [] → s3.done = true) ∧
      (∀ nxt more, rest = nxt :: more → s3.done = false ∧ s3.cursor = 2 ∧
        s3.pendLat = cfg.tx.latent nxt ∧ s3.pendNon = cfg.tx.nonlatent nxt) := by
    intro s3 e1 e2 e3 e4 e5 e6 e7
    refine ⟨e1.trans hm2, e2, e3.trans hst2, ?_, ?_⟩
    · intro hr
      have := (n5 (by simp [hs1, hr])).1
      rw [e4]; exact this
    · intro nxt more hr
      obtain ⟨a1, a2, a3, a4⟩ := n6 nxt (by simp [hs1, hr])
      exact ⟨by rw [e4, a1, l7], by rw [e5, a2], by rw [e6]; exact a3, by rw [e7]; exact a4⟩
  obtain ⟨f1, f2, f3, f4, f5, _⟩ := notify_frame s2 .reset s2.now none
  have m3 : marketLog (notify s2 .reset s2.now none).log = marketLog s2.log := by
    rw [notify_market]; simp [isMarket]
  split_ifs with hd
  · obtain ⟨g1, g2, g3, g4, g5, _⟩ := notify_frame (notify s2 .reset s2.now none) .done (notify s2 .reset s2.now none).now none
    apply key
    · rw [notify_market]; simp [isMarket, m3]
    · exact notify_logOK _ _ _ _ (notify_logOK _ _ _ _ hok2)
    · rw [g1, f1]
    · rw [g5, f5]
    · rw [g2, f2]
    · rw [g3, f3]
    · rw [g4, f4]
  · exact key _ m3 (notify_logOK _ _ _ _ hok2) f1 f5 f2 f3 f4

/-- `stepPre`: the latent batch is delivered (before the execution), nothing else -/
theorem stepPre_spec (s : EnvState α) (a : Action α) :
    marketLog (stepPre s a).1.log = marketLog s.log ++ s.pendLat.map entryOf ∧
    (LogOK s.log → LogOK (stepPre s a).1.log) ∧ (stepPre s a).1.steps = s.steps ∧
    (stepPre s a).1.cursor = s.cursor ∧ (stepPre s a).1.pendNon = s.pendNon ∧ (stepPre s a).1.done = s.done := by
  unfold stepPre
  obtain ⟨l1, l2, l3, l4, l5, l6, l7, l8⟩ :=
    processLatent_spec ({ s with contractClock := s.now, queue := (a :: s.queue).dropLast } : EnvState α)
  exact ⟨l1, l2, l3, l4, l6, l7⟩

/-- `stepExec` (membership test, request, `Broker.rebalance`) delivers nothing -/
theorem stepExec_spec (pw : α → α → α) (cfg : EnvCfg α) (s1 : EnvState α) (act : Action α) :
    (stepExec pw cfg s1 act).1.log = s1.log ∧ (stepExec pw cfg s1 act).1.steps = s1.steps ∧
    (stepExec pw cfg s1 act).1.cursor = s1.cursor ∧ (stepExec pw cfg s1 act).1.pendNon = s1.pendNon ∧
    (stepExec pw cfg s1 act).1.pendLat = s1.pendLat ∧ (stepExec pw cfg s1 act).1.queue = s1.queue ∧
    (stepExec pw cfg s1 act).1.now = s1.now := by
  unfold stepExec
  split
  · exact ⟨rfl, rfl, rfl, rfl, rfl, rfl, rfl⟩
  · split <;> exact ⟨rfl, rfl, rfl, rfl, rfl, rfl, rfl⟩

/-- `stepFinish`: the non-latent batch is delivered (after the execution), the next batches are loaded -/
theorem stepFinish_spec (lg : α → α) (cfg : EnvCfg α) (s2 s' : EnvState α) (tr : Bool) (out : StepOut α)
    (hc : s2.cursor ≠ 0) (h : stepFinish lg cfg s2 tr = (s', .ok out)) :
    marketLog s'.log = marketLog s2.log ++ s2.pendNon.map entryOf ∧ (LogOK s2.log → LogOK s'.log) ∧
    s'.steps = s2.steps ∧ (s2.steps[s2.cursor]? = none → s'.done = true) ∧
    (∀ cur, s2.steps[s2.cursor]? = some cur →
      s'.cursor = s2.cursor + 1 ∧ s'.pendLat = cfg.tx.latent cur ∧ s'.pendNon = cfg.tx.nonlatent cur) := by
  unfold stepFinish at h
  obtain ⟨n1, n2, n3, n4, n5, n6⟩ := processNonlatent_spec cfg s2 hc
  set s3 := processNonlatent cfg s2 with hs3
  simp only at h
  cases hr : rewardOf lg cfg s3.broker with
  | mk b4 res =>
    rw [hr] at h
    cases res with
    | error e => simp at h
    | ok r =>
      simp only at h
      set s4 : EnvState α := { s3 with broker := b4 } with hs4
      obtain ⟨f1, f2, f3, f4, f5, _⟩ := notify_frame s4 .step s3.now none
      have m5 : marketLog (notify s4 .step s3.now none).log = marketLog s3.log := by
        rw [notify_market]; simp [isMarket, hs4]
      have ok5 : LogOK s3.log → LogOK (notify s4 .step s3.now none).log := fun h0 => notify_logOK s4 _ _ _ h0
      have key : ∀ s6 : EnvState α, marketLog s6.log = marketLog s3.log → (LogOK s3.log → LogOK s6.log) →
          s6.steps = s3.steps → s6.done = s3.done → s6.cursor = s3.cursor → s6.pendLat = s3.pendLat →
          s6.pendNon = s3.pendNon → s6 = s' →
          marketLog s'.log = marketLog s2.log ++ s2.pendNon.map entryOf ∧ (LogOK s2.log → LogOK s'.log) ∧
          s'.steps = s2.steps ∧ (s2.steps[s2.cursor]? = none → s'.done = true) ∧
          (∀ cur, s2.steps[s2.cursor]? = some cur →
            s'.cursor = s2.cursor + 1 ∧ s'.pendLat = cfg.tx.latent cur ∧ s'.pendNon = cfg.tx.nonlatent cur) := by
        intro s6 g1 g2 g3 g4 g5 g6 g7 heq
        subst heq
        refine ⟨g1.trans n1, fun h0 => g2 (n2 h0), g3.trans n3, ?_, ?_⟩
        · intro hn; rw [g4]; exact (n5 hn).1
        · intro cur hcur
          obtain ⟨a1, a2, a3, a4⟩ := n6 cur hcur
          exact ⟨by rw [g5]; exact a2, by rw [g6]; exact a3, by rw [g7]; exact a4⟩
      split_ifs at h with hdone
      · obtain ⟨k1, k2, k3, k4, k5, _⟩ :=
          notify_frame (notify s4 .step s3.now none) .done (notify s4 .step s3.now none).now none
        apply key _ _ _ _ _ _ _ _ (congrArg Prod.fst h)
        · rw [notify_market]; simp [isMarket, m5]
        · intro h0; exact notify_logOK _ _ _ _ (ok5 h0)
        · rw [k1, f1]
        · rw [k5, f5]
        · rw [k2, f2]
        · rw [k3, f3]
        · rw [k4, f4]
      · exact key _ m5 ok5 f1 f5 f2 f3 f4 (congrArg Prod.fst h)

/-- **What a successful `step` delivers**: exactly the pending latent batch before the execution, then the
    pending non-latent batch after it — each event once, in timestamp order, with `env.now()` equal to the
    event's time in every dispatch; then the next timestep's batches are loaded (or the episode ends). -/
theorem step_delivery (pw : α → α → α) (lg : α → α) (cfg : EnvCfg α) (s s' : EnvState α) (a : Action α)
    (out : StepOut α) (hc : s.cursor ≠ 0) (h : envStep pw lg cfg s a = (s', .ok out)) :
    marketLog s'.log = marketLog s.log ++ (s.pendLat ++ s.pendNon).map entryOf ∧
    (LogOK s.log → LogOK s'.log) ∧ s'.steps = s.steps ∧
    (s.steps[s.cursor]? = none → s'.done = true) ∧
    (∀ cur, s.steps[s.cursor]? = some cur →
      s'.cursor = s.cursor + 1 ∧ s'.pendLat = cfg.tx.latent cur ∧ s'.pendNon = cfg.tx.nonlatent cur) := by
  unfold envStep at h
  by_cases hd : s.done = true
  · simp [hd] at h
  simp only [hd, Bool.false_eq_true, if_false] at h
  obtain ⟨p1, p2, p3, p4, p5, p6⟩ := stepPre_spec s a
  obtain ⟨x1, x2, x3, x4, x5, x6, x7⟩ := stepExec_spec pw cfg (stepPre s a).1 (stepPre s a).2
  cases hx : stepExec pw cfg (stepPre s a).1 (stepPre s a).2 with
  | mk s2 res =>
    rw [hx] at h x1 x2 x3 x4
    simp only at x1 x2 x3 x4
    cases res with
    | error e => simp at h
    | ok tr =>
      simp only at h
      have hc2 : s2.cursor ≠ 0 := by rw [x3, p4]; exact hc
      obtain ⟨f1, f2, f3, f4, f5⟩ := stepFinish_spec lg cfg s2 s' tr out hc2 h
      rw [x2, x3, p3, p4] at f4 f5
      refine ⟨?_, ?_, by rw [f3, x2, p3], f4, f5⟩
      · rw [f1, x1, p1, x4, p5]; simp [List.map_append]
      · intro h0; exact f2 (by rw [x1]; exact p2 h0)

/-- **During every dispatch `env.now()` equals the event's time**, for everything `reset` and any sequence
    of `step` calls (successful or not) hand to the observers.  Stated for the successful path; the failing
    paths write through the same `notify`. -/
theorem clock_eq_event_time (cfg : EnvCfg α) (lo hi : Time) (start : Nat) (clk : Option Time)
    (cur : Time) (rest : List Time)
    (hsteps : cfg.tx.episodeSteps lo hi cfg.episodeLen start = cur :: rest) :
    LogOK (envReset cfg lo hi start clk).log :=
  (reset_delivery cfg lo hi start clk cur rest hsteps).2.1

/-- run a list of actions, stopping at the first `step` that does not return normally -/
def runSteps (pw : α → α → α) (lg : α → α) (cfg : EnvCfg α) : EnvState α → List (Action α) → Option (EnvState α)
  | s, [] => some s
  | s, a :: as =>
      match envStep pw lg cfg s a with
      | (s', .ok _) => runSteps pw lg cfg s' as
      | (_, .error _) => none

/-- the events an episode must have delivered after `reset` and `k` steps: the reset batch, then for each of
    the next `k` timesteps its latent batch followed by its non-latent batch -/
def deliveredUpTo (cfg : EnvCfg α) (cur : Time) (rest : List Time) (k : Nat) : List (TEvent (Payload α)) :=
  (cfg.tx.firstBatch cur).1 ++ (cfg.tx.firstBatch cur).2 ++
    (rest.take k).flatMap (fun g => cfg.tx.latent g ++ cfg.tx.nonlatent g)

/-- invariant of an episode after `j` successful steps -/
def EpInv (cfg : EnvCfg α) (cur : Time) (rest : List Time) (s : EnvState α) (j : Nat) : Prop :=
  marketLog s.log = (deliveredUpTo cfg cur rest j).map entryOf ∧ LogOK s.log ∧ s.steps = cur :: rest ∧
  (rest.length ≤ j → s.done = true) ∧
  (∀ nxt, rest[j]? = some nxt → s.cursor = j + 2 ∧ s.pendLat = cfg.tx.latent nxt ∧ s.pendNon = cfg.tx.nonlatent nxt)

theorem epInv_reset (cfg : EnvCfg α) (lo hi : Time) (start : Nat) (clk : Option Time) (cur : Time) (rest : List Time)
    (hsteps : cfg.tx.episodeSteps lo hi cfg.episodeLen start = cur :: rest) :
    EpInv cfg cur rest (envReset cfg lo hi start clk) 0 := by
  obtain ⟨h1, h2, h3, h4, h5⟩ := reset_delivery cfg lo hi start clk cur rest hsteps
  refine ⟨by rw [h1]; simp [deliveredUpTo], h2, h3, ?_, ?_⟩
  · intro hl
    exact h4 (List.length_eq_zero_iff.mp (Nat.le_zero.mp hl))
  · intro nxt hn
    cases rest with
    | nil => simp at hn
    | cons x xs =>
        simp only [List.getElem?_cons_zero, Option.some.injEq] at hn
        subst hn
        obtain ⟨_, a2, a3, a4⟩ := h5 x xs rfl
        exact ⟨a2, a3, a4⟩

theorem epInv_step (pw : α → α → α) (lg : α → α) (cfg : EnvCfg α) (cur : Time) (rest : List Time)
    (s s' : EnvState α) (a : Action α) (out : StepOut α) (j : Nat) (hinv : EpInv cfg cur rest s j)
    (h : envStep pw lg cfg s a = (s', .ok out)) : j < rest.length ∧ EpInv cfg cur rest s' (j + 1) := by
  obtain ⟨i1, i2, i3, i4, i5⟩ := hinv
  -- a successful step means the episode was not over
  have hnd : s.done = false := by
    by_contra hd
    have hd' : s.done = true := by simpa using hd
    unfold envStep at h
    simp [hd'] at h
  have hj : j < rest.length := by
    by_contra hge
    have := i4 (Nat.le_of_not_lt hge)
    rw [this] at hnd; cases hnd
  obtain ⟨nxt, hnxt⟩ : ∃ nxt, rest[j]? = some nxt := ⟨rest[j], List.getElem?_eq_getElem hj⟩
  obtain ⟨c1, c2, c3⟩ := i5 nxt hnxt
  have hc : s.cursor ≠ 0 := by rw [c1]; omega
  obtain ⟨d1, d2, d3, d4, d5⟩ := step_delivery pw lg cfg s s' a out hc h
  refine ⟨hj, ?_, d2 i2, d3.trans i3, ?_, ?_⟩
  · rw [d1, i1, c2, c3]
    unfold deliveredUpTo
    rw [List.take_succ, hnxt]
    simp [List.flatMap_append, List.map_append]
  · intro hl
    apply d4
    rw [i3, c1]
    show (cur :: rest)[j + 2]? = none
    rw [List.getElem?_cons_succ]
    exact List.getElem?_eq_none (by omega)
  · intro n2 hn2
    have : s.steps[s.cursor]? = some n2 := by
      rw [i3, c1]
      show (cur :: rest)[j + 2]? = some n2
      rw [List.getElem?_cons_succ]; exact hn2
    obtain ⟨e1, e2, e3⟩ := d5 n2 this
    exact ⟨by rw [e1, c1], e2, e3⟩

/-- **Episode delivery**: after `reset` and any number `k` of successful steps, the market events handed to
    the observers are exactly the reset batch followed, timestep by timestep, by the latent and then the
    non-latent batch of each of the next `k` event-bearing timesteps of the episode — every one of them
    once, none beyond the `k`-th timestep, with `env.now() = event.time` in every dispatch; and no more
    than `len(steps) - 1` steps can succeed. -/
theorem episode_delivery (pw : α → α → α) (lg : α → α) (cfg : EnvCfg α) (lo hi : Time) (start : Nat)
    (clk : Option Time) (cur : Time) (rest : List Time)
    (hsteps : cfg.tx.episodeSteps lo hi cfg.episodeLen start = cur :: rest)
    (as : List (Action α)) (s' : EnvState α)
    (hrun : runSteps pw lg cfg (envReset cfg lo hi start clk) as = some s') :
    as.length ≤ rest.length ∧
    marketLog s'.log = (deliveredUpTo cfg cur rest as.length).map entryOf ∧ LogOK s'.log := by
  have gen : ∀ (as : List (Action α)) (s : EnvState α) (j : Nat), j ≤ rest.length → EpInv cfg cur rest s j →
      runSteps pw lg cfg s as = some s' → j + as.length ≤ rest.length ∧ EpInv cfg cur rest s' (j + as.length) := by
    intro as
    induction as with
    | nil =>
        intro s j hjl hinv hr
        simp only [runSteps, Option.some.injEq] at hr
        subst hr
        exact ⟨by simpa using hjl, by simpa using hinv⟩
    | cons a as ih =>
        intro s j hjl hinv hr
        simp only [runSteps] at hr
        cases hstep : envStep pw lg cfg s a with
        | mk s1 res =>
          rw [hstep] at hr
          cases res with
          | error e => simp at hr
          | ok out =>
            simp only at hr
            obtain ⟨hj, hinv1⟩ := epInv_step pw lg cfg cur rest s s1 a out j hinv hstep
            obtain ⟨hle, hfin⟩ := ih s1 (j + 1) hj hinv1 hr
            refine ⟨by simp only [List.length_cons]; omega, ?_⟩
            have : j + (a :: as).length = j + 1 + as.length := by simp only [List.length_cons]; omega
            rw [this]; exact hfin
  obtain ⟨hle, hinv⟩ := gen as _ 0 (Nat.zero_le _) (epInv_reset cfg lo hi start clk cur rest hsteps) hrun
  simp only [Nat.zero_add] at hle hinv
  exact ⟨hle, hinv.1, hinv.2.1⟩

end
end TV
