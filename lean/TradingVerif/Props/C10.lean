/-
  C10 — episodes are reproducible and environments are isolated.

  The only state shared between environments of one process is the contract clock
  (`AbstractContract.now`, field `contractClock`).  `SameButClock s s'` says two environment states agree
  on everything else.
-/
import TradingVerif.Props.C04
import TradingVerif.Model.Legacy
import TradingVerif.Lemmas.IntInst
set_option linter.unusedSectionVars false
set_option linter.unusedVariables false
namespace TV
section
variable {α : Type} [Add α] [Sub α] [Mul α] [Div α] [Neg α] [LT α] [LE α]
  [DecidableLT α] [DecidableLE α] [DecidableEq α] [OfNat α 0] [OfNat α 1] [OfNat α 2]
  [IntCast α] [HasTrunc α]

def SameButClock (s s' : EnvState α) : Prop :=
  ({ s with contractClock := none } : EnvState α) = { s' with contractClock := none }

theorem SameButClock.refl (s : EnvState α) : SameButClock s s := rfl

theorem sameButClock_set (s : EnvState α) (c : Option Time) : SameButClock { s with contractClock := c } s := rfl

theorem SameButClock.fields {s s' : EnvState α} (h : SameButClock s s') :
    s.broker = s'.broker ∧ s.now = s'.now ∧ s.lastEvent = s'.lastEvent ∧ s.done = s'.done ∧
    s.queue = s'.queue ∧ s.pendLat = s'.pendLat ∧ s.pendNon = s'.pendNon ∧ s.steps = s'.steps ∧
    s.cursor = s'.cursor ∧ s.log = s'.log := by
  unfold SameButClock at h
  cases s; cases s'
  simp only [EnvState.mk.injEq] at h
  obtain ⟨h1, h2, h3, h4, h5, h6, h7, h8, h9, h10, _⟩ := h
  exact ⟨h1, h2, h3, h4, h5, h6, h7, h8, h9, h10⟩

theorem SameButClock.of_fields {s s' : EnvState α}
    (h : s.broker = s'.broker ∧ s.now = s'.now ∧ s.lastEvent = s'.lastEvent ∧ s.done = s'.done ∧
      s.queue = s'.queue ∧ s.pendLat = s'.pendLat ∧ s.pendNon = s'.pendNon ∧ s.steps = s'.steps ∧
      s.cursor = s'.cursor ∧ s.log = s'.log) : SameButClock s s' := by
  unfold SameButClock
  cases s; cases s'
  simp only at h
  obtain ⟨h1, h2, h3, h4, h5, h6, h7, h8, h9, h10⟩ := h
  simp [h1, h2, h3, h4, h5, h6, h7, h8, h9, h10]

/-- every notification overwrites the contract clock before anything reads it -/
theorem notify_mod_clock (s s' : EnvState α) (h : SameButClock s s') (k : LogKind) (t : Option Time)
    (m : Option (MEvent α)) : notify s k t m = notify s' k t m := by
  obtain ⟨h1, h2, h3, h4, h5, h6, h7, h8, h9, h10⟩ := h.fields
  unfold notify isNewDate dispatch
  cases s; cases s'
  simp only at h1 h2 h3 h4 h5 h6 h7 h8 h9 h10
  subst h1 h2 h3 h4 h5 h6 h7 h8 h9 h10
  simp only
  split_ifs <;> rfl

theorem notifyEvent_mod_clock (s s' : EnvState α) (h : SameButClock s s') (e : TEvent (Payload α)) :
    notifyEvent s e = notifyEvent s' e := by
  unfold notifyEvent
  cases e.payload <;> exact notify_mod_clock s s' h _ _ _

theorem foldl_notifyEvent_mod_clock (l : List (TEvent (Payload α))) (s s' : EnvState α) (h : SameButClock s s') :
    SameButClock (l.foldl notifyEvent s) (l.foldl notifyEvent s') := by
  cases l with
  | nil => exact h
  | cons e es =>
      simp only [List.foldl_cons]
      rw [notifyEvent_mod_clock s s' h e]
      exact SameButClock.refl _

theorem processLatent_mod_clock (s s' : EnvState α) (h : SameButClock s s') :
    SameButClock (processLatent s) (processLatent s') := by
  unfold processLatent
  obtain ⟨_, _, _, _, _, h6, _⟩ := h.fields
  rw [h6]
  have := (foldl_notifyEvent_mod_clock s'.pendLat s s' h).fields
  exact SameButClock.of_fields ⟨this.1, this.2.1, this.2.2.1, this.2.2.2.1, this.2.2.2.2.1, rfl,
    this.2.2.2.2.2.2.1, this.2.2.2.2.2.2.2.1, this.2.2.2.2.2.2.2.2.1, this.2.2.2.2.2.2.2.2.2⟩

theorem processNonlatent_mod_clock (cfg : EnvCfg α) (s s' : EnvState α) (h : SameButClock s s') :
    SameButClock (processNonlatent cfg s) (processNonlatent cfg s') := by
  unfold processNonlatent
  obtain ⟨_, _, _, _, _, _, h7, _⟩ := h.fields
  rw [h7]
  obtain ⟨f1, f2, f3, f4, f5, f6, f7, f8, f9, f10⟩ := (foldl_notifyEvent_mod_clock s'.pendNon s s' h).fields
  simp only [f8, f9]
  split
  · exact SameButClock.of_fields ⟨f1, f2, f3, rfl, f5, f6, f7, rfl, rfl, f10⟩
  · exact SameButClock.of_fields ⟨f1, f2, f3, f4, f5, rfl, rfl, rfl, rfl, f10⟩

/-- **`reset` forgets everything**: the state after `reset` is a function of the configuration, the fold
    window and the sampled start only — in particular not of whatever another environment left in the
    shared contract clock (and, by construction of `envReset`, of no earlier episode). -/
theorem reset_ignores_clock (cfg : EnvCfg α) (lo hi : Time) (start : Nat) (c1 c2 : Option Time) :
    envReset cfg lo hi start c1 = envReset cfg lo hi start c2 := by
  unfold envReset
  simp only
  -- the two initial states differ in the clock only; the reset notification then overwrites it
  have key : ∀ s s' : EnvState α, SameButClock s s' →
      (let s3 := notify (processNonlatent cfg (processLatent s)) .reset (processNonlatent cfg (processLatent s)).now none
       if s3.done then notify s3 .done s3.now none else s3) =
      (let s3 := notify (processNonlatent cfg (processLatent s')) .reset (processNonlatent cfg (processLatent s')).now none
       if s3.done then notify s3 .done s3.now none else s3) := by
    intro s s' h
    have h2 := processNonlatent_mod_clock cfg _ _ (processLatent_mod_clock s s' h)
    have hnow := h2.fields.2.1
    simp only
    rw [notify_mod_clock _ _ h2, hnow]
  cases (cfg.tx.episodeSteps lo hi cfg.episodeLen start)[0]? with
  | none => exact key _ _ rfl
  | some cur => exact key _ _ rfl

/-- **Isolation, one call**: the result of `step` — what is returned and the whole state it leaves, except
    the clock itself — does not depend on the value another environment left in the shared contract clock,
    because `step` re-asserts its own time first (repair F9). -/
theorem envStep_mod_clock (pw : α → α → α) (lg : α → α) (cfg : EnvCfg α) (s s' : EnvState α) (a : Action α)
    (h : SameButClock s s') :
    (envStep pw lg cfg s a).2 = (envStep pw lg cfg s' a).2 ∧
    SameButClock (envStep pw lg cfg s a).1 (envStep pw lg cfg s' a).1 := by
  obtain ⟨h1, h2, h3, h4, h5, h6, h7, h8, h9, h10⟩ := h.fields
  have hpre : stepPre s a = stepPre s' a := by
    unfold stepPre
    cases s; cases s'
    simp only at h1 h2 h3 h4 h5 h6 h7 h8 h9 h10
    subst h1 h2 h3 h4 h5 h6 h7 h8 h9 h10
    rfl
  unfold envStep
  rw [h4, hpre]
  split_ifs
  · exact ⟨rfl, h⟩
  · exact ⟨rfl, SameButClock.refl _⟩

/-- run a sequence of calls while, before each call, *something else* overwrites the shared clock -/
def runPerturbed (pw : α → α → α) (lg : α → α) (cfg : EnvCfg α) :
    EnvState α → List (Option Time × Action α) → List (Except Err (StepOut α))
  | _, [] => []
  | s, (c, a) :: rest =>
      let r := envStep pw lg cfg { s with contractClock := c } a
      r.2 :: runPerturbed pw lg cfg r.1 rest

def runSolo (pw : α → α → α) (lg : α → α) (cfg : EnvCfg α) :
    EnvState α → List (Action α) → List (Except Err (StepOut α))
  | _, [] => []
  | s, a :: rest =>
      let r := envStep pw lg cfg s a
      r.2 :: runSolo pw lg cfg r.1 rest

/-- **Isolation, any interleaving**: whatever another environment writes into the shared contract clock
    between this environment's calls (any values, any number of calls, by induction), every `step` of
    this environment returns exactly what it returns when the environment runs alone. -/
theorem isolation (pw : α → α → α) (lg : α → α) (cfg : EnvCfg α) (l : List (Option Time × Action α))
    (s s' : EnvState α) (h : SameButClock s s') :
    runPerturbed pw lg cfg s l = runSolo pw lg cfg s' (l.map (·.2)) := by
  induction l generalizing s s' with
  | nil => rfl
  | cons ca rest ih =>
      obtain ⟨c, a⟩ := ca
      simp only [runPerturbed, runSolo, List.map_cons]
      have hh : SameButClock ({ s with contractClock := c } : EnvState α) s' := by
        have := sameButClock_set s c
        unfold SameButClock at this h ⊢
        rw [this]; exact h
      obtain ⟨e1, e2⟩ := envStep_mod_clock pw lg cfg _ s' a hh
      rw [e1, ih _ _ e2]

/-- the calls one environment object can receive during its lifetime; `clock` is whatever another
    environment of the process wrote into the shared contract clock just before the call -/
inductive LifeOp (α : Type) where
  | reset (lo hi : Time) (start : Nat) (clock : Option Time)
  | step (a : Action α) (clock : Option Time)

/-- the lifetime of one environment object: any number of episodes - completed, abandoned mid-way (a `reset`
    may come at any point) or ended by an error (a refused `step` leaves a state, the next call continues from it) -/
def runLife (pw : α → α → α) (lg : α → α) (cfg : EnvCfg α) : EnvState α → List (LifeOp α) → EnvState α
  | s, [] => s
  | s, .reset lo hi start c :: rest =>
      runLife pw lg cfg (envReset cfg lo hi start ({ s with contractClock := c } : EnvState α).contractClock) rest
  | s, .step a c :: rest => runLife pw lg cfg (envStep pw lg cfg { s with contractClock := c } a).1 rest

/-- what an episode produces: the state right after `reset` and the result of every `step` -/
def episodeResults (pw : α → α → α) (lg : α → α) (cfg : EnvCfg α) (prev : EnvState α) (lo hi : Time) (start : Nat)
    (as : List (Action α)) : EnvState α × List (Except Err (StepOut α)) :=
  let s0 := envReset cfg lo hi start prev.contractClock
  (s0, runSolo pw lg cfg s0 as)

/-- **Replay after any lifetime**: the episode produced by `reset` + the actions `as` is the same whatever the
    environment object went through before - any two earlier lifetimes `h1`, `h2` (each any number of completed,
    abandoned or failed episodes, with any interference on the shared clock), from any two starting states;
    `h2 = []` on a fresh state is the freshly built identical environment. -/
theorem replay_after_any_lifetime (pw : α → α → α) (lg : α → α) (cfg : EnvCfg α) (s1 s2 : EnvState α)
    (h1 h2 : List (LifeOp α)) (lo hi : Time) (start : Nat) (as : List (Action α)) :
    episodeResults pw lg cfg (runLife pw lg cfg s1 h1) lo hi start as =
    episodeResults pw lg cfg (runLife pw lg cfg s2 h2) lo hi start as := by
  unfold episodeResults
  simp only
  rw [reset_ignores_clock cfg lo hi start (runLife pw lg cfg s1 h1).contractClock
    (runLife pw lg cfg s2 h2).contractClock]

/-- ... and the replayed episode may itself be interleaved with another environment's calls (`clocks`): every
    `step` still returns what the undisturbed first run returned -/
theorem replay_after_any_lifetime_perturbed (pw : α → α → α) (lg : α → α) (cfg : EnvCfg α) (s1 s2 : EnvState α)
    (h1 h2 : List (LifeOp α)) (lo hi : Time) (start : Nat) (l : List (Option Time × Action α)) :
    runPerturbed pw lg cfg (envReset cfg lo hi start (runLife pw lg cfg s1 h1).contractClock) l =
    (episodeResults pw lg cfg (runLife pw lg cfg s2 h2) lo hi start (l.map (·.2))).2 := by
  unfold episodeResults
  simp only
  rw [reset_ignores_clock cfg lo hi start (runLife pw lg cfg s1 h1).contractClock
    (runLife pw lg cfg s2 h2).contractClock]
  exact isolation pw lg cfg l _ _ (SameButClock.refl _)

/-- the partitions (and the whole configuration) are not part of the state: no episode can change them -/
theorem partitions_immutable (pw : α → α → α) (lg : α → α) (cfg : EnvCfg α) (s : EnvState α) (a : Action α) :
    ∀ g, cfg.tx.latent g = cfg.tx.latent g ∧ cfg.tx.nonlatent g = cfg.tx.nonlatent g := fun _ => ⟨rfl, rfl⟩

end

/-! ### mutant witness (F9): without the re-assertion, another environment's clock changes the lead contract -/

def f9cfg : EnvCfg Int :=
  { world := { spec := fun _ => { mult := 1, cashReq := 1, mr := 0 }, fixed := 0, prop := 0, markup := 0,
               rateKey := "RATE", eps := 0 }
    chains := [("@c", { contracts := [(10, "C1"), (100, "C2")] })]
    deposit := 100
    tx := { timesteps := [0, 1, 2]
            events := [⟨0, .market (.quote "C1" 0 (some 10) (some 10))⟩, ⟨0, .market (.quote "C2" 0 (some 20) (some 20))⟩,
                       ⟨1, .market (.quote "C1" 1 (some 10) (some 10))⟩, ⟨1, .market (.quote "C2" 1 (some 20) (some 20))⟩,
                       ⟨2, .market (.quote "C1" 2 (some 10) (some 10))⟩, ⟨2, .market (.quote "C2" 2 (some 20) (some 20))⟩] }
    space := { keys := ["@c"], kind := .box 0 1, margin := 0 }
    reward := .pnl }

/-- alone the environment buys the lead contract `C1`; with the clock left at 50 by another environment
    the pre-repair step buys `C2`, the repaired one still buys `C1` -/
theorem isolation_chain_counterexample :
    let s0 := envReset f9cfg (-10) 10 0 none
    let solo := (envStep (fun x _ => x) id f9cfg s0 (.vec [some 1])).1
    let fixed := (envStep (fun x _ => x) id f9cfg { s0 with contractClock := some 50 } (.vec [some 1])).1
    let legacy := (Legacy.envStep (fun x _ => x) id f9cfg { s0 with contractClock := some 50 } (.vec [some 1])).1
    solo.broker.held = ["C1"] ∧ fixed.broker.held = ["C1"] ∧ legacy.broker.held = ["C2"] := by
  decide +kernel

end TV
