/-
  C17 — only in-space actions are executed, as the allocation they denote.
-/
import TradingVerif.Lemmas.EnvStep
import TradingVerif.Props.C08
import TradingVerif.Props.C03
import Mathlib.Algebra.Order.Field.Rat
import Mathlib.Tactic.NormNum
set_option linter.unusedSectionVars false
set_option linter.unusedVariables false
namespace TV
section
variable {K : Type} [Field K] [LinearOrder K] [IsStrictOrderedRing K] [HasTrunc K]

/-- membership in a box space: right length, every entry a number (not NaN) within the bounds -/
theorem contains_box (sp : Space K) (lo hi : K) (hk : sp.kind = .box lo hi) (v : List (Option K)) :
    contains sp (.vec v) = true ↔
      v.length = sp.keys.length ∧ ∀ x ∈ v, ∃ y, x = some y ∧ lo ≤ y ∧ y ≤ hi := by
  unfold contains
  simp only [hk, Bool.and_eq_true, decide_eq_true_eq, List.all_eq_true]
  constructor
  · rintro ⟨h1, h2⟩
    refine ⟨h1, ?_⟩
    intro x hx
    have := h2 x hx
    cases x with
    | none => simp at this
    | some y => exact ⟨y, rfl, by simpa using this⟩
  · rintro ⟨h1, h2⟩
    refine ⟨h1, ?_⟩
    intro x hx
    obtain ⟨y, rfl, hy⟩ := h2 x hx
    simpa using hy

/-- membership in a box whose contracts have their own bounds: right length, every entry a number within the
    bounds *of its own contract* -/
theorem contains_boxv (sp : Space K) (bs : List (K × K)) (hk : sp.kind = .boxv bs) (v : List (Option K))
    (hb : bs.length = sp.keys.length) :
    contains sp (.vec v) = true ↔
      v.length = sp.keys.length ∧ ∀ p ∈ v.zip bs, ∃ y, p.1 = some y ∧ p.2.1 ≤ y ∧ y ≤ p.2.2 := by
  unfold contains
  simp only [hk, hb, decide_true, Bool.and_true, Bool.and_eq_true, decide_eq_true_eq, List.all_eq_true]
  constructor
  · rintro ⟨h1, h2⟩
    refine ⟨h1, ?_⟩
    intro p hp
    have := h2 p hp
    cases hx : p.1 with
    | none => rw [hx] at this; simp at this
    | some y => rw [hx] at this; exact ⟨y, rfl, by simpa using this⟩
  · rintro ⟨h1, h2⟩
    refine ⟨h1, ?_⟩
    intro p hp
    obtain ⟨y, hy, hl⟩ := h2 p hp
    rw [hy]
    simpa using hl

/-- membership in a discrete space: an integer index in `[0, n)` -/
theorem contains_discrete (sp : Space K) (allocs : List (List K)) (hk : sp.kind = .disc allocs) (i : Int) :
    contains sp (.idx i) = true ↔ 0 ≤ i ∧ i < allocs.length := by
  unfold contains
  simp [hk]

/-- anything that is neither a vector nor an index, a vector offered to a discrete space, an index offered
    to a box space: never a member -/
theorem contains_wrong_kind (sp : Space K) :
    contains sp .junk = false ∧
    (∀ allocs v, sp.kind = .disc allocs → contains sp (.vec v) = false) ∧
    (∀ lo hi i, sp.kind = .box lo hi → contains sp (.idx i) = false) ∧
    (∀ bs i, sp.kind = .boxv bs → contains sp (.idx i) = false) := by
  refine ⟨rfl, ?_, ?_, ?_⟩
  · intro allocs v h; unfold contains; simp [h]
  · intro lo hi i h; unfold contains; simp [h]
  · intro bs i h; unfold contains; simp [h]

/-- **An action outside the space is never executed**: when the action that is due at this step is not a
    member, `step` reports `invalidAction`; no trade is executed, no track-record entry is written, every
    position and balance is as before the call (the step's latent events have been applied and the queue
    has shifted — stated, not hidden). -/
theorem invalid_action_rejected (pw : K → K → K) (lg : K → K) (cfg : EnvCfg K) (s : EnvState K) (a : Action K)
    (hd : s.done = false) (hbad : contains cfg.space (stepPre s a).2 = false) :
    (envStep pw lg cfg s a).2 = .error .invalidAction ∧
    (envStep pw lg cfg s a).1.broker.pos = s.broker.pos ∧
    (envStep pw lg cfg s a).1.broker.record = s.broker.record ∧
    (envStep pw lg cfg s a).1.broker.cash = s.broker.cash ∧
    (envStep pw lg cfg s a).1.broker.margin = s.broker.margin := by
  obtain ⟨p1, p2, p3, p4, _⟩ := stepPre_broker_frame s a
  unfold envStep stepExec makeRequest
  simp only [hd, Bool.false_eq_true, if_false, hbad]
  exact ⟨trivial, p1, p2, p3, p4⟩

/-- with an execution delay the rejection happens exactly when the action is due: the action tested is the
    one that falls off the queue (`fifo_delay`), not the one just submitted -/
theorem rejected_when_due (s : EnvState K) (a : Action K) : (stepPre s a).2 = (qstep s.queue a).2 :=
  (stepPre_queue s a).2

/-- **An in-space action is executed as the allocation it denotes**: the request pairs the space's
    contracts (chains resolved to their lead) with the weight vector itself (box) / the indexed allocation
    (discrete), in the space's measure, stamped with the environment's time. -/
theorem valid_action_request (chains : List (Key × Chain)) (clock : Option Time) (sp : Space K) (a : Action K)
    (now : Time) (hin : contains sp a = true) (ks : List Key)
    (hks : sp.keys.mapM (resolveKey chains clock) = some ks) :
    makeRequest chains clock sp a now = .ok
      { time := now, byWeight := sp.asWeights, absolute := true, fractional := sp.fractional,
        margin := sp.margin, target := ks.zip (denote sp a) } := by
  unfold makeRequest
  simp [hin, hks]

/-- the entry for the cash contract and zero entries are ignored (the residual is held as cash) -/
theorem cash_entry_ignored (w : World K) (l : List (Key × K)) (k : Key) (v : K)
    (h : (k, v) ∈ cleanAlloc w l) : (w.spec k).isCash = false ∧ v ≠ 0 := by
  unfold cleanAlloc at h
  have := (List.mem_filter.mp h).2
  simpa using this

/-- denotation: the vector itself / the indexed row -/
theorem denote_spec (sp : Space K) :
    (∀ v : List K, denote sp (.vec (v.map some)) = v) ∧
    (∀ allocs (i : Nat) row, sp.kind = .disc allocs → allocs[i]? = some row → denote sp (.idx i) = row) := by
  constructor
  · intro v; unfold denote; simp [List.map_map, Function.comp_def]
  · intro allocs i row hk hrow
    unfold denote
    simp [hk, hrow]

/-- **End to end: an in-space action is executed as the allocation it denotes.** When the action due at this
    step is a member of a weight space (fractional quantities, no threshold) and the execution succeeds on a
    history that never hit the epsilon snap, then for the pre-trade NLV `nlvPre` (the valuation after the interest
    accrual) every non-cash contract of the space ends worth `weight × nlvPre` at its execution-side quote —
    the weight being the action's own entry (box) or the indexed allocation's entry (discrete), a cash entry
    having been dropped — and every other non-cash contract ends flat: the residual is cash. -/
theorem in_space_action_executed (pw : K → K → K) (cfg : EnvCfg K) (s1 : EnvState K) (act : Action K) (D : K)
    (hinv : Inv cfg.world D s1.broker) (ks : List Key)
    (hks : cfg.space.keys.mapM (resolveKey cfg.chains s1.contractClock) = some ks) (hnd : ks.Nodup)
    (hin : contains cfg.space act = true)
    (hfrac : cfg.space.fractional = true) (hmar : cfg.space.margin = 0) (hw : cfg.space.asWeights = true)
    (hmult : ∀ k, (cfg.world.spec k).mult ≠ 0)
    (hok : (stepExec pw cfg s1 act).2 = .ok true)
    (hs : (stepExec pw cfg s1 act).1.broker.snapped = false) :
    ∃ nlvPre, ∀ k, (cfg.world.spec k).isCash = false →
      (∀ wt, (k, wt) ∈ cleanAlloc cfg.world (ks.zip (denote cfg.space act)) →
        ∃ p, (s1.broker.ex.books k).acq (sgn wt) = some p ∧
          (p ≠ 0 → (stepExec pw cfg s1 act).1.broker.pos k * (cfg.world.spec k).mult * p = wt * nlvPre)) ∧
      (k ∉ (cleanAlloc cfg.world (ks.zip (denote cfg.space act))).map (·.1) →
        (stepExec pw cfg s1 act).1.broker.pos k = 0) := by
  have hreq := valid_action_request cfg.chains s1.contractClock cfg.space act (s1.now.getD 0) hin ks hks
  unfold stepExec at hok hs ⊢
  rw [hreq] at hok hs ⊢
  simp only at hok hs ⊢
  set reb : Rebal K :=
    { time := s1.now.getD 0, byWeight := cfg.space.asWeights, absolute := true,
      fractional := cfg.space.fractional, margin := cfg.space.margin,
      target := ks.zip (denote cfg.space act) } with hreb
  have hsub : ((cleanAlloc cfg.world reb.target).map (·.1)).Sublist ks :=
    cleanAlloc_zip_keys cfg.world ks (denote cfg.space act)
  cases hr : rebalance pw cfg.world reb s1.broker with
  | mk b2 res =>
    rw [hr] at hok hs
    have hb2 : b2 = (rebalance pw cfg.world reb s1.broker).1 := by rw [hr]
    cases res with
    | error e => cases e <;> simp at hok
    | ok u =>
        simp only at hs ⊢
        rw [hb2] at hs ⊢
        obtain ⟨nlvPre, _, h⟩ := rebalance_reaches_weights pw cfg.world D reb s1.broker hinv (by rw [hr]) hs
          hfrac hmar rfl hw (hnd.sublist hsub) hmult
        exact ⟨nlvPre, h⟩

end

/-! ### the premises are satisfiable: a concrete step at `ℚ` -/
section NonVacuity
local instance instTruncQC17 : HasTrunc ℚ := ⟨fun q => ((q.num.tdiv q.den : Int) : ℚ)⟩

private def cfgQ17 : EnvCfg ℚ :=
  { world := { spec := fun _ => { mult := 1, cashReq := 1, mr := 0 }, fixed := 0, prop := 0, markup := 0,
               rateKey := "RATE", eps := 0 }
    deposit := 100
    tx := { timesteps := [0, 10, 20]
            events := [⟨0, .market (.quote "A" 0 (some 10) (some 10))⟩, ⟨10, .market (.quote "A" 10 (some 11) (some 11))⟩,
                       ⟨20, .market (.quote "A" 20 (some 12) (some 12))⟩] }
    space := { keys := ["A"], kind := .box 0 1, margin := 0 }
    reward := .pnl }

private def s1Q : EnvState ℚ := (stepPre (envReset cfgQ17 0 20 0 none) (.vec [some (1/2 : ℚ)])).1

private theorem s1Q_inv : Inv cfgQ17.world 100 s1Q.broker := by
  have h : s1Q.broker = { Broker.init (100 : ℚ) with ex := s1Q.broker.ex } := rfl
  rw [h]
  exact inv_ex cfgQ17.world 100 _ _ (inv_init cfgQ17.world 100)

/-- `in_space_action_executed` applies: the half-weight action leaves a position worth half the pre-trade NLV -/
example : ∃ nlvPre : ℚ,
    (stepExec (fun x _ => x) cfgQ17 s1Q (.vec [some (1/2 : ℚ)])).1.broker.pos "A" * 1 * 10 = (1/2) * nlvPre := by
  obtain ⟨nlvPre, h⟩ := in_space_action_executed (fun x _ => x) cfgQ17 s1Q (.vec [some (1/2 : ℚ)]) 100 s1Q_inv ["A"]
    (by decide +kernel) (by decide) (by decide +kernel) rfl rfl rfl (fun _ => by show (1 : ℚ) ≠ 0; norm_num)
    (by decide +kernel) (by decide +kernel)
  obtain ⟨p, hp, hv⟩ := (h "A" rfl).1 (1/2) (by decide +kernel)
  have hp10 : p = 10 := by
    have : (s1Q.broker.ex.books "A").acq (sgn (1/2 : ℚ)) = some 10 := by decide +kernel
    rw [this] at hp; cases hp; rfl
  subst hp10
  exact ⟨nlvPre, hv (by norm_num)⟩

end NonVacuity

section
variable {K : Type}
end
end TV
