/-
  C17 — only in-space actions are executed, as the allocation they denote.
-/
import TradingVerif.Lemmas.EnvStep
import TradingVerif.Props.C08
set_option linter.unusedSectionVars false
set_option linter.unusedVariables false
namespace TV
section
variable {K : Type} [Field K] [LinearOrder K] [IsStrictOrderedRing K] [HasTrunc K]

/-- membership in a box space: right length, every entry a number (not NaN) within the bounds -/
theorem contains_box (sp : Space K) (lo hi : K) (hk : sp.kind = .box lo hi) (v : List (Option K)) :
    contains sp (.vec v) = true ↔
      v.length = sp.keys.length ∧ ∀ x ∈ v, ∃ y, x = some y ∧ lo ≤ y ∧ y ≤ hi := by
  unfold contains
  simp only [hk, Bool.and_eq_true, decide_eq_true_eq, List.all_eq_true]
  constructor
  · rintro ⟨h1, h2⟩
    refine ⟨h1, ?_⟩
    intro x hx
    have := h2 x hx
    cases x with
    | none => simp at this
    | some y => exact ⟨y, rfl, by simpa using this⟩
  · rintro ⟨h1, h2⟩
    refine ⟨h1, ?_⟩
    intro x hx
    obtain ⟨y, rfl, hy⟩ := h2 x hx
    simpa using hy

/-- membership in a discrete space: an integer index in `[0, n)` -/
theorem contains_discrete (sp : Space K) (allocs : List (List K)) (hk : sp.kind = .disc allocs) (i : Int) :
    contains sp (.idx i) = true ↔ 0 ≤ i ∧ i < allocs.length := by
  unfold contains
  simp [hk]

/-- anything that is neither a vector nor an index, a vector offered to a discrete space, an index offered
    to a box space: never a member -/
theorem contains_wrong_kind (sp : Space K) :
    contains sp .junk = false ∧
    (∀ allocs v, sp.kind = .disc allocs → contains sp (.vec v) = false) ∧
    (∀ lo hi i, sp.kind = .box lo hi → contains sp (.idx i) = false) := by
  refine ⟨rfl, ?_, ?_⟩
  · intro allocs v h; unfold contains; simp [h]
  · intro lo hi i h; unfold contains; simp [h]

/-- **An action outside the space is never executed**: when the action that is due at this step is not a
    member, `step` reports `invalidAction`; no trade is executed, no track-record entry is written, every
    position and balance is as before the call (the step's latent events have been applied and the queue
    has shifted — stated, not hidden). -/
theorem invalid_action_rejected (pw : K → K → K) (lg : K → K) (cfg : EnvCfg K) (s : EnvState K) (a : Action K)
    (hd : s.done = false) (hbad : contains cfg.space (stepPre s a).2 = false) :
    (envStep pw lg cfg s a).2 = .error .invalidAction ∧
    (envStep pw lg cfg s a).1.broker.pos = s.broker.pos ∧
    (envStep pw lg cfg s a).1.broker.record = s.broker.record ∧
    (envStep pw lg cfg s a).1.broker.cash = s.broker.cash ∧
    (envStep pw lg cfg s a).1.broker.margin = s.broker.margin := by
  obtain ⟨p1, p2, p3, p4, _⟩ := stepPre_broker_frame s a
  unfold envStep stepExec makeRequest
  simp only [hd, Bool.false_eq_true, if_false, hbad]
  exact ⟨trivial, p1, p2, p3, p4⟩

/-- with an execution delay the rejection happens exactly when the action is due: the action tested is the
    one that falls off the queue (`fifo_delay`), not the one just submitted -/
theorem rejected_when_due (s : EnvState K) (a : Action K) : (stepPre s a).2 = (qstep s.queue a).2 :=
  (stepPre_queue s a).2

/-- **An in-space action is executed as the allocation it denotes**: the request pairs the space's
    contracts (chains resolved to their lead) with the weight vector itself (box) / the indexed allocation
    (discrete), in the space's measure, stamped with the environment's time. -/
theorem valid_action_request (chains : List (Key × Chain)) (clock : Option Time) (sp : Space K) (a : Action K)
    (now : Time) (hin : contains sp a = true) (ks : List Key)
    (hks : sp.keys.mapM (resolveKey chains clock) = some ks) :
    makeRequest chains clock sp a now = .ok
      { time := now, byWeight := sp.asWeights, absolute := true, fractional := sp.fractional,
        margin := sp.margin, target := ks.zip (denote sp a) } := by
  unfold makeRequest
  simp [hin, hks]

/-- the entry for the cash contract and zero entries are ignored (the residual is held as cash) -/
theorem cash_entry_ignored (w : World K) (l : List (Key × K)) (k : Key) (v : K)
    (h : (k, v) ∈ cleanAlloc w l) : (w.spec k).isCash = false ∧ v ≠ 0 := by
  unfold cleanAlloc at h
  have := (List.mem_filter.mp h).2
  simpa using this

/-- denotation: the vector itself / the indexed row -/
theorem denote_spec (sp : Space K) :
    (∀ v : List K, denote sp (.vec (v.map some)) = v) ∧
    (∀ allocs (i : Nat) row, sp.kind = .disc allocs → allocs[i]? = some row → denote sp (.idx i) = row) := by
  constructor
  · intro v; unfold denote; simp [List.map_map, Function.comp_def]
  · intro allocs i row hk hrow
    unfold denote
    simp [hk, hrow]

end
end TV
