/-
  C09 — insolvency safety: an account with NLV ≤ 0 never trades and the episode ends.
-/
import TradingVerif.Lemmas.EnvStep
import TradingVerif.Lemmas.IntInst
set_option linter.unusedSectionVars false
set_option linter.unusedVariables false
namespace TV
section
variable {K : Type} [Field K] [LinearOrder K] [IsStrictOrderedRing K] [HasTrunc K]

/-- **Valuation signals end-of-episode instead of returning a non-positive NLV** (raising mode):
    it reports `endOfEpisode` exactly when the value is ≤ 0, and otherwise returns that (positive) value. -/
theorem valuation_raises_iff (w : World K) (b : Broker K) (v : K) (hv : nlvMarked w (markAll w b) = .ok v) :
    ((netLiq w true b).2 = .error .endOfEpisode ↔ v ≤ 0) ∧ ((netLiq w true b).2 = .ok v ↔ 0 < v) := by
  unfold netLiq
  simp only [hv, Bool.true_and]
  by_cases h : v ≤ 0
  · simp [h]
  · simp [h, not_le.mp h]

/-- a number returned by the raising valuation is always positive -/
theorem raising_valuation_positive (w : World K) (b : Broker K) (v : K) (h : (netLiq w true b).2 = .ok v) :
    0 < v := by
  unfold netLiq at h
  simp only at h
  split at h
  · cases h
  · rename_i v' hv'
    split_ifs at h with hc
    simp only [Except.ok.injEq] at h
    subst h
    simpa using hc

/-- unless explicitly asked not to: the non-raising valuation never signals end-of-episode -/
theorem valuation_no_raise (w : World K) (b : Broker K) : (netLiq w false b).2 ≠ .error .endOfEpisode := by
  unfold netLiq
  simp only
  split
  · rename_i e he
    intro h
    simp only [Except.error.injEq] at h
    subst h
    have := valuesOn_error_kind w .liquidation (markAll w b) (markAll w b).held .endOfEpisode
      (by unfold nlvMarked valuesOf at he; split at he <;> first | (cases he; assumption) | cases he)
    cases this
  · simp

/-- **A decision arriving while the account is insolvent executes nothing**: if the pre-trade valuation of
    `Broker.rebalance` signals end-of-episode, no trade is executed and no track-record entry is written
    (positions, key list and record exactly as before). -/
theorem insolvent_rebalance_no_trade (pw : K → K → K) (w : World K) (r : Rebal K) (b : Broker K) (i : K)
    (b1 : Broker K) (ha : accrue pw w r.time true b = (b1, .ok i))
    (hn : (netLiq w true b1).2 = .error .endOfEpisode) :
    (rebalance pw w r b).2 = .error .endOfEpisode ∧ (rebalance pw w r b).1.pos = b.pos ∧
    (rebalance pw w r b).1.record = b.record ∧ (rebalance pw w r b).1.held = b.held := by
  have hfail := rebalance_fails_before_trading pw w r b (by
    rintro ⟨b1', i', b2, n, ts, h1, h2, _⟩
    rw [ha] at h1
    cases h1
    rw [h2] at hn
    cases hn)
  refine ⟨?_, hfail.1, hfail.2.1, hfail.2.2.1⟩
  unfold rebalance
  rw [ha]
  simp only
  cases hnl : netLiq w true b1 with
  | mk b2 res =>
    rw [hnl] at hn
    simp only at hn
    subst hn
    rfl

/-- … and ends the episode: `step` catches the signal, trades nothing, writes no record entry, sets `done` -/
theorem insolvent_decision_ends_episode (pw : K → K → K) (cfg : EnvCfg K) (s1 : EnvState K) (act : Action K)
    (reb : Rebal K)
    (hreq : makeRequest cfg.chains s1.contractClock cfg.space act (s1.now.getD 0) = .ok reb)
    (hreb : (rebalance pw cfg.world reb s1.broker).2 = .error .endOfEpisode) :
    (stepExec pw cfg s1 act).2 = .ok false ∧ (stepExec pw cfg s1 act).1.done = true ∧
    (stepExec pw cfg s1 act).1.broker = (rebalance pw cfg.world reb s1.broker).1 := by
  unfold stepExec
  rw [hreq]
  simp only
  cases hr : rebalance pw cfg.world reb s1.broker with
  | mk b2 res =>
    rw [hr] at hreb
    simp only at hreb
    subst hreb
    exact ⟨rfl, rfl, rfl⟩

/-- **Once an episode has ended every further step is refused until reset**, and the refusal changes
    nothing. -/
theorem done_refuses (pw : K → K → K) (lg : K → K) (cfg : EnvCfg K) (s : EnvState K) (a : Action K)
    (hd : s.done = true) : envStep pw lg cfg s a = (s, .error .episodeOver) := by
  unfold envStep
  simp [hd]

theorem done_refuses_forever (pw : K → K → K) (lg : K → K) (cfg : EnvCfg K) (s : EnvState K)
    (as : List (Action K)) (hd : s.done = true) :
    as.foldl (fun st a => (envStep pw lg cfg st a).1) s = s := by
  induction as with
  | nil => rfl
  | cons a as ih => simp only [List.foldl_cons, done_refuses pw lg cfg s a hd]; exact ih

/-- a step that reports `done` leaves the environment in the refusing state -/
theorem reported_done_is_done (lg : K → K) (cfg : EnvCfg K) (s2 s' : EnvState K) (tr : Bool) (out : StepOut K)
    (h : stepFinish lg cfg s2 tr = (s', .ok out)) : out.done = s'.done := by
  unfold stepFinish at h
  simp only at h
  split at h
  · cases h
  · simp only [Prod.mk.injEq, Except.ok.injEq] at h
    obtain ⟨h1, h2⟩ := h
    rw [← h2, ← h1]

end

/-! ### Known finding K2 — the step during which the account first becomes insolvent

The property asks that this step *reports* the end of the episode (`done`) to the caller rather than
failing:

    theorem ruin_step_reports_done : (account becomes insolvent while the step's post-trade events are
        processed) → ∃ out, (envStep … s a).2 = .ok out ∧ out.done = true

This is false of the code-mirroring model (and of the code): the reward computation calls the raising
valuation, and its `EndOfEpisodeError` escapes `step`.  The concrete witness below is the 100 / 100 / 10
price path with weight 3; what does hold is stated after it. -/


def k2cfg : EnvCfg Int :=
  { world := { spec := fun _ => { mult := 1, cashReq := 1, mr := 0 }, fixed := 0, prop := 0, markup := 0,
               rateKey := "RATE", eps := 0 }
    deposit := 100
    tx := { timesteps := [0, 1, 2, 3]
            events := [⟨0, .market (.quote "A" 0 (some 100) (some 100))⟩,
                       ⟨1, .market (.quote "A" 1 (some 100) (some 100))⟩,
                       ⟨2, .market (.quote "A" 2 (some 10) (some 10))⟩,
                       ⟨3, .market (.quote "A" 3 (some 10) (some 10))⟩] }
    space := { keys := ["A"], kind := .box 0 5, margin := 0 }
    reward := .simple }

def isEoe : Except Err (StepOut Int) → Bool
  | .error .endOfEpisode => true
  | _ => false

def isOver : Except Err (StepOut Int) → Bool
  | .error .episodeOver => true
  | _ => false

def okNotDoneTraded : Except Err (StepOut Int) → Bool
  | .ok o => !o.done && o.traded
  | _ => false

def valueOr0 : Except Err Int → Int
  | .ok v => v
  | _ => 0

/-- **K2 witness**: the first step trades (weight 3 at 100); during the second step the price falls to 10,
    NLV becomes −170, and `step` ends with `endOfEpisode` instead of returning `done = true`;
    the `done` flag is not set by that step. -/
theorem ruin_step_escapes_witness :
    let s0 := envReset k2cfg (-10) 10 0 none
    let r1 := envStep (fun x _ => x) id k2cfg s0 (.vec [some 3])
    let r2 := envStep (fun x _ => x) id k2cfg r1.1 (.vec [some 3])
    okNotDoneTraded r1.2 = true ∧ isEoe r2.2 = true ∧ r2.1.done = false ∧
    valueOr0 (netLiq k2cfg.world false r2.1.broker).2 = -170 := by
  decide +kernel

/-- **What does hold after such a step (`…_partial`)**: the insolvent account never trades again — the very
    next decision executes nothing and sets `done` (it then fails the same way, from the reward), and every
    later step is refused. -/
theorem ruin_step_reports_done_partial :
    let s0 := envReset k2cfg (-10) 10 0 none
    let r1 := envStep (fun x _ => x) id k2cfg s0 (.vec [some 3])
    let r2 := envStep (fun x _ => x) id k2cfg r1.1 (.vec [some 3])
    let r3 := envStep (fun x _ => x) id k2cfg r2.1 (.vec [some 0])
    let r4 := envStep (fun x _ => x) id k2cfg r3.1 (.vec [some 0])
    r3.1.done = true ∧ r3.1.broker.pos "A" = r2.1.broker.pos "A" ∧ r3.1.broker.record.length = 2 ∧
    isOver r4.2 = true := by
  decide +kernel

end TV
