/-
  C14 — order book semantics: last quote wins, per-contract isolation, dead stays dead.
  Theorems hold for every number type `α` (no arithmetic is involved except the mid price).
-/
import TradingVerif.Model.Exchange
import TradingVerif.Lemmas.Upd
namespace TV
variable {α : Type}

/-- An event for another key leaves this key's book untouched. -/
theorem book_frame (ex : Exchange α) (e : MEvent α) (k : Key) (h : e.key ≠ k) :
    (ex.step e).books k = ex.books k := by
  cases e with
  | quote k' t b a =>
      simp only [MEvent.key] at h
      simp only [Exchange.step]
      split
      · exact upd_other _ _ _ _ (Ne.symm h)
      · rfl
  | disc k' t =>
      simp only [MEvent.key] at h
      simp only [Exchange.step]
      exact upd_other _ _ _ _ (Ne.symm h)

/-- The book of `k` after one event depends only on the book of `k` before it. -/
theorem step_book_congr (ex ex' : Exchange α) (e : MEvent α) (k : Key)
    (h : ex.books k = ex'.books k) : (ex.step e).books k = (ex'.step e).books k := by
  by_cases hk : e.key = k
  · cases e with
    | quote k' t b a =>
        simp only [MEvent.key] at hk; subst hk
        simp only [Exchange.step, h]
        split <;> simp [h]
    | disc k' t =>
        simp only [MEvent.key] at hk; subst hk
        simp [Exchange.step, h]
  · rw [book_frame _ _ _ hk, book_frame _ _ _ hk, h]

/-- Per-contract isolation: the book of `k` after any event sequence is the book obtained from
    the sub-sequence of events for `k` alone. -/
theorem book_projection (evs : List (MEvent α)) (ex ex' : Exchange α) (k : Key)
    (h : ex.books k = ex'.books k) :
    (ex.run evs).books k = (ex'.run (evs.filter (fun e => e.key = k))).books k := by
  induction evs generalizing ex ex' with
  | nil => simpa [Exchange.run] using h
  | cons e es ih =>
      by_cases hk : e.key = k
      · simp only [Exchange.run, List.foldl_cons, List.filter_cons, hk, decide_true, if_true]
        exact ih _ _ (step_book_congr ex ex' e k h)
      · simp only [Exchange.run, List.foldl_cons, List.filter_cons, hk, decide_false]
        apply ih
        rw [book_frame _ _ _ hk]; exact h

/-- The quotes for `k` in an event list, in order, as history rows. -/
def quotesFor (k : Key) : List (MEvent α) → List (HistRow α)
  | [] => []
  | .quote k' t b a :: es => if k' = k then ⟨t, b, a⟩ :: quotesFor k es else quotesFor k es
  | .disc _ _ :: es => quotesFor k es

def noDisc (k : Key) (evs : List (MEvent α)) : Prop :=
  ∀ e ∈ evs, ∀ t, e ≠ MEvent.disc k t

/-- Last quote wins, and the history is exactly the accepted quotes in order: for a live book
    that is never discontinued during `evs`. -/
theorem last_quote_wins (evs : List (MEvent α)) (ex : Exchange α) (k : Key)
    (hal : (ex.books k).alive = true) (hnd : noDisc k evs) :
    let b := (ex.run evs).books k
    b.alive = true ∧
    b.hist = (ex.books k).hist ++ quotesFor k evs ∧
    (match (quotesFor k evs).getLast? with
     | some r => b.bid = r.bid ∧ b.ask = r.ask
     | none => b.bid = (ex.books k).bid ∧ b.ask = (ex.books k).ask) := by
  induction evs generalizing ex with
  | nil => simp [Exchange.run, quotesFor, hal]
  | cons e es ih =>
      have hnd' : noDisc k es := fun e' he' t => hnd e' (List.mem_cons_of_mem _ he') t
      cases e with
      | disc k' t =>
          have hk : k' ≠ k := by
            intro h; subst h
            exact hnd (.disc k' t) (List.mem_cons_self) t rfl
          have hb : ((ex.step (.disc k' t)).books k) = ex.books k :=
            book_frame ex (.disc k' t) k (by simpa [MEvent.key] using hk)
          have := ih (ex.step (.disc k' t)) (by rw [hb]; exact hal) hnd'
          simpa [Exchange.run, quotesFor, hb] using this
      | quote k' t b a =>
          by_cases hk : k' = k
          · subst hk
            have hb : ((ex.step (.quote k' t b a)).books k') = (ex.books k').update t b a := by
              simp [Exchange.step, hal]
            have hal' : ((ex.step (.quote k' t b a)).books k').alive = true := by
              rw [hb]; simpa [Book.update] using hal
            have := ih (ex.step (.quote k' t b a)) hal' hnd'
            simp only [Exchange.run, List.foldl_cons, quotesFor, if_true] at this ⊢
            refine ⟨this.1, ?_, ?_⟩
            · rw [this.2.1, hb]; simp [Book.update]
            · have h3 := this.2.2
              cases hq : quotesFor k' es with
              | nil =>
                  rw [hq] at h3
                  simp only [List.getLast?_nil] at h3
                  simp only [List.getLast?_singleton]
                  rw [hb] at h3
                  simpa [Book.update] using h3
              | cons r rs =>
                  rw [hq] at h3
                  rw [List.getLast?_cons_cons]
                  exact h3
          · have hb : ((ex.step (.quote k' t b a)).books k) = ex.books k :=
              book_frame ex (.quote k' t b a) k (by simpa [MEvent.key] using hk)
            have := ih (ex.step (.quote k' t b a)) (by rw [hb]; exact hal) hnd'
            simpa [Exchange.run, quotesFor, hk, hb] using this

/-- One event never revives a dead book, never gives it a price, never touches its history. -/
theorem dead_step (ex : Exchange α) (e : MEvent α) (k : Key) (hd : (ex.books k).alive = false)
    (hb : (ex.books k).bid = none) (ha : (ex.books k).ask = none) :
    ((ex.step e).books k).alive = false ∧ ((ex.step e).books k).bid = none ∧
    ((ex.step e).books k).ask = none ∧ ((ex.step e).books k).hist = (ex.books k).hist := by
  by_cases hk : e.key = k
  · cases e with
    | quote k' t b a =>
        simp only [MEvent.key] at hk; subst hk
        simp [Exchange.step, hd, hb, ha]
    | disc k' t =>
        simp only [MEvent.key] at hk; subst hk
        simp [Exchange.step, Book.terminate]
  · rw [book_frame _ _ _ hk]; exact ⟨hd, hb, ha, rfl⟩

/-- Dead stays dead, for every suffix of events. -/
theorem dead_stays_dead (evs : List (MEvent α)) (ex : Exchange α) (k : Key)
    (hd : (ex.books k).alive = false) (hb : (ex.books k).bid = none) (ha : (ex.books k).ask = none) :
    ((ex.run evs).books k).alive = false ∧ ((ex.run evs).books k).bid = none ∧
    ((ex.run evs).books k).ask = none ∧ ((ex.run evs).books k).hist = (ex.books k).hist := by
  induction evs generalizing ex with
  | nil => exact ⟨hd, hb, ha, rfl⟩
  | cons e es ih =>
      obtain ⟨h1, h2, h3, h4⟩ := dead_step ex e k hd hb ha
      have := ih (ex.step e) h1 h2 h3
      simp only [Exchange.run, List.foldl_cons] at this ⊢
      rw [h4] at this
      exact this

/-- A discontinuation kills the book: no price, not alive, history kept. -/
theorem disc_kills (ex : Exchange α) (k : Key) (t : Time) :
    let b := (ex.step (.disc k t)).books k
    b.alive = false ∧ b.bid = none ∧ b.ask = none ∧ b.hist = (ex.books k).hist := by
  simp [Exchange.step, Book.terminate]

/-- After the first discontinuation of `k`, whatever follows, the book reports no price and its
    history is frozen at the quotes accepted before it. -/
theorem discontinued_forever (pre post : List (MEvent α)) (ex : Exchange α) (k : Key) (t : Time) :
    let b := (ex.run (pre ++ .disc k t :: post)).books k
    b.alive = false ∧ b.bid = none ∧ b.ask = none ∧ b.hist = ((ex.run pre).books k).hist := by
  have hrun : ex.run (pre ++ .disc k t :: post) = (((ex.run pre).step (.disc k t)).run post) := by
    simp [Exchange.run, List.foldl_append]
  obtain ⟨h1, h2, h3, h4⟩ := disc_kills (ex.run pre) k t
  have := dead_stays_dead post ((ex.run pre).step (.disc k t)) k h1 h2 h3
  simp only [hrun]
  rw [h4] at this
  exact this

section
variable [Add α] [Div α] [OfNat α 2]

/-- A purchase executes at the ask, a sale at the bid, a flat position is priced at the mid;
    liquidation is acquisition of the opposite sign. -/
theorem acq_side (b : Book α) :
    b.acq .pos = b.ask ∧ b.acq .neg = b.bid ∧ b.acq .zero = b.mid ∧
    b.liq .pos = b.bid ∧ b.liq .neg = b.ask ∧ b.liq .zero = b.mid := by
  simp [Book.acq, Book.liq, Sign.flip]

theorem mid_spec (b : Book α) (x y : α) (hb : b.bid = some x) (ha : b.ask = some y) :
    b.mid = some ((y + x) / 2) := by
  simp [Book.mid, hb, ha]

theorem mid_missing (b : Book α) (h : b.bid = none ∨ b.ask = none) : b.mid = none := by
  rcases h with h | h <;> simp only [Book.mid, h] <;> split <;> simp_all
end

/-- the events up to (not including) the first discontinuation of `k` -/
def untilDisc (k : Key) : List (MEvent α) → List (MEvent α)
  | [] => []
  | .disc k' t :: es => if k' = k then [] else .disc k' t :: untilDisc k es
  | .quote k' t b a :: es => .quote k' t b a :: untilDisc k es

/-- **History under every interleaving**, discontinuations included: the history of a live book after any event
    list is its old history followed by exactly the quotes for `k` that arrived before the first discontinuation of
    `k`, in arrival order (`last_quote_wins` and `discontinued_forever` in one statement, no side condition on the
    event list). -/
theorem history_any_interleaving (evs : List (MEvent α)) (ex : Exchange α) (k : Key)
    (hal : (ex.books k).alive = true) :
    ((ex.run evs).books k).hist = (ex.books k).hist ++ quotesFor k (untilDisc k evs) := by
  induction evs generalizing ex with
  | nil => simp [Exchange.run, untilDisc, quotesFor]
  | cons e es ih =>
      cases e with
      | disc k' t =>
          by_cases hk : k' = k
          · subst hk
            obtain ⟨h1, h2, h3, h4⟩ := disc_kills ex k' t
            have := (dead_stays_dead es (ex.step (.disc k' t)) k' h1 h2 h3).2.2.2
            simp only [Exchange.run, List.foldl_cons] at this ⊢
            rw [this, h4]; simp [untilDisc, quotesFor]
          · have hb : ((ex.step (.disc k' t)).books k) = ex.books k :=
              book_frame ex (.disc k' t) k (by simpa [MEvent.key] using hk)
            have := ih (ex.step (.disc k' t)) (by rw [hb]; exact hal)
            simpa [Exchange.run, untilDisc, quotesFor, hk, hb] using this
      | quote k' t b a =>
          by_cases hk : k' = k
          · subst hk
            have hb : ((ex.step (.quote k' t b a)).books k') = (ex.books k').update t b a := by
              simp [Exchange.step, hal]
            have hal' : ((ex.step (.quote k' t b a)).books k').alive = true := by
              rw [hb]; simpa [Book.update] using hal
            have := ih (ex.step (.quote k' t b a)) hal'
            simp only [Exchange.run, List.foldl_cons] at this ⊢
            rw [this, hb]; simp [Book.update, untilDisc, quotesFor]
          · have hb : ((ex.step (.quote k' t b a)).books k) = ex.books k :=
              book_frame ex (.quote k' t b a) k (by simpa [MEvent.key] using hk)
            have := ih (ex.step (.quote k' t b a)) (by rw [hb]; exact hal)
            simpa [Exchange.run, untilDisc, quotesFor, hk, hb] using this

/-- from a fresh exchange: the history *is* the accepted quotes -/
theorem history_from_fresh (evs : List (MEvent α)) (k : Key) :
    ((({} : Exchange α).run evs).books k).hist = quotesFor k (untilDisc k evs) := by
  have := history_any_interleaving evs ({} : Exchange α) k rfl
  simpa using this

/-- time of the last quote event of any contract -/
def lastQuoteTime : List (MEvent α) → Option Time → Option Time
  | [], acc => acc
  | .quote _ t _ _ :: es, _ => lastQuoteTime es (some t)
  | .disc _ _ :: es, acc => lastQuoteTime es acc

/-- `Exchange.last_update` is the time of the most recently processed quote (of any contract, accepted or not);
    discontinuations do not move it -/
theorem last_update_spec (evs : List (MEvent α)) (ex : Exchange α) :
    (ex.run evs).lastUpdate = lastQuoteTime evs ex.lastUpdate := by
  induction evs generalizing ex with
  | nil => rfl
  | cons e es ih =>
      cases e with
      | quote k t b a =>
          have := ih (ex.step (.quote k t b a))
          simpa [Exchange.run, lastQuoteTime, Exchange.step] using this
      | disc k t =>
          have := ih (ex.step (.disc k t))
          simpa [Exchange.run, lastQuoteTime, Exchange.step] using this

example :
    ((({} : Exchange Int).run
      [.quote "A" 1 (some 9) (some 11), .quote "B" 2 (some 5) (some 6), .disc "A" 4, .quote "A" 5 (some 1) (some 2)]).books "A").hist.map (·.time)
      = [1] := by decide

/-! Non-vacuity: a concrete interleaving (quotes for two keys, a discontinuation, a late quote). -/
example :
    let ex := (({} : Exchange Int).run
      [.quote "A" 1 (some 9) (some 11), .quote "B" 2 (some 5) (some 6), .quote "A" 3 (some 10) (some 12),
       .disc "A" 4, .quote "A" 5 (some 1) (some 2)])
    (ex.books "A").bid = none ∧ (ex.books "A").alive = false ∧ (ex.books "A").hist.length = 2 ∧
    (ex.books "B").bid = some 5 := by decide

/-- Mutant witness: an exchange that lets a later quote revive a dead book violates
    `dead_stays_dead` on the sequence above. -/
def Exchange.stepRevive (ex : Exchange α) : MEvent α → Exchange α
  | .quote k t bid ask =>
      { books := upd ex.books k ({ (ex.books k) with alive := true }.update t bid ask), lastUpdate := some t }
  | e => ex.step e

example :
    let ex := ([.quote "A" 1 (some 9) (some 11), .disc "A" 4, .quote "A" 5 (some 1) (some 2)].foldl
      Exchange.stepRevive ({} : Exchange Int))
    (ex.books "A").bid ≠ none := by decide

end TV
