/-
  C15 — episodes stay inside their fold; episode length and walk-forward are exact.
-/
import TradingVerif.Props.C04
set_option linter.unusedSectionVars false
set_option linter.unusedVariables false
namespace TV
section
variable {ρ : Type}

/-- the event-bearing timesteps are grid points, in grid order -/
theorem eventSteps_sublist (c : TxCfg ρ) : c.eventSteps.Sublist c.grid := List.filter_sublist

theorem foldSteps_sublist (c : TxCfg ρ) (lo hi : Time) : (c.foldSteps lo hi).Sublist c.eventSteps :=
  List.filter_sublist

/-- **Every timestep of an episode lies in the fold's inclusive window**, is an event-bearing grid point,
    and the episode is a contiguous slice of the fold's event-bearing timesteps, in order. -/
theorem steps_in_fold (c : TxCfg ρ) (lo hi : Time) (len : Option Nat) (start : Nat) :
    (∀ g ∈ c.episodeSteps lo hi len start, lo ≤ g ∧ g ≤ hi ∧ g ∈ c.eventSteps) ∧
    (∃ pre post, c.foldSteps lo hi = pre ++ c.episodeSteps lo hi len start ++ post) ∧
    (c.episodeSteps lo hi len start).Pairwise (· < ·) := by
  have hsub : (c.episodeSteps lo hi len start).Sublist (c.foldSteps lo hi) := by
    unfold TxCfg.episodeSteps
    cases len with
    | none => exact List.Sublist.refl _
    | some L => exact (List.take_sublist _ _).trans (List.drop_sublist _ _)
  refine ⟨?_, ?_, ?_⟩
  · intro g hg
    have hf := hsub.subset hg
    unfold TxCfg.foldSteps at hf
    have := List.mem_filter.mp hf
    simp only [Bool.and_eq_true, decide_eq_true_eq] at this
    exact ⟨this.2.1, this.2.2, this.1⟩
  · unfold TxCfg.episodeSteps
    cases len with
    | none => exact ⟨[], [], by simp⟩
    | some L =>
        refine ⟨(c.foldSteps lo hi).take start, ((c.foldSteps lo hi).drop start).drop L, ?_⟩
        simp only
        rw [List.append_assoc, List.take_append_drop, List.take_append_drop]
  · have hgrid := mkGrid_strict c.timesteps
    exact ((hgrid.sublist (eventSteps_sublist c)).sublist (foldSteps_sublist c lo hi)).sublist hsub

/-- the number of timesteps of an episode of configured length (the constructor's `+1` included in `L`) -/
theorem episode_size (c : TxCfg ρ) (lo hi : Time) (L start : Nat) (hfit : start + L ≤ (c.foldSteps lo hi).length) :
    (c.episodeSteps lo hi (some L) start).length = L := by
  unfold TxCfg.episodeSteps
  simp only [List.length_take, List.length_drop]
  omega

/-- **The admissible start positions are exactly those where the whole episode fits** (`L ≥ 2`, which the
    environment guarantees by adding 1 to the configured length): `i < len(steps[:-(L-1)]) ↔ i + L ≤ len(steps)`. -/
theorem start_fits (n L i : Nat) (hL : 2 ≤ L) : i < nStarts n L ↔ i + L ≤ n := by
  unfold nStarts
  have : ¬ L ≤ 1 := by omega
  simp only [this, if_false]
  omega

/-- the request is refused (the sampler is handed an empty range) iff no position fits -/
theorem refused_iff_none_fits (n L : Nat) (hL : 2 ≤ L) : nStarts n L = 0 ↔ n < L := by
  unfold nStarts
  have : ¬ L ≤ 1 := by omega
  simp only [this, if_false]
  omega

/-! ### walk-forward -/

theorem mem_wfStarts (n train test s : Nat) :
    s ∈ wfStarts n train test ↔ s < n + 1 - train - test ∧ s % test = 0 := by
  unfold wfStarts
  simp [List.mem_filter]

/-- **Walk-forward folds**: every test window has the requested size, starts immediately after its own
    training window, lies inside the grid; sliding windows have the requested training size, expanding ones
    start at 0. -/
theorem walk_forward_spec (n train test : Nat) (sliding : Bool) (htr : 1 ≤ train) (hte : 1 ≤ test)
    (f : WFold) (hf : f ∈ walkForward n train test sliding) :
    f.testEnd + 1 - f.testStart = test ∧ f.testStart = f.trainEnd + 1 ∧ f.testEnd < n ∧
    (sliding = true → f.trainEnd + 1 - f.trainStart = train) ∧ (sliding = false → f.trainStart = 0) := by
  unfold walkForward at hf
  obtain ⟨s, hs, rfl⟩ := List.mem_map.mp hf
  obtain ⟨h1, _⟩ := (mem_wfStarts n train test s).mp hs
  refine ⟨by simp only; omega, by simp only; omega, by simp only; omega, ?_, ?_⟩
  · intro h; simp only [h, if_true]; omega
  · intro h; simp [h]

/-- **Test windows are disjoint and ordered, the step is the test size**: two folds generated from
    different starts `s < s'` satisfy `testEnd(s) < testStart(s')`. -/
theorem walk_forward_disjoint (n train test : Nat) (hte : 1 ≤ test) (s s' : Nat)
    (hs : s ∈ wfStarts n train test) (hs' : s' ∈ wfStarts n train test) (hlt : s < s') :
    s + train + test - 1 < s' + train ∧ s + test ≤ s' := by
  obtain ⟨_, hm⟩ := (mem_wfStarts n train test s).mp hs
  obtain ⟨_, hm'⟩ := (mem_wfStarts n train test s').mp hs'
  have hstep : s + test ≤ s' := by
    obtain ⟨a, ha⟩ := Nat.dvd_of_mod_eq_zero hm
    obtain ⟨b, hb⟩ := Nat.dvd_of_mod_eq_zero hm'
    subst ha; subst hb
    have : a < b := by
      by_contra hge
      have : b ≤ a := Nat.le_of_not_lt hge
      have := Nat.mul_le_mul_left test this
      omega
    calc test * a + test = test * (a + 1) := by rw [Nat.mul_add, Nat.mul_one]
      _ ≤ test * b := Nat.mul_le_mul_left test this
  exact ⟨by omega, hstep⟩

/-- the starts are listed in increasing order (so the folds are ordered) -/
theorem wfStarts_sorted (n train test : Nat) : (wfStarts n train test).Pairwise (· < ·) := by
  unfold wfStarts
  exact (List.pairwise_lt_range).filter _

/-- **No admissible fold is skipped**: every multiple `j·test` of the test size whose training + test window
    still fits in the grid (`j·test + train + test ≤ n`) is the start of a generated fold. -/
theorem walk_forward_complete (n train test : Nat) (sliding : Bool) (hte : 1 ≤ test) (j : Nat)
    (hfit : j * test + train + test ≤ n) :
    ∃ f ∈ walkForward n train test sliding, f.testStart = j * test + train ∧ f.testEnd = j * test + train + test - 1 := by
  refine ⟨_, List.mem_map.mpr ⟨j * test, (mem_wfStarts n train test (j * test)).mpr ⟨by omega, Nat.mul_mod_left j test⟩, rfl⟩, rfl, rfl⟩

/-- **The test windows tile**: if a fold starts at `s` and one more test window fits, the fold starting at
    `s + test` is generated too, and its test window begins on the step right after this one's ends. -/
theorem walk_forward_contiguous (n train test : Nat) (hte : 1 ≤ test) (s : Nat)
    (hs : s ∈ wfStarts n train test) (hfit : s + test + train + test ≤ n) :
    s + test ∈ wfStarts n train test ∧ (s + test) + train = (s + train + test - 1) + 1 := by
  obtain ⟨_, hm⟩ := (mem_wfStarts n train test s).mp hs
  refine ⟨(mem_wfStarts n train test (s + test)).mpr ⟨by omega, ?_⟩, by omega⟩
  rw [Nat.add_mod_right]; exact hm

/-- and nothing starts in between: generated starts are multiples of the test size -/
theorem walk_forward_starts_multiple (n train test s : Nat) (hs : s ∈ wfStarts n train test) : test ∣ s :=
  Nat.dvd_of_mod_eq_zero ((mem_wfStarts n train test s).mp hs).2

/-- the request yields no fold at all exactly when not even one training + test window fits -/
theorem walk_forward_empty_iff (n train test : Nat) (sliding : Bool) (hte : 1 ≤ test) :
    walkForward n train test sliding = [] ↔ n < train + test := by
  unfold walkForward
  rw [List.map_eq_nil_iff]
  constructor
  · intro h
    by_contra hge
    have : 0 ∈ wfStarts n train test := (mem_wfStarts n train test 0).mpr ⟨by omega, Nat.zero_mod test⟩
    rw [h] at this; cases this
  · intro h
    apply List.eq_nil_iff_forall_not_mem.mpr
    intro s hs
    have := ((mem_wfStarts n train test s).mp hs).1
    omega

example : (walkForward 10 4 2 true).map (fun f => (f.testStart, f.testEnd)) = [(4, 5), (6, 7), (8, 9)] := by decide

end

section
variable {α : Type} [Add α] [Sub α] [Mul α] [Div α] [Neg α] [LT α] [LE α]
  [DecidableLT α] [DecidableLE α] [DecidableEq α] [OfNat α 0] [OfNat α 1] [OfNat α 2]
  [IntCast α] [HasTrunc α]

/-- **Exactly `n` decisions**: with a configured length (`L = n + 1` timesteps) whose start fits, no more
    than `n` steps succeed, and after the `n`-th successful step the episode is over (`done`). -/
theorem episode_length_exact (pw : α → α → α) (lg : α → α) (cfg : EnvCfg α) (lo hi : Time) (start : Nat)
    (clk : Option Time) (cur : Time) (rest : List Time)
    (hsteps : cfg.tx.episodeSteps lo hi cfg.episodeLen start = cur :: rest)
    (as : List (Action α)) (s' : EnvState α)
    (hrun : runSteps pw lg cfg (envReset cfg lo hi start clk) as = some s') :
    as.length ≤ rest.length ∧ (as.length = rest.length → s'.done = true) := by
  have gen : ∀ (as : List (Action α)) (s : EnvState α) (j : Nat), j ≤ rest.length → EpInv cfg cur rest s j →
      runSteps pw lg cfg s as = some s' → j + as.length ≤ rest.length ∧ EpInv cfg cur rest s' (j + as.length) := by
    intro as
    induction as with
    | nil =>
        intro s j hjl hinv hr
        simp only [runSteps, Option.some.injEq] at hr
        subst hr
        exact ⟨by simpa using hjl, by simpa using hinv⟩
    | cons a as ih =>
        intro s j hjl hinv hr
        simp only [runSteps] at hr
        cases hstep : envStep pw lg cfg s a with
        | mk s1 res =>
          rw [hstep] at hr
          cases res with
          | error e => simp at hr
          | ok out =>
            simp only at hr
            obtain ⟨hj, hinv1⟩ := epInv_step pw lg cfg cur rest s s1 a out j hinv hstep
            obtain ⟨hle, hfin⟩ := ih s1 (j + 1) hj hinv1 hr
            refine ⟨by simp only [List.length_cons]; omega, ?_⟩
            have : j + (a :: as).length = j + 1 + as.length := by simp only [List.length_cons]; omega
            rw [this]; exact hfin
  obtain ⟨hle, hinv⟩ := gen as _ 0 (Nat.zero_le _) (epInv_reset cfg lo hi start clk cur rest hsteps) hrun
  simp only [Nat.zero_add] at hle hinv
  exact ⟨hle, fun h => hinv.2.2.2.1 (by omega)⟩

end
end TV
