/-
  C06 — interest on cash: compounding, sign, markup, no double accrual.
  Number type ℝ, the `**` leaf is `Real.rpow`.
-/
import Mathlib.Analysis.SpecialFunctions.Pow.Real
import TradingVerif.Lemmas.Basic
set_option linter.unusedSectionVars false
set_option linter.unusedVariables false
namespace TV
noncomputable section

/-- years elapsed for `dt` microseconds, as the implementation computes them -/
def yearsOf (dt : Int) : ℝ := (dt : ℝ) / (usPerYear : ℝ)

theorem usPerYear_pos : (0 : ℝ) < (usPerYear : ℝ) := by
  unfold usPerYear; norm_num

theorem yearsOf_nonneg (dt : Int) (h : 0 ≤ dt) : 0 ≤ yearsOf dt := by
  unfold yearsOf
  exact div_nonneg (by exact_mod_cast h) (le_of_lt usPerYear_pos)

theorem yearsOf_add (a b : Int) : yearsOf (a + b) = yearsOf a + yearsOf b := by
  unfold yearsOf; push_cast; ring

@[simp] theorem yearsOf_zero : yearsOf 0 = 0 := by simp [yearsOf]

/-- balance after accruing over `dt` microseconds -/
def bal (cash rate markup : ℝ) (dt : Int) : ℝ := cash + accruedAmount Real.rpow cash rate markup dt

theorem amount_eq (cash rate markup : ℝ) (dt : Int) :
    accruedAmount Real.rpow cash rate markup dt =
      (let cagr := if 0 < cash then rate - markup else if cash < 0 then rate + markup else rate
       let a := cash * (Real.rpow (1 + cagr) (yearsOf dt) - 1)
       if 0 < cash ∧ a < 0 then 0 else a) := by
  unfold accruedAmount yearsOf sgn
  by_cases h1 : cash < 0
  · have : ¬ 0 < cash := not_lt.mpr (le_of_lt h1)
    simp [h1, this]
  · by_cases h2 : 0 < cash
    · simp [h1, h2]
    · simp [h1, h2]

/-- **Idle cash grows at (rate − markup), compounded.** -/
theorem idle_growth (cash rate markup : ℝ) (dt : Int) (hc : 0 < cash) (hr : markup ≤ rate) (hdt : 0 ≤ dt) :
    bal cash rate markup dt = cash * Real.rpow (1 + rate - markup) (yearsOf dt) := by
  unfold bal
  rw [amount_eq]
  simp only [hc, if_true, true_and]
  have h1 : (1 : ℝ) ≤ 1 + (rate - markup) := by linarith
  have hge : 1 ≤ Real.rpow (1 + (rate - markup)) (yearsOf dt) := Real.one_le_rpow h1 (yearsOf_nonneg dt hdt)
  have hnn : ¬ cash * (Real.rpow (1 + (rate - markup)) (yearsOf dt) - 1) < 0 :=
    not_lt.mpr (mul_nonneg (le_of_lt hc) (by linarith))
  rw [if_neg hnn, show 1 + rate - markup = 1 + (rate - markup) by ring]
  ring

/-- **A positive balance is never charged**: with rate < markup it simply earns nothing. -/
theorem positive_never_charged (cash rate markup : ℝ) (dt : Int) (hc : 0 < cash) (hdt : 0 ≤ dt)
    (hp : 0 < 1 + rate - markup) : 0 ≤ accruedAmount Real.rpow cash rate markup dt := by
  rw [amount_eq]
  simp only [hc, if_true, true_and]
  split_ifs with h
  · exact le_refl 0
  · exact not_lt.mp h

theorem idle_floor (cash rate markup : ℝ) (dt : Int) (hc : 0 < cash) (hr : rate < markup) (hdt : 0 ≤ dt)
    (hp : 0 < 1 + rate - markup) : bal cash rate markup dt = cash := by
  unfold bal
  rw [amount_eq]
  simp only [hc, if_true, true_and]
  have h0 : (0 : ℝ) ≤ 1 + (rate - markup) := by linarith
  have h1 : 1 + (rate - markup) ≤ 1 := by linarith
  have hle : Real.rpow (1 + (rate - markup)) (yearsOf dt) ≤ 1 := Real.rpow_le_one h0 h1 (yearsOf_nonneg dt hdt)
  split_ifs with h
  · ring
  · have : cash * (Real.rpow (1 + (rate - markup)) (yearsOf dt) - 1) ≤ 0 :=
      mul_nonpos_of_nonneg_of_nonpos (le_of_lt hc) (by linarith)
    have : cash * (Real.rpow (1 + (rate - markup)) (yearsOf dt) - 1) = 0 := le_antisymm this (not_lt.mp h)
    rw [this]; ring

/-- **Borrowed cash is charged at (rate + markup), compounded.** -/
theorem loan_growth (cash rate markup : ℝ) (dt : Int) (hc : cash < 0) :
    bal cash rate markup dt = cash * Real.rpow (1 + rate + markup) (yearsOf dt) := by
  unfold bal
  rw [amount_eq]
  have hn : ¬ 0 < cash := not_lt.mpr (le_of_lt hc)
  simp only [hn, hc, if_false, if_true, false_and]
  rw [show 1 + rate + markup = 1 + (rate + markup) by ring]
  ring

theorem yearsOf_pos (dt : Int) (h : 0 < dt) : 0 < yearsOf dt := by
  unfold yearsOf
  exact div_pos (by exact_mod_cast h) usPerYear_pos

/-- **No net rate is too small to earn**: idle cash at any `rate > markup`, however close, over any positive time
    earns a strictly positive amount (there is no dust threshold on rates). -/
theorem tiny_rate_still_earns (cash rate markup : ℝ) (dt : Int) (hc : 0 < cash) (hr : markup < rate) (hdt : 0 < dt) :
    0 < accruedAmount Real.rpow cash rate markup dt := by
  rw [amount_eq]
  simp only [hc, if_true, true_and]
  have h1 : (1 : ℝ) < 1 + (rate - markup) := by linarith
  have hgt : 1 < Real.rpow (1 + (rate - markup)) (yearsOf dt) := Real.one_lt_rpow h1 (yearsOf_pos dt hdt)
  have hpos : 0 < cash * (Real.rpow (1 + (rate - markup)) (yearsOf dt) - 1) := mul_pos hc (by linarith)
  rw [if_neg (not_lt.mpr (le_of_lt hpos))]
  exact hpos

/-- ... and a loan at any `rate + markup > 0`, however small, is charged a strictly negative amount. -/
theorem tiny_rate_still_charges (cash rate markup : ℝ) (dt : Int) (hc : cash < 0) (hr : 0 < rate + markup)
    (hdt : 0 < dt) : accruedAmount Real.rpow cash rate markup dt < 0 := by
  rw [amount_eq]
  have hn : ¬ 0 < cash := not_lt.mpr (le_of_lt hc)
  simp only [hn, hc, if_false, if_true, false_and]
  have h1 : (1 : ℝ) < 1 + (rate + markup) := by linarith
  have hgt : 1 < Real.rpow (1 + (rate + markup)) (yearsOf dt) := Real.one_lt_rpow h1 (yearsOf_pos dt hdt)
  exact mul_neg_of_neg_of_pos hc (by linarith)

theorem zero_balance (rate markup : ℝ) (dt : Int) : bal 0 rate markup dt = 0 := by
  unfold bal; rw [amount_eq]; simp

/-- **Accruing again at the same instant adds nothing.** -/
theorem accrue_same_instant_zero (cash rate markup : ℝ) : accruedAmount Real.rpow cash rate markup 0 = 0 := by
  rw [amount_eq]
  simp

/-- **No double accrual / split invariance** (one cut): accruing over `d1` and then over `d2` gives the
    balance of accruing once over `d1 + d2`, for cash of either sign, whatever the sign of the
    effective rate, at a constant reference rate. -/
theorem bal_split (cash rate markup : ℝ) (d1 d2 : Int) (h1 : 0 ≤ d1) (h2 : 0 ≤ d2)
    (hm : 0 ≤ markup) (hp : 0 < 1 + rate - markup) :
    bal (bal cash rate markup d1) rate markup d2 = bal cash rate markup (d1 + d2) := by
  have h12 : 0 ≤ d1 + d2 := add_nonneg h1 h2
  rcases lt_trichotomy cash 0 with hc | hc | hc
  · -- a loan stays a loan
    have hb : 0 < 1 + rate + markup := by linarith
    have hpw : 0 < Real.rpow (1 + rate + markup) (yearsOf d1) := Real.rpow_pos_of_pos hb _
    have hneg : bal cash rate markup d1 < 0 := by
      rw [loan_growth _ _ _ _ hc]; exact mul_neg_of_neg_of_pos hc hpw
    rw [loan_growth _ _ _ _ hneg, loan_growth _ _ _ _ hc, loan_growth _ _ _ _ hc, yearsOf_add]
    have := Real.rpow_add hb (yearsOf d1) (yearsOf d2)
    simp only [Real.rpow_eq_pow] at this ⊢
    rw [this]; ring
  · subst hc
    rw [zero_balance, zero_balance, zero_balance]
  · by_cases hr : markup ≤ rate
    · have hb : 0 < 1 + rate - markup := hp
      have hpw : 0 < Real.rpow (1 + rate - markup) (yearsOf d1) := Real.rpow_pos_of_pos hb _
      have hpos : 0 < bal cash rate markup d1 := by
        rw [idle_growth _ _ _ _ hc hr h1]; exact mul_pos hc hpw
      rw [idle_growth _ _ _ _ hpos hr h2, idle_growth _ _ _ _ hc hr h1, idle_growth _ _ _ _ hc hr h12, yearsOf_add]
      have := Real.rpow_add hb (yearsOf d1) (yearsOf d2)
      simp only [Real.rpow_eq_pow] at this ⊢
      rw [this]; ring
    · have hr' : rate < markup := not_le.mp hr
      rw [idle_floor _ _ _ _ hc hr' h1 hp, idle_floor _ _ _ _ hc hr' h2 hp, idle_floor _ _ _ _ hc hr' h12 hp]

/-- **Any partition of the interval**: folding the accrual over any list of non-negative
    sub-intervals gives the balance of one accrual over their sum. -/
theorem bal_fold (rate markup : ℝ) (hm : 0 ≤ markup) (hp : 0 < 1 + rate - markup) (ds : List Int)
    (hds : ∀ d ∈ ds, 0 ≤ d) (cash : ℝ) :
    ds.foldl (fun c d => bal c rate markup d) cash = bal cash rate markup ds.sum := by
  induction ds generalizing cash with
  | nil => simp [bal, accrue_same_instant_zero]
  | cons d ds ih =>
      have hd : 0 ≤ d := hds d (List.mem_cons_self)
      have hrest : ∀ x ∈ ds, 0 ≤ x := fun x hx => hds x (List.mem_cons_of_mem _ hx)
      have hsum : 0 ≤ ds.sum := List.sum_nonneg hrest
      simp only [List.foldl_cons, List.sum_cons]
      rw [ih hrest, bal_split cash rate markup d ds.sum hd hsum hm hp]

/-! ### the stateful operation -/
variable (w : World ℝ)

/-- what an accruing call does on an account whose clock is initialised -/
theorem accrue_spec (b : Broker ℝ) (t0 t : Time) (r : ℝ) (hl : b.lastAccrual = some t0) (ht : t0 ≤ t)
    (hr : (b.ex.books w.rateKey).mid = some r) :
    (accrue Real.rpow w t true b).1.cash = bal b.cash r w.markup (t - t0) ∧
    (accrue Real.rpow w t true b).1.lastAccrual = some t ∧
    (accrue Real.rpow w t true b).2 = .ok (accruedAmount Real.rpow b.cash r w.markup (t - t0)) ∧
    (accrue Real.rpow w t true b).1.margin = b.margin ∧ (accrue Real.rpow w t true b).1.pos = b.pos ∧
    (accrue Real.rpow w t true b).1.ex = b.ex := by
  unfold accrue
  have : ¬ t < t0 := not_lt.mpr ht
  simp [hl, this, hr, bal]

/-- **Asking without accruing changes nothing** (clock initialised): same state, the amount is returned. -/
theorem query_changes_nothing (b : Broker ℝ) (t0 t : Time) (r : ℝ) (hl : b.lastAccrual = some t0) (ht : t0 ≤ t)
    (hr : (b.ex.books w.rateKey).mid = some r) :
    (accrue Real.rpow w t false b).1 = b ∧
    (accrue Real.rpow w t false b).2 = .ok (accruedAmount Real.rpow b.cash r w.markup (t - t0)) := by
  unfold accrue
  have : ¬ t < t0 := not_lt.mpr ht
  simp only [hl, Option.getD_some, this, if_false, hr, Bool.false_eq_true]
  constructor
  · cases b; simp_all
  · first | rfl | trivial

/-- the first call on an account whose clock is not initialised changes no balance and starts the clock
    (the behaviour the suite pins) -/
theorem first_query_starts_clock (b : Broker ℝ) (t : Time) (r : ℝ) (hl : b.lastAccrual = none)
    (hr : (b.ex.books w.rateKey).mid = some r) (a : Bool) :
    (accrue Real.rpow w t a b).1.cash = b.cash ∧ (accrue Real.rpow w t a b).1.lastAccrual = some t ∧
    (accrue Real.rpow w t a b).2 = .ok 0 := by
  unfold accrue
  simp only [hl, Option.getD_none, lt_irrefl, if_false, hr, sub_self, accrue_same_instant_zero]
  cases a <;> simp

/-- **A time earlier than the last accrual is rejected**, and the state is unchanged. -/
theorem earlier_time_rejected (b : Broker ℝ) (t0 t : Time) (a : Bool) (hl : b.lastAccrual = some t0) (ht : t < t0) :
    (accrue Real.rpow w t a b).2 = .error .timeRegression ∧ (accrue Real.rpow w t a b).1 = b := by
  unfold accrue
  simp only [hl, Option.getD_some, ht, if_true]
  constructor
  · first | rfl | trivial
  · cases b; simp_all

/-- **Posted margin earns nothing**: the amount is a function of the cash balance, the rate, the markup
    and the elapsed time only. -/
theorem margin_earns_nothing (b b' : Broker ℝ) (t : Time) (a : Bool) (hc : b'.cash = b.cash)
    (hl : b'.lastAccrual = b.lastAccrual) (he : b'.ex = b.ex) :
    (accrue Real.rpow w t a b').2 = (accrue Real.rpow w t a b).2 := by
  unfold accrue
  simp only [hc, hl, he]
  split_ifs <;> first | rfl | (split <;> rfl)

/-- **Split invariance of the stateful operation**: two accruing calls at `t1 ≤ t2` leave the balance
    and the clock that one call at `t2` leaves. -/
theorem accrue_split (b : Broker ℝ) (t0 t1 t2 : Time) (r : ℝ) (hl : b.lastAccrual = some t0)
    (h01 : t0 ≤ t1) (h12 : t1 ≤ t2) (hr : (b.ex.books w.rateKey).mid = some r)
    (hm : 0 ≤ w.markup) (hp : 0 < 1 + r - w.markup) :
    (accrue Real.rpow w t2 true (accrue Real.rpow w t1 true b).1).1.cash = (accrue Real.rpow w t2 true b).1.cash ∧
    (accrue Real.rpow w t2 true (accrue Real.rpow w t1 true b).1).1.lastAccrual =
      (accrue Real.rpow w t2 true b).1.lastAccrual := by
  obtain ⟨c1, l1, _, _, _, e1⟩ := accrue_spec w b t0 t1 r hl h01 hr
  have hr1 : ((accrue Real.rpow w t1 true b).1.ex.books w.rateKey).mid = some r := by rw [e1]; exact hr
  obtain ⟨c2, l2, _⟩ := accrue_spec w (accrue Real.rpow w t1 true b).1 t1 t2 r l1 h12 hr1
  obtain ⟨c3, l3, _⟩ := accrue_spec w b t0 t2 r hl (le_trans h01 h12) hr
  refine ⟨?_, by rw [l2, l3]⟩
  rw [c2, c1, c3, bal_split b.cash r w.markup (t1 - t0) (t2 - t1) (sub_nonneg.mpr h01) (sub_nonneg.mpr h12) hm hp]
  congr 1; ring

/-! ### monotonicity (added last) -/

theorem yearsOf_mono (d1 d2 : Int) (h : d1 ≤ d2) : yearsOf d1 ≤ yearsOf d2 := by
  unfold yearsOf
  exact div_le_div_of_nonneg_right (by exact_mod_cast h) (le_of_lt usPerYear_pos)

/-- **Longer pays more**: the balance of idle cash is monotone in the elapsed time (rate ≥ markup) -/
theorem idle_growth_monotone_time (cash rate markup : ℝ) (d1 d2 : Int) (hc : 0 < cash) (hr : markup ≤ rate)
    (h1 : 0 ≤ d1) (h12 : d1 ≤ d2) : bal cash rate markup d1 ≤ bal cash rate markup d2 := by
  rw [idle_growth cash rate markup d1 hc hr h1, idle_growth cash rate markup d2 hc hr (le_trans h1 h12)]
  have hb : (1 : ℝ) ≤ 1 + rate - markup := by linarith
  exact mul_le_mul_of_nonneg_left (Real.rpow_le_rpow_of_exponent_le hb (yearsOf_mono d1 d2 h12)) (le_of_lt hc)

/-- **A higher reference rate pays more, a higher markup less**: the balance of idle cash is monotone in the net
    rate `rate − markup` -/
theorem idle_growth_monotone_rate (cash r1 r2 m1 m2 : ℝ) (dt : Int) (hc : 0 < cash) (h1 : m1 ≤ r1)
    (h12 : r1 - m1 ≤ r2 - m2) (hdt : 0 ≤ dt) : bal cash r1 m1 dt ≤ bal cash r2 m2 dt := by
  rw [idle_growth cash r1 m1 dt hc h1 hdt, idle_growth cash r2 m2 dt hc (by linarith) hdt]
  have hb : (0 : ℝ) ≤ 1 + r1 - m1 := by linarith
  exact mul_le_mul_of_nonneg_left
    (Real.rpow_le_rpow hb (by linarith) (yearsOf_nonneg dt hdt)) (le_of_lt hc)

/-- the interest credited on idle cash is exactly the growth of the balance, and is not negative -/
theorem idle_interest_nonneg (cash rate markup : ℝ) (dt : Int) (hc : 0 < cash) (hr : markup ≤ rate) (hdt : 0 ≤ dt) :
    0 ≤ bal cash rate markup dt - cash := by
  have h0 := idle_growth_monotone_time cash rate markup 0 dt hc hr (le_refl 0) hdt
  have hz : bal cash rate markup 0 = cash := by
    unfold bal; rw [accrue_same_instant_zero]; ring
  linarith
end
end TV
