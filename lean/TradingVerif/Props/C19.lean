/-
  C19 — futures calendars: expiry rules, cut-off before expiry, ordered chains.

  Part A holds for every month of every year: the rules are functions of (weekday of the 1st, month length)
  only, and those range over a 7 × 4 table.
  Part B evaluates the model's day-number arithmetic in the kernel over the property's whole domain
  (every class, every year 1970..2099, every month) — no sampling.
-/
import Mathlib.Tactic.IntervalCases
import TradingVerif.Model.Calendar
set_option linter.unusedVariables false
namespace TV.Cal

/-! ## Part A — all months -/

theorem weekday_range (n : Int) : 0 ≤ weekday n ∧ weekday n < 7 := by
  unfold weekday; omega

theorem weekday_succ (n : Int) : weekday (n + 1) = (weekday n + 1) % 7 := by
  unfold weekday; omega

/-- shifting a date by `k` days shifts the weekday by `k` (mod 7) -/
theorem weekday_add (n k : Int) : weekday (n + k) = (weekday n + k) % 7 := by
  unfold weekday; omega

def tableOK (p : Int → Int → Bool) : Bool :=
  (List.range 7).all fun w => (List.range 4).all fun l => p (w : Int) ((l : Int) + 28)

/-- **"List the days, group by weekday name, take index k" is `1 + ((w − wd1) mod 7) + 7k`** — whatever the
    weekday of the 1st and the month length. -/
theorem nth_weekday_table :
    tableOK (fun wd1 len => (List.range 7).all fun w => (List.range 4).all fun k =>
      nthWeekdayDay wd1 len (w : Int) k == nthWeekdayClosed wd1 (w : Int) k) = true := by
  decide +kernel

/-- the list procedure for "last business day of the month" equals its closed form on the whole table -/
theorem last_weekday_table :
    tableOK (fun wd1 len => lastWeekdayDay wd1 len == lastWeekdayClosed wd1 len) = true := by
  decide +kernel

/-- lift of the table to every (weekday of the 1st, month length) -/
theorem tableOK_spec (p : Int → Int → Bool) (h : tableOK p = true) (wd1 len : Int)
    (hw : 0 ≤ wd1 ∧ wd1 < 7) (hl : 28 ≤ len ∧ len ≤ 31) : p wd1 len = true := by
  unfold tableOK at h
  rw [List.all_eq_true] at h
  have h1 := h wd1.toNat (by simp [List.mem_range]; omega)
  rw [List.all_eq_true] at h1
  have h2 := h1 (len - 28).toNat (by simp [List.mem_range]; omega)
  have e1 : ((wd1.toNat : Nat) : Int) = wd1 := by omega
  have e2 : (((len - 28).toNat : Nat) : Int) + 28 = len := by omega
  rw [e1, e2] at h2
  exact h2

/-- **ES expires on the third Friday**: day 15..21 of the month, a Friday (weekday 4) -/
theorem third_friday (wd1 len : Int) (hw : 0 ≤ wd1 ∧ wd1 < 7) (hl : 28 ≤ len ∧ len ≤ 31) :
    let d := nthWeekdayDay wd1 len 4 2
    15 ≤ d ∧ d ≤ 21 ∧ (wd1 + (d - 1)) % 7 = 4 := by
  have := tableOK_spec (fun wd1 len => let d := nthWeekdayDay wd1 len 4 2
    decide (15 ≤ d) && (decide (d ≤ 21) && decide ((wd1 + (d - 1)) % 7 = 4))) (by decide +kernel) wd1 len hw hl
  simpa using this

/-- **NK expires on the second Friday**: day 8..14, a Friday -/
theorem second_friday (wd1 len : Int) (hw : 0 ≤ wd1 ∧ wd1 < 7) (hl : 28 ≤ len ∧ len ≤ 31) :
    let d := nthWeekdayDay wd1 len 4 1
    8 ≤ d ∧ d ≤ 14 ∧ (wd1 + (d - 1)) % 7 = 4 := by
  have := tableOK_spec (fun wd1 len => let d := nthWeekdayDay wd1 len 4 1
    decide (8 ≤ d) && (decide (d ≤ 14) && decide ((wd1 + (d - 1)) % 7 = 4))) (by decide +kernel) wd1 len hw hl
  simpa using this

/-- the closed formula used for VX, `21 − (wd1 + 2) mod 7`, is the third Friday -/
theorem vx_formula_is_third_friday (wd1 len : Int) (hw : 0 ≤ wd1 ∧ wd1 < 7) (hl : 28 ≤ len ∧ len ≤ 31) :
    21 - (wd1 + 2) % 7 = nthWeekdayDay wd1 len 4 2 := by
  have := tableOK_spec (fun wd1 len => decide (21 - (wd1 + 2) % 7 = nthWeekdayDay wd1 len 4 2))
    (by decide +kernel) wd1 len hw hl
  simpa using this

/-- **VX expires on a Wednesday**: 30 days before a Friday is a Wednesday -/
theorem vx_expiry_wednesday (f : Int) (hf : weekday f = 4) : weekday (f - 30) = 2 := by
  unfold weekday at *; omega

/-- two business days before a Wednesday is the Monday of that week: the VX cut-off is `expiry − 2 days` -/
theorem vx_cutoff (e : Int) (he : weekday e = 2) :
    prevBDay (prevBDay e) = e - 2 ∧ weekday (prevBDay (prevBDay e)) = 0 := by
  have h1 : prevBDay e = e - 1 := by
    unfold prevBDay; simp [he]
  have hw1 : weekday (e - 1) = 1 := by unfold weekday at *; omega
  have h2 : prevBDay (e - 1) = e - 2 := by
    unfold prevBDay; simp [hw1]; omega
  rw [h1, h2]
  exact ⟨rfl, by unfold weekday at *; omega⟩

/-- **Treasury futures expire on the last weekday of the month**: a Monday–Friday day, within the last three
    days of the month, every later day of the month being a Saturday or Sunday -/
theorem last_weekday (wd1 len : Int) (hw : 0 ≤ wd1 ∧ wd1 < 7) (hl : 28 ≤ len ∧ len ≤ 31) :
    let d := lastWeekdayDay wd1 len
    len - 2 ≤ d ∧ d ≤ len ∧ (wd1 + (d - 1)) % 7 ≤ 4 ∧
    (d + 1 ≤ len → (wd1 + d) % 7 ≥ 5) ∧ (d + 2 ≤ len → (wd1 + d + 1) % 7 ≥ 5) := by
  have := tableOK_spec (fun wd1 len => let d := lastWeekdayDay wd1 len
    decide (len - 2 ≤ d) && (decide (d ≤ len) && (decide ((wd1 + (d - 1)) % 7 ≤ 4) &&
    (decide (d + 1 ≤ len → (wd1 + d) % 7 ≥ 5) && decide (d + 2 ≤ len → (wd1 + d + 1) % 7 ≥ 5)))))
    (by decide +kernel) wd1 len hw hl
  simp only [Bool.and_eq_true, decide_eq_true_eq] at this
  exact this

/-- the ES / NK cut-offs are strictly before the expiry by construction -/
theorem es_nk_cutoff_before (e : Int) : lastTrading .ES e < e ∧ lastTrading .NK e < e := by
  show e - 8 < e ∧ e - 14 < e
  constructor <;> omega

/-! ## Part B — the whole domain of the property: every class, every year 1970..2099, every month -/

def allYM (p : Int → Int → Bool) : Bool :=
  (List.range 130).all fun i => (List.range 12).all fun j => p (1970 + (i : Int)) ((j : Int) + 1)

theorem allYM_spec (p : Int → Int → Bool) (h : allYM p = true) (y m : Int)
    (hy : 1970 ≤ y ∧ y ≤ 2099) (hm : 1 ≤ m ∧ m ≤ 12) : p y m = true := by
  unfold allYM at h
  rw [List.all_eq_true] at h
  have h1 := h (y - 1970).toNat (by simp [List.mem_range]; omega)
  rw [List.all_eq_true] at h1
  have h2 := h1 (m - 1).toNat (by simp [List.mem_range]; omega)
  have e1 : 1970 + (((y - 1970).toNat : Nat) : Int) = y := by omega
  have e2 : (((m - 1).toNat : Nat) : Int) + 1 = m := by omega
  rw [e1, e2] at h2
  exact h2

/-- the day-number arithmetic is the Gregorian calendar on the domain: the 1st of consecutive months are
    `monthLen` apart, and the conversion back gives the 1st of that month -/
theorem month_lengths_domain :
    allYM (fun y m =>
      let nxt := if m == 12 then daysFromCivil (y + 1) 1 1 else daysFromCivil y (m + 1) 1
      nxt - daysFromCivil y m 1 == monthLen y m && civilFromDays (daysFromCivil y m 1) == (y, m, 1)) = true := by
  decide +kernel

/-- ES: a Friday, in the contract month, day 15..21 -/
theorem es_expiry_third_friday_domain :
    allYM (fun y m => let p := civilFromDays (expiry .ES y m)
      weekday (expiry .ES y m) == 4 && p.1 == y && p.2.1 == m && decide (15 ≤ p.2.2) && decide (p.2.2 ≤ 21)) = true := by
  decide +kernel

/-- NK: a Friday, in the contract month, day 8..14 -/
theorem nk_expiry_second_friday_domain :
    allYM (fun y m => let p := civilFromDays (expiry .NK y m)
      weekday (expiry .NK y m) == 4 && p.1 == y && p.2.1 == m && decide (8 ≤ p.2.2) && decide (p.2.2 ≤ 14)) = true := by
  decide +kernel

/-- VX: a Wednesday in the contract month, exactly 30 days before the third Friday of the following month -/
theorem vx_expiry_domain :
    allYM (fun y m =>
      let e := expiry .VX y m
      let p := civilFromDays e
      let f := civilFromDays (e + 30)
      let nm := if m == 12 then (y + 1, (1 : Int)) else (y, m + 1)
      weekday e == 2 && p.1 == y && p.2.1 == m &&
      weekday (e + 30) == 4 && f.1 == nm.1 && f.2.1 == nm.2 && decide (15 ≤ f.2.2) && decide (f.2.2 ≤ 21)) = true := by
  decide +kernel

/-- Treasury: the last Monday–Friday day of the contract month; its cut-off is a 24th, strictly earlier -/
theorem treasury_expiry_domain :
    allYM (fun y m =>
      let e := expiry .ZN y m
      let p := civilFromDays e
      let nxt := if m == 12 then daysFromCivil (y + 1) 1 1 else daysFromCivil y (m + 1) 1
      let l := lastTrading .ZN e
      decide (weekday e ≤ 4) && p.1 == y && p.2.1 == m &&
      (decide (nxt - e ≤ 1) || decide (weekday (e + 1) ≥ 5)) && (decide (nxt - e ≤ 2) || decide (weekday (e + 2) ≥ 5)) &&
      decide (nxt - e ≤ 3) && decide (l < e) && (civilFromDays l).2.2 == 24) = true := by
  decide +kernel

/-- all Treasury classes share the rule -/
theorem treasury_same_rule (c : Cls) (h : c.isTreasury = true) (y m : Int) :
    expiry c y m = expiry .ZN y m ∧ ∀ e, lastTrading c e = lastTrading .ZN e := by
  cases c <;> simp [Cls.isTreasury] at h <;> exact ⟨rfl, fun _ => rfl⟩

/-- **every contract's last trading date is strictly earlier than its expiry** (all classes, whole domain) -/
theorem ltd_lt_expiry (c : Cls) (y m : Int) (hy : 1970 ≤ y ∧ y ≤ 2099) (hm : 1 ≤ m ∧ m ≤ 12) :
    lastTrading c (expiry c y m) < expiry c y m := by
  have hvx := allYM_spec _ vx_expiry_domain y m hy hm
  have htr := allYM_spec _ treasury_expiry_domain y m hy hm
  simp only [Bool.and_eq_true, beq_iff_eq, decide_eq_true_eq] at hvx htr
  cases c with
  | ES => exact (es_nk_cutoff_before _).1
  | NK => exact (es_nk_cutoff_before _).2
  | VX =>
      have := (vx_cutoff (expiry .VX y m) hvx.1.1.1.1.1.1.1).1
      show prevBDay (prevBDay (expiry .VX y m)) < _
      rw [this]; omega
  | ZQ => exact htr.1.2
  | ZT => exact htr.1.2
  | ZF => exact htr.1.2
  | ZN => exact htr.1.2
  | ZB => exact htr.1.2

/-- the contract month and year of the expiry are the requested ones (every class, whole domain) -/
theorem expiry_in_contract_month (c : Cls) (y m : Int) (hy : 1970 ≤ y ∧ y ≤ 2099) (hm : 1 ≤ m ∧ m ≤ 12) :
    (civilFromDays (expiry c y m)).1 = y ∧ (civilFromDays (expiry c y m)).2.1 = m := by
  have hes := allYM_spec _ es_expiry_third_friday_domain y m hy hm
  have hnk := allYM_spec _ nk_expiry_second_friday_domain y m hy hm
  have hvx := allYM_spec _ vx_expiry_domain y m hy hm
  have htr := allYM_spec _ treasury_expiry_domain y m hy hm
  simp only [Bool.and_eq_true, beq_iff_eq, decide_eq_true_eq] at hes hnk hvx htr
  cases c with
  | ES => exact ⟨hes.1.1.1.2, hes.1.1.2⟩
  | NK => exact ⟨hnk.1.1.1.2, hnk.1.1.2⟩
  | VX => exact ⟨hvx.1.1.1.1.1.1.2, hvx.1.1.1.1.1.2⟩
  | ZQ => exact ⟨htr.1.1.1.1.1.1.2, htr.1.1.1.1.1.2⟩
  | ZT => exact ⟨htr.1.1.1.1.1.1.2, htr.1.1.1.1.1.2⟩
  | ZF => exact ⟨htr.1.1.1.1.1.1.2, htr.1.1.1.1.1.2⟩
  | ZN => exact ⟨htr.1.1.1.1.1.1.2, htr.1.1.1.1.1.2⟩
  | ZB => exact ⟨htr.1.1.1.1.1.1.2, htr.1.1.1.1.1.2⟩

/-- **symbol = class code + month code of the contract month + two-digit year** -/
theorem symbol_spec (c : Cls) (y m : Int) (hy : 1970 ≤ y ∧ y ≤ 2099) (hm : 1 ≤ m ∧ m ≤ 12) :
    symbol c y m = c.name ++ monthCode m ++ twoDigits y := by
  obtain ⟨h1, h2⟩ := expiry_in_contract_month c y m hy hm
  unfold symbol
  simp only [h1, h2]

/-- **chains are strictly increasing in expiry and in last-trading date**: from each listed month to the next
    one of the class's frequency (monthly for VX, quarterly otherwise) -/
def chainStepOK (c : Cls) : Bool :=
  allYM (fun y m =>
    let step : Int := if c.monthly then 1 else 3
    let t := (m - 1) + step
    let y2 := y + t / 12
    let m2 := t % 12 + 1
    (!(c.monthly || m % 3 == 0)) || (decide (y2 > 2099)) ||
    (decide (expiry c y m < expiry c y2 m2) &&
     decide (lastTrading c (expiry c y m) < lastTrading c (expiry c y2 m2))))

theorem chain_strictly_increasing_ES : chainStepOK .ES = true := by decide +kernel
theorem chain_strictly_increasing_NK : chainStepOK .NK = true := by decide +kernel
theorem chain_strictly_increasing_VX : chainStepOK .VX = true := by decide +kernel
theorem chain_strictly_increasing_Treasury : chainStepOK .ZN = true := by decide +kernel

theorem monthCode_injective :
    (List.range 12).all (fun a => (List.range 12).all (fun b =>
      !(monthCode ((a : Int) + 1) == monthCode ((b : Int) + 1)) || a == b)) = true := by
  decide +kernel

/-- **symbols are unique within a century**: within any 100 consecutive years the pair (month code, two-digit
    year) identifies the contract month -/
theorem symbols_unique_within_century (y y' m m' : Int) (hm : 1 ≤ m ∧ m ≤ 12) (hm' : 1 ≤ m' ∧ m' ≤ 12)
    (hy : y ≤ y' ∧ y' < y + 100) (h : monthCode m = monthCode m' ∧ y % 100 = y' % 100) : y = y' ∧ m = m' := by
  obtain ⟨h1, h2⟩ := h
  refine ⟨by omega, ?_⟩
  have hinj := monthCode_injective
  rw [List.all_eq_true] at hinj
  have ha := hinj (m - 1).toNat (by simp [List.mem_range]; omega)
  rw [List.all_eq_true] at ha
  have hb := ha (m' - 1).toNat (by simp [List.mem_range]; omega)
  have e1 : (((m - 1).toNat : Nat) : Int) + 1 = m := by omega
  have e2 : (((m' - 1).toNat : Nat) : Int) + 1 = m' := by omega
  rw [e1, e2] at hb
  simp only [Bool.or_eq_true, Bool.not_eq_true', beq_eq_false_iff_ne, beq_iff_eq] at hb
  rcases hb with hb | hb
  · exact absurd h1 hb
  · omega

end TV.Cal
