/-
  C18 — the tabular environment serves exactly the data it was given.
-/
import Mathlib.Tactic.Ring
import Mathlib.Tactic.Linarith
import Mathlib.Tactic.FieldSimp
import Mathlib.Algebra.Order.Field.Basic
import TradingVerif.Model.Tabular
set_option linter.unusedSectionVars false
set_option linter.unusedVariables false
namespace TV.Tab

section
variable {β : Type}

/-- the last `n` elements -/
def lastN (n : Nat) (l : List β) : List β := l.drop (l.length - n)

theorem lastN_length (n : Nat) (l : List β) (h : n ≤ l.length) : (lastN n l).length = n := by
  unfold lastN; simp only [List.length_drop]; omega

theorem lastN_append_singleton (n : Nat) (hn : 1 ≤ n) (l : List β) (h : n ≤ l.length) (x : β) :
    lastN n (lastN n l ++ [x]) = lastN n (l ++ [x]) := by
  unfold lastN
  simp only [List.length_append, List.length_drop, List.length_singleton]
  have e1 : l.length - (l.length - n) + 1 - n = 1 := by omega
  have e2 : l.length + 1 - n = (l.length - n) + 1 := by omega
  rw [e1, e2]
  rw [List.drop_append_of_le_length (by simp only [List.length_drop]; omega)]
  rw [List.drop_append_of_le_length (by omega)]
  rw [List.drop_drop]
  first | done | (congr 2; omega)

theorem pushObs_false (window : Nat) (q : List β) (x : β) : pushObs window false q x = lastN window (q ++ [x]) := by
  unfold pushObs lastN; simp

theorem pushObs_true (window : Nat) (q : List β) (x : β) :
    pushObs window true q x = lastN window (List.replicate window x ++ [x]) := by
  unfold pushObs lastN; simp

/-- **The state queue always holds the last `window` rows, the first row repeated to pad**: after the
    observations `r, rs…` the queue is the last `window` entries of `window copies of r ++ r :: rs`. -/
theorem queue_window (window : Nat) (hw : 1 ≤ window) (r : β) (rs : List β) :
    queueAfter window (r :: rs) = lastN window (List.replicate window r ++ r :: rs) := by
  show rs.foldl (pushObs window false) (pushObs window true [] r) = _
  rw [pushObs_true]
  have gen : ∀ (rs : List β) (L : List β), window ≤ L.length →
      rs.foldl (pushObs window false) (lastN window L) = lastN window (L ++ rs) := by
    intro rs
    induction rs with
    | nil => intro L _; simp
    | cons x xs ih =>
        intro L hL
        simp only [List.foldl_cons]
        rw [pushObs_false, lastN_append_singleton window hw L hL x]
        rw [ih (L ++ [x]) (by simp; omega)]
        simp
  have := gen rs (List.replicate window r ++ [r]) (by simp)
  rw [this]
  first | done | simp

theorem queue_length (window : Nat) (hw : 1 ≤ window) (r : β) (rs : List β) :
    (queueAfter window (r :: rs)).length = window := by
  rw [queue_window window hw]
  apply lastN_length
  simp

/-- the last `n` of `A ++ B` are the last `n` of `B` as soon as `B` has `n` elements -/
theorem lastN_append_of_le (n : Nat) (A B : List β) (h : n ≤ B.length) : lastN n (A ++ B) = lastN n B := by
  unfold lastN
  simp only [List.length_append]
  have e : A.length + B.length - n = A.length + (B.length - n) := by omega
  rw [e, ← List.drop_drop, List.drop_left]

/-- **No padding once a full window has been fed**: if at least `window` rows were observed, the queue is exactly
    the last `window` of them. -/
theorem queue_full_window (window : Nat) (hw : 1 ≤ window) (r : β) (rs : List β)
    (h : window ≤ (r :: rs).length) : queueAfter window (r :: rs) = lastN window (r :: rs) := by
  rw [queue_window window hw, lastN_append_of_le window _ _ h]

/-- **An episode that starts in the middle of the data** (a fold, a sampled window): the state is fed only the
    rows `fed` inside the warm-up horizon, a suffix of the published table `old ++ fed` up to the step. As soon
    as the horizon covers a full window the observation is the last `window` rows of the *whole* table dated at or
    before the step - what the property demands; nothing depends on how far back `old` reaches. -/
theorem warmup_serves_table (window : Nat) (hw : 1 ≤ window) (old : List β) (r : β) (rs : List β)
    (h : window ≤ (r :: rs).length) :
    queueAfter window (r :: rs) = lastN window (old ++ r :: rs) := by
  rw [queue_full_window window hw r rs h, lastN_append_of_le window old _ h]

/-- the excluded point of `warmup_serves_table`: a horizon shorter than the window shows as copies of the oldest
    replayed row (the declared shape is kept, the rows are not those of the table) -/
theorem warmup_short_pads (window : Nat) (hw : 1 ≤ window) (r : β) (rs : List β)
    (h : (r :: rs).length < window) :
    queueAfter window (r :: rs) = List.replicate (window - (r :: rs).length) r ++ r :: rs := by
  rw [queue_window window hw]
  unfold lastN
  have hl : (List.replicate window r ++ r :: rs).length - window = (r :: rs).length := by
    simp only [List.length_append, List.length_replicate]; omega
  rw [hl]
  have hle : (r :: rs).length ≤ (List.replicate window r).length := by
    simp only [List.length_replicate]; omega
  rw [List.drop_append_of_le_length hle, List.drop_replicate]

/-- number of rows kept by the stride: `ceil(len / stride)` -/
theorem everyNth_length (stride : Nat) (hs : 1 ≤ stride) (l : List β) :
    (everyNth stride l).length = (l.length + stride - 1) / stride := by
  fun_induction everyNth stride l with
  | case1 =>
      simp only [List.length_nil, Nat.zero_add]
      exact (Nat.div_eq_of_lt (by omega)).symm
  | case2 x xs ih =>
      simp only [List.length_cons, ih, List.length_drop]
      by_cases h : stride - 1 ≤ xs.length
      · have e : xs.length + 1 + stride - 1 = (xs.length - (stride - 1) + stride - 1) + stride := by omega
        rw [e, Nat.add_div_right _ (by omega)]
      · have h' : xs.length - (stride - 1) = 0 := by omega
        rw [h']
        have e1 : (0 + stride - 1) / stride = 0 := by
          apply Nat.div_eq_of_lt; omega
        have e2 : (xs.length + 1 + stride - 1) / stride = 1 := by
          apply Nat.div_eq_of_lt_le <;> omega
        rw [e1, e2]

/-- **Declared shape**: the observation has `ceil(window / stride)` rows (or `window` without a stride) -/
theorem obs_shape (window : Nat) (hw : 1 ≤ window) (r : β) (rs : List β) (stride : Nat) (hs : 1 ≤ stride) :
    (thin (some stride) (queueAfter window (r :: rs))).length = (window + stride - 1) / stride ∧
    (thin none (queueAfter window (r :: rs))).length = window := by
  constructor
  · unfold thin
    cases stride with
    | zero => omega
    | succ k =>
        simp only [List.length_reverse]
        rw [everyNth_length (k + 1) (by omega), List.length_reverse, queue_length window hw]
  · unfold thin; exact queue_length window hw r rs

/-- the most recent row is always served, first in the thinning and last in the observation -/
theorem thin_keeps_latest (stride : Nat) (hs : 1 ≤ stride) (q : List β) (x : β) (h : q.getLast? = some x) :
    (thin (some stride) q).getLast? = some x := by
  unfold thin
  cases stride with
  | zero => omega
  | succ k =>
      simp only
      rw [List.getLast?_reverse]
      cases hq : q.reverse with
      | nil =>
          have : q = [] := by simpa using hq
          subst this; simp at h
      | cons y ys =>
          rw [everyNth]
          simp only [List.head?_cons]
          have : q.getLast? = some y := by
            rw [← List.head?_reverse, hq]; rfl
          rw [this] at h; exact h

end

section
variable {K : Type} [Field K] [LinearOrder K] [IsStrictOrderedRing K]

theorem clip_bounds (x c : K) (hc : 0 ≤ c) : -c ≤ clipTo x (-c) c ∧ clipTo x (-c) c ≤ c := by
  unfold clipTo
  split_ifs with h1 h2
  · exact ⟨le_refl _, by linarith⟩
  · exact ⟨by linarith, le_refl _⟩
  · exact ⟨not_lt.mp h1, not_lt.mp h2⟩

/-- **Every published entry lies within the declared bounds** `[−clip, clip] ⊆ [−5, 5]` for `clip ≤ 5` -/
theorem prepare_bounds (c : K) (hc : 0 ≤ c) (xs : List (Option K)) :
    ∀ v ∈ prepareColumn c xs, -c ≤ v ∧ v ≤ c := by
  intro v hv
  unfold prepareColumn at hv
  obtain ⟨w, _, rfl⟩ := List.mem_map.mp hv
  exact clip_bounds w c hc

theorem ffillFrom_take (last : Option K) (xs : List (Option K)) (n : Nat) :
    (ffillFrom last xs).take n = ffillFrom last (xs.take n) := by
  induction xs generalizing last n with
  | nil => simp [ffillFrom]
  | cons x xs ih =>
      cases n with
      | zero => simp [ffillFrom]
      | succ k =>
          cases x with
          | none => simp [ffillFrom, ih]
          | some v => simp [ffillFrom, ih]

/-- **Forward fill is causal**: the first `n` filled entries depend on the first `n` raw entries only -/
theorem ffill_causal (xs : List (Option K)) (n : Nat) : (ffill xs).take n = ffill (xs.take n) :=
  ffillFrom_take none xs n

/-- the whole per-column preparation (forward fill, fill 0, clip) is causal: rows dated after `t` never
    influence the published rows up to `t` -/
theorem prepare_causal (c : K) (xs : List (Option K)) (n : Nat) :
    (prepareColumn c xs).take n = prepareColumn c (xs.take n) := by
  unfold prepareColumn fill0
  rw [← List.map_take, ← List.map_take, ffill_causal]

/-- forward fill never invents a value: an entry is the latest present raw value at or before it -/
theorem ffillFrom_spec (last : Option K) (xs : List (Option K)) (i : Nat) (hi : i < xs.length) :
    (ffillFrom last xs)[i]? = some (((xs.take (i + 1)).reverse.find? (·.isSome)).getD last) := by
  induction xs generalizing last i with
  | nil => simp at hi
  | cons x xs ih =>
      cases i with
      | zero =>
          cases x with
          | none => simp [ffillFrom]
          | some v => simp [ffillFrom]
      | succ k =>
          have hk : k < xs.length := by simpa using hi
          cases x with
          | none =>
              simp only [ffillFrom, List.getElem?_cons_succ, ih last k hk, List.take_succ_cons, List.reverse_cons,
                List.find?_append]
              cases hfind : (xs.take (k + 1)).reverse.find? (·.isSome) with
              | none => simp
              | some w => simp
          | some v =>
              simp only [ffillFrom, List.getElem?_cons_succ, ih (some v) k hk, List.take_succ_cons, List.reverse_cons,
                List.find?_append]
              cases hfind : (xs.take (k + 1)).reverse.find? (·.isSome) with
              | none => simp
              | some w => simp

/-- **The tabular observation does not look ahead**: the observation served once `n` rows of a feature column
    have been published (the last `window` of them, thinned by the stride) is the same for any two raw
    columns that agree on their first `n` entries — altering rows dated later changes nothing. (The transformer
    is row-wise and fitted on rows up to a date not after `t`, so the raw column here is its output.) -/
theorem tabular_obs_causal (c : K) (xs xs' : List (Option K)) (n : Nat) (h : xs.take n = xs'.take n)
    (window : Nat) (stride : Option Nat) :
    thin stride (queueAfter window ((prepareColumn c xs).take n)) =
      thin stride (queueAfter window ((prepareColumn c xs').take n)) := by
  rw [prepare_causal, prepare_causal, h]

/-- **The quotes traded are the given price widened by the configured spread**: the mid is the price, the
    gap is `price × spread`, the bid never exceeds the ask -/
theorem quotes_widened (p s : K) (hp : 0 ≤ p) (hs : 0 ≤ s) :
    (widen p s).1 ≤ (widen p s).2 ∧ ((widen p s).1 + (widen p s).2) / 2 = p ∧
    (widen p s).2 - (widen p s).1 = p * s := by
  unfold widen
  refine ⟨?_, by ring, by ring⟩
  have : 0 ≤ p * s / 2 := div_nonneg (mul_nonneg hp hs) (by norm_num)
  simp only
  linarith

end

/-- **Steps occur only on dates present in the price table that are not holidays, inside the common valid
    range, and never before `window` eligible dates have passed** -/
theorem timesteps_spec (yDates holidays : List Time) (lo hi : Time) (window : Nat) :
    (∀ t ∈ makeTimesteps yDates holidays lo hi window, t ∈ yDates ∧ t ∉ holidays ∧ lo ≤ t ∧ t ≤ hi) ∧
    makeTimesteps yDates holidays lo hi window =
      ((yDates.filter (fun t => decide (lo ≤ t) && decide (t ≤ hi))).filter (fun t => !holidays.contains t)).drop window := by
  refine ⟨?_, rfl⟩
  intro t ht
  unfold makeTimesteps at ht
  have h1 := List.mem_of_mem_drop ht
  have h2 := List.mem_filter.mp h1
  have h3 := List.mem_filter.mp h2.1
  simp only [Bool.and_eq_true, decide_eq_true_eq] at h3
  refine ⟨h3.1, ?_, h3.2.1, h3.2.2⟩
  have := h2.2
  simpa using this

end TV.Tab
