/-
  C02 — no look-ahead: outputs up to time t never depend on data stamped after t.
-/
import TradingVerif.Props.C04
import TradingVerif.Lemmas.IntInst
set_option linter.unusedSectionVars false
set_option linter.unusedVariables false
namespace TV
section
variable {ρ : Type}

theorem grid_le_last (grid : List Time) (hg : grid.Pairwise (· < ·)) (g : Time) (hin : g ∈ grid) :
    g ≤ grid.getLast?.getD 0 := by
  induction grid generalizing g with
  | nil => cases hin
  | cons x xs ih =>
      have hp := List.pairwise_cons.mp hg
      cases xs with
      | nil =>
          simp only [List.mem_singleton] at hin
          subst hin; simp
      | cons y ys =>
          rw [List.getLast?_cons_cons]
          rcases List.mem_cons.mp hin with rfl | hin'
          · have := ih hp.2 y (List.mem_cons_self)
            exact le_trans (le_of_lt (hp.1 y (List.mem_cons_self))) this
          · exact ih hp.2 g hin'

/-- the partitioned events stamped up to a grid point `t` are the sorted events stamped up to `t`:
    a function of `events.filter (time ≤ t)` (and of the grid) only -/
theorem sorted_upto (c : TxCfg ρ) (t : Time) (ht : t ∈ c.grid) :
    c.sorted.filter (fun e => decide (e.time ≤ t)) =
      (if c.markov then
        (sortEvents (c.events.filter (fun e => decide (e.time ≤ t)))).filter (fun e => decide (c.grid.head?.getD 0 ≤ e.time))
       else sortEvents (c.events.filter (fun e => decide (e.time ≤ t)))) := by
  have hlast := grid_le_last c.grid (mkGrid_strict c.timesteps) t ht
  have hff : (c.events.filter (fun e => decide (e.time ≤ c.grid.getLast?.getD 0))).filter (fun e => decide (e.time ≤ t))
      = c.events.filter (fun e => decide (e.time ≤ t)) := by
    rw [List.filter_filter]
    apply List.filter_congr
    intro e _
    by_cases h : e.time ≤ t
    · simp [h, le_trans h hlast]
    · simp [h]
  unfold TxCfg.sorted
  simp only
  split_ifs with hm
  · rw [List.filter_filter]
    rw [show (fun a : TEvent ρ => decide (a.time ≤ t) && decide (c.grid.head?.getD 0 ≤ a.time))
          = (fun a => decide (c.grid.head?.getD 0 ≤ a.time) && decide (a.time ≤ t)) by
        funext a; exact Bool.and_comm _ _]
    rw [← List.filter_filter, sortEvents_filter, hff]
  · rw [sortEvents_filter, hff]

/-- **The batches of every timestep up to `t` depend only on the events stamped up to `t`.**
    Two event lists on the same grid (same latency / markov setting) that agree on the events stamped `≤ t`
    yield identical latent and non-latent batches for every grid point `g ≤ t`. -/
theorem batches_depend_on_past (c c' : TxCfg ρ) (t : Time) (ht : t ∈ c.grid)
    (hgrid : c'.timesteps = c.timesteps) (hlat : c'.latency = c.latency) (hmk : c'.markov = c.markov)
    (hev : c.events.filter (fun e => decide (e.time ≤ t)) = c'.events.filter (fun e => decide (e.time ≤ t)))
    (g : Time) (hg : g ∈ c.grid) (hgt : g ≤ t) :
    c.latent g = c'.latent g ∧ c.nonlatent g = c'.nonlatent g := by
  have hgr : c'.grid = c.grid := by unfold TxCfg.grid; rw [hgrid]
  have ht' : t ∈ c'.grid := by rw [hgr]; exact ht
  have hs : c.sorted.filter (fun e => decide (e.time ≤ t)) = c'.sorted.filter (fun e => decide (e.time ≤ t)) := by
    rw [sorted_upto c t ht, sorted_upto c' t ht', hmk, hgr, hev]
  -- a filter that implies `time ≤ t` can be taken after restricting to `time ≤ t`
  have key : ∀ (d : TxCfg ρ) (q : TEvent ρ → Bool), d.grid = c.grid →
      (∀ e, q e = true → bucketOf c.grid e.time = some g) →
      d.sorted.filter q = (d.sorted.filter (fun e => decide (e.time ≤ t))).filter q := by
    intro d q hd hq
    rw [List.filter_filter]
    apply List.filter_congr
    intro e _
    by_cases hqe : q e = true
    · have hb := hq e hqe
      have := (bucket_spec c.grid (mkGrid_strict c.timesteps) e.time g hb).2.1
      simp [hqe, le_trans this hgt]
    · simp [hqe]
  unfold TxCfg.latent TxCfg.nonlatent
  constructor
  · rw [key c _ rfl (by intro e he; simp only [Bool.and_eq_true, decide_eq_true_eq] at he; exact he.1),
        key c' _ hgr (by intro e he; simp only [Bool.and_eq_true, decide_eq_true_eq] at he; rw [← hgr]; exact he.1), hs]
    apply List.filter_congr
    intro e _
    simp only [isLatent, hgr, hlat]
  · rw [key c _ rfl (by intro e he; simp only [Bool.and_eq_true, decide_eq_true_eq] at he; exact he.1),
        key c' _ hgr (by intro e he; simp only [Bool.and_eq_true, decide_eq_true_eq] at he; rw [← hgr]; exact he.1), hs]
    apply List.filter_congr
    intro e _
    simp only [isLatent, hgr, hlat]

/-- **The trades of the following step depend on nothing stamped after `t + latency`**: an event that is
    applied before the execution between `t` and the next timestep `g'` is stamped `≤ t + latency`. -/
theorem latent_within_latency (c : TxCfg ρ) (g' t : Time) (hprev : prevOf c.grid g' = t) (e : TEvent ρ)
    (he : e ∈ c.latent g') : e.time ≤ t + c.latency := by
  have := ((latent_iff c g' e).mp he).2.2
  rw [hprev] at this
  linarith

end

section
variable {α : Type} [Add α] [Sub α] [Mul α] [Div α] [Neg α] [LT α] [LE α]
  [DecidableLT α] [DecidableLE α] [DecidableEq α] [OfNat α 0] [OfNat α 1] [OfNat α 2]
  [IntCast α] [HasTrunc α]

/-- `step` reads the event stream only through the batches of the timestep it is about to load -/
theorem processNonlatent_congr (cfg : EnvCfg α) (tx' : TxCfg (Payload α)) (s : EnvState α) (hc : s.cursor ≠ 0)
    (h : ∀ cur, s.steps[s.cursor]? = some cur →
      tx'.latent cur = cfg.tx.latent cur ∧ tx'.nonlatent cur = cfg.tx.nonlatent cur) :
    processNonlatent { cfg with tx := tx' } s = processNonlatent cfg s := by
  obtain ⟨_, _, i3, i4, _⟩ := foldl_notifyEvent s.pendNon s
  unfold processNonlatent
  simp only
  cases hcur : (List.foldl notifyEvent s s.pendNon).steps[(List.foldl notifyEvent s s.pendNon).cursor]? with
  | none => rfl
  | some cur =>
      have hc' : (List.foldl notifyEvent s s.pendNon).cursor ≠ 0 := by rw [i4]; exact hc
      have hcur' : s.steps[s.cursor]? = some cur := by rw [← i3, ← i4]; exact hcur
      obtain ⟨h1, h2⟩ := h cur hcur'
      simp only [hc', if_false, TxCfg.batch, h1, h2]

/-- **No look-ahead, one step**: replacing the event stream by any other one that yields the same batches
    for the timestep being loaded leaves the whole result of `step` — returned reward, done flag, trades,
    broker, track record, observer log — unchanged. -/
theorem envStep_congr (pw : α → α → α) (lg : α → α) (cfg : EnvCfg α) (tx' : TxCfg (Payload α))
    (s : EnvState α) (a : Action α) (hc : s.cursor ≠ 0)
    (h : ∀ cur, s.steps[s.cursor]? = some cur →
      tx'.latent cur = cfg.tx.latent cur ∧ tx'.nonlatent cur = cfg.tx.nonlatent cur) :
    envStep pw lg { cfg with tx := tx' } s a = envStep pw lg cfg s a := by
  unfold envStep
  split_ifs
  · rfl
  · have hx : stepExec pw { cfg with tx := tx' } (stepPre s a).1 (stepPre s a).2
        = stepExec pw cfg (stepPre s a).1 (stepPre s a).2 := rfl
    rw [hx]
    obtain ⟨_, _, p3, p4, _, _⟩ := stepPre_spec s a
    obtain ⟨_, x2, x3, _⟩ := stepExec_spec pw cfg (stepPre s a).1 (stepPre s a).2
    cases hres : stepExec pw cfg (stepPre s a).1 (stepPre s a).2 with
    | mk s2 res =>
      rw [hres] at x2 x3
      simp only at x2 x3
      cases res with
      | error e => rfl
      | ok tr =>
          simp only
          unfold stepFinish
          have : processNonlatent { cfg with tx := tx' } s2 = processNonlatent cfg s2 :=
            processNonlatent_congr cfg tx' s2 (by rw [x3, p4]; exact hc)
              (by intro cur hcur; apply h cur; rw [← p3, ← p4, ← x2, ← x3]; exact hcur)
          rw [this]
          rfl

/-! ### the whole episode

`SameButPending s s'`: the two states agree on everything a caller can observe or that the account holds —
broker (positions, cash, track record), clock, done flag, action queue, episode steps, cursor, observer log
— and may differ only in the batches *pre-fetched for the next timestep* (which are dated after the
timestep the episode has landed on). -/

def SameButPending (s s' : EnvState α) : Prop :=
  ({ s with pendLat := [], pendNon := [] } : EnvState α) = { s' with pendLat := [], pendNon := [] }

theorem SameButPending.refl (s : EnvState α) : SameButPending s s := rfl

theorem SameButPending.fields {s s' : EnvState α} (h : SameButPending s s') :
    s.broker = s'.broker ∧ s.now = s'.now ∧ s.lastEvent = s'.lastEvent ∧ s.done = s'.done ∧
    s.queue = s'.queue ∧ s.steps = s'.steps ∧ s.cursor = s'.cursor ∧ s.log = s'.log ∧
    s.contractClock = s'.contractClock := by
  unfold SameButPending at h
  cases s; cases s'
  simp only [EnvState.mk.injEq] at h
  obtain ⟨h1, h2, h3, h4, h5, _, _, h8, h9, h10, h11⟩ := h
  exact ⟨h1, h2, h3, h4, h5, h8, h9, h10, h11⟩

theorem SameButPending.of_fields {s s' : EnvState α}
    (h : s.broker = s'.broker ∧ s.now = s'.now ∧ s.lastEvent = s'.lastEvent ∧ s.done = s'.done ∧
      s.queue = s'.queue ∧ s.steps = s'.steps ∧ s.cursor = s'.cursor ∧ s.log = s'.log ∧
      s.contractClock = s'.contractClock) : SameButPending s s' := by
  unfold SameButPending
  cases s; cases s'
  simp only at h
  obtain ⟨h1, h2, h3, h4, h5, h8, h9, h10, h11⟩ := h
  simp [h1, h2, h3, h4, h5, h8, h9, h10, h11]

/-- a notification never reads the pre-fetched batches -/
theorem notify_mod_pending (s s' : EnvState α) (h : SameButPending s s') (k : LogKind) (t : Option Time)
    (m : Option (MEvent α)) : SameButPending (notify s k t m) (notify s' k t m) := by
  obtain ⟨h1, h2, h3, h4, h5, h8, h9, h10, h11⟩ := h.fields
  unfold SameButPending notify isNewDate dispatch
  cases s; cases s'
  simp only at h1 h2 h3 h4 h5 h8 h9 h10 h11
  subst h1 h2 h3 h4 h5 h8 h9 h10 h11
  simp only
  split_ifs <;> rfl

/-- loading the next batches from a different stream changes the pre-fetched batches only -/
theorem processNonlatent_mod_pending (cfg : EnvCfg α) (tx' : TxCfg (Payload α)) (s : EnvState α) :
    SameButPending (processNonlatent { cfg with tx := tx' } s) (processNonlatent cfg s) := by
  unfold processNonlatent SameButPending
  simp only
  cases (List.foldl notifyEvent s s.pendNon).steps[(List.foldl notifyEvent s s.pendNon).cursor]? with
  | none => rfl
  | some cur => simp only

theorem processNonlatent_congr2 (cfg : EnvCfg α) (tx' : TxCfg (Payload α)) (s : EnvState α)
    (h : ∀ cur, s.steps[s.cursor]? = some cur →
      (if s.cursor = 0 then tx'.firstBatch cur else tx'.batch cur) =
      (if s.cursor = 0 then cfg.tx.firstBatch cur else cfg.tx.batch cur)) :
    processNonlatent { cfg with tx := tx' } s = processNonlatent cfg s := by
  obtain ⟨_, _, i3, i4, _⟩ := foldl_notifyEvent s.pendNon s
  unfold processNonlatent
  simp only
  cases hcur : (List.foldl notifyEvent s s.pendNon).steps[(List.foldl notifyEvent s s.pendNon).cursor]? with
  | none => rfl
  | some cur =>
      have hcur' : s.steps[s.cursor]? = some cur := by rw [← i3, ← i4]; exact hcur
      have := h cur hcur'
      rw [← i4] at this
      simp only [this]

theorem processNonlatent_frame (cfg : EnvCfg α) (s : EnvState α) :
    (processNonlatent cfg s).steps = s.steps ∧ s.cursor ≤ (processNonlatent cfg s).cursor ∧
    (processNonlatent cfg s).cursor ≤ s.cursor + 1 ∧ (s.done = true → (processNonlatent cfg s).done = true) ∧
    (s.steps[s.cursor]? = none → (processNonlatent cfg s).done = true) := by
  obtain ⟨_, _, i3, i4, _, _, i7, _⟩ := foldl_notifyEvent s.pendNon s
  unfold processNonlatent
  simp only
  cases hcur : (List.foldl notifyEvent s s.pendNon).steps[(List.foldl notifyEvent s s.pendNon).cursor]? with
  | none =>
      simp only
      exact ⟨i3, by rw [i4], by rw [i4]; omega, fun _ => trivial, fun _ => trivial⟩
  | some cur =>
      have hcur' : s.steps[s.cursor]? = some cur := by rw [← i3, ← i4]; exact hcur
      simp only
      refine ⟨i3, by rw [i4]; omega, by rw [i4], fun h => by rw [i7]; exact h, fun h => ?_⟩
      rw [hcur'] at h; cases h

/-- the closing notifications of `step` (step, then done if the episode is over) -/
def finishNotify (s : EnvState α) : EnvState α :=
  let s5 := notify s .step s.now none
  if s5.done then notify s5 .done s5.now none else s5

/-- `stepFinish` after the non-latent batch has been delivered and the next one fetched -/
def finishFrom (lg : α → α) (cfg : EnvCfg α) (s3 : EnvState α) (traded : Bool) :
    EnvState α × Except Err (StepOut α) :=
  match rewardOf lg cfg s3.broker with
  | (b4, .error e) => ({ s3 with broker := b4 }, .error e)
  | (b4, .ok r) =>
    (finishNotify { s3 with broker := b4 },
     .ok { reward := r, done := (finishNotify { s3 with broker := b4 }).done, traded := traded })

theorem stepFinish_eq (lg : α → α) (cfg : EnvCfg α) (s2 : EnvState α) (tr : Bool) :
    stepFinish lg cfg s2 tr = finishFrom lg cfg (processNonlatent cfg s2) tr := rfl

theorem stepFinish_eq' (lg : α → α) (cfg : EnvCfg α) (tx' : TxCfg (Payload α)) (s2 : EnvState α) (tr : Bool) :
    stepFinish lg { cfg with tx := tx' } s2 tr = finishFrom lg cfg (processNonlatent { cfg with tx := tx' } s2) tr :=
  rfl

theorem finishNotify_mod_pending (s s' : EnvState α) (h : SameButPending s s') :
    SameButPending (finishNotify s) (finishNotify s') := by
  have h5 := notify_mod_pending s s' h .step s'.now none
  unfold finishNotify
  simp only
  rw [h.fields.2.1, h5.fields.2.2.2.1]
  split_ifs
  · rw [h5.fields.2.1]
    exact notify_mod_pending _ _ h5 .done _ none
  · exact h5

theorem finishNotify_frame (s : EnvState α) :
    (finishNotify s).steps = s.steps ∧ (finishNotify s).cursor = s.cursor := by
  have n5 := notify_frame s .step s.now none
  unfold finishNotify
  simp only
  split_ifs
  · have n6 := notify_frame (notify s .step s.now none) .done (notify s .step s.now none).now none
    exact ⟨n6.1.trans n5.1, n6.2.1.trans n5.2.1⟩
  · exact ⟨n5.1, n5.2.1⟩

theorem finishFrom_mod_pending (lg : α → α) (cfg : EnvCfg α) (s3' s3 : EnvState α) (h : SameButPending s3' s3)
    (tr : Bool) :
    (finishFrom lg cfg s3' tr).2 = (finishFrom lg cfg s3 tr).2 ∧
    SameButPending (finishFrom lg cfg s3' tr).1 (finishFrom lg cfg s3 tr).1 := by
  obtain ⟨h1, h2, h3, h4, h5, h8, h9, h10, h11⟩ := h.fields
  unfold finishFrom
  rw [h1]
  cases rewardOf lg cfg s3.broker with
  | mk b4 res =>
    have hs : SameButPending ({ s3' with broker := b4 } : EnvState α) { s3 with broker := b4 } :=
      SameButPending.of_fields ⟨rfl, h2, h3, h4, h5, h8, h9, h10, h11⟩
    cases res with
    | error e => exact ⟨rfl, hs⟩
    | ok r =>
        have hf := finishNotify_mod_pending _ _ hs
        have hd : (finishNotify ({ s3' with broker := b4 } : EnvState α)).done =
            (finishNotify ({ s3 with broker := b4 } : EnvState α)).done := hf.fields.2.2.2.1
        exact ⟨congrArg (fun d => (Except.ok ({ reward := r, done := d, traded := tr } : StepOut α) :
          Except Err (StepOut α))) hd, hf⟩

theorem finishFrom_frame (lg : α → α) (cfg : EnvCfg α) (s3 : EnvState α) (tr : Bool) :
    (finishFrom lg cfg s3 tr).1.steps = s3.steps ∧ (finishFrom lg cfg s3 tr).1.cursor = s3.cursor := by
  unfold finishFrom
  cases rewardOf lg cfg s3.broker with
  | mk b4 res =>
    cases res with
    | error e => exact ⟨rfl, rfl⟩
    | ok r => exact finishNotify_frame _

/-- **The last step before the cut**: whatever stream the *next* batches are fetched from, `step` returns the
    same reward / done flag / trade flag (or the same error) and leaves the same state up to those batches -/
theorem stepFinish_mod_pending (lg : α → α) (cfg : EnvCfg α) (tx' : TxCfg (Payload α)) (s2 : EnvState α)
    (tr : Bool) :
    (stepFinish lg { cfg with tx := tx' } s2 tr).2 = (stepFinish lg cfg s2 tr).2 ∧
    SameButPending (stepFinish lg { cfg with tx := tx' } s2 tr).1 (stepFinish lg cfg s2 tr).1 := by
  rw [stepFinish_eq, stepFinish_eq']
  exact finishFrom_mod_pending lg cfg _ _ (processNonlatent_mod_pending cfg tx' s2) tr

theorem envStep_mod_pending (pw : α → α → α) (lg : α → α) (cfg : EnvCfg α) (tx' : TxCfg (Payload α))
    (s : EnvState α) (a : Action α) :
    (envStep pw lg { cfg with tx := tx' } s a).2 = (envStep pw lg cfg s a).2 ∧
    SameButPending (envStep pw lg { cfg with tx := tx' } s a).1 (envStep pw lg cfg s a).1 := by
  unfold envStep
  split_ifs
  · exact ⟨rfl, SameButPending.refl _⟩
  · have hx : stepExec pw { cfg with tx := tx' } (stepPre s a).1 (stepPre s a).2
        = stepExec pw cfg (stepPre s a).1 (stepPre s a).2 := rfl
    rw [hx]
    cases hres : stepExec pw cfg (stepPre s a).1 (stepPre s a).2 with
    | mk s2 res =>
      cases res with
      | error e => exact ⟨rfl, SameButPending.refl _⟩
      | ok tr => exact stepFinish_mod_pending lg cfg tx' s2 tr

/-- `step` keeps the episode's steps and advances the cursor by at most one -/
theorem envStep_frame (pw : α → α → α) (lg : α → α) (cfg : EnvCfg α) (s : EnvState α) (a : Action α) :
    (envStep pw lg cfg s a).1.steps = s.steps ∧ s.cursor ≤ (envStep pw lg cfg s a).1.cursor ∧
    (envStep pw lg cfg s a).1.cursor ≤ s.cursor + 1 := by
  unfold envStep
  split_ifs
  · exact ⟨rfl, le_refl _, Nat.le_succ _⟩
  · obtain ⟨_, _, p3, p4, _, _⟩ := stepPre_spec s a
    obtain ⟨_, x2, x3, _⟩ := stepExec_spec pw cfg (stepPre s a).1 (stepPre s a).2
    cases hres : stepExec pw cfg (stepPre s a).1 (stepPre s a).2 with
    | mk s2 res =>
      rw [hres] at x2 x3
      simp only at x2 x3
      cases res with
      | error e => exact ⟨by rw [x2, p3], by rw [x3, p4], by rw [x3, p4]; omega⟩
      | ok tr =>
          simp only
          obtain ⟨f1, f2, f3, _, _⟩ := processNonlatent_frame cfg s2
          rw [stepFinish_eq]
          obtain ⟨g1, g2⟩ := finishFrom_frame lg cfg (processNonlatent cfg s2) tr
          rw [g1, g2]
          exact ⟨f1.trans (x2.trans p3), by rw [← p4, ← x3]; exact f2, by rw [← p4, ← x3]; exact f3⟩

/-- a sequence of `step` calls: the results returned, and the state left behind -/
def runEnv (pw : α → α → α) (lg : α → α) (cfg : EnvCfg α) :
    EnvState α → List (Action α) → List (Except Err (StepOut α)) × EnvState α
  | s, [] => ([], s)
  | s, a :: rest =>
      ((envStep pw lg cfg s a).2 :: (runEnv pw lg cfg (envStep pw lg cfg s a).1 rest).1,
       (runEnv pw lg cfg (envStep pw lg cfg s a).1 rest).2)

theorem runEnv_cons (pw : α → α → α) (lg : α → α) (cfg : EnvCfg α) (s : EnvState α) (a : Action α)
    (rest : List (Action α)) :
    runEnv pw lg cfg s (a :: rest) =
      ((envStep pw lg cfg s a).2 :: (runEnv pw lg cfg (envStep pw lg cfg s a).1 rest).1,
       (runEnv pw lg cfg (envStep pw lg cfg s a).1 rest).2) := rfl

/-- **No look-ahead, any number of steps from a common state.** If the two streams yield the same batches for
    the episode's timesteps number `0..n`, then any run of steps that lands no later than timestep number
    `n` returns the same results and leaves the same state (up to the batches pre-fetched for timestep
    `n + 1`). -/
theorem run_no_lookahead (pw : α → α → α) (lg : α → α) (cfg : EnvCfg α) (tx' : TxCfg (Payload α)) (n : Nat)
    (acts : List (Action α)) (s : EnvState α) (hc : s.done = false → s.cursor ≠ 0)
    (hlen : s.cursor + acts.length ≤ n + 2)
    (hb : ∀ i, i ≤ n → ∀ cur, s.steps[i]? = some cur →
      tx'.latent cur = cfg.tx.latent cur ∧ tx'.nonlatent cur = cfg.tx.nonlatent cur) :
    (runEnv pw lg { cfg with tx := tx' } s acts).1 = (runEnv pw lg cfg s acts).1 ∧
    SameButPending (runEnv pw lg { cfg with tx := tx' } s acts).2 (runEnv pw lg cfg s acts).2 := by
  induction acts generalizing s with
  | nil => exact ⟨rfl, SameButPending.refl _⟩
  | cons a rest ih =>
      by_cases hrest : rest = []
      · subst hrest
        rw [runEnv_cons, runEnv_cons]
        obtain ⟨h1, h2⟩ := envStep_mod_pending pw lg cfg tx' s a
        exact ⟨by simp only [runEnv, h1], h2⟩
      · have hpos : 1 ≤ rest.length := by
          cases rest with
          | nil => exact absurd rfl hrest
          | cons _ _ => simp
        simp only [List.length_cons] at hlen
        have heq : envStep pw lg { cfg with tx := tx' } s a = envStep pw lg cfg s a := by
          by_cases hd : s.done = true
          · unfold envStep; simp only [hd, if_true]
          · have hd' : s.done = false := by simpa using hd
            apply envStep_congr pw lg cfg tx' s a (hc hd')
            intro cur hcur
            exact hb s.cursor (by omega) cur hcur
        obtain ⟨f1, f2, f3⟩ := envStep_frame pw lg cfg s a
        have hrec := ih (envStep pw lg cfg s a).1
          (by
            intro hd1
            by_cases hd : s.done = true
            · exfalso
              have : (envStep pw lg cfg s a).1 = s := by unfold envStep; simp only [hd, if_true]
              rw [this, hd] at hd1; cases hd1
            · have hd' : s.done = false := by simpa using hd
              have := hc hd'
              omega)
          (by omega)
          (by rw [f1]; exact hb)
        rw [runEnv_cons, runEnv_cons, heq]
        exact ⟨by rw [hrec.1], hrec.2⟩

/-- **`reset` does not look ahead**: with the same episode steps and the same first batch (history up to the
    first timestep), the state after `reset` is the same up to the batches pre-fetched for the second
    timestep — and the same altogether when those agree too. -/
theorem reset_no_lookahead (cfg : EnvCfg α) (tx' : TxCfg (Payload α)) (lo hi : Time) (start : Nat)
    (clock : Option Time)
    (hsteps : tx'.episodeSteps lo hi cfg.episodeLen start = cfg.tx.episodeSteps lo hi cfg.episodeLen start)
    (hfirst : ∀ cur, (cfg.tx.episodeSteps lo hi cfg.episodeLen start)[0]? = some cur →
      tx'.firstBatch cur = cfg.tx.firstBatch cur) :
    SameButPending (envReset { cfg with tx := tx' } lo hi start clock) (envReset cfg lo hi start clock) ∧
    ((∀ cur, (cfg.tx.episodeSteps lo hi cfg.episodeLen start)[1]? = some cur →
        tx'.latent cur = cfg.tx.latent cur ∧ tx'.nonlatent cur = cfg.tx.nonlatent cur) →
      envReset { cfg with tx := tx' } lo hi start clock = envReset cfg lo hi start clock) := by
  unfold envReset
  simp only [hsteps]
  -- the tail of `reset`, as a function of the state after the first fetch
  have tailP : ∀ s1 : EnvState α,
      SameButPending
        (let s2 := processNonlatent { cfg with tx := tx' } (processLatent s1)
         let s3 := notify s2 .reset s2.now none
         if s3.done then notify s3 .done s3.now none else s3)
        (let s2 := processNonlatent cfg (processLatent s1)
         let s3 := notify s2 .reset s2.now none
         if s3.done then notify s3 .done s3.now none else s3) := by
    intro s1
    have hp := processNonlatent_mod_pending cfg tx' (processLatent s1)
    have h3 := notify_mod_pending _ _ hp .reset (processNonlatent cfg (processLatent s1)).now none
    simp only
    rw [hp.fields.2.1, h3.fields.2.2.2.1]
    split_ifs
    · have h4 := notify_mod_pending _ _ h3 .done
        (notify (processNonlatent cfg (processLatent s1)) .reset (processNonlatent cfg (processLatent s1)).now none).now none
      rw [h3.fields.2.1]; exact h4
    · exact h3
  have tailEq : ∀ s1 : EnvState α,
      (∀ cur, s1.steps[s1.cursor]? = some cur →
        (if s1.cursor = 0 then tx'.firstBatch cur else tx'.batch cur) =
        (if s1.cursor = 0 then cfg.tx.firstBatch cur else cfg.tx.batch cur)) →
      (let s2 := processNonlatent { cfg with tx := tx' } (processLatent s1)
       let s3 := notify s2 .reset s2.now none
       if s3.done then notify s3 .done s3.now none else s3) =
      (let s2 := processNonlatent cfg (processLatent s1)
       let s3 := notify s2 .reset s2.now none
       if s3.done then notify s3 .done s3.now none else s3) := by
    intro s1 h
    obtain ⟨_, _, l3, l4, _⟩ := processLatent_spec s1
    rw [processNonlatent_congr2 cfg tx' (processLatent s1) (by rw [l3, l4]; exact h)]
  cases h0 : (cfg.tx.episodeSteps lo hi cfg.episodeLen start)[0]? with
  | none =>
      simp only
      refine ⟨tailP _, fun _ => tailEq _ ?_⟩
      intro cur hcur
      simp only at hcur
      rw [h0] at hcur; cases hcur
  | some cur0 =>
      simp only [hfirst cur0 h0]
      refine ⟨tailP _, fun h1 => tailEq _ ?_⟩
      intro cur hcur
      simp only at hcur ⊢
      obtain ⟨e1, e2⟩ := h1 cur hcur
      simp only [TxCfg.batch, e1, e2, if_false, Nat.one_ne_zero]

/-- where `reset` leaves the cursor -/
theorem reset_cursor (cfg : EnvCfg α) (lo hi : Time) (start : Nat) (clock : Option Time) :
    (envReset cfg lo hi start clock).steps = cfg.tx.episodeSteps lo hi cfg.episodeLen start ∧
    (envReset cfg lo hi start clock).cursor ≤ 2 ∧
    ((envReset cfg lo hi start clock).done = false → (envReset cfg lo hi start clock).cursor ≠ 0) := by
  have tail : ∀ s1 : EnvState α,
      (let s2 := processNonlatent cfg (processLatent s1)
       let s3 := notify s2 .reset s2.now none
       if s3.done then notify s3 .done s3.now none else s3).steps = s1.steps ∧
      s1.cursor ≤ (let s2 := processNonlatent cfg (processLatent s1)
       let s3 := notify s2 .reset s2.now none
       if s3.done then notify s3 .done s3.now none else s3).cursor ∧
      (let s2 := processNonlatent cfg (processLatent s1)
       let s3 := notify s2 .reset s2.now none
       if s3.done then notify s3 .done s3.now none else s3).cursor ≤ s1.cursor + 1 ∧
      (s1.done = true → (let s2 := processNonlatent cfg (processLatent s1)
       let s3 := notify s2 .reset s2.now none
       if s3.done then notify s3 .done s3.now none else s3).done = true) := by
    intro s1
    obtain ⟨_, _, l3, l4, _, _, l7, _⟩ := processLatent_spec s1
    obtain ⟨f1, f2, f3, f4, _⟩ := processNonlatent_frame cfg (processLatent s1)
    have n3 := notify_frame (processNonlatent cfg (processLatent s1)) .reset
      (processNonlatent cfg (processLatent s1)).now none
    simp only
    split_ifs with hd
    · have n4 := notify_frame (notify (processNonlatent cfg (processLatent s1)) .reset
        (processNonlatent cfg (processLatent s1)).now none) .done
        (notify (processNonlatent cfg (processLatent s1)) .reset (processNonlatent cfg (processLatent s1)).now none).now none
      refine ⟨by rw [n4.1, n3.1, f1, l3], by rw [n4.2.1, n3.2.1, ← l4]; exact f2,
        by rw [n4.2.1, n3.2.1, ← l4]; exact f3, fun _ => ?_⟩
      rw [n4.2.2.2.2.1]; exact hd
    · refine ⟨by rw [n3.1, f1, l3], by rw [n3.2.1, ← l4]; exact f2, by rw [n3.2.1, ← l4]; exact f3, fun h1 => ?_⟩
      rw [n3.2.2.2.2.1]
      exact f4 (by rw [l7]; exact h1)
  unfold envReset
  simp only
  cases h0 : (cfg.tx.episodeSteps lo hi cfg.episodeLen start)[0]? with
  | none =>
      simp only
      obtain ⟨t1, t2, t3, t4⟩ := tail
        ({ broker := _, queue := List.replicate cfg.delay (nullAction cfg.space),
           steps := cfg.tx.episodeSteps lo hi cfg.episodeLen start, contractClock := clock, done := true } : EnvState α)
      simp only at t1 t2 t3 t4
      refine ⟨t1, by omega, fun hd => ?_⟩
      rw [t4 trivial] at hd; cases hd
  | some cur0 =>
      simp only
      obtain ⟨t1, t2, t3, t4⟩ := tail
        ({ broker := _, queue := List.replicate cfg.delay (nullAction cfg.space),
           steps := cfg.tx.episodeSteps lo hi cfg.episodeLen start, contractClock := clock,
           pendLat := (cfg.tx.firstBatch cur0).1, pendNon := (cfg.tx.firstBatch cur0).2, cursor := 1 } : EnvState α)
      simp only at t1 t2 t3 t4
      exact ⟨t1, by omega, fun _ => by omega⟩

/-- **No look-ahead over a whole episode.** Two event streams that give the episode the same timesteps, the
    same history up to the first timestep, and the same batches for the episode's timesteps number `0..n`:
    `reset` and any `n` or fewer `step` calls (with any actions) return identical results — rewards, done
    flags, trade flags, errors — and leave identical states (broker with positions, cash and track record;
    clock; observer log with every delivered observation) up to the batches pre-fetched for timestep
    `n + 1`. -/
theorem episode_no_lookahead (pw : α → α → α) (lg : α → α) (cfg : EnvCfg α) (tx' : TxCfg (Payload α))
    (lo hi : Time) (start : Nat) (clock : Option Time) (n : Nat) (acts : List (Action α))
    (hlen : acts.length ≤ n)
    (hsteps : tx'.episodeSteps lo hi cfg.episodeLen start = cfg.tx.episodeSteps lo hi cfg.episodeLen start)
    (hfirst : ∀ cur, (cfg.tx.episodeSteps lo hi cfg.episodeLen start)[0]? = some cur →
      tx'.firstBatch cur = cfg.tx.firstBatch cur)
    (hb : ∀ i, i ≤ n → ∀ cur, (cfg.tx.episodeSteps lo hi cfg.episodeLen start)[i]? = some cur →
      tx'.latent cur = cfg.tx.latent cur ∧ tx'.nonlatent cur = cfg.tx.nonlatent cur) :
    SameButPending (envReset { cfg with tx := tx' } lo hi start clock) (envReset cfg lo hi start clock) ∧
    (runEnv pw lg { cfg with tx := tx' } (envReset { cfg with tx := tx' } lo hi start clock) acts).1 =
      (runEnv pw lg cfg (envReset cfg lo hi start clock) acts).1 ∧
    SameButPending (runEnv pw lg { cfg with tx := tx' } (envReset { cfg with tx := tx' } lo hi start clock) acts).2
      (runEnv pw lg cfg (envReset cfg lo hi start clock) acts).2 := by
  obtain ⟨r1, r2⟩ := reset_no_lookahead cfg tx' lo hi start clock hsteps hfirst
  refine ⟨r1, ?_⟩
  cases acts with
  | nil => exact ⟨rfl, r1⟩
  | cons a rest =>
      simp only [List.length_cons] at hlen
      rw [r2 (hb 1 (by omega))]
      obtain ⟨c1, c2, c3⟩ := reset_cursor cfg lo hi start clock
      apply run_no_lookahead pw lg cfg tx' n (a :: rest) (envReset cfg lo hi start clock) c3
      · simp only [List.length_cons]; omega
      · rw [c1]; exact hb

/-- the same, from the streams themselves: same grid, latency and reset settings, the same events stamped
    `≤ t` (events stamped later may differ in any way that keeps the episode's timesteps), and a run that
    lands on timesteps `≤ t` only -/
theorem episode_no_lookahead_streams (pw : α → α → α) (lg : α → α) (cfg : EnvCfg α) (tx' : TxCfg (Payload α))
    (lo hi : Time) (start : Nat) (clock : Option Time) (n : Nat) (acts : List (Action α)) (t : Time)
    (hlen : acts.length ≤ n) (ht : t ∈ cfg.tx.grid)
    (hgrid : tx'.timesteps = cfg.tx.timesteps) (hlat : tx'.latency = cfg.tx.latency)
    (hmk : tx'.markov = cfg.tx.markov) (hwu : tx'.warmup = cfg.tx.warmup)
    (hev : cfg.tx.events.filter (fun e => decide (e.time ≤ t)) = tx'.events.filter (fun e => decide (e.time ≤ t)))
    (hsteps : tx'.episodeSteps lo hi cfg.episodeLen start = cfg.tx.episodeSteps lo hi cfg.episodeLen start)
    (hle : ∀ i, i ≤ n → ∀ cur, (cfg.tx.episodeSteps lo hi cfg.episodeLen start)[i]? = some cur → cur ≤ t) :
    (runEnv pw lg { cfg with tx := tx' } (envReset { cfg with tx := tx' } lo hi start clock) acts).1 =
      (runEnv pw lg cfg (envReset cfg lo hi start clock) acts).1 ∧
    SameButPending (runEnv pw lg { cfg with tx := tx' } (envReset { cfg with tx := tx' } lo hi start clock) acts).2
      (runEnv pw lg cfg (envReset cfg lo hi start clock) acts).2 := by
  have hgr : tx'.grid = cfg.tx.grid := by unfold TxCfg.grid; rw [hgrid]
  have hbat : ∀ g, g ∈ cfg.tx.grid → g ≤ t →
      tx'.latent g = cfg.tx.latent g ∧ tx'.nonlatent g = cfg.tx.nonlatent g := by
    intro g hg hgt
    obtain ⟨e1, e2⟩ := batches_depend_on_past cfg.tx tx' t ht hgrid hlat hmk hev g hg hgt
    exact ⟨e1.symm, e2.symm⟩
  have hmem : ∀ g, g ∈ cfg.tx.episodeSteps lo hi cfg.episodeLen start → g ∈ cfg.tx.grid := by
    intro g hg
    have hsub : (cfg.tx.episodeSteps lo hi cfg.episodeLen start).Sublist (cfg.tx.foldSteps lo hi) := by
      unfold TxCfg.episodeSteps
      cases cfg.episodeLen with
      | none => exact List.Sublist.refl _
      | some L => exact (List.take_sublist _ _).trans (List.drop_sublist _ _)
    have h1 := hsub.subset hg
    unfold TxCfg.foldSteps at h1
    have h2 := (List.mem_filter.mp h1).1
    unfold TxCfg.eventSteps at h2
    exact (List.mem_filter.mp h2).1
  have hb : ∀ i, i ≤ n → ∀ cur, (cfg.tx.episodeSteps lo hi cfg.episodeLen start)[i]? = some cur →
      tx'.latent cur = cfg.tx.latent cur ∧ tx'.nonlatent cur = cfg.tx.nonlatent cur := by
    intro i hi cur hcur
    exact hbat cur (hmem cur (List.mem_of_getElem? hcur)) (hle i hi cur hcur)
  have hfirst : ∀ cur, (cfg.tx.episodeSteps lo hi cfg.episodeLen start)[0]? = some cur →
      tx'.firstBatch cur = cfg.tx.firstBatch cur := by
    intro cur hcur
    have hct := hle 0 (Nat.zero_le _) cur hcur
    unfold TxCfg.firstBatch
    rw [hmk, hwu, hgr]
    split_ifs
    · obtain ⟨e1, e2⟩ := hb 0 (Nat.zero_le _) cur hcur
      rw [e1, e2]
    · simp only [Prod.mk.injEq, true_and]
      apply List.flatMap_congr
      intro g hg
      have hg' := List.mem_filter.mp hg
      have hgc : g ≤ cur := by
        have := hg'.2
        simp only [Bool.and_eq_true, decide_eq_true_eq] at this
        exact this.2
      obtain ⟨e1, e2⟩ := hbat g hg'.1 (le_trans hgc hct)
      rw [e1, e2]
  exact (episode_no_lookahead pw lg cfg tx' lo hi start clock n acts hlen hsteps hfirst hb).2

end

/-! ### the premises are satisfiable: two streams that differ after the cut -/
section NonVacuity

private def cfgA : EnvCfg Int :=
  { world := { spec := fun _ => { mult := 1, cashReq := 1, mr := 0 }, fixed := 0, prop := 0, markup := 0,
               rateKey := "RATE", eps := 0 }
    deposit := 100
    tx := { timesteps := [0, 10, 20, 30]
            events := [⟨0, .market (.quote "A" 0 (some 10) (some 10))⟩, ⟨10, .market (.quote "A" 10 (some 11) (some 11))⟩,
                       ⟨20, .market (.quote "A" 20 (some 12) (some 12))⟩, ⟨30, .market (.quote "A" 30 (some 13) (some 13))⟩] }
    space := { keys := ["A"], kind := .box 0 1, margin := 0 }
    reward := .pnl }

/-- the same stream with the quotes stamped after `t = 10` altered -/
private def txB : TxCfg (Payload Int) :=
  { timesteps := [0, 10, 20, 30]
    events := [⟨0, .market (.quote "A" 0 (some 10) (some 10))⟩, ⟨10, .market (.quote "A" 10 (some 11) (some 11))⟩,
               ⟨20, .market (.quote "A" 20 (some 50) (some 51))⟩, ⟨30, .market (.quote "A" 30 (some 1) (some 2))⟩] }

/-- `episode_no_lookahead_streams` applies to them (cut `t = 10`, one step), and its conclusion is not trivial:
    the two runs do differ in the batches pre-fetched for the timestep after the cut -/
example :
    (runEnv (fun x _ => x) id { cfgA with tx := txB } (envReset { cfgA with tx := txB } 0 30 0 none) [.vec [some 1]]).1 =
      (runEnv (fun x _ => x) id cfgA (envReset cfgA 0 30 0 none) [.vec [some 1]]).1 ∧
    (runEnv (fun x _ => x) id { cfgA with tx := txB } (envReset { cfgA with tx := txB } 0 30 0 none) [.vec [some 1]]).2.pendNon ≠
      (runEnv (fun x _ => x) id cfgA (envReset cfgA 0 30 0 none) [.vec [some 1]]).2.pendNon := by
  refine ⟨(episode_no_lookahead_streams (fun x _ => x) id cfgA txB 0 30 0 none 1 [.vec [some 1]] 10 (by simp)
    (by decide +kernel) rfl rfl rfl rfl rfl (by decide +kernel) ?_).1, ?_⟩
  · intro i hi cur hcur
    have h : cfgA.tx.episodeSteps 0 30 cfgA.episodeLen 0 = [0, 10, 20, 30] := by decide +kernel
    rw [h] at hcur
    obtain rfl | rfl : i = 0 ∨ i = 1 := by omega
    · simp at hcur; subst hcur; decide
    · simp at hcur; subst hcur; decide
  · intro h
    have := congrArg (List.map fun e : TEvent (Payload Int) =>
      match e.payload with | .market (.quote _ _ b _) => b | _ => none) h
    revert this
    decide +kernel

end NonVacuity

section
variable {α : Type}
end
end TV
