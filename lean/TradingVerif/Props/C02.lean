/-
  C02 — no look-ahead: outputs up to time t never depend on data stamped after t.
-/
import TradingVerif.Props.C04
set_option linter.unusedSectionVars false
set_option linter.unusedVariables false
namespace TV
section
variable {ρ : Type}

theorem grid_le_last (grid : List Time) (hg : grid.Pairwise (· < ·)) (g : Time) (hin : g ∈ grid) :
    g ≤ grid.getLast?.getD 0 := by
  induction grid generalizing g with
  | nil => cases hin
  | cons x xs ih =>
      have hp := List.pairwise_cons.mp hg
      cases xs with
      | nil =>
          simp only [List.mem_singleton] at hin
          subst hin; simp
      | cons y ys =>
          rw [List.getLast?_cons_cons]
          rcases List.mem_cons.mp hin with rfl | hin'
          · have := ih hp.2 y (List.mem_cons_self)
            exact le_trans (le_of_lt (hp.1 y (List.mem_cons_self))) this
          · exact ih hp.2 g hin'

/-- the partitioned events stamped up to a grid point `t` are the sorted events stamped up to `t`:
    a function of `events.filter (time ≤ t)` (and of the grid) only -/
theorem sorted_upto (c : TxCfg ρ) (t : Time) (ht : t ∈ c.grid) :
    c.sorted.filter (fun e => decide (e.time ≤ t)) =
      (if c.markov then
        (sortEvents (c.events.filter (fun e => decide (e.time ≤ t)))).filter (fun e => decide (c.grid.head?.getD 0 ≤ e.time))
       else sortEvents (c.events.filter (fun e => decide (e.time ≤ t)))) := by
  have hlast := grid_le_last c.grid (mkGrid_strict c.timesteps) t ht
  have hff : (c.events.filter (fun e => decide (e.time ≤ c.grid.getLast?.getD 0))).filter (fun e => decide (e.time ≤ t))
      = c.events.filter (fun e => decide (e.time ≤ t)) := by
    rw [List.filter_filter]
    apply List.filter_congr
    intro e _
    by_cases h : e.time ≤ t
    · simp [h, le_trans h hlast]
    · simp [h]
  unfold TxCfg.sorted
  simp only
  split_ifs with hm
  · rw [List.filter_filter]
    rw [show (fun a : TEvent ρ => decide (a.time ≤ t) && decide (c.grid.head?.getD 0 ≤ a.time))
          = (fun a => decide (c.grid.head?.getD 0 ≤ a.time) && decide (a.time ≤ t)) by
        funext a; exact Bool.and_comm _ _]
    rw [← List.filter_filter, sortEvents_filter, hff]
  · rw [sortEvents_filter, hff]

/-- **The batches of every timestep up to `t` depend only on the events stamped up to `t`.**
    Two event lists on the same grid (same latency / markov setting) that agree on the events stamped `≤ t`
    yield identical latent and non-latent batches for every grid point `g ≤ t`. -/
theorem batches_depend_on_past (c c' : TxCfg ρ) (t : Time) (ht : t ∈ c.grid)
    (hgrid : c'.timesteps = c.timesteps) (hlat : c'.latency = c.latency) (hmk : c'.markov = c.markov)
    (hev : c.events.filter (fun e => decide (e.time ≤ t)) = c'.events.filter (fun e => decide (e.time ≤ t)))
    (g : Time) (hg : g ∈ c.grid) (hgt : g ≤ t) :
    c.latent g = c'.latent g ∧ c.nonlatent g = c'.nonlatent g := by
  have hgr : c'.grid = c.grid := by unfold TxCfg.grid; rw [hgrid]
  have ht' : t ∈ c'.grid := by rw [hgr]; exact ht
  have hs : c.sorted.filter (fun e => decide (e.time ≤ t)) = c'.sorted.filter (fun e => decide (e.time ≤ t)) := by
    rw [sorted_upto c t ht, sorted_upto c' t ht', hmk, hgr, hev]
  -- a filter that implies `time ≤ t` can be taken after restricting to `time ≤ t`
  have key : ∀ (d : TxCfg ρ) (q : TEvent ρ → Bool), d.grid = c.grid →
      (∀ e, q e = true → bucketOf c.grid e.time = some g) →
      d.sorted.filter q = (d.sorted.filter (fun e => decide (e.time ≤ t))).filter q := by
    intro d q hd hq
    rw [List.filter_filter]
    apply List.filter_congr
    intro e _
    by_cases hqe : q e = true
    · have hb := hq e hqe
      have := (bucket_spec c.grid (mkGrid_strict c.timesteps) e.time g hb).2.1
      simp [hqe, le_trans this hgt]
    · simp [hqe]
  unfold TxCfg.latent TxCfg.nonlatent
  constructor
  · rw [key c _ rfl (by intro e he; simp only [Bool.and_eq_true, decide_eq_true_eq] at he; exact he.1),
        key c' _ hgr (by intro e he; simp only [Bool.and_eq_true, decide_eq_true_eq] at he; rw [← hgr]; exact he.1), hs]
    apply List.filter_congr
    intro e _
    simp only [isLatent, hgr, hlat]
  · rw [key c _ rfl (by intro e he; simp only [Bool.and_eq_true, decide_eq_true_eq] at he; exact he.1),
        key c' _ hgr (by intro e he; simp only [Bool.and_eq_true, decide_eq_true_eq] at he; rw [← hgr]; exact he.1), hs]
    apply List.filter_congr
    intro e _
    simp only [isLatent, hgr, hlat]

/-- **The trades of the following step depend on nothing stamped after `t + latency`**: an event that is
    applied before the execution between `t` and the next timestep `g'` is stamped `≤ t + latency`. -/
theorem latent_within_latency (c : TxCfg ρ) (g' t : Time) (hprev : prevOf c.grid g' = t) (e : TEvent ρ)
    (he : e ∈ c.latent g') : e.time ≤ t + c.latency := by
  have := ((latent_iff c g' e).mp he).2.2
  rw [hprev] at this
  linarith

end

section
variable {α : Type} [Add α] [Sub α] [Mul α] [Div α] [Neg α] [LT α] [LE α]
  [DecidableLT α] [DecidableLE α] [DecidableEq α] [OfNat α 0] [OfNat α 1] [OfNat α 2]
  [IntCast α] [HasTrunc α]

/-- `step` reads the event stream only through the batches of the timestep it is about to load -/
theorem processNonlatent_congr (cfg : EnvCfg α) (tx' : TxCfg (Payload α)) (s : EnvState α) (hc : s.cursor ≠ 0)
    (h : ∀ cur, s.steps[s.cursor]? = some cur →
      tx'.latent cur = cfg.tx.latent cur ∧ tx'.nonlatent cur = cfg.tx.nonlatent cur) :
    processNonlatent { cfg with tx := tx' } s = processNonlatent cfg s := by
  obtain ⟨_, _, i3, i4, _⟩ := foldl_notifyEvent s.pendNon s
  unfold processNonlatent
  simp only
  cases hcur : (List.foldl notifyEvent s s.pendNon).steps[(List.foldl notifyEvent s s.pendNon).cursor]? with
  | none => rfl
  | some cur =>
      have hc' : (List.foldl notifyEvent s s.pendNon).cursor ≠ 0 := by rw [i4]; exact hc
      have hcur' : s.steps[s.cursor]? = some cur := by rw [← i3, ← i4]; exact hcur
      obtain ⟨h1, h2⟩ := h cur hcur'
      simp only [hc', if_false, TxCfg.batch, h1, h2]

/-- **No look-ahead, one step**: replacing the event stream by any other one that yields the same batches
    for the timestep being loaded leaves the whole result of `step` — returned reward, done flag, trades,
    broker, track record, observer log — unchanged. -/
theorem envStep_congr (pw : α → α → α) (lg : α → α) (cfg : EnvCfg α) (tx' : TxCfg (Payload α))
    (s : EnvState α) (a : Action α) (hc : s.cursor ≠ 0)
    (h : ∀ cur, s.steps[s.cursor]? = some cur →
      tx'.latent cur = cfg.tx.latent cur ∧ tx'.nonlatent cur = cfg.tx.nonlatent cur) :
    envStep pw lg { cfg with tx := tx' } s a = envStep pw lg cfg s a := by
  unfold envStep
  split_ifs
  · rfl
  · have hx : stepExec pw { cfg with tx := tx' } (stepPre s a).1 (stepPre s a).2
        = stepExec pw cfg (stepPre s a).1 (stepPre s a).2 := rfl
    rw [hx]
    obtain ⟨_, _, p3, p4, _, _⟩ := stepPre_spec s a
    obtain ⟨_, x2, x3, _⟩ := stepExec_spec pw cfg (stepPre s a).1 (stepPre s a).2
    cases hres : stepExec pw cfg (stepPre s a).1 (stepPre s a).2 with
    | mk s2 res =>
      rw [hres] at x2 x3
      simp only at x2 x3
      cases res with
      | error e => rfl
      | ok tr =>
          simp only
          unfold stepFinish
          have : processNonlatent { cfg with tx := tx' } s2 = processNonlatent cfg s2 :=
            processNonlatent_congr cfg tx' s2 (by rw [x3, p4]; exact hc)
              (by intro cur hcur; apply h cur; rw [← p3, ← p4, ← x2, ← x3]; exact hcur)
          rw [this]
          rfl

end
end TV
