/-
  C12 — trade filtering: threshold, liquidations and whole lots.
  Decision logic of `Rebalancing.make_trades` for one imbalanced contract (`tradeFor`) and the
  constructor checks of `Trade` (`mkTrade`).  `K` is a linear ordered field with a floor
  (`int()` is truncation toward zero).
-/
import Mathlib.Algebra.Order.Floor.Ring
import TradingVerif.Lemmas.Basic
import TradingVerif.Lemmas.IntInst
import TradingVerif.Lemmas.Reach
set_option linter.unusedSectionVars false
set_option linter.unusedVariables false
namespace TV
variable {K : Type} [Field K] [LinearOrder K] [IsStrictOrderedRing K] [FloorRing K]

/-- Python `int(x)` on a floor ring: truncation toward zero -/
def truncK (x : K) : K := if x < 0 then -((⌊-x⌋ : Int) : K) else ((⌊x⌋ : Int) : K)

instance instTruncK : HasTrunc K := ⟨truncK⟩

theorem truncK_int (x : K) : ∃ n : Int, truncK x = (n : K) := by
  unfold truncK; split_ifs
  · exact ⟨-⌊-x⌋, by push_cast; ring⟩
  · exact ⟨⌊x⌋, rfl⟩

theorem truncK_abs_le (x : K) : |truncK x| ≤ |x| := by
  unfold truncK
  split_ifs with h
  · have h0 : 0 ≤ -x := by linarith
    have hf : (0 : K) ≤ ((⌊-x⌋ : Int) : K) := by exact_mod_cast Int.floor_nonneg.mpr h0
    rw [abs_neg, abs_of_nonneg hf, abs_of_neg h]
    exact Int.floor_le (-x)
  · have h0 : 0 ≤ x := not_lt.mp h
    have hf : (0 : K) ≤ ((⌊x⌋ : Int) : K) := by exact_mod_cast Int.floor_nonneg.mpr h0
    rw [abs_of_nonneg hf, abs_of_nonneg h0]
    exact Int.floor_le x

theorem truncK_eq_zero_iff (x : K) : truncK x = 0 ↔ |x| < 1 := by
  unfold truncK
  split_ifs with h
  · have h0 : 0 ≤ -x := by linarith
    rw [abs_of_neg h, neg_eq_zero]
    constructor
    · intro e
      have e' : ⌊-x⌋ = 0 := by exact_mod_cast e
      have := Int.lt_floor_add_one (-x)
      rw [e'] at this; simpa using this
    · intro hlt
      have : ⌊-x⌋ = 0 := Int.floor_eq_zero_iff.mpr ⟨h0, hlt⟩
      rw [this]; simp
  · have h0 : 0 ≤ x := not_lt.mp h
    rw [abs_of_nonneg h0]
    constructor
    · intro e
      have e' : ⌊x⌋ = 0 := by exact_mod_cast e
      have := Int.lt_floor_add_one x
      rw [e'] at this; simpa using this
    · intro hlt
      have : ⌊x⌋ = 0 := Int.floor_eq_zero_iff.mpr ⟨h0, hlt⟩
      rw [this]; simp

theorem truncK_sign (x : K) : 0 ≤ truncK x * x := by
  unfold truncK
  split_ifs with h
  · have h0 : 0 ≤ -x := by linarith
    have hf : (0 : K) ≤ ((⌊-x⌋ : Int) : K) := by exact_mod_cast Int.floor_nonneg.mpr h0
    nlinarith
  · have h0 : 0 ≤ x := not_lt.mp h
    have hf : (0 : K) ≤ ((⌊x⌋ : Int) : K) := by exact_mod_cast Int.floor_nonneg.mpr h0
    exact mul_nonneg hf h0

/-! ### `Trade.__init__` -/

theorem mkTrade_ok_iff (w : World K) (k : Key) (q bid ask : Option K) :
    (∃ t, mkTrade w k q bid ask = .ok t) ↔
      (∃ b a qq, bid = some b ∧ ask = some a ∧ q = some qq ∧ qq ≠ 0 ∧ (w.spec k).isCash = false) := by
  unfold mkTrade
  cases bid with
  | none => simp
  | some b =>
    cases ask with
    | none => simp
    | some a =>
      cases q with
      | none => simp
      | some qq =>
        by_cases h0 : qq = 0
        · simp [h0]
        · cases hc : (w.spec k).isCash <;> simp [h0, hc]

/-- **Cash is never traded and no zero-sized trade is ever produced.** -/
theorem no_cash_no_zero_trade (w : World K) (k : Key) (q bid ask : Option K) (t : Trade K)
    (h : mkTrade w k q bid ask = .ok t) : (w.spec t.key).isCash = false ∧ t.qty ≠ 0 ∧ t.key = k := by
  unfold mkTrade at h
  cases bid with
  | none => simp at h
  | some b =>
    cases ask with
    | none => simp at h
    | some a =>
      cases q with
      | none => simp at h
      | some qq =>
        simp only at h
        split_ifs at h with h0 hc
        cases h
        exact ⟨by simpa using hc, h0, rfl⟩

theorem mkTrade_uses (w : World K) (k : Key) (q bid ask : Option K) (t : Trade K)
    (h : mkTrade w k q bid ask = .ok t) : q = some t.qty := by
  unfold mkTrade at h
  cases bid with
  | none => simp at h
  | some b =>
    cases ask with
    | none => simp at h
    | some a =>
      cases q with
      | none => simp at h
      | some qq =>
        simp only at h
        split_ifs at h
        cases h
        rfl

/-! ### `make_trades`, one contract -/

/-- the imbalance weight the threshold is applied to -/
def imbWeight (w : World K) (b : Broker K) (nlv : K) (k : Key) (q p : K) : K := (w.spec k).mult * q * p / nlv

/-- **Trade emitted iff** (book two-sided, non-cash contract, non-zero imbalance `q`):
    a trade is emitted ⇔ the (possibly truncated) quantity is non-zero and NOT
    (imbalance weight strictly below the threshold AND the contract is in the target). -/
theorem trade_emitted_iff (w : World K) (b : Broker K) (nlv : K) (r : Rebal K) (alloc : List (Key × K))
    (k : Key) (q bidp askp p : K) (hb : (b.ex.books k).bid = some bidp) (ha : (b.ex.books k).ask = some askp)
    (hp : (b.ex.books k).acq (sgn q) = some p) (hc : (w.spec k).isCash = false) (hq : q ≠ 0) :
    let q' := if r.fractional then q else truncK q
    (∃ t, tradeFor w b nlv r alloc k q = .ok (some t) ∧ t.qty = q' ∧ t.key = k ∧ t.bid = bidp ∧ t.ask = askp) ↔
      (q' ≠ 0 ∧ ¬ (|imbWeight w b nlv k q p| < r.margin ∧ k ∈ alloc.map (·.1))) := by
  intro q'
  unfold tradeFor
  simp only [hb, ha, hp, HasTrunc.trunc]
  by_cases hf : r.fractional = true
  · have hq' : q' = q := by simp [q', hf]
    simp only [hf, if_true, Bool.not_true, Bool.false_and, Bool.false_eq_true, if_false]
    by_cases hlt : absv ((w.spec k).mult * q * p / nlv) < r.margin
    · by_cases hin : (alloc.map (·.1)).contains k = true
      · have hin' : k ∈ alloc.map (·.1) := by simpa using hin
        simp only [hlt, decide_true, hin, Bool.and_self, if_true]
        constructor
        · rintro ⟨t, ht, _⟩; cases ht
        · rintro ⟨_, hn⟩
          exact absurd ⟨by rw [imbWeight, ← absv_eq_abs]; exact hlt, hin'⟩ hn
      · have hin' : k ∉ alloc.map (·.1) := by simpa using hin
        simp only [hlt, decide_true, hin, Bool.and_false, Bool.false_eq_true, if_false, mkTrade, hq, hc]
        simp only [if_false, Except.map, hq']
        constructor
        · intro _; exact ⟨hq, fun h => hin' h.2⟩
        · intro _; exact ⟨_, rfl, rfl, rfl, rfl, rfl⟩
    · simp only [hlt, decide_false, Bool.false_and, Bool.false_eq_true, if_false, mkTrade, hq, hc]
      simp only [if_false, Except.map, hq']
      constructor
      · intro _; exact ⟨hq, fun h => hlt (by have := h.1; rwa [imbWeight, ← absv_eq_abs] at this)⟩
      · intro _; exact ⟨_, rfl, rfl, rfl, rfl, rfl⟩
  · have hf' : r.fractional = false := by simpa using hf
    have hq' : q' = truncK q := by simp [q', hf']
    simp only [hf', Bool.false_eq_true, if_false, Bool.not_false, Bool.true_and]
    by_cases h0 : truncK q = 0
    · simp only [h0, decide_true, if_true, hq']
      constructor
      · rintro ⟨t, ht, _⟩; cases ht
      · rintro ⟨hn, _⟩; exact absurd rfl hn
    · simp only [h0, decide_false, Bool.false_eq_true, if_false]
      by_cases hlt : absv ((w.spec k).mult * q * p / nlv) < r.margin
      · by_cases hin : (alloc.map (·.1)).contains k = true
        · have hin' : k ∈ alloc.map (·.1) := by simpa using hin
          simp only [hlt, decide_true, hin, Bool.and_self, if_true]
          constructor
          · rintro ⟨t, ht, _⟩; cases ht
          · rintro ⟨_, hn⟩
            exact absurd ⟨by rw [imbWeight, ← absv_eq_abs]; exact hlt, hin'⟩ hn
        · have hin' : k ∉ alloc.map (·.1) := by simpa using hin
          simp only [hlt, decide_true, hin, Bool.and_false, Bool.false_eq_true, if_false, mkTrade, h0, hc]
          simp only [if_false, Except.map, hq']
          constructor
          · intro _; exact ⟨h0, fun h => hin' h.2⟩
          · intro _; exact ⟨_, rfl, rfl, rfl, rfl, rfl⟩
      · simp only [hlt, decide_false, Bool.false_and, Bool.false_eq_true, if_false, mkTrade, h0, hc]
        simp only [if_false, Except.map, hq']
        constructor
        · intro _; exact ⟨h0, fun h => hlt (by have := h.1; rwa [imbWeight, ← absv_eq_abs] at this)⟩
        · intro _; exact ⟨_, rfl, rfl, rfl, rfl, rfl⟩

/-- **Liquidations always go through**: a contract that is absent from the target is traded whatever
    the threshold (fractional mode: always; whole lots: whenever at least one lot is held). -/
theorem liquidation_always_emitted (w : World K) (b : Broker K) (nlv : K) (r : Rebal K) (alloc : List (Key × K))
    (k : Key) (q bidp askp p : K) (hb : (b.ex.books k).bid = some bidp) (ha : (b.ex.books k).ask = some askp)
    (hp : (b.ex.books k).acq (sgn q) = some p) (hc : (w.spec k).isCash = false) (hq : q ≠ 0)
    (hout : k ∉ alloc.map (·.1)) (hlot : r.fractional = true ∨ 1 ≤ |q|) :
    ∃ t, tradeFor w b nlv r alloc k q = .ok (some t) ∧ t.key = k := by
  have := (trade_emitted_iff w b nlv r alloc k q bidp askp p hb ha hp hc hq).mpr
  have hne : (if r.fractional then q else truncK q) ≠ 0 := by
    rcases hlot with hf | hl
    · simp [hf, hq]
    · by_cases hf : r.fractional = true
      · simp [hf, hq]
      · simp only [hf, Bool.false_eq_true, if_false]
        intro h0
        have := (truncK_eq_zero_iff q).mp h0
        linarith
  obtain ⟨t, h1, _, h3, _⟩ := this ⟨hne, fun h => hout h.2⟩
  exact ⟨t, h1, h3⟩

/-- **Whole lots**: the traded quantity is the imbalance truncated toward zero — an integer, non-zero,
    no larger than the imbalance and of the same sign. -/
theorem whole_lot_quantity (w : World K) (b : Broker K) (nlv : K) (r : Rebal K) (alloc : List (Key × K))
    (k : Key) (q : K) (t : Trade K) (hf : r.fractional = false)
    (h : tradeFor w b nlv r alloc k q = .ok (some t)) :
    t.qty = truncK q ∧ (∃ n : Int, t.qty = (n : K)) ∧ t.qty ≠ 0 ∧ |t.qty| ≤ |q| ∧ 0 ≤ t.qty * q := by
  unfold tradeFor at h
  simp only [hf, Bool.false_eq_true, if_false, Bool.not_false, Bool.true_and, HasTrunc.trunc] at h
  split_ifs at h with h0 h1
  · cases h
  · cases h
  · cases hm : mkTrade w k (some (truncK q)) (b.ex.books k).bid (b.ex.books k).ask with
    | error e => rw [hm] at h; cases h
    | ok t' =>
      rw [hm] at h
      simp only [Except.map, Except.ok.injEq, Option.some.injEq] at h
      subst h
      have hz := no_cash_no_zero_trade w k _ _ _ t' hm
      have hq : t'.qty = truncK q := by
        have := (mkTrade_uses w k _ _ _ t' hm)
        simpa using this.symm
      exact ⟨hq, hq ▸ truncK_int q, hz.2.1, hq ▸ truncK_abs_le q, hq ▸ truncK_sign q⟩

/-- **Imbalances smaller than one lot are skipped rather than failing.** -/
theorem sub_lot_skipped (w : World K) (b : Broker K) (nlv : K) (r : Rebal K) (alloc : List (Key × K))
    (k : Key) (q : K) (hf : r.fractional = false) (hq : |q| < 1) :
    tradeFor w b nlv r alloc k q = .ok none := by
  unfold tradeFor
  have : truncK q = 0 := (truncK_eq_zero_iff q).mpr hq
  simp [hf, HasTrunc.trunc, this]

/-! ### the whole trade list of a rebalance -/

theorem or_iff_lt_imp {a m : K} {P : Prop} : (m ≤ a ∨ P) ↔ (a < m → P) := by
  constructor
  · intro h hlt; exact h.resolve_left (not_le.mpr hlt)
  · intro h
    by_cases hlt : a < m
    · exact Or.inr (h hlt)
    · exact Or.inl (not_lt.mp hlt)


/-- **The trades of a whole rebalance, exactly**: `make_trades` returns, in the order of the imbalance, one
    trade per imbalanced contract that passes the filter — for the imbalance itself or its whole-lot part —
    and nothing else. (`imbalanceOf` lists exactly the contracts with a non-zero imbalance.) -/
theorem makeTrades_spec (w : World K) (b : Broker K) (nlv : K) (r : Rebal K) (trades : List (Trade K))
    (h : makeTrades w b nlv r = .ok trades) :
    trades.map (fun t => (t.key, t.qty)) =
      ((imbalanceOf w b
          (if r.byWeight then toNrContracts w b nlv (cleanAlloc w r.target)
           else (cleanAlloc w r.target).map fun kv => (kv.1, some kv.2)) r.absolute).filter
        fun kv => emitted w b nlv r (cleanAlloc w r.target) kv).map (fun kv => (kv.1, askedQty r kv)) := by
  unfold makeTrades at h
  by_cases hbw : r.byWeight = true
  · simp only [hbw, if_true] at h ⊢
    split_ifs at h
    exact tradesFor_any w b nlv r _ _ trades h
  · simp only [hbw, Bool.false_eq_true, if_false] at h ⊢
    split_ifs at h
    exact tradesFor_any w b nlv r _ _ trades h

/-- the filter, in the property's words: a trade is emitted iff the asked quantity is non-zero (whole lots:
    the imbalance is at least one lot) and it is not the case that the imbalance weight is strictly below the
    threshold while the contract is part of the target — a held contract absent from the target (a
    liquidation) is never filtered -/
theorem emitted_iff (w : World K) (b : Broker K) (nlv : K) (r : Rebal K) (alloc : List (Key × K))
    (kv : Key × Option K) :
    emitted w b nlv r alloc kv = true ↔
      (r.fractional = false → askedQty r kv ≠ 0) ∧
      ¬ ((∃ p, (b.ex.books kv.1).acq (sgn (kv.2.getD 0)) = some p ∧
            |imbWeight w b nlv kv.1 (kv.2.getD 0) p| < r.margin) ∧ kv.1 ∈ alloc.map (·.1)) := by
  unfold emitted skipped imbWeight
  cases hacq : (b.ex.books kv.1).acq (sgn (kv.2.getD 0)) with
  | none => cases hf : r.fractional <;> simp [hf]
  | some p =>
      simp only [Option.some.injEq, exists_eq_left', ← absv_eq_abs]
      cases hf : r.fractional <;> simp [hf] <;>
        first | exact or_iff_lt_imp | exact fun _ => or_iff_lt_imp

theorem liquidation_never_filtered (w : World K) (b : Broker K) (nlv : K) (r : Rebal K) (alloc : List (Key × K))
    (kv : Key × Option K) (hf : r.fractional = true) (hout : kv.1 ∉ alloc.map (·.1)) :
    emitted w b nlv r alloc kv = true := by
  rw [emitted_iff]
  exact ⟨(fun h => by rw [hf] at h; cases h), (fun h => hout h.2)⟩

/-! Mutant witnesses (integers; `int()` is the identity there). -/

/-- exactly at the threshold the trade is emitted (`<`, not `<=`): weight 1/2·... here mult·q·p/nlv = 50 -/
example :
    let w : World Int := { spec := fun _ => { mult := 1, cashReq := 1, mr := 0 }, fixed := 0, prop := 0,
                           markup := 0, rateKey := "R", eps := 0 }
    let b : Broker Int := { Broker.init 100 with ex := ({} : Exchange Int).step (.quote "A" 0 (some 10) (some 10)) }
    let r : Rebal Int := { time := 0, margin := 50, target := [("A", 1)] }
    (match tradeFor w b 1 r [("A", 1)] "A" 5 with | .ok (some t) => t.qty | _ => 0) = 5 ∧
    (match tradeFor w b 1 { r with margin := 51 } [("A", 1)] "A" 5 with | .ok none => true | _ => false) = true ∧
    (match tradeFor w b 1 { r with margin := 51 } [] "A" 5 with | .ok (some t) => t.qty | _ => 0) = 5 := by
  decide

end TV
