/-
  C13 — missing prices fail loudly; a rebalance is all-or-nothing.
-/
import TradingVerif.Lemmas.Valuation
set_option linter.unusedSectionVars false
set_option linter.unusedVariables false
namespace TV
variable {K : Type} [Field K] [LinearOrder K] [IsStrictOrderedRing K] [HasTrunc K]

/-- a non-zero position whose liquidation side is missing cannot be valued -/
theorem valueOf_missing (w : World K) (kind : ValKind) (b : Broker K) (k : Key) (h0 : b.pos k ≠ 0)
    (hn : liqPrice b k (b.pos k) = none) : valueOf w kind b k = .error .missingPrice := by
  unfold valueOf
  simp only [h0, if_false]
  rw [liq_side b k (b.pos k) h0, hn]

/-- **flat positions never require a quote** -/
theorem flat_needs_no_quote (w : World K) (kind : ValKind) (b : Broker K) (k : Key) (h0 : b.pos k = 0) :
    valueOf w kind b k = .ok 0 := by
  unfold valueOf; simp [h0]

theorem valuesOn_error (w : World K) (kind : ValKind) (b : Broker K) (l : List Key) (k : Key) (hk : k ∈ l)
    (e : Err) (he : valueOf w kind b k = .error e) : ∃ e', valuesOn w kind b l = .error e' := by
  induction l with
  | nil => cases hk
  | cons x xs ih =>
      unfold valuesOn
      rcases List.mem_cons.mp hk with rfl | hin
      · rw [he]; exact ⟨e, rfl⟩
      · cases hx : valueOf w kind b x with
        | error e2 => exact ⟨e2, rfl⟩
        | ok v =>
            obtain ⟨e', he'⟩ := ih hin
            simp only [he']
            exact ⟨e', rfl⟩

/-- the valuation errors are never `EndOfEpisode`: a missing price is reported as such -/
theorem valuesOn_error_kind (w : World K) (kind : ValKind) (b : Broker K) (l : List Key) (e : Err)
    (h : valuesOn w kind b l = .error e) : e = .missingPrice := by
  induction l with
  | nil => cases h
  | cons x xs ih =>
      unfold valuesOn at h
      cases hx : valueOf w kind b x with
      | error e2 =>
          rw [hx] at h
          cases h
          unfold valueOf at hx
          simp only at hx
          split_ifs at hx
          all_goals (split at hx)
          all_goals (first | (cases hx; rfl) | (split at hx <;> cases hx))
      | ok v =>
          rw [hx] at h
          cases hr : valuesOn w kind b xs with
          | error e2 => rw [hr] at h; cases h; exact ih hr
          | ok vs => rw [hr] at h; cases h

/-- one contract is valued iff it is flat or its liquidation side is quoted -/
theorem valueOf_ok_iff (w : World K) (kind : ValKind) (b : Broker K) (k : Key) :
    (∃ v, valueOf w kind b k = .ok v) ↔ (b.pos k = 0 ∨ liqPrice b k (b.pos k) ≠ none) := by
  constructor
  · rintro ⟨v, hv⟩
    by_cases h0 : b.pos k = 0
    · exact Or.inl h0
    · right
      intro hn
      rw [valueOf_missing w kind b k h0 hn] at hv
      cases hv
  · rintro (h0 | hq)
    · exact ⟨0, flat_needs_no_quote w kind b k h0⟩
    · by_cases h0 : b.pos k = 0
      · exact ⟨0, flat_needs_no_quote w kind b k h0⟩
      · unfold valueOf
        simp only [h0, if_false]
        rw [liq_side b k (b.pos k) h0]
        cases hp : liqPrice b k (b.pos k) with
        | none => exact absurd hp hq
        | some p => cases kind <;> exact ⟨_, rfl⟩

/-- **Exactly when**: `holdings_values` over any contract list succeeds iff every contract in it is flat or has
    a quote on its liquidation side - it raises for a missing price and *only* for a missing price needed by a
    non-zero position (no false refusals: flat contracts, and the unused side of a held one, may be unquoted). -/
theorem valuesOn_ok_iff (w : World K) (kind : ValKind) (b : Broker K) (l : List Key) :
    (∃ vs, valuesOn w kind b l = .ok vs) ↔ ∀ k ∈ l, b.pos k = 0 ∨ liqPrice b k (b.pos k) ≠ none := by
  induction l with
  | nil => simp [valuesOn]
  | cons x xs ih =>
      constructor
      · rintro ⟨vs, hvs⟩ k hk
        unfold valuesOn at hvs
        cases hx : valueOf w kind b x with
        | error e => rw [hx] at hvs; cases hvs
        | ok v =>
            rw [hx] at hvs
            cases hr : valuesOn w kind b xs with
            | error e => rw [hr] at hvs; cases hvs
            | ok vs' =>
                rcases List.mem_cons.mp hk with rfl | hin
                · exact (valueOf_ok_iff w kind b k).mp ⟨v, hx⟩
                · exact (ih.mp ⟨vs', hr⟩) k hin
      · intro h
        obtain ⟨v, hv⟩ := (valueOf_ok_iff w kind b x).mpr (h x List.mem_cons_self)
        obtain ⟨vs, hvs⟩ := ih.mpr (fun k hk => h k (List.mem_cons_of_mem _ hk))
        exact ⟨(x, v) :: vs, by unfold valuesOn; rw [hv, hvs]⟩

/-- for the held contracts: `holdings_values(kind)` -/
theorem valuesOf_ok_iff (w : World K) (kind : ValKind) (b : Broker K) :
    (∃ vs, valuesOf w kind b = .ok vs) ↔ ∀ k ∈ b.held, b.pos k = 0 ∨ liqPrice b k (b.pos k) ≠ none :=
  valuesOn_ok_iff w kind b b.held

/-- **Valuation fails loudly**: if a held contract has a non-zero position and no quote on its
    liquidation side (never quoted, NaN, discontinued), `net_liquidation_value` — raising or not —
    returns an error, never a number. -/
theorem valuation_missing_quote_errors (w : World K) (r : Bool) (b : Broker K) (k : Key) (hk : k ∈ b.held)
    (h0 : b.pos k ≠ 0) (hn : liqPrice b k (b.pos k) = none) :
    (netLiq w r b).2 = .error .missingPrice := by
  have hk' : k ∈ (markAll w b).held := by rw [markAll_held]; exact hk
  have h0' : (markAll w b).pos k ≠ 0 := by rw [markAll_pos]; exact h0
  have hn' : liqPrice (markAll w b) k ((markAll w b).pos k) = none := by
    simp only [liqPrice, markAll_ex, markAll_pos] at hn ⊢; exact hn
  obtain ⟨e', he'⟩ := valuesOn_error w .liquidation (markAll w b) (markAll w b).held k hk' _
    (valueOf_missing w .liquidation (markAll w b) k h0' hn')
  have hkind := valuesOn_error_kind w .liquidation (markAll w b) _ e' he'
  unfold netLiq nlvMarked valuesOf
  simp only [he', hkind]

/-- the same through `holdings_weights` -/
theorem weights_missing_quote_errors (w : World K) (b : Broker K) (k : Key) (hk : k ∈ b.held)
    (h0 : b.pos k ≠ 0) (hn : liqPrice b k (b.pos k) = none) :
    (weightsOf w b).2 = .error .missingPrice := by
  have h := valuation_missing_quote_errors w true b k hk h0 hn
  unfold weightsOf
  split
  · rename_i b' e heq; rw [heq] at h; simp only at h ⊢; cases h; rfl
  · rename_i b' v heq; rw [heq] at h; cases h

theorem accrue_frame (pw : K → K → K) (w : World K) (t : Time) (a : Bool) (b : Broker K) :
    (accrue pw w t a b).1.pos = b.pos ∧ (accrue pw w t a b).1.record = b.record ∧
    (accrue pw w t a b).1.held = b.held ∧ (accrue pw w t a b).1.ex = b.ex := by
  unfold accrue
  simp only
  split_ifs <;> first | exact ⟨rfl, rfl, rfl, rfl⟩ | (split <;> exact ⟨rfl, rfl, rfl, rfl⟩)

theorem markAll_record (w : World K) (b : Broker K) : (markAll w b).record = b.record := by
  unfold markAll
  generalize b.held = l
  induction l generalizing b with
  | nil => rfl
  | cons k ks ih => simp only [List.foldl_cons]; rw [ih]; exact (mark1_ghost w k b).2.2.2.2.1

theorem accrue_err_kind (pw : K → K → K) (w : World K) (t : Time) (a : Bool) (b : Broker K) (e : Err)
    (h : (accrue pw w t a b).2 = .error e) : e ≠ .endOfEpisode := by
  unfold accrue at h
  simp only at h
  split_ifs at h
  all_goals first | (cases h; decide) | (split at h <;> first | (cases h; decide) | cases h)

/-- and through `rebalance`: a rebalance of an account holding an unpriceable position is rejected with
    an error that is not the end-of-episode signal -/
theorem rebalance_missing_quote_errors (pw : K → K → K) (w : World K) (r : Rebal K) (b : Broker K) (k : Key)
    (hk : k ∈ b.held) (h0 : b.pos k ≠ 0) (hn : liqPrice b k (b.pos k) = none) :
    ∃ e, (rebalance pw w r b).2 = .error e ∧ e ≠ .endOfEpisode := by
  obtain ⟨f1, f2, f3, f4⟩ := accrue_frame pw w r.time true b
  have hkind := accrue_err_kind pw w r.time true b
  unfold rebalance
  split
  · rename_i b1 e heq
    rw [heq] at hkind
    exact ⟨e, rfl, hkind e rfl⟩
  · rename_i b1 i heq
    rw [heq] at f1 f3 f4
    simp only at f1 f3 f4
    have := valuation_missing_quote_errors w true b1 k (by rw [f3]; exact hk) (by rw [f1]; exact h0)
      (by simp only [liqPrice, f1, f4] at hn ⊢; exact hn)
    split
    · rename_i b2 e heq2
      rw [heq2] at this
      simp only at this
      cases this
      exact ⟨.missingPrice, rfl, by decide⟩
    · rename_i b2 n heq2
      rw [heq2] at this; cases this

/-- **All-or-nothing**: unless every trade of the rebalance could be computed, no trade is executed —
    every contract position and the track record are exactly as before, and the call reports an error
    (interest for the elapsed period may have been credited, margins may have been swept). -/
theorem rebalance_fails_before_trading (pw : K → K → K) (w : World K) (r : Rebal K) (b : Broker K)
    (h : ¬ ∃ b1 i b2 n ts, accrue pw w r.time true b = (b1, .ok i) ∧ netLiq w true b1 = (b2, .ok n) ∧
        makeTrades w b2 n r = .ok ts) :
    (rebalance pw w r b).1.pos = b.pos ∧ (rebalance pw w r b).1.record = b.record ∧
    (rebalance pw w r b).1.held = b.held ∧ ∃ e, (rebalance pw w r b).2 = .error e := by
  obtain ⟨f1, f2, f3, _⟩ := accrue_frame pw w r.time true b
  unfold rebalance
  split
  · rename_i b1 e heq
    rw [heq] at f1 f2 f3
    exact ⟨f1, f2, f3, e, rfl⟩
  · rename_i b1 i heq
    rw [heq] at f1 f2 f3
    simp only at f1 f2 f3
    have hn := netLiq_fst w true b1
    split
    · rename_i b2 e heq2
      rw [heq2] at hn; simp only at hn
      exact ⟨by rw [hn, markAll_pos]; exact f1, by rw [hn, markAll_record]; exact f2,
             by rw [hn, markAll_held]; exact f3, e, rfl⟩
    · rename_i b2 n heq2
      rw [heq2] at hn; simp only at hn
      split
      · rename_i e heq3
        exact ⟨by rw [hn, markAll_pos]; exact f1, by rw [hn, markAll_record]; exact f2,
               by rw [hn, markAll_held]; exact f3, e, rfl⟩
      · rename_i ts heq3
        exact absurd ⟨b1, i, b2, n, ts, heq, heq2, heq3⟩ h

/-- a trade needs both sides of the book: a missing bid or ask rejects the trade -/
theorem trade_needs_both_sides (w : World K) (k : Key) (q bid ask : Option K)
    (h : bid = none ∨ ask = none) : ∃ e, mkTrade w k q bid ask = .error e := by
  unfold mkTrade
  rcases h with h | h
  · subst h; exact ⟨_, rfl⟩
  · subst h
    cases bid <;> exact ⟨_, rfl⟩

/-! Non-vacuity: a long position whose bid is blanked makes valuation an error, not a number. -/
example :
    let w : World Int := { spec := fun _ => { mult := 1, cashReq := 1, mr := 0 }, fixed := 0, prop := 0,
                           markup := 0, rateKey := "R", eps := 0 }
    let b0 : Broker Int := { Broker.init 100 with ex := ({} : Exchange Int).step (.quote "A" 0 (some 10) (some 10)) }
    let b1 := transact w b0 ⟨"A", 3, 10, 10⟩
    let b2 : Broker Int := { b1 with ex := b1.ex.step (.quote "A" 1 none (some 11)) }
    ((netLiq w false b1).2.toOption = some 100) ∧ ((netLiq w false b2).2.toOption = none) := by decide

end TV
