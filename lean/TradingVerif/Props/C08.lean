/-
  C08 — decision-to-execution timing: FIFO delay and latency pricing.
-/
import TradingVerif.Props.C04
import TradingVerif.Lemmas.Valuation
set_option linter.unusedSectionVars false
set_option linter.unusedVariables false
namespace TV

/-! ### the action queue (a `deque(maxlen = d+1)`: `appendleft` then `pop`) -/
section
variable {β : Type}

/-- one decision: push on the left, execute what falls off the right -/
def qstep (q : List β) (a : β) : List β × β := ((a :: q).dropLast, ((a :: q).getLast?).getD a)

/-- run a sequence of decisions; returns the final queue and the executed actions in order -/
def qrun : List β → List β → List β × List β
  | q, [] => (q, [])
  | q, a :: as =>
      let (q1, x) := qstep q a
      let (q2, xs) := qrun q1 as
      (q2, x :: xs)

theorem reverse_dropLast' (l : List β) : l.dropLast.reverse = l.reverse.tail := by
  induction l with
  | nil => rfl
  | cons x xs ih =>
      cases xs with
      | nil => simp
      | cons y ys =>
          rw [List.dropLast_cons₂, List.reverse_cons, ih, List.reverse_cons (a := x)]
          rw [List.tail_append_of_ne_nil]
          simp

theorem qstep_rev (q : List β) (a : β) :
    (qstep q a).1.reverse = (q.reverse ++ [a]).tail ∧ some (qstep q a).2 = (q.reverse ++ [a]).head? := by
  unfold qstep
  constructor
  · rw [reverse_dropLast']; simp
  · have : (a :: q).getLast? = (q.reverse ++ [a]).head? := by
      rw [← List.head?_reverse]; simp
    rw [← this]
    simp [List.getLast?_cons]

/-- **FIFO delay** (any delay `d = |q₀|`, any number of decisions): the executed sequence is the first
    `n` elements of `q₀ (oldest first) ++ decisions`, and what is left in the queue is the rest — nothing is
    dropped, duplicated or reordered. -/
theorem qrun_spec (q : List β) (as : List β) :
    (qrun q as).2 = (q.reverse ++ as).take as.length ∧ (qrun q as).1.reverse = (q.reverse ++ as).drop as.length := by
  induction as generalizing q with
  | nil => simp [qrun]
  | cons a as ih =>
      obtain ⟨h1, h2⟩ := qstep_rev q a
      obtain ⟨i1, i2⟩ := ih (qstep q a).1
      simp only [qrun]
      rw [h1] at i1 i2
      -- q.reverse ++ [a] is non-empty: it is `x :: (q.reverse ++ [a]).tail` with x the executed action
      have hne : q.reverse ++ [a] = (qstep q a).2 :: (q.reverse ++ [a]).tail := by
        cases hq : q.reverse ++ [a] with
        | nil => simp at hq
        | cons y ys =>
            rw [hq] at h2
            simp only [List.head?_cons, Option.some.injEq] at h2
            rw [h2]; rfl
      have hsplit : q.reverse ++ a :: as = (qstep q a).2 :: ((q.reverse ++ [a]).tail ++ as) := by
        have : q.reverse ++ a :: as = (q.reverse ++ [a]) ++ as := by simp
        rw [this, hne]; simp
      constructor
      · rw [hsplit]; simp [i1]
      · rw [hsplit]; simp [i2]

/-- with the queue pre-filled with `d` null actions: the action executed at step `k` is `null` for `k < d`
    and the decision submitted `d` steps earlier otherwise -/
theorem fifo_delay (d : Nat) (null : β) (as : List β) :
    (qrun (List.replicate d null) as).2 = (List.replicate d null ++ as).take as.length := by
  have := (qrun_spec (List.replicate d null) as).1
  simpa using this

theorem fifo_delay_get (d : Nat) (null : β) (as : List β) (k : Nat) (hk : k < as.length) :
    (qrun (List.replicate d null) as).2[k]? = if k < d then some null else as[k - d]? := by
  rw [fifo_delay, List.getElem?_take_of_lt hk]
  by_cases h : k < d
  · simp [h, List.getElem?_append_left, List.getElem?_replicate]
  · rw [List.getElem?_append_right (by simp; omega)]; simp [h]

end

/-! ### in the environment -/
section
variable {α : Type} [Add α] [Sub α] [Mul α] [Div α] [Neg α] [LT α] [LE α]
  [DecidableLT α] [DecidableLE α] [DecidableEq α] [OfNat α 0] [OfNat α 1] [OfNat α 2]
  [IntCast α] [HasTrunc α]

/-- `step` shifts the queue exactly as `qstep` does, and executes what falls off -/
theorem stepPre_queue (s : EnvState α) (a : Action α) :
    (stepPre s a).1.queue = (qstep s.queue a).1 ∧ (stepPre s a).2 = (qstep s.queue a).2 := by
  unfold stepPre qstep
  obtain ⟨_, _, _, _, _, _, _, l8⟩ :=
    processLatent_spec ({ s with contractClock := s.now, queue := (a :: s.queue).dropLast } : EnvState α)
  exact ⟨l8, rfl⟩

theorem batches_queue (cfg : EnvCfg α) (s : EnvState α) : (processNonlatent cfg (processLatent s)).queue = s.queue := by
  obtain ⟨_, _, _, _, _, _, _, l8⟩ := processLatent_spec s
  obtain ⟨_, _, _, _, _, _, _, i8⟩ := foldl_notifyEvent (processLatent s).pendNon (processLatent s)
  unfold processNonlatent
  simp only
  cases ((List.foldl notifyEvent (processLatent s) (processLatent s).pendNon).steps)[(List.foldl notifyEvent (processLatent s) (processLatent s).pendNon).cursor]? with
  | none => simp only; rw [i8, l8]
  | some cur => simp only; rw [i8, l8]

/-- `reset` pre-fills the queue with `delay` null actions -/
theorem reset_queue (cfg : EnvCfg α) (lo hi : Time) (start : Nat) (clk : Option Time) :
    (envReset cfg lo hi start clk).queue = List.replicate cfg.delay (nullAction cfg.space) := by
  unfold envReset
  have hn : ∀ (s : EnvState α) k t, (notify s k t none).queue = s.queue := fun s k t => (notify_frame s k t none).2.2.2.2.2.1
  simp only
  cases (cfg.tx.episodeSteps lo hi cfg.episodeLen start)[0]? with
  | none => simp only; split_ifs <;> simp only [hn, batches_queue]
  | some cur => simp only; split_ifs <;> simp only [hn, batches_queue]

/-- **The null action is a member of its space**: the zero vector of a box that contains 0, index 0 of a
    non-empty discrete space. -/
theorem null_action_in_space (sp : Space α) :
    (match sp.kind with
     | .box lo hi => lo ≤ 0 ∧ 0 ≤ hi
     | .boxv bs => bs.length = sp.keys.length ∧ ∀ b ∈ bs, b.1 ≤ 0 ∧ 0 ≤ b.2
     | .disc allocs => allocs ≠ []) → contains sp (nullAction sp) = true := by
  intro h
  unfold nullAction contains
  cases hk : sp.kind with
  | box lo hi =>
      rw [hk] at h
      simp only [List.length_map, decide_true, Bool.true_and, List.all_map]
      rw [List.all_eq_true]
      intro x _
      simp [h.1, h.2]
  | boxv bs =>
      rw [hk] at h
      simp only [List.length_map, decide_true, Bool.true_and, h.1]
      rw [List.all_eq_true]
      intro p hp
      have h2 : p.2 ∈ bs := (List.of_mem_zip (by
        have : (p.1, p.2) ∈ (sp.keys.map fun _ => (some 0 : Option α)).zip bs := by simpa using hp
        exact this)).2
      have h1 : p.1 = some 0 := by
        have := (List.of_mem_zip (by
          have : (p.1, p.2) ∈ (sp.keys.map fun _ => (some 0 : Option α)).zip bs := by simpa using hp
          exact this)).1
        obtain ⟨_, _, e⟩ := List.mem_map.mp this
        exact e.symm
      rw [h1]
      simp [(h.2 p.2 h2).1, (h.2 p.2 h2).2]
  | disc allocs =>
      rw [hk] at h
      simp only
      have : 0 < allocs.length := List.length_pos_iff.mpr h
      simp [this]

/-- the null action denotes "hold nothing": all zeros (box) / the first allocation (discrete) -/
theorem null_action_denotes (sp : Space α) :
    denote sp (nullAction sp) = (match sp.kind with
      | .box _ _ => sp.keys.map (fun _ => (0 : α))
      | .boxv _ => sp.keys.map (fun _ => (0 : α))
      | .disc allocs => (allocs[0]?).getD []) := by
  unfold nullAction denote
  cases hk : sp.kind with
  | box lo hi => simp
  | boxv bs => simp
  | disc allocs => simp [hk]

def marketOf (e : TEvent (Payload α)) : Option (MEvent α) :=
  match e.payload with | .market m => some m | .custom _ => none

theorem notifyEvent_ex (s : EnvState α) (e : TEvent (Payload α)) :
    (notifyEvent s e).broker.ex = s.broker.ex.run (marketOf e).toList := by
  unfold notifyEvent marketOf
  cases hpay : e.payload with
  | market m =>
      simp only [Option.toList_some, Exchange.run, List.foldl_cons, List.foldl_nil]
      unfold notify
      by_cases hnd : isNewDate s (some e.time) = true <;> simp [hnd, dispatch]
  | custom i =>
      simp only [Option.toList_none, Exchange.run, List.foldl_nil]
      unfold notify
      by_cases hnd : isNewDate s (some e.time) = true <;> simp [hnd, dispatch]

theorem foldl_notifyEvent_ex (l : List (TEvent (Payload α))) (s : EnvState α) :
    (l.foldl notifyEvent s).broker.ex = s.broker.ex.run (l.filterMap marketOf) := by
  induction l generalizing s with
  | nil => simp [Exchange.run]
  | cons e es ih =>
      simp only [List.foldl_cons]
      rw [ih, notifyEvent_ex]
      cases hm : marketOf e with
      | none => simp [Exchange.run, List.filterMap_cons, hm]
      | some m => simp [Exchange.run, List.filterMap_cons, hm]

/-- **Quotes in `(t, t + latency]` are applied before the execution, later ones only after it**: the order
    books the execution sees are exactly the books before the step updated by the step's latent batch. -/
theorem execution_books (s : EnvState α) (a : Action α) :
    (stepPre s a).1.broker.ex = s.broker.ex.run (s.pendLat.filterMap marketOf) := by
  unfold stepPre processLatent
  exact foldl_notifyEvent_ex s.pendLat _

/-! ### the whole episode: what is executed at each accepted step -/

/-- an accepted `step` leaves the queue shifted by exactly one decision, whatever it returns -/
theorem envStep_queue (pw : α → α → α) (lg : α → α) (cfg : EnvCfg α) (s : EnvState α) (a : Action α)
    (hd : s.done = false) : (envStep pw lg cfg s a).1.queue = (qstep s.queue a).1 := by
  unfold envStep
  simp only [hd, Bool.false_eq_true, if_false]
  obtain ⟨q1, _⟩ := stepPre_queue s a
  obtain ⟨_, _, _, _, _, x6, _⟩ := stepExec_spec pw cfg (stepPre s a).1 (stepPre s a).2
  cases hres : stepExec pw cfg (stepPre s a).1 (stepPre s a).2 with
  | mk s2 res =>
    rw [hres] at x6
    simp only at x6
    cases res with
    | error e => simp only; rw [x6, q1]
    | ok tr =>
        simp only
        unfold stepFinish
        simp only
        obtain ⟨_, _, _, _, _, _, _, i8⟩ := foldl_notifyEvent s2.pendNon s2
        have hq3 : (processNonlatent cfg s2).queue = s2.queue := by
          unfold processNonlatent
          simp only
          split <;> (simp only; exact i8)
        cases hrw : rewardOf lg cfg (processNonlatent cfg s2).broker with
        | mk b4 res2 =>
          cases res2 with
          | error e => simp only; rw [hq3, x6, q1]
          | ok r =>
              simp only
              have n5 := (notify_frame ({ processNonlatent cfg s2 with broker := b4 } : EnvState α) .step
                (processNonlatent cfg s2).now none).2.2.2.2.2.1
              split_ifs
              · have n6 := (notify_frame (notify ({ processNonlatent cfg s2 with broker := b4 } : EnvState α) .step
                  (processNonlatent cfg s2).now none) .done
                  (notify ({ processNonlatent cfg s2 with broker := b4 } : EnvState α) .step
                    (processNonlatent cfg s2).now none).now none).2.2.2.2.2.1
                rw [n6, n5]; simp only; rw [hq3, x6, q1]
              · rw [n5]; simp only; rw [hq3, x6, q1]

/-- the actions that become due, one per accepted `step`, until the episode is over -/
def runDue (pw : α → α → α) (lg : α → α) (cfg : EnvCfg α) : EnvState α → List (Action α) → List (Action α)
  | _, [] => []
  | s, a :: as => if s.done then [] else (stepPre s a).2 :: runDue pw lg cfg (envStep pw lg cfg s a).1 as

/-- **FIFO over the whole episode**: whatever the steps return (results or errors), the actions executed at the
    accepted steps are, in order, the first elements of "the queue as `reset` left it (oldest first), then the
    submitted decisions" — nothing dropped, duplicated or reordered -/
theorem episode_fifo (pw : α → α → α) (lg : α → α) (cfg : EnvCfg α) (acts : List (Action α)) (s : EnvState α) :
    runDue pw lg cfg s acts = (s.queue.reverse ++ acts).take (runDue pw lg cfg s acts).length := by
  induction acts generalizing s with
  | nil => simp [runDue]
  | cons a as ih =>
      by_cases hd : s.done = true
      · simp [runDue, hd]
      · have hd' : s.done = false := by simpa using hd
        have hq := envStep_queue pw lg cfg s a hd'
        obtain ⟨_, q2⟩ := stepPre_queue s a
        obtain ⟨h1, h2⟩ := qstep_rev s.queue a
        have hne : s.queue.reverse ++ [a] = (qstep s.queue a).2 :: (s.queue.reverse ++ [a]).tail := by
          cases hq' : s.queue.reverse ++ [a] with
          | nil => simp at hq'
          | cons y ys =>
              rw [hq'] at h2
              simp only [List.head?_cons, Option.some.injEq] at h2
              rw [h2]; rfl
        have hsplit : s.queue.reverse ++ a :: as =
            (qstep s.queue a).2 :: ((envStep pw lg cfg s a).1.queue.reverse ++ as) := by
          have : s.queue.reverse ++ a :: as = (s.queue.reverse ++ [a]) ++ as := by simp
          rw [this, hne, hq, h1]; simp
        have hrun : runDue pw lg cfg s (a :: as) =
            (stepPre s a).2 :: runDue pw lg cfg (envStep pw lg cfg s a).1 as := by
          simp [runDue, hd']
        rw [hrun, hsplit, q2]
        simp only [List.length_cons, List.take_succ_cons]
        rw [← ih (envStep pw lg cfg s a).1]

/-- … and after `reset` the queue holds `delay` null actions: the action executed at accepted step `k` is the
    null action for `k < delay` and the decision submitted `delay` steps earlier otherwise -/
theorem episode_fifo_reset (pw : α → α → α) (lg : α → α) (cfg : EnvCfg α) (lo hi : Time) (start : Nat)
    (clk : Option Time) (acts : List (Action α)) :
    runDue pw lg cfg (envReset cfg lo hi start clk) acts =
      (List.replicate cfg.delay (nullAction cfg.space) ++ acts).take
        (runDue pw lg cfg (envReset cfg lo hi start clk) acts).length := by
  have := episode_fifo pw lg cfg acts (envReset cfg lo hi start clk)
  rw [reset_queue, List.reverse_replicate] at this
  exact this

section
variable {K : Type} [Field K] [LinearOrder K] [IsStrictOrderedRing K] [HasTrunc K]

theorem mkTrade_quotes (w : World K) (k : Key) (q bid ask : Option K) (t : Trade K)
    (h : mkTrade w k q bid ask = .ok t) : bid = some t.bid ∧ ask = some t.ask ∧ t.key = k := by
  unfold mkTrade at h
  cases bid with
  | none => simp at h
  | some b =>
    cases ask with
    | none => simp at h
    | some a =>
      cases q with
      | none => simp at h
      | some qq =>
        simp only at h
        split_ifs at h
        cases h
        exact ⟨rfl, rfl, rfl⟩

/-- every trade built by `make_trades` carries the bid and the ask of the book at that moment -/
theorem tradeFor_quotes (w : World K) (b : Broker K) (nlv : K) (r : Rebal K) (alloc : List (Key × K)) (k : Key)
    (q : K) (t : Trade K) (h : tradeFor w b nlv r alloc k q = .ok (some t)) :
    (b.ex.books t.key).bid = some t.bid ∧ (b.ex.books t.key).ask = some t.ask := by
  have key : ∀ x : Except Err (Trade K), Except.map some x = .ok (some t) → x = .ok t := by
    intro x hx
    cases x with
    | error e => simp [Except.map] at hx
    | ok v => simp only [Except.map, Except.ok.injEq, Option.some.injEq] at hx; rw [hx]
  unfold tradeFor at h
  simp only at h
  split_ifs at h
  all_goals first
    | (cases h; done)
    | (have hm := key _ h
       obtain ⟨h1, h2, h4⟩ := mkTrade_quotes w k _ _ _ t hm
       rw [h4]; exact ⟨h1, h2⟩)

theorem tradesFor_quotes (w : World K) (b : Broker K) (nlv : K) (r : Rebal K) (alloc : List (Key × K))
    (imb : List (Key × Option K)) (ts : List (Trade K)) (h : tradesFor w b nlv r alloc imb = .ok ts) :
    ∀ t ∈ ts, (b.ex.books t.key).bid = some t.bid ∧ (b.ex.books t.key).ask = some t.ask := by
  induction imb generalizing ts with
  | nil => simp only [tradesFor, Except.ok.injEq] at h; subst h; intro t ht; cases ht
  | cons kv rest ih =>
      unfold tradesFor at h
      cases h1 : tradeFor w b nlv r alloc kv.1 (kv.2.getD 0) with
      | error e => rw [h1] at h; cases h
      | ok ot =>
          rw [h1] at h
          cases h2 : tradesFor w b nlv r alloc rest with
          | error e => rw [h2] at h; cases h
          | ok ts' =>
              rw [h2] at h
              simp only [Except.ok.injEq] at h
              subst h
              intro t ht
              cases ot with
              | none => exact ih ts' h2 t ht
              | some t0 =>
                  rcases List.mem_cons.mp ht with rfl | ht'
                  · exact tradeFor_quotes w b nlv r alloc kv.1 _ t h1
                  · exact ih ts' h2 t ht'

/-- **Execution prices**: every trade of a rebalance is priced at the quotes the exchange holds at that
    moment (the ask for a purchase, the bid for a sale — `Trade.acq`). -/
theorem rebalance_trades_use_current_quotes (w : World K) (b : Broker K) (nlv : K) (r : Rebal K)
    (ts : List (Trade K)) (h : makeTrades w b nlv r = .ok ts) :
    ∀ t ∈ ts, (b.ex.books t.key).bid = some t.bid ∧ (b.ex.books t.key).ask = some t.ask := by
  unfold makeTrades at h
  simp only at h
  split_ifs at h
  all_goals exact tradesFor_quotes w b nlv r _ _ ts h

end
end
end TV
