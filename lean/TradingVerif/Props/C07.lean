/-
  C07 — track record and rewards are a faithful, replayable account of the episode.
-/
import TradingVerif.Lemmas.EnvStep
import TradingVerif.Props.C01
import TradingVerif.Props.C04
import TradingVerif.Props.C05
import Mathlib.Algebra.Order.Field.Rat
set_option linter.unusedSectionVars false
set_option linter.unusedVariables false
namespace TV
section
variable {K : Type} [Field K] [LinearOrder K] [IsStrictOrderedRing K] [HasTrunc K]

/-- **One entry per executed decision**: a rebalance that succeeds appends exactly one entry stamped with
    the request's time, which no earlier entry carries; a rebalance that reports an error appends none. -/
theorem one_entry_per_executed_decision (pw : K → K → K) (w : World K) (r : Rebal K) (b : Broker K) :
    (∀ e, (rebalance pw w r b).2 = .error e → (rebalance pw w r b).1.record = b.record) ∧
    ((rebalance pw w r b).2 = .ok () →
      ∃ en : Entry K, (rebalance pw w r b).1.record = b.record ++ [en] ∧ en.time = r.time ∧
        r.time ∉ b.record.map (·.time)) :=
  rebalance_record pw w r b

/-- the timestamps of the record stay pairwise distinct -/
theorem record_times_nodup (pw : K → K → K) (w : World K) (r : Rebal K) (b : Broker K)
    (h : (b.record.map (·.time)).Nodup) : ((rebalance pw w r b).1.record.map (·.time)).Nodup := by
  obtain ⟨h1, h2⟩ := rebalance_record pw w r b
  cases hres : (rebalance pw w r b).2 with
  | error e => rw [h1 e hres]; exact h
  | ok u =>
      obtain ⟨en, he, ht, hn⟩ := h2 (by rw [hres])
      rw [he, List.map_append, List.nodup_append]
      refine ⟨h, by simp, ?_⟩
      intro a ha b' hb'
      simp only [List.map_cons, List.map_nil, List.mem_singleton] at hb'
      subst hb'
      rw [ht]
      intro e; exact hn (e ▸ ha)

/-- the environment stamps the request with its clock: the time of the latest event processed before the
    execution (`stepPre` has delivered the latent batch; `notify_frame` sets the clock to the event's time) -/
theorem request_time_is_clock (chains : List (Key × Chain)) (clock : Option Time) (sp : Space K) (a : Action K)
    (now : Time) (reb : Rebal K) (h : makeRequest chains clock sp a now = .ok reb) : reb.time = now := by
  unfold makeRequest at h
  split_ifs at h
  split at h
  · cases h
  · simp only [Except.ok.injEq] at h; rw [← h]

/-- **What the entry reports is what the account had**: in the entry of a successful rebalance,
    `interest` is the amount just credited, `nlvPre` the value of the pre-trade valuation and `cashPre` the cash of that same marked state, `trades` the
    trades computed from that snapshot — all executed, in order — and `nlvPost` the valuation of the
    resulting state; the recorded post-trade holdings are the actual positions. -/
theorem entry_is_actual (pw : K → K → K) (w : World K) (r : Rebal K) (b : Broker K)
    (h : (rebalance pw w r b).2 = .ok ()) :
    ∃ b1 i b2 n ts b4 m,
      accrue pw w r.time true b = (b1, .ok i) ∧ netLiq w true b1 = (b2, .ok n) ∧
      makeTrades w b2 n r = .ok ts ∧ netLiq w true (ts.foldl (transact w) b2) = (b4, .ok m) ∧
      (rebalance pw w r b).1.record = b.record ++
        [{ time := r.time, interest := i, nlvPre := n, nlvPost := m, trades := ts,
           target := cleanAlloc w r.target, posPost := b4.held.map (fun k => (k, b4.pos k)), cashPost := b4.cash,
           cashPre := b2.cash, posPre := b2.held.map (fun k => (k, b2.pos k)),
           marginPre := b2.held.map (fun k => (k, b2.margin k)),
           marginPost := b4.held.map (fun k => (k, b4.margin k)) }] ∧
      (rebalance pw w r b).1.pos = b4.pos ∧ (rebalance pw w r b).1.cash = b4.cash := by
  obtain ⟨_, f2, _, _⟩ := accrue_frame pw w r.time true b
  unfold rebalance at h ⊢
  cases ha : accrue pw w r.time true b with
  | mk b1 res1 =>
    rw [ha] at h f2
    cases res1 with
    | error e => simp at h
    | ok i =>
      simp only at h f2 ⊢
      cases hn : netLiq w true b1 with
      | mk b2 res2 =>
        rw [hn] at h
        cases res2 with
        | error e => simp at h
        | ok n =>
          simp only at h ⊢
          have hb2 : b2.record = b.record := by
            have := netLiq_fst w true b1
            rw [hn] at this; simp only at this
            rw [this, markAll_record]; exact f2
          cases hm : makeTrades w b2 n r with
          | error e => rw [hm] at h; simp at h
          | ok ts =>
            rw [hm] at h
            simp only at h ⊢
            unfold rebalanceExec at h ⊢
            cases hx : netLiq w true (ts.foldl (transact w) b2) with
            | mk b4 res4 =>
              rw [hx] at h
              cases res4 with
              | error e => simp at h
              | ok m =>
                simp only at h ⊢
                have hfold : ∀ (l : List (Trade K)) (c : Broker K), (l.foldl (transact w) c).record = c.record := by
                  intro l
                  induction l with
                  | nil => intro c; rfl
                  | cons t ts ih =>
                      intro c
                      simp only [List.foldl_cons]
                      rw [ih, transact_eq, (mark1_ghost _ _ _).2.2.2.2.1]
                      simp only [transactCore]
                      exact (mark1_ghost _ _ _).2.2.2.2.1
                have hb4 : b4.record = b.record := by
                  have := netLiq_fst w true (ts.foldl (transact w) b2)
                  rw [hx] at this; simp only at this
                  rw [this, markAll_record, hfold, hb2]
                split_ifs at h ⊢ with hdup
                exact ⟨b1, i, b2, n, ts, b4, m, rfl, hn, hm, hx, by simp only; rw [hb4], rfl, rfl⟩

/-- **The pre-trade snapshot is consistent in itself**: in the entry of a successful rebalance on a state
    satisfying the ledger invariant with every held contract quoted on its liquidation side, the recorded
    pre-trade NLV equals the recorded pre-trade cash plus the recorded pre-trade margins plus the liquidation value
    of the recorded fully-paid positions — all taken from the same marked state. -/
theorem entry_snapshot_consistent (pw : K → K → K) (w : World K) (D : K) (hw : ∀ k, WFSpec (w.spec k))
    (r : Rebal K) (b : Broker K) (hinv : Inv w D b) (h : (rebalance pw w r b).2 = .ok ())
    (hq : ∀ k ∈ b.held, Quoted (accrue pw w r.time true b).1 k) :
    ∃ en : Entry K, (rebalance pw w r b).1.record = b.record ++ [en] ∧
      ∃ b2 : Broker K, b2 = markAll w (accrue pw w r.time true b).1 ∧
        en.cashPre = b2.cash ∧ en.posPre = b2.held.map (fun k => (k, b2.pos k)) ∧
        en.marginPre = b2.held.map (fun k => (k, b2.margin k)) ∧
        en.nlvPre = b2.cash + sumL (b2.held.map b2.margin) +
          sumL (b2.held.map fun k => if (w.spec k).mr = 0 then (w.spec k).mult * b2.pos k * liqv b2 k else 0) := by
  obtain ⟨b1, i, b2, n, ts, b4, m, ha, hn, _, _, hrec, _, _⟩ := entry_is_actual pw w r b h
  have hb1 : (accrue pw w r.time true b).1 = b1 := by rw [ha]
  have hinv1 : Inv w D b1 := by rw [← hb1]; exact accrue_inv pw w D r.time true b hinv
  have hheld : b1.held = b.held := by rw [← hb1]; exact (accrue_frame pw w r.time true b).2.2.1
  have hq1 : ∀ k ∈ b1.held, Quoted b1 k := by
    intro k hk; rw [← hb1]; exact hq k (by rw [← hheld]; exact hk)
  have hb2 : b2 = markAll w b1 := by
    have := netLiq_fst w true b1
    rw [hn] at this; exact this
  have hdec := nlv_decomposition_inv w D hw b1 hinv1 hq1
  simp only at hdec
  have hnval : n = b2.cash + sumL (b2.held.map b2.margin) +
      sumL (b2.held.map fun k => if (w.spec k).mr = 0 then (w.spec k).mult * b2.pos k * liqv b2 k else 0) := by
    unfold netLiq at hn
    rw [← hb2] at hdec
    simp only [← hb2, hdec] at hn
    split_ifs at hn
    · simp only [Prod.mk.injEq] at hn
      exact absurd hn.2 (by simp)
    · simp only [Prod.mk.injEq, Except.ok.injEq] at hn
      exact hn.2.symm
  refine ⟨_, hrec, b2, by rw [hb2, hb1], rfl, rfl, rfl, hnval⟩

/-- with C01's identity: the recorded pre-trade NLV is the ledger's closed form at that moment -/
theorem checkpoint_nlv_eq_ledger (w : World K) (D : K) (b1 : Broker K) (b2 : Broker K) (n : K)
    (hinv : Inv w D b1) (hw : ∀ k, WFSpec (w.spec k)) (hq : ∀ k ∈ b1.held, Quoted b1 k)
    (hn : netLiq w true b1 = (b2, .ok n)) : n = nlvFormula w D b1 := by
  have hid := netLiq_identity w D b1 hinv hw hq
  unfold netLiq at hn
  simp only [hid] at hn
  split_ifs at hn
  · simp only [Prod.mk.injEq] at hn
    exact absurd hn.2 (by simp)
  · simp only [Prod.mk.injEq, Except.ok.injEq] at hn
    rw [← hn.2]; rfl

/-- **Each step's reward is the stated function** of the NLV after the step's market events (`v`) and the
    NLV recorded just before that step's trades (`e.nlvPre` of the last entry): ratio − 1, difference,
    log-ratio, or log-ratio scaled, clipped and risk-adjusted. -/
theorem reward_def (lg : K → K) (cfg : EnvCfg K) (b b' : Broker K) (e : Entry K) (v : K)
    (hl : b.record.getLast? = some e) (hn : netLiq cfg.world true b = (b', .ok v)) :
    (rewardOf lg cfg b).2 = .ok (match cfg.reward with
      | .simple => v / e.nlvPre - 1
      | .pnl => v - e.nlvPre
      | .log => lg (v / e.nlvPre)
      | .logret scale clip ra =>
          let x := clipTo (lg (v / e.nlvPre) / scale) (-clip) clip
          if x < 0 then x * (1 + ra) else x) := by
  unfold rewardOf
  simp only [hl, hn]
  cases cfg.reward <;> rfl

theorem clipTo_range (x lo hi : K) (h : lo ≤ hi) : lo ≤ clipTo x lo hi ∧ clipTo x lo hi ≤ hi := by
  unfold clipTo
  split_ifs with h1 h2
  · exact ⟨le_refl _, h⟩
  · exact ⟨h, le_refl _⟩
  · exact ⟨not_lt.mp h1, not_lt.mp h2⟩

/-- **Simple returns compound to final / initial**: for any positive NLV path `v₀, v₁, …, vₙ`,
    `Π (1 + (v_{k+1}/v_k − 1)) = vₙ / v₀` (telescoping; no bound on the length). -/
theorem simple_returns_compound (v0 : K) (vs : List K) (h0 : v0 ≠ 0) (hpos : ∀ x ∈ vs, x ≠ 0) :
    let rets := (List.zip (v0 :: vs) vs).map (fun p => p.2 / p.1 - 1)
    (rets.map (fun r => 1 + r)).prod = (vs.getLast?.getD v0) / v0 := by
  induction vs generalizing v0 with
  | nil => simp [div_self h0]
  | cons x xs ih =>
      have hx : x ≠ 0 := hpos x (List.mem_cons_self)
      have := ih x hx (fun y hy => hpos y (List.mem_cons_of_mem _ hy))
      simp only [List.zip_cons_cons, List.map_cons, List.prod_cons] at this ⊢
      rw [this]
      have hlast : (x :: xs).getLast?.getD v0 = xs.getLast?.getD x := by
        cases xs with
        | nil => simp
        | cons y ys =>
            rw [List.getLast?_cons_cons]
            cases hl : (y :: ys).getLast? with
            | none => simp at hl
            | some z => rfl
      rw [hlast]
      field_simp
      ring

/-! ### the track record is in strictly increasing time order over a whole episode -/

/-- the record's times increase strictly and none is later than the clock -/
structure RecInv (s : EnvState K) : Prop where
  incr : (s.broker.record.map (·.time)).Pairwise (· < ·)
  bound : ∀ e ∈ s.broker.record, stampLE (some e.time) s.now

theorem RecInv.of_later {s s' : EnvState K} (h : RecInv s) (hr : s'.broker.record = s.broker.record)
    (hn : stampLE s.now s'.now) : RecInv s' :=
  ⟨by rw [hr]; exact h.incr, by rw [hr]; intro e he; exact stampLE_trans (h.bound e he) hn⟩

/-- delivering a batch in time order, not earlier than the clock, never moves the clock back (and never
    un-sets it) -/
theorem foldl_notifyEvent_clock (l : List (TEvent (Payload K))) (s : EnvState K)
    (hs : l.Pairwise (fun a b => a.time ≤ b.time)) (hb : ∀ e ∈ l, stampLE s.now (some e.time)) :
    stampLE s.now (l.foldl notifyEvent s).now ∧ (s.now ≠ none → (l.foldl notifyEvent s).now ≠ none) := by
  induction l generalizing s with
  | nil => exact ⟨stampLE_refl _, fun h => h⟩
  | cons e es ih =>
      simp only [List.foldl_cons]
      obtain ⟨m, hm⟩ := notifyEvent_eq s e
      have hp := List.pairwise_cons.mp hs
      have hnow : (notifyEvent s e).now = some e.time := by
        rw [hm]; exact (notify_frame s _ _ m).2.2.2.2.2.2.1
      obtain ⟨i1, i2⟩ := ih (notifyEvent s e) hp.2 (by intro e' he'; rw [hnow]; exact hp.1 e' he')
      refine ⟨stampLE_trans ?_ i1, fun _ => i2 (by rw [hnow]; simp)⟩
      rw [hnow]; exact hb e List.mem_cons_self

theorem rewardOf_record (lg : K → K) (cfg : EnvCfg K) (b : Broker K) :
    (rewardOf lg cfg b).1.record = b.record := by
  unfold rewardOf
  cases b.record.getLast? with
  | none => rfl
  | some e =>
      simp only
      have hn := netLiq_fst cfg.world true b
      cases hnl : netLiq cfg.world true b with
      | mk b' res =>
        rw [hnl] at hn
        simp only at hn
        cases res with
        | error err => simp only; rw [hn, markAll_record]
        | ok v => simp only; rw [hn, markAll_record]

/-- the execution appends at most one entry, stamped with the clock, later than every earlier entry -/
theorem stepExec_recInv (pw : K → K → K) (cfg : EnvCfg K) (s1 : EnvState K) (act : Action K)
    (h : RecInv s1) (hnow : s1.now ≠ none) : RecInv (stepExec pw cfg s1 act).1 := by
  obtain ⟨t, ht⟩ : ∃ t, s1.now = some t := by
    cases hh : s1.now with
    | none => exact absurd hh hnow
    | some t => exact ⟨t, rfl⟩
  unfold stepExec
  cases hreq : makeRequest cfg.chains s1.contractClock cfg.space act (s1.now.getD 0) with
  | error e => exact h
  | ok reb =>
    simp only
    have hrt : reb.time = t := by
      have := request_time_is_clock _ _ _ _ _ _ hreq
      rw [this, ht]; rfl
    obtain ⟨r1, r2⟩ := rebalance_record pw cfg.world reb s1.broker
    have key : RecInv ({ s1 with broker := (rebalance pw cfg.world reb s1.broker).1 } : EnvState K) := by
      cases hres : (rebalance pw cfg.world reb s1.broker).2 with
      | error e =>
          exact ⟨by simp only; rw [r1 e hres]; exact h.incr, by simp only; rw [r1 e hres]; exact h.bound⟩
      | ok u =>
          obtain ⟨en, he, hent, hnot⟩ := r2 (by rw [hres])
          refine ⟨?_, ?_⟩
          · simp only
            rw [he, List.map_append, List.pairwise_append]
            refine ⟨h.incr, by simp, ?_⟩
            intro a ha b hb
            simp only [List.map_cons, List.map_nil, List.mem_singleton] at hb
            subst hb
            rw [hent, hrt]
            obtain ⟨e0, he0, rfl⟩ := List.mem_map.mp ha
            have hle : e0.time ≤ t := by
              have := h.bound e0 he0
              rw [ht] at this; exact this
            have hne : e0.time ≠ t := by
              intro heq
              apply hnot
              rw [hrt, ← heq]
              exact List.mem_map.mpr ⟨e0, he0, rfl⟩
            exact lt_of_le_of_ne hle hne
          · simp only
            intro e hein
            rw [he] at hein
            rcases List.mem_append.mp hein with hin | hin
            · exact h.bound e hin
            · simp only [List.mem_singleton] at hin
              subst hin
              rw [hent, hrt, ht]; exact le_refl t
    cases hres : rebalance pw cfg.world reb s1.broker with
    | mk b2 res =>
      rw [hres] at key
      simp only at key
      cases res with
      | ok u => exact key
      | error e =>
          cases e <;> first | exact key | exact ⟨key.incr, key.bound⟩

/-- `step` keeps the track record in strictly increasing time order (whatever it returns) -/
theorem envStep_recInv (pw : K → K → K) (lg : K → K) (cfg : EnvCfg K) (s : EnvState K) (a : Action K)
    (h : RecInv s) (hnow : s.now ≠ none) (hm : Mono s) (hp : s.done = false → PendOK cfg s) :
    RecInv (envStep pw lg cfg s a).1 ∧ (envStep pw lg cfg s a).1.now ≠ none := by
  unfold envStep
  split_ifs with hd
  · exact ⟨h, hnow⟩
  · have hd' : s.done = false := by simpa using hd
    have P := hp hd'
    have P0 : PendOK cfg ({ s with contractClock := s.now, queue := (a :: s.queue).dropLast } : EnvState K) :=
      P.of_same rfl rfl rfl rfl rfl
    have hm0 : Mono ({ s with contractClock := s.now, queue := (a :: s.queue).dropLast } : EnvState K) :=
      hm.of_same rfl rfl rfl
    -- stepPre: the latent batch
    have e1 : (stepPre s a).1 =
        processLatent ({ s with contractClock := s.now, queue := (a :: s.queue).dropLast } : EnvState K) := rfl
    obtain ⟨c1, c2⟩ := foldl_notifyEvent_clock s.pendLat
      ({ s with contractClock := s.now, queue := (a :: s.queue).dropLast } : EnvState K)
      (List.pairwise_append.mp P.sorted).1 (fun e he => P.later e (List.mem_append_left _ he))
    obtain ⟨_, fr, _⟩ := stepPre_broker_frame s a
    have h1 : RecInv (stepPre s a).1 := h.of_later fr c1
    have hn1 : (stepPre s a).1.now ≠ none := c2 hnow
    obtain ⟨hm1, P1⟩ := processLatent_mono cfg _ hm0 P0
    rw [← e1] at hm1 P1
    -- stepExec
    have h2 := stepExec_recInv pw cfg (stepPre s a).1 (stepPre s a).2 h1 hn1
    obtain ⟨b, d, hsame⟩ := stepExec_same pw cfg (stepPre s a).1 (stepPre s a).2
    cases hres : stepExec pw cfg (stepPre s a).1 (stepPre s a).2 with
    | mk s2 res =>
      rw [hres] at hsame h2
      simp only at hsame h2
      have hn2 : s2.now ≠ none := by rw [hsame]; exact hn1
      have hm2 : Mono s2 := by rw [hsame]; exact hm1.of_same rfl rfl rfl
      have P2 : PendOK cfg s2 := by rw [hsame]; exact P1.of_same rfl rfl rfl rfl rfl
      cases res with
      | error e => exact ⟨h2, hn2⟩
      | ok tr =>
          simp only
          -- stepFinish: the non-latent batch, the reward valuation, the closing notifications
          obtain ⟨d1, d2⟩ := foldl_notifyEvent_clock s2.pendNon s2
            (List.pairwise_append.mp P2.sorted).2.1 (fun e he => P2.later e (List.mem_append_right _ he))
          obtain ⟨_, gr, _⟩ := foldl_notifyEvent_broker_frame s2.pendNon s2
          have h3 : RecInv (processNonlatent cfg s2) := by
            unfold processNonlatent
            simp only
            split
            · exact ⟨by simp only; rw [gr]; exact h2.incr,
                by simp only; rw [gr]; intro e he; exact stampLE_trans (h2.bound e he) d1⟩
            · exact ⟨by simp only; rw [gr]; exact h2.incr,
                by simp only; rw [gr]; intro e he; exact stampLE_trans (h2.bound e he) d1⟩
          have hn3 : (processNonlatent cfg s2).now ≠ none := by
            unfold processNonlatent
            simp only
            split <;> exact d2 hn2
          unfold stepFinish
          simp only
          have hrec := rewardOf_record lg cfg (processNonlatent cfg s2).broker
          cases hrw : rewardOf lg cfg (processNonlatent cfg s2).broker with
          | mk b4 res2 =>
            rw [hrw] at hrec
            simp only at hrec
            have h4 : RecInv ({ processNonlatent cfg s2 with broker := b4 } : EnvState K) :=
              ⟨by simp only; rw [hrec]; exact h3.incr, by simp only; rw [hrec]; exact h3.bound⟩
            cases res2 with
            | error e => exact ⟨h4, hn3⟩
            | ok r =>
                simp only
                have n5 := notify_frame ({ processNonlatent cfg s2 with broker := b4 } : EnvState K) .step
                  (processNonlatent cfg s2).now none
                have b5 := notify_broker_frame ({ processNonlatent cfg s2 with broker := b4 } : EnvState K) .step
                  (processNonlatent cfg s2).now none
                have h5 : RecInv (notify ({ processNonlatent cfg s2 with broker := b4 } : EnvState K) .step
                    (processNonlatent cfg s2).now none) :=
                  h4.of_later b5.2.1 (by rw [n5.2.2.2.2.2.2.1]; exact stampLE_refl _)
                have hn5 : (notify ({ processNonlatent cfg s2 with broker := b4 } : EnvState K) .step
                    (processNonlatent cfg s2).now none).now ≠ none := by rw [n5.2.2.2.2.2.2.1]; exact hn3
                split_ifs
                · have n6 := notify_frame (notify ({ processNonlatent cfg s2 with broker := b4 } : EnvState K) .step
                    (processNonlatent cfg s2).now none) .done
                    (notify ({ processNonlatent cfg s2 with broker := b4 } : EnvState K) .step
                      (processNonlatent cfg s2).now none).now none
                  have b6 := notify_broker_frame (notify ({ processNonlatent cfg s2 with broker := b4 } : EnvState K) .step
                    (processNonlatent cfg s2).now none) .done
                    (notify ({ processNonlatent cfg s2 with broker := b4 } : EnvState K) .step
                      (processNonlatent cfg s2).now none).now none
                  exact ⟨h5.of_later b6.2.1 (by rw [n6.2.2.2.2.2.2.1]; exact stampLE_refl _),
                    by rw [n6.2.2.2.2.2.2.1]; exact hn5⟩
                · exact ⟨h5, hn5⟩

/-- **The track record is in strictly increasing time order over a whole episode**: after `reset` (which
    leaves an empty record and, events having been delivered, a set clock) and any sequence of `step` calls,
    successful or not, the recorded times increase strictly and none is later than the clock. -/
theorem record_times_increasing (pw : K → K → K) (lg : K → K) (cfg : EnvCfg K) (lo hi : Time) (start : Nat)
    (clk : Option Time) (acts : List (Action K))
    (hrec : (envReset cfg lo hi start clk).broker.record = [])
    (hnow : (envReset cfg lo hi start clk).now ≠ none) :
    ((acts.foldl (fun s a => (envStep pw lg cfg s a).1) (envReset cfg lo hi start clk)).broker.record.map
      (·.time)).Pairwise (· < ·) := by
  have gen : ∀ (acts : List (Action K)) (s : EnvState K), RecInv s → s.now ≠ none → Mono s →
      (s.done = false → PendOK cfg s) → RecInv (acts.foldl (fun s a => (envStep pw lg cfg s a).1) s) := by
    intro acts
    induction acts with
    | nil => intro s h _ _ _; exact h
    | cons a rest ih =>
        intro s h hn hm hp
        simp only [List.foldl_cons]
        obtain ⟨h1, hn1⟩ := envStep_recInv pw lg cfg s a h hn hm hp
        obtain ⟨hm1, hp1⟩ := envStep_mono pw lg cfg s a hm hp
        exact ih _ h1 hn1 hm1 hp1
  obtain ⟨r1, r2⟩ := reset_mono cfg lo hi start clk
  exact (gen acts _ ⟨by rw [hrec]; exact List.Pairwise.nil, by rw [hrec]; intro e he; cases he⟩ hnow r1 r2).incr

/-! #### the two premises hold after every `reset` into a non-empty episode -/

theorem foldl_notifyEvent_now_some (l : List (TEvent (Payload K))) (s : EnvState K)
    (h : s.now ≠ none ∨ l ≠ []) : (l.foldl notifyEvent s).now ≠ none := by
  induction l generalizing s with
  | nil =>
      rcases h with h | h
      · exact h
      · exact absurd rfl h
  | cons e es ih =>
      simp only [List.foldl_cons]
      obtain ⟨m, hm⟩ := notifyEvent_eq s e
      apply ih
      left
      rw [hm, (notify_frame s _ _ m).2.2.2.2.2.2.1]; simp

theorem resetTail_record_now (cfg : EnvCfg K) (s1 : EnvState K) :
    (resetTail cfg s1).broker.record = s1.broker.record ∧
    (s1.pendLat ++ s1.pendNon ≠ [] → (resetTail cfg s1).now ≠ none) := by
  obtain ⟨_, a2, _⟩ := foldl_notifyEvent_broker_frame s1.pendLat s1
  have hl : (processLatent s1).broker.record = s1.broker.record := by unfold processLatent; exact a2
  obtain ⟨_, _, _, _, _, l6, _, _⟩ := processLatent_spec s1
  obtain ⟨_, b2, _⟩ := foldl_notifyEvent_broker_frame (processLatent s1).pendNon (processLatent s1)
  have hn : (processNonlatent cfg (processLatent s1)).broker.record = s1.broker.record := by
    unfold processNonlatent
    simp only
    split <;> (simp only; rw [b2, hl])
  have hnow : s1.pendLat ++ s1.pendNon ≠ [] → (processNonlatent cfg (processLatent s1)).now ≠ none := by
    intro hne
    have h1 : (processLatent s1).now ≠ none ∨ (processLatent s1).pendNon ≠ [] := by
      by_cases hl0 : s1.pendLat = []
      · right; rw [l6]; intro h0; apply hne; rw [hl0, h0]; rfl
      · left
        unfold processLatent
        exact foldl_notifyEvent_now_some s1.pendLat s1 (Or.inr hl0)
    have := foldl_notifyEvent_now_some (processLatent s1).pendNon (processLatent s1) h1
    unfold processNonlatent
    simp only
    split <;> exact this
  unfold resetTail
  simp only
  have n3 := notify_frame (processNonlatent cfg (processLatent s1)) .reset
    (processNonlatent cfg (processLatent s1)).now none
  have b3 := notify_broker_frame (processNonlatent cfg (processLatent s1)) .reset
    (processNonlatent cfg (processLatent s1)).now none
  split_ifs
  · have n4 := notify_frame (notify (processNonlatent cfg (processLatent s1)) .reset
      (processNonlatent cfg (processLatent s1)).now none) .done
      (notify (processNonlatent cfg (processLatent s1)) .reset (processNonlatent cfg (processLatent s1)).now none).now none
    have b4 := notify_broker_frame (notify (processNonlatent cfg (processLatent s1)) .reset
      (processNonlatent cfg (processLatent s1)).now none) .done
      (notify (processNonlatent cfg (processLatent s1)) .reset (processNonlatent cfg (processLatent s1)).now none).now none
    exact ⟨by rw [b4.2.1, b3.2.1, hn], fun hne => by rw [n4.2.2.2.2.2.2.1, n3.2.2.2.2.2.2.1]; exact hnow hne⟩
  · exact ⟨by rw [b3.2.1, hn], fun hne => by rw [n3.2.2.2.2.2.2.1]; exact hnow hne⟩

/-- `reset` leaves an empty track record, and a set clock whenever it delivered anything -/
theorem reset_ready (cfg : EnvCfg K) (lo hi : Time) (start : Nat) (clk : Option Time) (cur : Time)
    (h0 : (cfg.tx.episodeSteps lo hi cfg.episodeLen start)[0]? = some cur)
    (hne : (cfg.tx.firstBatch cur).1 ++ (cfg.tx.firstBatch cur).2 ≠ []) :
    (envReset cfg lo hi start clk).broker.record = [] ∧ (envReset cfg lo hi start clk).now ≠ none := by
  unfold envReset
  simp only [h0]
  have key : ∀ s1 : EnvState K, s1.broker.record = [] → s1.pendLat ++ s1.pendNon ≠ [] →
      (resetTail cfg s1).broker.record = [] ∧ (resetTail cfg s1).now ≠ none := by
    intro s1 hr hp
    obtain ⟨a, b⟩ := resetTail_record_now cfg s1
    exact ⟨a.trans hr, b hp⟩
  exact key _ rfl hne

/-- the first batch of an episode is never empty when the first timestep bears events and the warm-up horizon
    (if any) is not negative -/
theorem firstBatch_nonempty {ρ : Type} (c : TxCfg ρ) (lo hi : Time) (len : Option Nat) (start : Nat) (cur : Time)
    (h0 : (c.episodeSteps lo hi len start)[0]? = some cur)
    (hw : c.markov = true ∨ ∀ wu, c.warmup = some wu → 0 ≤ wu) :
    (c.firstBatch cur).1 ++ (c.firstBatch cur).2 ≠ [] := by
  have hmem : cur ∈ c.episodeSteps lo hi len start := List.mem_of_getElem? h0
  have h1 : (c.episodeSteps lo hi len start).Sublist (c.foldSteps lo hi) := by
    unfold TxCfg.episodeSteps
    cases len with
    | none => exact List.Sublist.refl _
    | some L => exact (List.take_sublist _ _).trans (List.drop_sublist _ _)
  have h2 : cur ∈ c.eventSteps := by
    have := h1.subset hmem
    unfold TxCfg.foldSteps at this
    exact (List.mem_filter.mp this).1
  unfold TxCfg.eventSteps at h2
  obtain ⟨hg, hb⟩ := List.mem_filter.mp h2
  have hbatch : c.latent cur ++ c.nonlatent cur ≠ [] := by
    intro he
    obtain ⟨e1, e2⟩ := List.append_eq_nil_iff.mp he
    rw [e1, e2] at hb
    simp at hb
  unfold TxCfg.firstBatch
  by_cases hm : c.markov = true
  · simp only [hm, if_true]; exact hbatch
  · simp only [hm, Bool.false_eq_true, if_false, List.nil_append]
    have hw' : ∀ wu, c.warmup = some wu → 0 ≤ wu := by
      rcases hw with h | h
      · exact absurd h hm
      · exact h
    intro he
    apply hbatch
    have hin : cur ∈ c.grid.filter (fun g =>
        (match c.warmup with | none => true | some wu => if wu = 0 then true else decide (cur - wu ≤ g)) &&
          decide (g ≤ cur)) := by
      rw [List.mem_filter]
      refine ⟨hg, ?_⟩
      simp only [Bool.and_eq_true, decide_eq_true_eq, le_refl, and_true]
      cases hwu : c.warmup with
      | none => rfl
      | some wu =>
          simp only
          split_ifs
          · rfl
          · have := hw' wu hwu
            simp only [decide_eq_true_eq]
            exact sub_le_self cur this
    have hall := List.flatMap_eq_nil_iff.mp he cur hin
    exact hall

/-- **Strictly increasing record times, unconditionally for real configurations**: any episode whose first
    timestep exists (and whose warm-up horizon, if set, is not negative) -/
theorem record_times_increasing_episode (pw : K → K → K) (lg : K → K) (cfg : EnvCfg K) (lo hi : Time) (start : Nat)
    (clk : Option Time) (acts : List (Action K)) (cur : Time)
    (h0 : (cfg.tx.episodeSteps lo hi cfg.episodeLen start)[0]? = some cur)
    (hw : cfg.tx.markov = true ∨ ∀ wu, cfg.tx.warmup = some wu → 0 ≤ wu) :
    ((acts.foldl (fun s a => (envStep pw lg cfg s a).1) (envReset cfg lo hi start clk)).broker.record.map
      (·.time)).Pairwise (· < ·) := by
  obtain ⟨r1, r2⟩ := reset_ready cfg lo hi start clk cur h0
    (firstBatch_nonempty cfg.tx lo hi cfg.episodeLen start cur h0 hw)
  exact record_times_increasing pw lg cfg lo hi start clk acts r1 r2

end

/-! ### the premises are satisfiable: a concrete episode at `ℚ` -/
section NonVacuity
local instance instTruncQC07 : HasTrunc ℚ := ⟨fun q => ((q.num.tdiv q.den : Int) : ℚ)⟩

def cfgQ : EnvCfg ℚ :=
  { world := { spec := fun _ => { mult := 1, cashReq := 1, mr := 0 }, fixed := 0, prop := 0, markup := 0,
               rateKey := "RATE", eps := 0 }
    deposit := 100
    tx := { timesteps := [0, 10, 20, 30]
            events := [⟨0, .market (.quote "A" 0 (some 10) (some 10))⟩, ⟨10, .market (.quote "A" 10 (some 11) (some 11))⟩,
                       ⟨20, .market (.quote "A" 20 (some 12) (some 12))⟩, ⟨30, .market (.quote "A" 30 (some 13) (some 13))⟩] }
    space := { keys := ["A"], kind := .box 0 1, margin := 0 }
    reward := .pnl }

/-- two executed decisions leave two entries, stamped 0 and 10 (kernel evaluation) … -/
example : ((([Action.vec [some (1/2 : ℚ)], .vec [some (1/4 : ℚ)]]).foldl
    (fun s a => (envStep (fun x _ => x) id cfgQ s a).1) (envReset cfgQ 0 30 0 none)).broker.record.map (·.time)) = [0, 10] := by
  decide +kernel

/-- … and the theorem applies to that episode -/
example : ((([Action.vec [some (1/2 : ℚ)], .vec [some (1/4 : ℚ)]]).foldl
    (fun s a => (envStep (fun x _ => x) id cfgQ s a).1) (envReset cfgQ 0 30 0 none)).broker.record.map (·.time)).Pairwise (· < ·) :=
  record_times_increasing_episode (fun x _ => x) id cfgQ 0 30 0 none _ 0 (by decide +kernel)
    (Or.inr (by intro wu h; cases h))

end NonVacuity

section
end
end TV
