/-
  C07 — track record and rewards are a faithful, replayable account of the episode.
-/
import TradingVerif.Lemmas.EnvStep
import TradingVerif.Props.C01
set_option linter.unusedSectionVars false
set_option linter.unusedVariables false
namespace TV
section
variable {K : Type} [Field K] [LinearOrder K] [IsStrictOrderedRing K] [HasTrunc K]

/-- **One entry per executed decision**: a rebalance that succeeds appends exactly one entry stamped with
    the request's time, which no earlier entry carries; a rebalance that reports an error appends none. -/
theorem one_entry_per_executed_decision (pw : K → K → K) (w : World K) (r : Rebal K) (b : Broker K) :
    (∀ e, (rebalance pw w r b).2 = .error e → (rebalance pw w r b).1.record = b.record) ∧
    ((rebalance pw w r b).2 = .ok () →
      ∃ en : Entry K, (rebalance pw w r b).1.record = b.record ++ [en] ∧ en.time = r.time ∧
        r.time ∉ b.record.map (·.time)) :=
  rebalance_record pw w r b

/-- the timestamps of the record stay pairwise distinct -/
theorem record_times_nodup (pw : K → K → K) (w : World K) (r : Rebal K) (b : Broker K)
    (h : (b.record.map (·.time)).Nodup) : ((rebalance pw w r b).1.record.map (·.time)).Nodup := by
  obtain ⟨h1, h2⟩ := rebalance_record pw w r b
  cases hres : (rebalance pw w r b).2 with
  | error e => rw [h1 e hres]; exact h
  | ok u =>
      obtain ⟨en, he, ht, hn⟩ := h2 (by rw [hres])
      rw [he, List.map_append, List.nodup_append]
      refine ⟨h, by simp, ?_⟩
      intro a ha b' hb'
      simp only [List.map_cons, List.map_nil, List.mem_singleton] at hb'
      subst hb'
      rw [ht]
      intro e; exact hn (e ▸ ha)

/-- the environment stamps the request with its clock: the time of the latest event processed before the
    execution (`stepPre` has delivered the latent batch; `notify_frame` sets the clock to the event's time) -/
theorem request_time_is_clock (chains : List (Key × Chain)) (clock : Option Time) (sp : Space K) (a : Action K)
    (now : Time) (reb : Rebal K) (h : makeRequest chains clock sp a now = .ok reb) : reb.time = now := by
  unfold makeRequest at h
  split_ifs at h
  split at h
  · cases h
  · simp only [Except.ok.injEq] at h; rw [← h]

/-- **What the entry reports is what the account had**: in the entry of a successful rebalance,
    `interest` is the amount just credited, `nlvPre` the value of the pre-trade valuation, `trades` the
    trades computed from that snapshot — all executed, in order — and `nlvPost` the valuation of the
    resulting state; the recorded post-trade holdings are the actual positions. -/
theorem entry_is_actual (pw : K → K → K) (w : World K) (r : Rebal K) (b : Broker K)
    (h : (rebalance pw w r b).2 = .ok ()) :
    ∃ b1 i b2 n ts b4 m,
      accrue pw w r.time true b = (b1, .ok i) ∧ netLiq w true b1 = (b2, .ok n) ∧
      makeTrades w b2 n r = .ok ts ∧ netLiq w true (ts.foldl (transact w) b2) = (b4, .ok m) ∧
      (rebalance pw w r b).1.record = b.record ++
        [{ time := r.time, interest := i, nlvPre := n, nlvPost := m, trades := ts,
           target := cleanAlloc w r.target, posPost := b4.held.map (fun k => (k, b4.pos k)), cashPost := b4.cash }] ∧
      (rebalance pw w r b).1.pos = b4.pos ∧ (rebalance pw w r b).1.cash = b4.cash := by
  obtain ⟨_, f2, _, _⟩ := accrue_frame pw w r.time true b
  unfold rebalance at h ⊢
  cases ha : accrue pw w r.time true b with
  | mk b1 res1 =>
    rw [ha] at h f2
    cases res1 with
    | error e => simp at h
    | ok i =>
      simp only at h f2 ⊢
      cases hn : netLiq w true b1 with
      | mk b2 res2 =>
        rw [hn] at h
        cases res2 with
        | error e => simp at h
        | ok n =>
          simp only at h ⊢
          have hb2 : b2.record = b.record := by
            have := netLiq_fst w true b1
            rw [hn] at this; simp only at this
            rw [this, markAll_record]; exact f2
          cases hm : makeTrades w b2 n r with
          | error e => rw [hm] at h; simp at h
          | ok ts =>
            rw [hm] at h
            simp only at h ⊢
            unfold rebalanceExec at h ⊢
            cases hx : netLiq w true (ts.foldl (transact w) b2) with
            | mk b4 res4 =>
              rw [hx] at h
              cases res4 with
              | error e => simp at h
              | ok m =>
                simp only at h ⊢
                have hfold : ∀ (l : List (Trade K)) (c : Broker K), (l.foldl (transact w) c).record = c.record := by
                  intro l
                  induction l with
                  | nil => intro c; rfl
                  | cons t ts ih =>
                      intro c
                      simp only [List.foldl_cons]
                      rw [ih, transact_eq, (mark1_ghost _ _ _).2.2.2.2.1]
                      simp only [transactCore]
                      exact (mark1_ghost _ _ _).2.2.2.2.1
                have hb4 : b4.record = b.record := by
                  have := netLiq_fst w true (ts.foldl (transact w) b2)
                  rw [hx] at this; simp only at this
                  rw [this, markAll_record, hfold, hb2]
                split_ifs at h ⊢ with hdup
                exact ⟨b1, i, b2, n, ts, b4, m, rfl, hn, hm, hx, by simp only; rw [hb4], rfl, rfl⟩

/-- with C01's identity: the recorded pre-trade NLV is the ledger's closed form at that moment -/
theorem checkpoint_nlv_eq_ledger (w : World K) (D : K) (b1 : Broker K) (b2 : Broker K) (n : K)
    (hinv : Inv w D b1) (hw : ∀ k, WFSpec (w.spec k)) (hq : ∀ k ∈ b1.held, Quoted b1 k)
    (hn : netLiq w true b1 = (b2, .ok n)) : n = nlvFormula w D b1 := by
  have hid := netLiq_identity w D b1 hinv hw hq
  unfold netLiq at hn
  simp only [hid] at hn
  split_ifs at hn
  · simp only [Prod.mk.injEq] at hn
    exact absurd hn.2 (by simp)
  · simp only [Prod.mk.injEq, Except.ok.injEq] at hn
    rw [← hn.2]; rfl

/-- **Each step's reward is the stated function** of the NLV after the step's market events (`v`) and the
    NLV recorded just before that step's trades (`e.nlvPre` of the last entry): ratio − 1, difference,
    log-ratio, or log-ratio scaled, clipped and risk-adjusted. -/
theorem reward_def (lg : K → K) (cfg : EnvCfg K) (b b' : Broker K) (e : Entry K) (v : K)
    (hl : b.record.getLast? = some e) (hn : netLiq cfg.world true b = (b', .ok v)) :
    (rewardOf lg cfg b).2 = .ok (match cfg.reward with
      | .simple => v / e.nlvPre - 1
      | .pnl => v - e.nlvPre
      | .log => lg (v / e.nlvPre)
      | .logret scale clip ra =>
          let x := clipTo (lg (v / e.nlvPre) / scale) (-clip) clip
          if x < 0 then x * (1 + ra) else x) := by
  unfold rewardOf
  simp only [hl, hn]
  cases cfg.reward <;> rfl

theorem clipTo_range (x lo hi : K) (h : lo ≤ hi) : lo ≤ clipTo x lo hi ∧ clipTo x lo hi ≤ hi := by
  unfold clipTo
  split_ifs with h1 h2
  · exact ⟨le_refl _, h⟩
  · exact ⟨h, le_refl _⟩
  · exact ⟨not_lt.mp h1, not_lt.mp h2⟩

/-- **Simple returns compound to final / initial**: for any positive NLV path `v₀, v₁, …, vₙ`,
    `Π (1 + (v_{k+1}/v_k − 1)) = vₙ / v₀` (telescoping; no bound on the length). -/
theorem simple_returns_compound (v0 : K) (vs : List K) (h0 : v0 ≠ 0) (hpos : ∀ x ∈ vs, x ≠ 0) :
    let rets := (List.zip (v0 :: vs) vs).map (fun p => p.2 / p.1 - 1)
    (rets.map (fun r => 1 + r)).prod = (vs.getLast?.getD v0) / v0 := by
  induction vs generalizing v0 with
  | nil => simp [div_self h0]
  | cons x xs ih =>
      have hx : x ≠ 0 := hpos x (List.mem_cons_self)
      have := ih x hx (fun y hy => hpos y (List.mem_cons_of_mem _ hy))
      simp only [List.zip_cons_cons, List.map_cons, List.prod_cons] at this ⊢
      rw [this]
      have hlast : (x :: xs).getLast?.getD v0 = xs.getLast?.getD x := by
        cases xs with
        | nil => simp
        | cons y ys =>
            rw [List.getLast?_cons_cons]
            cases hl : (y :: ys).getLast? with
            | none => simp at hl
            | some z => rfl
      rw [hlast]
      field_simp
      ring

end
end TV
