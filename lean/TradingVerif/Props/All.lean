import TradingVerif.Props.C01
import TradingVerif.Props.C03
import TradingVerif.Props.C05
import TradingVerif.Props.C06
import TradingVerif.Props.C12
import TradingVerif.Props.C13
import TradingVerif.Props.C14
