import TradingVerif.Props.C14
