import TradingVerif.Props.C01
import TradingVerif.Props.C05
import TradingVerif.Props.C14
