/-
  C11 — futures chains always trade the live lead contract and roll before expiry.
-/
import TradingVerif.Props.C03
import TradingVerif.Props.C12
import TradingVerif.Props.C19
import TradingVerif.Model.Env
set_option linter.unusedSectionVars false
set_option linter.unusedVariables false
namespace TV

/-- `bisect_right` on an ascending list counts the entries that are `≤ now` -/
theorem bisectRight_spec (l : List Time) (hl : l.Pairwise (· ≤ ·)) (now : Time) :
    bisectRight l now = (l.filter (fun t => decide (t ≤ now))).length := by
  induction l with
  | nil => rfl
  | cons t ts ih =>
      have hp := List.pairwise_cons.mp hl
      unfold bisectRight
      by_cases h : now < t
      · have hall : ∀ x ∈ t :: ts, ¬ x ≤ now := by
          intro x hx
          rcases List.mem_cons.mp hx with rfl | hx'
          · exact not_le.mpr h
          · exact not_le.mpr (lt_of_lt_of_le h (hp.1 x hx'))
        have : (t :: ts).filter (fun t => decide (t ≤ now)) = [] :=
          List.filter_eq_nil_iff.mpr (by intro x hx; simpa using hall x hx)
        simp [h, this]
      · have hle : t ≤ now := not_lt.mp h
        simp [h, hle, ih hp.2]

theorem bisectRight_le_length (l : List Time) (now : Time) : bisectRight l now ≤ l.length := by
  induction l with
  | nil => simp [bisectRight]
  | cons t ts ih => unfold bisectRight; split_ifs <;> simp <;> omega

/-- everything before the insertion point is `≤ now`, the entry at it (if any) is `> now` -/
theorem bisectRight_split (l : List Time) (hl : l.Pairwise (· ≤ ·)) (now : Time) :
    (∀ i, i < bisectRight l now → ∀ t, l[i]? = some t → t ≤ now) ∧
    (∀ t, l[bisectRight l now]? = some t → now < t) := by
  induction l with
  | nil => simp [bisectRight]
  | cons t ts ih =>
      have hp := List.pairwise_cons.mp hl
      unfold bisectRight
      by_cases h : now < t
      · simp only [h, if_true]
        exact ⟨fun i hi => absurd hi (Nat.not_lt_zero i), fun x hx => by simp at hx; rw [← hx]; exact h⟩
      · simp only [h, if_false]
        obtain ⟨i1, i2⟩ := ih hp.2
        constructor
        · intro i hi x hx
          cases i with
          | zero => simp at hx; rw [← hx]; exact not_lt.mp h
          | succ j => exact i1 j (by omega) x (by simpa using hx)
        · intro x hx
          exact i2 x (by simpa using hx)

/-- **The lead contract is live**: (month offset 0, last-trading dates ascending) the resolved contract's last
    trading date is strictly later than the current time, and every earlier contract of the chain has
    already stopped trading — the resolved contract is the listed one with the earliest last-trading date
    strictly later than now. -/
theorem lead_live (c : Chain) (hm : c.month = 0) (hs : (c.contracts.map (·.1)).Pairwise (· ≤ ·)) (now : Time)
    (ltd : Time) (k : Key) (h : c.lead now = some (ltd, k)) :
    now < ltd ∧ ∀ i, i < c.leadIdx now → ∀ t, (c.contracts.map (·.1))[i]? = some t → t ≤ now := by
  obtain ⟨h1, h2⟩ := bisectRight_split (c.contracts.map (·.1)) hs now
  unfold Chain.lead at h
  unfold Chain.leadIdx at h ⊢
  rw [hm, Nat.add_zero] at h ⊢
  refine ⟨?_, h1⟩
  apply h2 ltd
  rw [List.getElem?_map, h]
  rfl

/-- **The lead only ever moves forward as time advances** -/
theorem lead_monotone (c : Chain) (hs : (c.contracts.map (·.1)).Pairwise (· ≤ ·)) (now now' : Time)
    (h : now ≤ now') : c.leadIdx now ≤ c.leadIdx now' := by
  unfold Chain.leadIdx
  rw [bisectRight_spec _ hs, bisectRight_spec _ hs]
  apply Nat.add_le_add_right
  apply List.Sublist.length_le
  -- everything ≤ now is ≤ now'
  have : (c.contracts.map (·.1)).filter (fun t => decide (t ≤ now))
      = ((c.contracts.map (·.1)).filter (fun t => decide (t ≤ now'))).filter (fun t => decide (t ≤ now)) := by
    rw [List.filter_filter]
    apply List.filter_congr
    intro t _
    by_cases ht : t ≤ now
    · simp [ht, le_trans ht h]
    · simp [ht]
  rw [this]
  exact List.filter_sublist

/-- the month offset shifts the resolved index by exactly `month` -/
theorem lead_offset (c : Chain) (now : Time) :
    c.leadIdx now = bisectRight (c.contracts.map (·.1)) now + c.month := rfl

/-- **A chain key always addresses its current lead contract**, in the exchange and in allocations -/
theorem chain_key_is_lead (chains : List (Key × Chain)) (clock : Option Time) (name : Key) (c : Chain)
    (h : chains.lookup name = some c) :
    resolveKey chains clock name = (c.lead (clock.getD 0)).map (·.2) := by
  unfold resolveKey
  simp [h]

theorem plain_key_is_itself (chains : List (Key × Chain)) (clock : Option Time) (k : Key)
    (h : chains.lookup k = none) : resolveKey chains clock k = some k := by
  unfold resolveKey
  simp [h]

section
variable {K : Type} [Field K] [LinearOrder K] [IsStrictOrderedRing K] [FloorRing K]

/-- **Rolling**: a contract of the chain that is still held but is no longer the lead is absent from the target
    (the chain key now resolves to the new lead), so the rebalance liquidates its whole position whatever the
    threshold, and after that trade its position is zero. -/
theorem roll_closes_old_lead (w : World K) (b : Broker K) (nlv : K) (r : Rebal K) (alloc : List (Key × K))
    (tgt : List (Key × Option K)) (old : Key) (bidp askp p : K)
    (hheld : old ∈ b.held) (hcash : (w.spec old).isCash = false) (hpos : b.pos old ≠ 0)
    (hout : old ∉ tgt.map (·.1)) (hout' : old ∉ alloc.map (·.1)) (hfrac : r.fractional = true)
    (hb : (b.ex.books old).bid = some bidp) (ha : (b.ex.books old).ask = some askp)
    (hp : (b.ex.books old).acq (sgn (0 - b.pos old)) = some p) :
    (old, some (0 - b.pos old)) ∈ imbalanceOf w b tgt true ∧
    ∃ t, tradeFor w b nlv r alloc old (0 - b.pos old) = .ok (some t) ∧ t.key = old ∧ t.qty = 0 - b.pos old ∧
      ((transact w b t).snapped = false → (transact w b t).pos old = 0) := by
  have hq : (0 : K) - b.pos old ≠ 0 := by intro h; apply hpos; linarith
  refine ⟨untargeted_closed_entry w b tgt old hheld hcash hpos hout, ?_⟩
  have hiff := (trade_emitted_iff w b nlv r alloc old (0 - b.pos old) bidp askp p hb ha hp hcash hq).mpr
  simp only [hfrac, if_true] at hiff
  obtain ⟨t, h1, h2, h3, _⟩ := hiff ⟨hq, fun h => hout' h.2⟩
  refine ⟨t, h1, h3, h2, ?_⟩
  intro hs
  have := transact_reaches w b t hs
  rw [h3] at this
  rw [this, h2]; ring

end

section
variable {K : Type} [Field K] [LinearOrder K] [IsStrictOrderedRing K] [HasTrunc K]

theorem makeRequest_ok (chains : List (Key × Chain)) (clock : Option Time) (sp : Space K) (a : Action K)
    (now : Time) (reb : Rebal K) (h : makeRequest chains clock sp a now = .ok reb) :
    ∃ ks, sp.keys.mapM (resolveKey chains clock) = some ks ∧ reb.target = ks.zip (denote sp a) ∧
      reb.absolute = true ∧ reb.fractional = sp.fractional := by
  unfold makeRequest at h
  split_ifs at h
  cases hm : sp.keys.mapM (resolveKey chains clock) with
  | none => rw [hm] at h; cases h
  | some ks =>
      rw [hm] at h
      simp only [Except.ok.injEq] at h
      subst h
      exact ⟨ks, rfl, rfl, rfl, rfl⟩

/-- **After any executed decision, every non-cash contract the action space did not resolve to is flat** —
    whatever the threshold: with a chain key in the space, every contract of the chain other than the current
    lead has position zero after the rebalance (the old lead has been closed). -/
theorem chain_others_flat (pw : K → K → K) (cfg : EnvCfg K) (s1 : EnvState K) (act : Action K) (D : K)
    (hinv : Inv cfg.world D s1.broker) (ks : List Key)
    (hks : cfg.space.keys.mapM (resolveKey cfg.chains s1.contractClock) = some ks) (hnd : ks.Nodup)
    (hfrac : cfg.space.fractional = true)
    (hok : (stepExec pw cfg s1 act).2 = .ok true)
    (hs : (stepExec pw cfg s1 act).1.broker.snapped = false)
    (k : Key) (hc : (cfg.world.spec k).isCash = false) (hout : k ∉ ks) :
    (stepExec pw cfg s1 act).1.broker.pos k = 0 := by
  unfold stepExec at hok hs ⊢
  cases hreq : makeRequest cfg.chains s1.contractClock cfg.space act (s1.now.getD 0) with
  | error e => rw [hreq] at hok; cases hok
  | ok reb =>
    rw [hreq] at hok hs
    simp only at hok hs ⊢
    obtain ⟨ks', hks', htgt, habs, hfr⟩ := makeRequest_ok _ _ _ _ _ _ hreq
    rw [hks] at hks'
    cases hks'
    have hsub := cleanAlloc_zip_keys cfg.world ks (denote cfg.space act)
    cases hreb : rebalance pw cfg.world reb s1.broker with
    | mk b2 res =>
      rw [hreb] at hok hs
      have hb2 : b2 = (rebalance pw cfg.world reb s1.broker).1 := by rw [hreb]
      cases res with
      | error e => cases e <;> simp at hok
      | ok u =>
          simp only at hs ⊢
          rw [hb2] at hs ⊢
          apply rebalance_closes_untargeted pw cfg.world D reb s1.broker hinv (by rw [hreb]) hs
            (by rw [hfr]; exact hfrac) habs
          · rw [htgt]; exact hnd.sublist hsub
          · exact hc
          · rw [htgt]; intro hin; exact hout (hsub.subset hin)

end

/-- the built-in classes give a non-empty roll window: the last trading date is strictly before the expiry
    (C19), so a step falling in `[last trading date, expiry)` finds the chain already resolved to the next
    contract -/
theorem roll_window_nonempty (c : Cal.Cls) (y m : Int) (hy : 1970 ≤ y ∧ y ≤ 2099) (hm : 1 ≤ m ∧ m ≤ 12) :
    Cal.lastTrading c (Cal.expiry c y m) < Cal.expiry c y m := Cal.ltd_lt_expiry c y m hy hm

end TV
