/-
  C03 — rebalancing reaches the requested target allocation.
-/
import TradingVerif.Lemmas.Reach
import Mathlib.Algebra.Order.Field.Rat
set_option linter.unusedSectionVars false
set_option linter.unusedVariables false
namespace TV
variable {K : Type} [Field K] [LinearOrder K] [IsStrictOrderedRing K] [HasTrunc K]

/-- **Frame**: a trade moves the position of its own contract only (so the order in which the trades
    of a rebalance are executed does not matter for positions). -/
theorem only_traded_contract_moves (w : World K) (b : Broker K) (t : Trade K) (k : Key) (h : k ≠ t.key) :
    (transact w b t).pos k = b.pos k := by
  rw [transact_eq, mark1_pos]
  simp only [transactCore, mark1_pos]
  exact upd_other _ _ _ _ h

/-- a trade adds exactly its quantity to the position (unless the epsilon snap fires, K1) -/
theorem transact_reaches (w : World K) (b : Broker K) (t : Trade K) (hs : (transact w b t).snapped = false) :
    (transact w b t).pos t.key = b.pos t.key + t.qty := by
  rw [(transact_effect w b t hs).1, upd_same]

/-- executing a list of trades on pairwise different contracts: each traded contract ends at
    `pos + qty`, every other contract is untouched -/
theorem foldl_transact_pos (w : World K) (ts : List (Trade K)) (hn : (ts.map (·.key)).Nodup) (b : Broker K)
    (hs : (ts.foldl (transact w) b).snapped = false) (k : Key) :
    (ts.foldl (transact w) b).pos k =
      b.pos k + ((ts.find? (fun t => t.key = k)).map (·.qty)).getD 0 := by
  induction ts generalizing b with
  | nil => simp
  | cons t ts ih =>
      simp only [List.map_cons, List.nodup_cons] at hn
      simp only [List.foldl_cons] at hs ⊢
      have hs1 := foldl_transact_snapped_mono w ts _ hs
      rw [ih hn.2 (transact w b t) hs]
      by_cases hk : t.key = k
      · subst hk
        have hnot : ts.find? (fun u => u.key = t.key) = none := by
          rw [List.find?_eq_none]
          intro u hu hu'
          exact hn.1 (List.mem_map.mpr ⟨u, hu, by simpa using hu'⟩)
        simp only [hnot, List.find?_cons, decide_true, Option.map_some, Option.map_none, Option.getD_some,
          Option.getD_none, add_zero]
        exact transact_reaches w b t hs1
      · have hk' : k ≠ t.key := fun e => hk e.symm
        simp only [List.find?_cons, hk, decide_false]
        rw [only_traded_contract_moves w b t k hk']

/-! ### what `make_trades` asks for -/

/-- with no threshold and fractional quantities, the trade built for an imbalance `q ≠ 0` of a
    two-sided, non-cash book is exactly `q`, at the book's quotes -/
theorem tradeFor_exact (w : World K) (b : Broker K) (nlv : K) (r : Rebal K) (alloc : List (Key × K))
    (k : Key) (q bidp askp : K) (hf : r.fractional = true) (hm : r.margin = 0)
    (hb : (b.ex.books k).bid = some bidp) (ha : (b.ex.books k).ask = some askp)
    (hc : (w.spec k).isCash = false) (hq : q ≠ 0) :
    tradeFor w b nlv r alloc k q = .ok (some ⟨k, q, bidp, askp⟩) := by
  unfold tradeFor
  have hlt : ∀ x : K, ¬ absv x < 0 := fun x => not_lt.mpr (absv_nonneg x)
  simp only [hf, if_true, Bool.not_true, Bool.false_and, Bool.false_eq_true, if_false, hm, hb, ha]
  simp only [mkTrade, hq, hc, Bool.false_eq_true, if_false]
  cases hacq : (b.ex.books k).acq (sgn q) <;> simp [hlt, Except.map]

/-- a held, non-cash contract that is absent from the target appears in the imbalance with minus its
    whole position: it is closed -/
theorem untargeted_closed_entry (w : World K) (b : Broker K) (tgt : List (Key × Option K)) (k : Key)
    (hk : k ∈ b.held) (hc : (w.spec k).isCash = false) (h0 : b.pos k ≠ 0) (hout : k ∉ tgt.map (·.1)) :
    (k, some (0 - b.pos k)) ∈ imbalanceOf w b tgt true := by
  unfold imbalanceOf
  simp only [Bool.not_true, Bool.false_eq_true, if_false]
  rw [List.mem_filter]
  refine ⟨List.mem_append_right _ ?_, ?_⟩
  · rw [List.mem_map]
    refine ⟨k, ?_, rfl⟩
    rw [List.mem_filter]
    refine ⟨?_, ?_⟩
    · rw [List.mem_filter]
      exact ⟨hk, by simp [hc, h0]⟩
    · simpa using hout
  · simp only [ne_eq, Option.some.injEq, decide_eq_true_eq]
    intro h; apply h0; linarith

/-- a targeted contract appears in the imbalance with `target − position` (or not at all when that is 0) -/
theorem targeted_entry (w : World K) (b : Broker K) (tgt : List (Key × Option K)) (k : Key) (q : K)
    (hin : (k, some q) ∈ tgt) (hc : (w.spec k).isCash = false) (hfresh : k ∉ b.held → b.pos k = 0) :
    (k, some (q - b.pos k)) ∈ imbalanceOf w b tgt true ∨ q - b.pos k = 0 := by
  by_cases hz : q - b.pos k = 0
  · exact Or.inr hz
  · left
    unfold imbalanceOf
    simp only [Bool.not_true, Bool.false_eq_true, if_false]
    rw [List.mem_filter]
    refine ⟨List.mem_append_left _ ?_, by simpa using hz⟩
    rw [List.mem_map]
    refine ⟨(k, some q), hin, ?_⟩
    simp only [Option.map_some, Prod.mk.injEq, Option.some.injEq, true_and]
    split_ifs with hh
    · rfl
    · -- not held with a non-zero position: the position is zero
      have : b.pos k = 0 := by
        by_contra h0
        apply hh
        rw [List.mem_filter]
        refine ⟨?_, by simp [hc, h0]⟩
        by_contra hnh
        exact h0 (hfresh hnh)
      rw [this]; ring

/-- **Weights reach the target**: the quantity `_to_nr_contracts` asks for, held as a position, is worth
    exactly `w × NLV` at the execution-side quote. -/
theorem weights_target_value (wt nlv p mult : K) (hp : p ≠ 0) (hm : mult ≠ 0) :
    (wt * nlv / p / mult) * mult * p = wt * nlv := by
  field_simp

/-! ### end to end: what a successful rebalance leaves behind -/

/-- executing the trades `make_trades` built (no threshold, fractional quantities) for the absolute imbalance
    against `tgt`: every targeted non-cash contract ends at its target quantity, every other non-cash
    contract ends flat -/
theorem exec_reaches (w : World K) (b : Broker K) (nlv : K) (r : Rebal K) (alloc : List (Key × K))
    (tgt : List (Key × Option K)) (ts : List (Trade K))
    (hf : r.fractional = true) (hm : r.margin = 0)
    (hfresh : ∀ k, k ∉ b.held → b.pos k = 0) (hnd : b.held.Nodup) (htn : (tgt.map (·.1)).Nodup)
    (hsome : ∀ kv ∈ imbalanceOf w b tgt true, kv.2.isSome = true)
    (h : tradesFor w b nlv r alloc (imbalanceOf w b tgt true) = .ok ts)
    (hs : (ts.foldl (transact w) b).snapped = false) (k : Key) (hc : (w.spec k).isCash = false) :
    (∀ q, (k, some q) ∈ tgt → (ts.foldl (transact w) b).pos k = q) ∧
    (k ∉ tgt.map (·.1) → (ts.foldl (transact w) b).pos k = 0) := by
  obtain ⟨hmap, _⟩ := tradesFor_frac w b nlv r alloc hf hm _ ts h
  have hkeys : ts.map (·.key) = (imbalanceOf w b tgt true).map (·.1) := by
    have := congrArg (List.map Prod.fst) hmap
    simpa [List.map_map, Function.comp_def] using this
  have hn : (ts.map (·.key)).Nodup := by rw [hkeys]; exact imbalanceOf_nodup w b tgt htn hnd
  -- (A) a traded contract moves by its trade, (B) an untraded contract does not move
  have hA : ∀ t ∈ ts, (ts.foldl (transact w) b).pos t.key = b.pos t.key + t.qty := by
    intro t ht
    rw [foldl_transact_pos w ts hn b hs t.key, find_key_of_mem (fun u : Trade K => u.key) ts hn t ht]
    rfl
  have hB : (∀ t ∈ ts, t.key ≠ k) → (ts.foldl (transact w) b).pos k = b.pos k := by
    intro hno
    rw [foldl_transact_pos w ts hn b hs k]
    have : ts.find? (fun t => t.key = k) = none := by
      rw [List.find?_eq_none]; intro t ht; simpa using hno t ht
    rw [this]; simp
  -- membership transfers between the trade list and the imbalance
  have hto : ∀ kv ∈ imbalanceOf w b tgt true, ∃ t ∈ ts, t.key = kv.1 ∧ t.qty = kv.2.getD 0 := by
    intro kv hkv
    have : (kv.1, kv.2.getD 0) ∈ ts.map (fun t => (t.key, t.qty)) := by
      rw [hmap]; exact List.mem_map.mpr ⟨kv, hkv, rfl⟩
    obtain ⟨t, ht, e⟩ := List.mem_map.mp this
    simp only [Prod.mk.injEq] at e
    exact ⟨t, ht, e.1, e.2⟩
  have hfrom : ∀ t ∈ ts, ∃ kv ∈ imbalanceOf w b tgt true, kv.1 = t.key := by
    intro t ht
    have : t.key ∈ (imbalanceOf w b tgt true).map (·.1) := by
      rw [← hkeys]; exact List.mem_map.mpr ⟨t, ht, rfl⟩
    obtain ⟨kv, hkv, e⟩ := List.mem_map.mp this
    exact ⟨kv, hkv, e⟩
  -- a contract outside `heldNZ` that is not cash has a zero position
  have hzero : k ∉ heldNZ w b → b.pos k = 0 := by
    intro hnz
    by_contra h0
    apply hnz
    rw [mem_heldNZ]
    refine ⟨?_, hc, h0⟩
    by_contra hnh
    exact h0 (hfresh k hnh)
  constructor
  · intro q hq
    rcases targeted_entry w b tgt k q hq hc (fun hnh => hfresh k hnh) with hin | hz
    · obtain ⟨t, ht, hk, hqty⟩ := hto _ hin
      simp only [Option.getD_some] at hqty hk
      rw [← hk, hA t ht, hqty, hk]; ring
    · -- already at the target: no trade for this contract
      have hno : ∀ t ∈ ts, t.key ≠ k := by
        intro t ht hk
        obtain ⟨kv, hkv, e⟩ := hfrom t ht
        obtain ⟨hne, hcase⟩ := mem_imbalanceOf w b tgt kv hkv
        have hk1 : kv.1 = k := e.trans hk
        rcases hcase with ⟨v, hv, hval⟩ | ⟨_, hnot, _⟩
        · -- the keys of the target are pairwise different, so `v = some q`
          have hvq : v = some q := by
            rw [hk1] at hv
            by_contra hne'
            exact pair_unique tgt htn k v (some q) hv hq hne'
          apply hne
          rw [hval, hvq, hk1]
          simp only [Option.map_some, Option.some.injEq]
          split_ifs with hh
          · exact hz
          · rw [hzero hh] at hz; linarith
        · exact hnot (by rw [hk1]; exact List.mem_map.mpr ⟨(k, some q), hq, rfl⟩)
      rw [hB hno]; linarith
  · intro hout
    by_cases hnz : k ∈ heldNZ w b
    · have hin := untargeted_closed_entry w b tgt k ((mem_heldNZ w b k).mp hnz).1 hc
        ((mem_heldNZ w b k).mp hnz).2.2 hout
      obtain ⟨t, ht, hk, hqty⟩ := hto _ hin
      simp only [Option.getD_some] at hqty hk
      rw [← hk, hA t ht, hqty, hk]; ring
    · have hno : ∀ t ∈ ts, t.key ≠ k := by
        intro t ht hk
        obtain ⟨kv, hkv, e⟩ := hfrom t ht
        obtain ⟨_, hcase⟩ := mem_imbalanceOf w b tgt kv hkv
        have hk1 : kv.1 = k := e.trans hk
        rcases hcase with ⟨v, hv, _⟩ | ⟨hin, _, _⟩
        · exact hout (by rw [← hk1]; exact List.mem_map.mpr ⟨(kv.1, v), hv, rfl⟩)
        · exact hnz (by rw [← hk1]; exact hin)
      rw [hB hno, hzero hnz]

/-- **Whatever the threshold**, executing the trades `make_trades` built (fractional quantities) closes every
    non-cash contract that is not part of the target: liquidations are never filtered -/
theorem exec_closes_untargeted (w : World K) (b : Broker K) (nlv : K) (r : Rebal K) (alloc : List (Key × K))
    (tgt : List (Key × Option K)) (ts : List (Trade K)) (hf : r.fractional = true)
    (hfresh : ∀ k, k ∉ b.held → b.pos k = 0) (hnd : b.held.Nodup) (htn : (tgt.map (·.1)).Nodup)
    (h : tradesFor w b nlv r alloc (imbalanceOf w b tgt true) = .ok ts)
    (hs : (ts.foldl (transact w) b).snapped = false) (k : Key) (hc : (w.spec k).isCash = false)
    (hout : k ∉ tgt.map (·.1)) (hout' : k ∉ alloc.map (·.1)) :
    (ts.foldl (transact w) b).pos k = 0 := by
  have hmap := tradesFor_frac_any w b nlv r alloc hf _ ts h
  have hkeys : ts.map (·.key) =
      ((imbalanceOf w b tgt true).filter fun kv => !skipped w b nlv r alloc kv).map (·.1) := by
    have := congrArg (List.map Prod.fst) hmap
    simpa [List.map_map, Function.comp_def] using this
  have hn : (ts.map (·.key)).Nodup := by
    rw [hkeys]
    exact (imbalanceOf_nodup w b tgt htn hnd).sublist (List.filter_sublist.map _)
  by_cases hnz : k ∈ heldNZ w b
  · have hin := untargeted_closed_entry w b tgt k ((mem_heldNZ w b k).mp hnz).1 hc
      ((mem_heldNZ w b k).mp hnz).2.2 hout
    have hkeep : (k, some (0 - b.pos k)) ∈
        (imbalanceOf w b tgt true).filter fun kv => !skipped w b nlv r alloc kv := by
      rw [List.mem_filter]
      refine ⟨hin, ?_⟩
      have hc0 : (alloc.map (·.1)).contains k = false := by simpa using hout'
      have hsk : skipped w b nlv r alloc (k, some (0 - b.pos k)) = false := by
        unfold skipped
        simp only [hc0, Bool.and_false]
      simp only [hsk, Bool.not_false]
    have : (k, (some (0 - b.pos k) : Option K).getD 0) ∈ ts.map (fun t => (t.key, t.qty)) := by
      rw [hmap]; exact List.mem_map.mpr ⟨_, hkeep, rfl⟩
    obtain ⟨t, ht, e⟩ := List.mem_map.mp this
    simp only [Prod.mk.injEq, Option.getD_some] at e
    rw [foldl_transact_pos w ts hn b hs k]
    have hfind := find_key_of_mem (fun u : Trade K => u.key) ts hn t ht
    simp only [e.1] at hfind
    rw [hfind]
    simp only [Option.map_some, Option.getD_some, e.2]
    ring
  · have hzero : b.pos k = 0 := by
      by_contra h0
      apply hnz
      rw [mem_heldNZ]
      refine ⟨?_, hc, h0⟩
      by_contra hnh
      exact h0 (hfresh k hnh)
    rw [foldl_transact_pos w ts hn b hs k]
    have : ts.find? (fun t => t.key = k) = none := by
      rw [List.find?_eq_none]
      intro t ht hk
      have hk' : t.key = k := by simpa using hk
      have : t.key ∈ ((imbalanceOf w b tgt true).filter fun kv => !skipped w b nlv r alloc kv).map (·.1) := by
        rw [← hkeys]; exact List.mem_map.mpr ⟨t, ht, rfl⟩
      obtain ⟨kv, hkv, e⟩ := List.mem_map.mp this
      have hkv' := (List.mem_filter.mp hkv).1
      obtain ⟨_, hcase⟩ := mem_imbalanceOf w b tgt kv hkv'
      have hk1 : kv.1 = k := e.trans hk'
      rcases hcase with ⟨v, hv, _⟩ | ⟨hin, _, _⟩
      · exact hout (by rw [← hk1]; exact List.mem_map.mpr ⟨(kv.1, v), hv, rfl⟩)
      · exact hnz (by rw [← hk1]; exact hin)
    rw [this, hzero]; simp

/-- a successful rebalance, taken apart: the trades were built on the marked state after the accrual, at the
    NLV that state reports, and the final positions are those after executing them -/
theorem rebalance_ok_decomp (pw : K → K → K) (w : World K) (r : Rebal K) (b : Broker K)
    (hok : (rebalance pw w r b).2 = .ok ()) :
    ∃ nlvPre trades,
      (netLiq w true (accrue pw w r.time true b).1).2 = .ok nlvPre ∧
      makeTrades w (markAll w (accrue pw w r.time true b).1) nlvPre r = .ok trades ∧
      (rebalance pw w r b).1 =
        { markAll w (trades.foldl (transact w) (markAll w (accrue pw w r.time true b).1)) with
          record := (rebalance pw w r b).1.record } := by
  have hn := netLiq_fst w true (accrue pw w r.time true b).1
  unfold rebalance at hok ⊢
  cases hacc : accrue pw w r.time true b with
  | mk b1 res =>
    rw [hacc] at hok hn
    cases res with
    | error e => simp at hok
    | ok interest =>
      simp only at hok hn ⊢
      cases hnl : netLiq w true b1 with
      | mk b2 res2 =>
        rw [hnl] at hok hn
        cases res2 with
        | error e => simp at hok
        | ok nlvPre =>
          simp only at hok hn ⊢
          subst hn
          cases hmt : makeTrades w (markAll w b1) nlvPre r with
          | error e => rw [hmt] at hok; simp at hok
          | ok trades =>
            simp only
            exact ⟨nlvPre, trades, rfl, hmt, rebalanceExec_shape w r interest nlvPre trades _⟩

/-- **A successful rebalance reaches its target** (absolute target, fractional quantities, no threshold, on
    a history that never hit the epsilon snap): every non-cash contract of the cleaned target ends at the
    quantity `make_trades` asked for, and every other non-cash contract ends flat. `tgt` is the target in
    contracts exactly as `make_trades` computes it (for a weight target: weight × pre-trade NLV / execution
    quote / multiplier, at the NLV of the marked state after the accrual). -/
theorem rebalance_reaches (pw : K → K → K) (w : World K) (D : K) (r : Rebal K) (b : Broker K) (hinv : Inv w D b)
    (hok : (rebalance pw w r b).2 = .ok ()) (hs : (rebalance pw w r b).1.snapped = false)
    (hf : r.fractional = true) (hm : r.margin = 0) (ha : r.absolute = true)
    (htn : ((cleanAlloc w r.target).map (·.1)).Nodup) :
    ∃ nlvPre, (netLiq w true (accrue pw w r.time true b).1).2 = .ok nlvPre ∧
      let alloc := cleanAlloc w r.target
      let tgt : List (Key × Option K) :=
        if r.byWeight then toNrContracts w (markAll w (accrue pw w r.time true b).1) nlvPre alloc
        else alloc.map fun kv => (kv.1, some kv.2)
      (∀ kv ∈ tgt, kv.2.isSome = true) ∧
      ∀ k, (w.spec k).isCash = false →
        (∀ q, (k, some q) ∈ tgt → (rebalance pw w r b).1.pos k = q) ∧
        (k ∉ alloc.map (·.1) → (rebalance pw w r b).1.pos k = 0) := by
  obtain ⟨nlvPre, trades, hnl, hmt, hshape⟩ := rebalance_ok_decomp pw w r b hok
  refine ⟨nlvPre, hnl, ?_⟩
  intro alloc tgt
  set b2 := markAll w (accrue pw w r.time true b).1 with hb2
  have hinv2 : Inv w D b2 := markAll_inv w D _ (accrue_inv pw w D r.time true b hinv)
  have hpos : (rebalance pw w r b).1.pos = (trades.foldl (transact w) b2).pos := by
    rw [hshape]; simp only; exact markAll_pos w _
  have hsn : (trades.foldl (transact w) b2).snapped = false := by
    rw [hshape] at hs; simp only at hs; rwa [markAll_snapped] at hs
  have hkeys : tgt.map (·.1) = alloc.map (·.1) := by
    show (if r.byWeight then toNrContracts w b2 nlvPre alloc else alloc.map fun kv => (kv.1, some kv.2)).map (·.1) = _
    split_ifs
    · unfold toNrContracts; rw [List.map_map]; apply List.map_congr_left; intro x _; rfl
    · rw [List.map_map]; apply List.map_congr_left; intro x _; rfl
  -- what `makeTrades` did
  unfold makeTrades at hmt
  simp only [ha] at hmt
  have hmt' : ¬ ((imbalanceOf w b2 tgt true).any (fun kv => kv.2.isNone) = true) ∧
      tradesFor w b2 nlvPre r alloc (imbalanceOf w b2 tgt true) = .ok trades := by
    by_cases hany : (imbalanceOf w b2 tgt true).any (fun kv => kv.2.isNone) = true
    · exfalso
      have : (Except.error Err.unexpectedSign : Except Err (List (Trade K))) = .ok trades := by
        rw [← hmt]; exact (if_pos hany).symm
      cases this
    · refine ⟨hany, ?_⟩
      rw [← hmt]; exact (if_neg hany).symm
  obtain ⟨hany, htf⟩ := hmt'
  have hsome : ∀ kv ∈ imbalanceOf w b2 tgt true, kv.2.isSome = true := by
    intro kv hkv
    cases hv : kv.2 with
    | some v => rfl
    | none =>
        exfalso; apply hany
        rw [List.any_eq_true]
        exact ⟨kv, hkv, by simp [hv]⟩
  constructor
  · -- a missing target quantity (no execution-side quote) would have survived into the imbalance
    intro kv hkv
    cases hv : kv.2 with
    | some v => rfl
    | none =>
        exfalso
        have hin : (kv.1, (none : Option K)) ∈ imbalanceOf w b2 tgt true := by
          rw [imbalanceOf_abs, List.mem_filter]
          refine ⟨List.mem_append_left _ (List.mem_map.mpr ⟨kv, hkv, ?_⟩), by simp⟩
          simp [hv]
        have := hsome _ hin
        simp at this
  · intro k hc
    have hr := exec_reaches w b2 nlvPre r alloc tgt trades hf hm (fun k hk => (hinv2.fresh k hk).1)
      hinv2.nodup (by rw [hkeys]; exact htn) hsome htf hsn k hc
    rw [hpos]
    exact ⟨hr.1, fun hout => hr.2 (by rw [hkeys]; exact hout)⟩

/-- **Target in contracts**: after a successful rebalance towards `{k ↦ q}` the account holds exactly `q` of
    every targeted non-cash contract and nothing of any other -/
theorem rebalance_reaches_contracts (pw : K → K → K) (w : World K) (D : K) (r : Rebal K) (b : Broker K)
    (hinv : Inv w D b) (hok : (rebalance pw w r b).2 = .ok ()) (hs : (rebalance pw w r b).1.snapped = false)
    (hf : r.fractional = true) (hm : r.margin = 0) (ha : r.absolute = true) (hw : r.byWeight = false)
    (htn : ((cleanAlloc w r.target).map (·.1)).Nodup) (k : Key) (hc : (w.spec k).isCash = false) :
    (∀ q, (k, q) ∈ cleanAlloc w r.target → (rebalance pw w r b).1.pos k = q) ∧
    (k ∉ (cleanAlloc w r.target).map (·.1) → (rebalance pw w r b).1.pos k = 0) := by
  obtain ⟨nlvPre, _, h⟩ := rebalance_reaches pw w D r b hinv hok hs hf hm ha htn
  simp only [hw, Bool.false_eq_true, if_false] at h
  obtain ⟨h1, h2⟩ := h.2 k hc
  exact ⟨fun q hq => h1 q (List.mem_map.mpr ⟨(k, q), hq, rfl⟩), h2⟩

/-- **Target in weights**: after a successful rebalance towards `{k ↦ wt}` every targeted non-cash contract
    has an execution-side quote `p` and the position is worth, at that quote, exactly `wt ×` the pre-trade
    NLV (the NLV of the account after the interest accrual); untargeted contracts end flat -/
theorem rebalance_reaches_weights (pw : K → K → K) (w : World K) (D : K) (r : Rebal K) (b : Broker K)
    (hinv : Inv w D b) (hok : (rebalance pw w r b).2 = .ok ()) (hs : (rebalance pw w r b).1.snapped = false)
    (hf : r.fractional = true) (hm : r.margin = 0) (ha : r.absolute = true) (hw : r.byWeight = true)
    (htn : ((cleanAlloc w r.target).map (·.1)).Nodup) (hmult : ∀ k, (w.spec k).mult ≠ 0) :
    ∃ nlvPre, (netLiq w true (accrue pw w r.time true b).1).2 = .ok nlvPre ∧
      ∀ k, (w.spec k).isCash = false →
        (∀ wt, (k, wt) ∈ cleanAlloc w r.target →
          ∃ p, (b.ex.books k).acq (sgn wt) = some p ∧
            (p ≠ 0 → (rebalance pw w r b).1.pos k * (w.spec k).mult * p = wt * nlvPre)) ∧
        (k ∉ (cleanAlloc w r.target).map (·.1) → (rebalance pw w r b).1.pos k = 0) := by
  obtain ⟨nlvPre, hnl, h⟩ := rebalance_reaches pw w D r b hinv hok hs hf hm ha htn
  refine ⟨nlvPre, hnl, ?_⟩
  simp only [hw, if_true] at h
  intro k hc
  obtain ⟨h1, h2⟩ := h.2 k hc
  refine ⟨?_, h2⟩
  intro wt hwt
  have hex : (markAll w (accrue pw w r.time true b).1).ex = b.ex := by
    rw [markAll_ex, (accrue_frame3 pw w r.time true b).2.2]
  have hmem : (k, ((b.ex.books k).acq (sgn wt)).map fun p => wt * nlvPre / p / (w.spec k).mult) ∈
      toNrContracts w (markAll w (accrue pw w r.time true b).1) nlvPre (cleanAlloc w r.target) := by
    unfold toNrContracts
    rw [hex]
    exact List.mem_map.mpr ⟨(k, wt), hwt, rfl⟩
  have hsome := h.1 _ hmem
  cases hp : (b.ex.books k).acq (sgn wt) with
  | none => rw [hp] at hsome; simp at hsome
  | some p =>
      refine ⟨p, rfl, fun hp0 => ?_⟩
      rw [hp] at hmem
      rw [h1 _ hmem]
      exact weights_target_value wt nlvPre p _ hp0 (hmult k)

/-- **A successful rebalance closes everything it does not target, whatever the threshold** (absolute
    target, fractional quantities, history never snapped): every non-cash contract outside the cleaned target
    ends with position zero — in particular every contract of a futures chain other than the one the chain key
    resolved to (C11) -/
theorem rebalance_closes_untargeted (pw : K → K → K) (w : World K) (D : K) (r : Rebal K) (b : Broker K)
    (hinv : Inv w D b) (hok : (rebalance pw w r b).2 = .ok ()) (hs : (rebalance pw w r b).1.snapped = false)
    (hf : r.fractional = true) (ha : r.absolute = true)
    (htn : ((cleanAlloc w r.target).map (·.1)).Nodup) (k : Key) (hc : (w.spec k).isCash = false)
    (hout : k ∉ (cleanAlloc w r.target).map (·.1)) : (rebalance pw w r b).1.pos k = 0 := by
  obtain ⟨nlvPre, trades, hnl, hmt, hshape⟩ := rebalance_ok_decomp pw w r b hok
  set b2 := markAll w (accrue pw w r.time true b).1 with hb2
  have hinv2 : Inv w D b2 := markAll_inv w D _ (accrue_inv pw w D r.time true b hinv)
  have hpos : (rebalance pw w r b).1.pos = (trades.foldl (transact w) b2).pos := by
    rw [hshape]; simp only; exact markAll_pos w _
  have hsn : (trades.foldl (transact w) b2).snapped = false := by
    rw [hshape] at hs; simp only at hs; rwa [markAll_snapped] at hs
  unfold makeTrades at hmt
  simp only [ha] at hmt
  set tgt : List (Key × Option K) :=
    if r.byWeight then toNrContracts w b2 nlvPre (cleanAlloc w r.target)
    else (cleanAlloc w r.target).map fun kv => (kv.1, some kv.2) with htgt
  have hkeys : tgt.map (·.1) = (cleanAlloc w r.target).map (·.1) := by
    rw [htgt]
    split_ifs
    · unfold toNrContracts; rw [List.map_map]; apply List.map_congr_left; intro x _; rfl
    · rw [List.map_map]; apply List.map_congr_left; intro x _; rfl
  have htf : tradesFor w b2 nlvPre r (cleanAlloc w r.target) (imbalanceOf w b2 tgt true) = .ok trades := by
    by_cases hany : (imbalanceOf w b2 tgt true).any (fun kv => kv.2.isNone) = true
    · exfalso
      have : (Except.error Err.unexpectedSign : Except Err (List (Trade K))) = .ok trades := by
        rw [← hmt]; exact (if_pos hany).symm
      cases this
    · rw [← hmt]; exact (if_neg hany).symm
  rw [hpos]
  exact exec_closes_untargeted w b2 nlvPre r (cleanAlloc w r.target) tgt trades hf
    (fun k hk => (hinv2.fresh k hk).1) hinv2.nodup (by rw [hkeys]; exact htn) htf hsn k hc
    (by rw [hkeys]; exact hout) hout

/-! ### the premises are satisfiable: a concrete rebalance at `ℚ` -/
section NonVacuity
local instance instTruncQC03 : HasTrunc ℚ := ⟨fun q => ((q.num.tdiv q.den : Int) : ℚ)⟩
private def wEx : World ℚ :=
  { spec := fun _ => { mult := 1, cashReq := 1, mr := 0 }, fixed := 0, prop := 0, markup := 0, rateKey := "R", eps := 0 }
private def bEx : Broker ℚ :=
  { Broker.init 100 with
    ex := (({} : Exchange ℚ).step (.quote "A" 0 (some 10) (some 10))).step (.quote "R" 0 (some 0) (some 0)) }
private def rEx : Rebal ℚ := { time := 0, byWeight := false, margin := 0, target := [("A", 5)] }

/-- a state and a request that meet every hypothesis of `rebalance_reaches_contracts`, with the conclusion
    evaluated independently by the kernel -/
example : (rebalance (fun _ _ => 1) wEx rEx bEx).1.pos "A" = 5 := by
  have h := rebalance_reaches_contracts (fun _ _ => 1) wEx 100 rEx bEx (inv_ex wEx 100 _ _ (inv_init wEx 100))
    (by decide +kernel) (by decide +kernel) rfl rfl rfl rfl (by decide +kernel) "A" rfl
  exact h.1 5 (by decide +kernel)
example : (rebalance (fun _ _ => 1) wEx rEx bEx).1.pos "A" = 5 := by decide +kernel
end NonVacuity

/-- **Known finding K1** (the excluded point of `transact_reaches`): with the broker's epsilon, a trade that
    leaves a position smaller than epsilon leaves 0 instead — the target is not reached. -/
theorem snap_excluded_point :
    let w : World Int := { spec := fun _ => { mult := 1, cashReq := 1, mr := 0 }, fixed := 0, prop := 0,
                           markup := 0, rateKey := "R", eps := 2 }
    let b0 : Broker Int := { Broker.init 100 with ex := ({} : Exchange Int).step (.quote "A" 0 (some 10) (some 10)) }
    (transact w b0 ⟨"A", 1, 10, 10⟩).pos "A" = 0 ∧ (transact w b0 ⟨"A", 1, 10, 10⟩).snapped = true := by
  decide

end TV
