/-
  C03 — rebalancing reaches the requested target allocation.
-/
import TradingVerif.Lemmas.Valuation
set_option linter.unusedSectionVars false
set_option linter.unusedVariables false
namespace TV
variable {K : Type} [Field K] [LinearOrder K] [IsStrictOrderedRing K] [HasTrunc K]

/-- **Frame**: a trade moves the position of its own contract only (so the order in which the trades
    of a rebalance are executed does not matter for positions). -/
theorem only_traded_contract_moves (w : World K) (b : Broker K) (t : Trade K) (k : Key) (h : k ≠ t.key) :
    (transact w b t).pos k = b.pos k := by
  rw [transact_eq, mark1_pos]
  simp only [transactCore, mark1_pos]
  exact upd_other _ _ _ _ h

/-- a trade adds exactly its quantity to the position (unless the epsilon snap fires, K1) -/
theorem transact_reaches (w : World K) (b : Broker K) (t : Trade K) (hs : (transact w b t).snapped = false) :
    (transact w b t).pos t.key = b.pos t.key + t.qty := by
  rw [(transact_effect w b t hs).1, upd_same]

/-- executing a list of trades on pairwise different contracts: each traded contract ends at
    `pos + qty`, every other contract is untouched -/
theorem foldl_transact_pos (w : World K) (ts : List (Trade K)) (hn : (ts.map (·.key)).Nodup) (b : Broker K)
    (hs : (ts.foldl (transact w) b).snapped = false) (k : Key) :
    (ts.foldl (transact w) b).pos k =
      b.pos k + ((ts.find? (fun t => t.key = k)).map (·.qty)).getD 0 := by
  induction ts generalizing b with
  | nil => simp
  | cons t ts ih =>
      simp only [List.map_cons, List.nodup_cons] at hn
      simp only [List.foldl_cons] at hs ⊢
      have hs1 := foldl_transact_snapped_mono w ts _ hs
      rw [ih hn.2 (transact w b t) hs]
      by_cases hk : t.key = k
      · subst hk
        have hnot : ts.find? (fun u => u.key = t.key) = none := by
          rw [List.find?_eq_none]
          intro u hu hu'
          exact hn.1 (List.mem_map.mpr ⟨u, hu, by simpa using hu'⟩)
        simp only [hnot, List.find?_cons, decide_true, Option.map_some, Option.map_none, Option.getD_some,
          Option.getD_none, add_zero]
        exact transact_reaches w b t hs1
      · have hk' : k ≠ t.key := fun e => hk e.symm
        simp only [List.find?_cons, hk, decide_false]
        rw [only_traded_contract_moves w b t k hk']

/-! ### what `make_trades` asks for -/

/-- with no threshold and fractional quantities, the trade built for an imbalance `q ≠ 0` of a
    two-sided, non-cash book is exactly `q`, at the book's quotes -/
theorem tradeFor_exact (w : World K) (b : Broker K) (nlv : K) (r : Rebal K) (alloc : List (Key × K))
    (k : Key) (q bidp askp : K) (hf : r.fractional = true) (hm : r.margin = 0)
    (hb : (b.ex.books k).bid = some bidp) (ha : (b.ex.books k).ask = some askp)
    (hc : (w.spec k).isCash = false) (hq : q ≠ 0) :
    tradeFor w b nlv r alloc k q = .ok (some ⟨k, q, bidp, askp⟩) := by
  unfold tradeFor
  have hlt : ∀ x : K, ¬ absv x < 0 := fun x => not_lt.mpr (absv_nonneg x)
  simp only [hf, if_true, Bool.not_true, Bool.false_and, Bool.false_eq_true, if_false, hm, hb, ha]
  simp only [mkTrade, hq, hc, Bool.false_eq_true, if_false]
  cases hacq : (b.ex.books k).acq (sgn q) <;> simp [hlt, Except.map]

/-- a held, non-cash contract that is absent from the target appears in the imbalance with minus its
    whole position: it is closed -/
theorem untargeted_closed_entry (w : World K) (b : Broker K) (tgt : List (Key × Option K)) (k : Key)
    (hk : k ∈ b.held) (hc : (w.spec k).isCash = false) (h0 : b.pos k ≠ 0) (hout : k ∉ tgt.map (·.1)) :
    (k, some (0 - b.pos k)) ∈ imbalanceOf w b tgt true := by
  unfold imbalanceOf
  simp only [Bool.not_true, Bool.false_eq_true, if_false]
  rw [List.mem_filter]
  refine ⟨List.mem_append_right _ ?_, ?_⟩
  · rw [List.mem_map]
    refine ⟨k, ?_, rfl⟩
    rw [List.mem_filter]
    refine ⟨?_, ?_⟩
    · rw [List.mem_filter]
      exact ⟨hk, by simp [hc, h0]⟩
    · simpa using hout
  · simp only [ne_eq, Option.some.injEq, decide_eq_true_eq]
    intro h; apply h0; linarith

/-- a targeted contract appears in the imbalance with `target − position` (or not at all when that is 0) -/
theorem targeted_entry (w : World K) (b : Broker K) (tgt : List (Key × Option K)) (k : Key) (q : K)
    (hin : (k, some q) ∈ tgt) (hc : (w.spec k).isCash = false) (hfresh : k ∉ b.held → b.pos k = 0) :
    (k, some (q - b.pos k)) ∈ imbalanceOf w b tgt true ∨ q - b.pos k = 0 := by
  by_cases hz : q - b.pos k = 0
  · exact Or.inr hz
  · left
    unfold imbalanceOf
    simp only [Bool.not_true, Bool.false_eq_true, if_false]
    rw [List.mem_filter]
    refine ⟨List.mem_append_left _ ?_, by simpa using hz⟩
    rw [List.mem_map]
    refine ⟨(k, some q), hin, ?_⟩
    simp only [Option.map_some, Prod.mk.injEq, Option.some.injEq, true_and]
    split_ifs with hh
    · rfl
    · -- not held with a non-zero position: the position is zero
      have : b.pos k = 0 := by
        by_contra h0
        apply hh
        rw [List.mem_filter]
        refine ⟨?_, by simp [hc, h0]⟩
        by_contra hnh
        exact h0 (hfresh hnh)
      rw [this]; ring

/-- **Weights reach the target**: the quantity `_to_nr_contracts` asks for, held as a position, is worth
    exactly `w × NLV` at the execution-side quote. -/
theorem weights_target_value (wt nlv p mult : K) (hp : p ≠ 0) (hm : mult ≠ 0) :
    (wt * nlv / p / mult) * mult * p = wt * nlv := by
  field_simp

/-- **Known finding K1** (the excluded point of `transact_reaches`): with the broker's epsilon, a trade that
    leaves a position smaller than epsilon leaves 0 instead — the target is not reached. -/
theorem snap_excluded_point :
    let w : World Int := { spec := fun _ => { mult := 1, cashReq := 1, mr := 0 }, fixed := 0, prop := 0,
                           markup := 0, rateKey := "R", eps := 2 }
    let b0 : Broker Int := { Broker.init 100 with ex := ({} : Exchange Int).step (.quote "A" 0 (some 10) (some 10)) }
    (transact w b0 ⟨"A", 1, 10, 10⟩).pos "A" = 0 ∧ (transact w b0 ⟨"A", 1, 10, 10⟩).snapped = true := by
  decide

end TV
