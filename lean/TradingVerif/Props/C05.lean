/-
  C05 — margin account invariant and NLV decomposition.
-/
import TradingVerif.Lemmas.Valuation
import TradingVerif.Lemmas.Settled
import TradingVerif.Lemmas.Accounts
set_option linter.unusedSectionVars false
set_option linter.unusedVariables false
set_option linter.unusedSimpArgs false
namespace TV
variable {K : Type} [Field K] [LinearOrder K] [IsStrictOrderedRing K] [HasTrunc K]

/-- **After `marking_to_market()` / a valuation**: in every reachable state, every held margined
    contract with a liquidation quote has `margin = liq · |pos| · mult · mr` and is marked at `liq`. -/
theorem mtm_margin_eq (pw : K → K → K) (w : World K) (D : K) (hw : ∀ k, WFSpec (w.spec k))
    (ops : List (Op K)) (hs : (runOps pw w (Broker.init D) ops).snapped = false)
    (hq : ∀ k ∈ (runOps pw w (Broker.init D) ops).held, Quoted (runOps pw w (Broker.init D) ops) k) :
    ∀ k ∈ (runOps pw w (Broker.init D) ops).held,
      MarkedAt w (markAll w (runOps pw w (Broker.init D) ops)) k :=
  markAll_marks w D _ (runOps_inv pw w D hw ops _ (inv_init w D) hs) hq

/-- the same after marking a single contract -/
theorem mark_one_margin_eq (pw : K → K → K) (w : World K) (D : K) (hw : ∀ k, WFSpec (w.spec k))
    (ops : List (Op K)) (hs : (runOps pw w (Broker.init D) ops).snapped = false) (k : Key)
    (hk : k ∈ (runOps pw w (Broker.init D) ops).held)
    (hq : Quoted (runOps pw w (Broker.init D) ops) k) :
    MarkedAt w (mark1 w k (runOps pw w (Broker.init D) ops)) k := by
  obtain ⟨p, hp⟩ := hq
  exact mark1_marks w k _ p hp ((runOps_inv pw w D hw ops _ (inv_init w D) hs).marked k hk)

/-- **Right after any trade** the traded contract satisfies the margin invariant (quote present). -/
theorem transact_margin_eq (w : World K) (b : Broker K) (t : Trade K)
    (hq : Quoted (transact w b t) t.key) : MarkedAt w (transact w b t) t.key := by
  obtain ⟨p, hp⟩ := hq
  rw [transact_eq] at hp ⊢
  rw [liqPrice_mark1, mark1_pos] at hp
  apply mark1_marks w t.key _ p hp
  simp only [transactCore, upd_same]
  cases (mark1 w t.key b).lastMark t.key <;> simp

/-- the margin posted is never negative, and is zero when flat -/
theorem margin_nonneg (w : World K) (b : Broker K) (k : Key) (hw : WFSpec (w.spec k))
    (hmr : (w.spec k).mr ≠ 0) (hm : MarkedAt w b k)
    (hp : ∀ p, liqPrice b k (b.pos k) = some p → 0 ≤ p) : 0 ≤ b.margin k := by
  obtain ⟨p, h1, _, h3⟩ := hm hmr
  rw [h3]
  have hmr' : 0 ≤ (w.spec k).mr := by
    rcases hw.1 with ⟨_, h⟩ | ⟨_, h, _⟩
    · exact le_of_eq h.symm
    · exact le_of_lt h
  exact mul_nonneg (mul_nonneg (mul_nonneg (hp p h1) (absv_nonneg _)) (le_of_lt hw.2)) hmr'

theorem margin_flat_zero (w : World K) (b : Broker K) (k : Key) (hmr : (w.spec k).mr ≠ 0)
    (hm : MarkedAt w b k) (h0 : b.pos k = 0) : b.margin k = 0 := by
  obtain ⟨p, _, _, h3⟩ := hm hmr
  rw [h3, h0]; simp

/-- **A flat position holds no margin after a mark, whether or not the contract is quoted** (repair F11: the
    settlement of a closing trade is returned to cash even when no liquidation price is available) -/
theorem flat_margin_zero_after_mark (w : World K) (D : K) (k : Key) (b : Broker K) (h : Inv w D b)
    (h0 : b.pos k = 0) : (mark1 w k b).margin k = 0 :=
  mark1_flat_margin w D k b h h0

/-- **At every valuation, after any history, every flat position holds no margin** - held, closed, quoted or
    not: the account-wide mark that `net_liquidation_value` performs returns whatever a closing trade left in
    the margin account to cash. -/
theorem flat_margin_zero_at_valuation (pw : K → K → K) (w : World K) (D : K) (hw : ∀ k, WFSpec (w.spec k))
    (ops : List (Op K)) (hs : (runOps pw w (Broker.init D) ops).snapped = false) (k : Key)
    (h0 : (runOps pw w (Broker.init D) ops).pos k = 0) :
    (netLiq w false (runOps pw w (Broker.init D) ops)).1.margin k = 0 := by
  rw [netLiq_fst]
  exact markAll_flat_margin w D _ (runOps_inv pw w D hw ops _ (inv_init w D) hs) k h0

/-- contracts without a margin requirement hold no margin, in every reachable state -/
theorem spot_margin_zero (pw : K → K → K) (w : World K) (D : K) (hw : ∀ k, WFSpec (w.spec k))
    (ops : List (Op K)) (hs : (runOps pw w (Broker.init D) ops).snapped = false)
    (k : Key) (hk : (w.spec k).mr = 0) : (runOps pw w (Broker.init D) ops).margin k = 0 :=
  (runOps_inv pw w D hw ops _ (inv_init w D) hs).spot0 k hk

/-- the sweep moves money, it never creates it: a mark changes `cash + margin k` by the variation
    margin `pos · mult · (liq − last mark)` only, and touches nothing else -/
theorem sweep_conserves (w : World K) (k : Key) (b : Broker K) (p lp : K) (hmr : (w.spec k).mr ≠ 0)
    (hp : liqPrice b k (b.pos k) = some p) (hl : b.lastMark k = some lp) :
    (mark1 w k b).cash + (mark1 w k b).margin k = b.cash + b.margin k + b.pos k * (w.spec k).mult * (p - lp) := by
  rw [mark1_eq w k b p lp hmr hp hl]
  simp only [upd_same]
  ring

/-- value of one contract in `holdings_values('liquidation')`: its margin plus, for a fully paid
    contract, `mult · pos · liq` -/
theorem valueOf_decomp (w : World K) (D : K) (b : Broker K) (k : Key) (h : Inv w D b)
    (hw : WFSpec (w.spec k)) (hq : Quoted b k) (hm : MarkedAt w b k) :
    valueOf w .liquidation b k =
      .ok (b.margin k + (if (w.spec k).mr = 0 then (w.spec k).mult * b.pos k * liqv b k else 0)) := by
  obtain ⟨p, hp⟩ := hq
  unfold valueOf
  by_cases h0 : b.pos k = 0
  · simp only [h0, if_true]
    rcases hw.1 with ⟨hc, hmr⟩ | ⟨hc, hmr, _⟩
    · simp [h.spot0 k hmr, hmr, liqv, h0]
    · simp [margin_flat_zero w b k (ne_of_gt hmr) hm h0, ne_of_gt hmr]
  · simp only [h0, if_false]
    rw [liq_side b k (b.pos k) h0, hp]
    simp only
    rcases hw.1 with ⟨hc, hmr⟩ | ⟨hc, hmr, _⟩
    · simp only [hc, hmr, if_true, liqv, h0, if_false, hp, Option.getD_some]
      congr 1; ring
    · simp only [hc, ne_of_gt hmr, if_false]
      congr 1; ring

/-- NLV decomposition for any state satisfying the ledger invariant -/
theorem nlv_decomposition_inv (w : World K) (D : K) (hw : ∀ k, WFSpec (w.spec k)) (b0 : Broker K)
    (h0 : Inv w D b0) (hq : ∀ k ∈ b0.held, Quoted b0 k) :
    let b := markAll w b0
    nlvMarked w b = .ok (b.cash + sumL (b.held.map b.margin) +
      sumL (b.held.map fun k => if (w.spec k).mr = 0 then (w.spec k).mult * b.pos k * liqv b k else 0)) := by
  intro b
  have h : Inv w D b := markAll_inv w D _ h0
  have hq' : ∀ k ∈ b.held, Quoted b k := by
    intro k hk; rw [markAll_held] at hk; exact quoted_markAll w _ k (hq k hk)
  have hm' : ∀ k ∈ b.held, MarkedAt w b k := by
    intro k hk; rw [markAll_held] at hk; exact markAll_marks w D _ h0 hq k hk
  unfold nlvMarked valuesOf
  rw [valuesOn_ok w .liquidation b
    (fun k => b.margin k + (if (w.spec k).mr = 0 then (w.spec k).mult * b.pos k * liqv b k else 0)) b.held
    (fun k hk => valueOf_decomp w D b k h (hw k) (hq' k hk) (hm' k hk))]
  simp only [List.map_map]
  have : (fun kv : Key × K => kv.2) ∘ (fun k => (k, b.margin k +
      (if (w.spec k).mr = 0 then (w.spec k).mult * b.pos k * liqv b k else 0)))
      = fun k => b.margin k + (if (w.spec k).mr = 0 then (w.spec k).mult * b.pos k * liqv b k else 0) := by
    funext k; rfl
  rw [this, sumL_map_add]
  congr 1; ring

/-- **NLV decomposition** at a valuation: reported NLV = cash + all posted margins + liquidation
    value of fully-paid positions. -/
theorem nlv_decomposition (pw : K → K → K) (w : World K) (D : K) (hw : ∀ k, WFSpec (w.spec k))
    (ops : List (Op K)) (hs : (runOps pw w (Broker.init D) ops).snapped = false)
    (hq : ∀ k ∈ (runOps pw w (Broker.init D) ops).held, Quoted (runOps pw w (Broker.init D) ops) k) :
    let b := markAll w (runOps pw w (Broker.init D) ops)
    nlvMarked w b = .ok (b.cash + sumL (b.held.map b.margin) +
      sumL (b.held.map fun k => if (w.spec k).mr = 0 then (w.spec k).mult * b.pos k * liqv b k else 0)) :=
  nlv_decomposition_inv w D hw _ (runOps_inv pw w D hw ops _ (inv_init w D) hs) hq

/-- **NLV decomposition when only the open positions are quoted** (flat contracts may have lost their quotes) -/
theorem nlv_decomposition_open (pw : K → K → K) (w : World K) (D : K) (hw : ∀ k, WFSpec (w.spec k))
    (ops : List (Op K)) (hs : (runOps pw w (Broker.init D) ops).snapped = false)
    (hq : OpenQuoted (runOps pw w (Broker.init D) ops)) :
    let b := markAll w (runOps pw w (Broker.init D) ops)
    nlvMarked w b = .ok (b.cash + sumL (b.held.map b.margin) +
      sumL (b.held.map fun k => if (w.spec k).mr = 0 then (w.spec k).mult * b.pos k * liqv b k else 0)) :=
  nlv_decomposition_open_inv w D hw _ (runOps_inv pw w D hw ops _ (inv_init w D) hs) hq

/-- one term of `holdings_values('notional')` -/
theorem notional_def (w : World K) (b : Broker K) (k : Key) (p : K) (h0 : b.pos k ≠ 0)
    (hp : liqPrice b k (b.pos k) = some p) :
    valueOf w .notional b k = .ok (b.pos k * p * (w.spec k).mult) := by
  unfold valueOf
  simp only [h0, if_false]
  rw [liq_side b k (b.pos k) h0, hp]

/-- **Weights**: each reported weight is `position × liquidation price × multiplier / NLV`. -/
theorem weight_def (w : World K) (b : Broker K) (vs : List (Key × K)) (nlv : K)
    (hn : (netLiq w true b).2 = .ok nlv) (hv : valuesOf w .notional (markAll w b) = .ok vs) :
    (weightsOf w b).2 = .ok (vs.map fun kv => (kv.1, kv.2 / nlv)) := by
  have h1 := netLiq_fst w true b
  unfold weightsOf
  split
  · rename_i b' e heq
    rw [heq] at hn; cases hn
  · rename_i b' v heq
    rw [heq] at hn h1
    simp only at hn h1
    cases hn
    rw [h1, hv]

/-! Non-vacuity: a short futures position is marked at the ask with margin mr·mult·|pos|·ask. -/
example :
    let w : World Int := { spec := fun _ => { mult := 50, cashReq := 0, mr := 1 }, fixed := 0, prop := 0,
                           markup := 0, rateKey := "R", eps := 0 }
    let b0 : Broker Int := { Broker.init 100000 with ex := ({} : Exchange Int).step (.quote "ES" 0 (some 99) (some 101)) }
    let b1 := transact w b0 ⟨"ES", -2, 99, 101⟩
    b1.margin "ES" = 101 * 2 * 50 * 1 ∧ b1.lastMark "ES" = some 101 ∧ b1.cash + b1.margin "ES" = 100000 - 200 := by
  decide

end TV
