/-
  Line-protocol helpers shared by the drivers.  Numbers cross the protocol as exact
  `p/q` strings (`float.as_integer_ratio()` on the Python side); `nan` is `none`.
-/
namespace TV.Proto

def parseRat? (s : String) : Option Rat :=
  match s.splitOn "/" with
  | [n] => n.toInt?.map (fun i => (i : Rat))
  | [n, d] => do
      let i ← n.toInt?
      let j ← d.toNat?
      if j = 0 then none else some (mkRat i j)
  | _ => none

/-- `nan` ↦ `some none`; malformed ↦ `none`. -/
def parseORat? (s : String) : Option (Option Rat) :=
  if s = "nan" then some none else (parseRat? s).map some

def showRat (r : Rat) : String :=
  if r.den = 1 then toString r.num else toString r.num ++ "/" ++ toString r.den

def showORat : Option Rat → String
  | none => "nan"
  | some r => showRat r

def showOInt : Option Int → String
  | none => "none"
  | some r => toString r

def words (line : String) : List String :=
  (line.trimAscii.toString.splitOn " ").filter (· ≠ "")

/-- read stdin line by line, thread a state, print one answer per line -/
partial def loop {σ : Type} (h : IO.FS.Stream) (out : IO.FS.Stream) (step : σ → List String → σ × String) (s : σ) : IO Unit := do
  let line ← h.getLine
  if line.isEmpty then
    out.flush
    return ()
  let ws := words line
  if ws.isEmpty then
    loop h out step s
  else
    let (s', o) := step s ws
    out.putStrLn o
    loop h out step s'

def run {σ : Type} (step : σ → List String → σ × String) (init : σ) : IO Unit := do
  loop (← IO.getStdin) (← IO.getStdout) step init

end TV.Proto
