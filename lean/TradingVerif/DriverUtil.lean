/- Helpers shared by the drivers: Float leaves, rendering, parsing. -/
import TradingVerif.Model.Broker
import TradingVerif.Proto
open TV TV.Proto

def ratToFloat (r : Rat) : Float :=
  let n := r.num.natAbs
  let d := r.den
  if n = 0 then 0 else
  let s : Int := 70 - ((n.log2 : Int) - (d.log2 : Int))
  let q : Nat := if s ≥ 0 then (n <<< s.toNat) / d else n / (d <<< (-s).toNat)
  let f := (Float.ofNat q).scaleB (-s)
  if r.num < 0 then -f else f

def floatToRat (x : Float) : Rat :=
  if x == 0 || x.isNaN || x.isInf then 0 else
  let (m, e) := x.abs.frExp
  let mi : Nat := (m.scaleB 53).toUInt64.toNat
  let r : Rat := if e - 53 ≥ 0 then ((mi * 2 ^ (e - 53).toNat : Nat) : Rat) else mkRat mi (2 ^ (53 - e).toNat)
  if x < 0 then -r else r

/-- the `**` leaf, executed in double precision like the implementation -/
def pwFloat (x y : Rat) : Rat := floatToRat (Float.pow (ratToFloat x) (ratToFloat y))

instance : HasTrunc Rat := ⟨fun x => if x < 0 then -((-x).floor : Rat) else (x.floor : Rat)⟩


def lgFloat (x : Rat) : Rat := floatToRat (Float.log (ratToFloat x))
def sqrtFloat (x : Rat) : Rat := floatToRat (Float.sqrt (ratToFloat x))

def showErr : Err → String
  | .endOfEpisode => "err eoe"
  | .episodeOver => "err eoe"
  | _ => "err rejected"

def sortedKV (l : List (Key × Rat)) : List (Key × Rat) :=
  (l.toArray.qsort (fun a b => a.1 < b.1)).toList

def showKV (l : List (Key × Rat)) : String :=
  let l := sortedKV (l.filter (·.2 ≠ 0))
  if l.isEmpty then "-" else String.intercalate "," (l.map fun kv => s!"{kv.1}:{showRat kv.2}")

def parseKV (ws : List String) : Option (List (Key × Rat)) :=
  ws.mapM fun w =>
    match w.splitOn "=" with
    | [k, v] => (parseRat? v).map (fun r => (k, r))
    | _ => none

def parseBool : String → Option Bool
  | "1" => some true
  | "0" => some false
  | _ => none

def showTrades (ts : List (Trade Rat)) : String :=
  let l := (ts.toArray.qsort (fun a b => a.key < b.key)).toList
  if l.isEmpty then "-" else String.intercalate "," (l.map fun t => s!"{t.key}:{showRat t.qty}:{showRat t.acq}")

