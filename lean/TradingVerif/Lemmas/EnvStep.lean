/-
  Broker-side facts about the environment's step: what the batch processors and a rebalance do to
  positions and to the track record (used by C07, C09, C17).
-/
import TradingVerif.Lemmas.EnvLog
import TradingVerif.Lemmas.Valuation
import TradingVerif.Props.C13
set_option linter.unusedSectionVars false
set_option linter.unusedVariables false
namespace TV
section
variable {α : Type} [Add α] [Sub α] [Mul α] [Div α] [Neg α] [LT α] [LE α]
  [DecidableLT α] [DecidableLE α] [DecidableEq α] [OfNat α 0] [OfNat α 1] [OfNat α 2]
  [IntCast α] [HasTrunc α]

/-- delivering events changes the broker only through its exchange -/
theorem notify_broker_frame (s : EnvState α) (k : LogKind) (t : Option Time) (m : Option (MEvent α)) :
    (notify s k t m).broker.pos = s.broker.pos ∧ (notify s k t m).broker.record = s.broker.record ∧
    (notify s k t m).broker.cash = s.broker.cash ∧ (notify s k t m).broker.margin = s.broker.margin ∧
    (notify s k t m).broker.held = s.broker.held := by
  unfold notify
  by_cases h : isNewDate s t = true <;> cases m <;> simp [h, dispatch]

theorem notifyEvent_broker_frame (s : EnvState α) (e : TEvent (Payload α)) :
    (notifyEvent s e).broker.pos = s.broker.pos ∧ (notifyEvent s e).broker.record = s.broker.record ∧
    (notifyEvent s e).broker.cash = s.broker.cash ∧ (notifyEvent s e).broker.margin = s.broker.margin ∧
    (notifyEvent s e).broker.held = s.broker.held := by
  obtain ⟨m, hm⟩ := notifyEvent_eq s e
  rw [hm]; exact notify_broker_frame s _ _ m

theorem foldl_notifyEvent_broker_frame (l : List (TEvent (Payload α))) (s : EnvState α) :
    (l.foldl notifyEvent s).broker.pos = s.broker.pos ∧ (l.foldl notifyEvent s).broker.record = s.broker.record ∧
    (l.foldl notifyEvent s).broker.cash = s.broker.cash ∧ (l.foldl notifyEvent s).broker.margin = s.broker.margin ∧
    (l.foldl notifyEvent s).broker.held = s.broker.held := by
  induction l generalizing s with
  | nil => exact ⟨rfl, rfl, rfl, rfl, rfl⟩
  | cons e es ih =>
      simp only [List.foldl_cons]
      obtain ⟨a1, a2, a3, a4, a5⟩ := ih (notifyEvent s e)
      obtain ⟨b1, b2, b3, b4, b5⟩ := notifyEvent_broker_frame s e
      exact ⟨a1.trans b1, a2.trans b2, a3.trans b3, a4.trans b4, a5.trans b5⟩

/-- the latent batch leaves positions, balances and the track record alone -/
theorem stepPre_broker_frame (s : EnvState α) (a : Action α) :
    (stepPre s a).1.broker.pos = s.broker.pos ∧ (stepPre s a).1.broker.record = s.broker.record ∧
    (stepPre s a).1.broker.cash = s.broker.cash ∧ (stepPre s a).1.broker.margin = s.broker.margin ∧
    (stepPre s a).1.broker.held = s.broker.held := by
  unfold stepPre processLatent
  exact foldl_notifyEvent_broker_frame s.pendLat _

end

section
variable {K : Type} [Field K] [LinearOrder K] [IsStrictOrderedRing K] [HasTrunc K]

/-- a rebalance that reports an error leaves the track record as it was;
    one that succeeds appends exactly one entry, stamped with the request's time -/
theorem rebalance_record (pw : K → K → K) (w : World K) (r : Rebal K) (b : Broker K) :
    (∀ e, (rebalance pw w r b).2 = .error e → (rebalance pw w r b).1.record = b.record) ∧
    ((rebalance pw w r b).2 = .ok () →
      ∃ en : Entry K, (rebalance pw w r b).1.record = b.record ++ [en] ∧ en.time = r.time ∧
        r.time ∉ b.record.map (·.time)) := by
  obtain ⟨f1, f2, f3, _⟩ := accrue_frame pw w r.time true b
  unfold rebalance
  split
  · rename_i b1 e heq
    rw [heq] at f2
    exact ⟨fun _ _ => f2, fun h => by cases h⟩
  · rename_i b1 i heq
    rw [heq] at f2; simp only at f2
    have hn := netLiq_fst w true b1
    split
    · rename_i b2 e heq2
      rw [heq2] at hn; simp only at hn
      exact ⟨fun _ _ => by rw [hn, markAll_record]; exact f2, fun h => by cases h⟩
    · rename_i b2 n heq2
      rw [heq2] at hn; simp only at hn
      have hr2 : b2.record = b.record := by rw [hn, markAll_record]; exact f2
      split
      · exact ⟨fun _ _ => hr2, fun h => by cases h⟩
      · rename_i ts heq3
        -- executing trades and marking never touch the record
        have hfold : ∀ (l : List (Trade K)) (c : Broker K), (l.foldl (transact w) c).record = c.record := by
          intro l
          induction l with
          | nil => intro c; rfl
          | cons t ts ih =>
              intro c
              simp only [List.foldl_cons]
              rw [ih, transact_eq, (mark1_ghost _ _ _).2.2.2.2.1]
              simp only [transactCore]
              exact (mark1_ghost _ _ _).2.2.2.2.1
        have hn4 := netLiq_fst w true (ts.foldl (transact w) b2)
        unfold rebalanceExec
        split
        · rename_i b4 e heq4
          rw [heq4] at hn4; simp only at hn4
          exact ⟨fun _ _ => by rw [hn4, markAll_record, hfold, hr2], fun h => by cases h⟩
        · rename_i b4 nlvPost heq4
          rw [heq4] at hn4; simp only at hn4
          have hr4 : b4.record = b.record := by rw [hn4, markAll_record, hfold, hr2]
          split_ifs with hdup
          · exact ⟨fun _ _ => hr4, fun h => by cases h⟩
          · constructor
            · intro e h; cases h
            · intro _
              refine ⟨_, by simp only; rw [hr4], rfl, ?_⟩
              rw [hr4] at hdup
              simpa using hdup

end
end TV
