/-
  The quote-independent bookkeeping invariant of the broker (induction hypothesis of C01/C05/C07).
-/
import TradingVerif.Lemmas.Basic
set_option linter.unusedSectionVars false
set_option linter.unusedVariables false
namespace TV
variable {K : Type} [Field K] [LinearOrder K] [IsStrictOrderedRing K]

/-- fully paid, no margin -/
def SpotLike (s : Spec K) : Prop := s.cashReq = 1 ∧ s.mr = 0
/-- nothing paid upfront, margin requirement in (0, 1] -/
def Margined (s : Spec K) : Prop := s.cashReq = 0 ∧ 0 < s.mr ∧ s.mr ≤ 1
def WFSpec (s : Spec K) : Prop := (SpotLike s ∨ Margined s) ∧ 0 < s.mult
def WFWorld (w : World K) : Prop := (∀ k, WFSpec (w.spec k)) ∧ 0 ≤ w.fixed ∧ 0 ≤ w.prop

/-- last marking-to-market price, 0 if the contract was never traded -/
def lmv (b : Broker K) (k : Key) : K := (b.lastMark k).getD 0

/-- per-contract ledger term: margin posted, minus the marked value of a margined position,
    plus the cash paid for it so far (multiplier × Σ dq·px) -/
def Lterm (w : World K) (b : Broker K) (k : Key) : K :=
  b.margin k - (if (w.spec k).mr = 0 then 0 else b.pos k * (w.spec k).mult * lmv b k)
    + (w.spec k).mult * b.basis k

def Ledger (w : World K) (b : Broker K) : K := b.cash + sumL (b.held.map (Lterm w b))

structure Inv (w : World K) (D : K) (b : Broker K) : Prop where
  ledger : Ledger w b = D + b.interest - b.comm
  nodup : b.held.Nodup
  fresh : ∀ k, k ∉ b.held → b.pos k = 0 ∧ b.margin k = 0 ∧ b.basis k = 0 ∧ b.lastMark k = none
  marked : ∀ k, k ∈ b.held → b.lastMark k ≠ none
  spot0 : ∀ k, (w.spec k).mr = 0 → b.margin k = 0

theorem inv_init (w : World K) (D : K) : Inv w D (Broker.init D) := by
  refine ⟨?_, List.nodup_nil, ?_, ?_, ?_⟩
  · simp [Ledger, Broker.init]
  · intro k _; simp [Broker.init]
  · intro k hk; simp [Broker.init] at hk
  · intro k _; simp [Broker.init]

/-- the exchange is not part of the ledger -/
theorem inv_ex (w : World K) (D : K) (b : Broker K) (ex : Exchange K) (h : Inv w D b) :
    Inv w D { b with ex := ex } := by
  obtain ⟨h1, h2, h3, h4, h5⟩ := h
  exact ⟨h1, h2, h3, h4, h5⟩

/-! ### mark-to-market -/

/-- what `mark1` does when it does anything -/
theorem mark1_cases (w : World K) (k : Key) (b : Broker K) :
    mark1 w k b = b ∨
    (∃ p lp, (w.spec k).mr ≠ 0 ∧ liqPrice b k (b.pos k) = some p ∧ b.lastMark k = some lp ∧
      mark1 w k b = { b with
        margin := upd b.margin k (p * absv (b.pos k) * (w.spec k).mult * (w.spec k).mr)
        cash := b.cash + (b.margin k + b.pos k * (w.spec k).mult * (p - lp)
                  - p * absv (b.pos k) * (w.spec k).mult * (w.spec k).mr)
        lastMark := upd b.lastMark k (some p) }) ∨
    ((w.spec k).mr ≠ 0 ∧ liqPrice b k (b.pos k) = none ∧ b.pos k = 0 ∧
      mark1 w k b = { b with margin := upd b.margin k 0, cash := b.cash + b.margin k }) := by
  unfold mark1
  by_cases hmr : (w.spec k).mr = 0
  · left; simp [hmr]
  · simp only [hmr, if_false]
    cases hq : liqPrice b k (b.pos k) with
    | none =>
      by_cases h0 : b.pos k = 0
      · right; right
        exact ⟨hmr, rfl, h0, by simp [h0]⟩
      · left; simp [h0]
    | some p =>
      cases hl : b.lastMark k with
      | none => left; rfl
      | some lp =>
        right; left
        refine ⟨p, lp, hmr, rfl, rfl, ?_⟩
        simp only
        congr 1
        · funext k'; simp only [upd]; split_ifs <;> ring

theorem mark1_held (w : World K) (k : Key) (b : Broker K) : (mark1 w k b).held = b.held := by
  rcases mark1_cases w k b with h | ⟨p, lp, _, _, _, h⟩ | ⟨_, _, _, h⟩ <;> rw [h]

theorem mark1_pos (w : World K) (k : Key) (b : Broker K) : (mark1 w k b).pos = b.pos := by
  rcases mark1_cases w k b with h | ⟨p, lp, _, _, _, h⟩ | ⟨_, _, _, h⟩ <;> rw [h]

theorem mark1_ex (w : World K) (k : Key) (b : Broker K) : (mark1 w k b).ex = b.ex := by
  rcases mark1_cases w k b with h | ⟨p, lp, _, _, _, h⟩ | ⟨_, _, _, h⟩ <;> rw [h]

theorem mark1_ghost (w : World K) (k : Key) (b : Broker K) :
    (mark1 w k b).interest = b.interest ∧ (mark1 w k b).comm = b.comm ∧
    (mark1 w k b).basis = b.basis ∧ (mark1 w k b).snapped = b.snapped ∧
    (mark1 w k b).record = b.record ∧ (mark1 w k b).lastAccrual = b.lastAccrual := by
  rcases mark1_cases w k b with h | ⟨p, lp, _, _, _, h⟩ | ⟨_, _, _, h⟩ <;> rw [h] <;> simp

theorem mark1_other (w : World K) (k k' : Key) (b : Broker K) (h : k' ≠ k) :
    (mark1 w k b).margin k' = b.margin k' ∧ (mark1 w k b).lastMark k' = b.lastMark k' := by
  rcases mark1_cases w k b with e | ⟨p, lp, _, _, _, e⟩ | ⟨_, _, _, e⟩ <;> rw [e] <;> simp [h]

theorem mark1_inv (w : World K) (D : K) (k : Key) (b : Broker K) (h : Inv w D b) :
    Inv w D (mark1 w k b) := by
  rcases mark1_cases w k b with e | ⟨p, lp, hmr, hp, hl, e⟩ | ⟨hmr, hq, h0, e⟩
  · rw [e]; exact h
  · have hk : k ∈ b.held := by
      by_contra hn
      have := (h.fresh k hn).2.2.2
      rw [hl] at this; cases this
    rw [e]
    refine ⟨?_, h.nodup, ?_, ?_, ?_⟩
    · -- ledger
      have hs := sumL_off_mem b.held h.nodup (Lterm w b)
        (Lterm w { b with
          margin := upd b.margin k (p * absv (b.pos k) * (w.spec k).mult * (w.spec k).mr)
          cash := b.cash + (b.margin k + b.pos k * (w.spec k).mult * (p - lp)
                  - p * absv (b.pos k) * (w.spec k).mult * (w.spec k).mr)
          lastMark := upd b.lastMark k (some p) }) k hk
        (by intro k' hk'; simp [Lterm, lmv, hk'])
      have hl' := h.ledger
      simp only [Ledger] at hl' ⊢
      rw [hs, ← hl']
      simp only [Lterm, lmv, upd_same, hl, hmr, if_false, Option.getD_some]
      ring
    · intro k' hk'
      have hne : k' ≠ k := fun e => hk' (e ▸ hk)
      have := h.fresh k' hk'
      simpa [hne] using this
    · intro k' hk'
      by_cases hne : k' = k
      · subst hne; simp
      · simpa [hne] using h.marked k' hk'
    · intro k' hk'
      have hne : k' ≠ k := fun e => hmr (e ▸ hk')
      simpa [hne] using h.spot0 k' hk'
  · -- flat and unpriced: the margin account is emptied into cash
    rw [e]
    by_cases hk : k ∈ b.held
    · refine ⟨?_, h.nodup, ?_, ?_, ?_⟩
      · have hs := sumL_off_mem b.held h.nodup (Lterm w b)
          (Lterm w { b with margin := upd b.margin k 0, cash := b.cash + b.margin k }) k hk
          (by intro k' hk'; simp [Lterm, lmv, hk'])
        have hl' := h.ledger
        simp only [Ledger] at hl' ⊢
        rw [hs, ← hl']
        simp only [Lterm, lmv, upd_same, h0]
        ring
      · intro k' hk'
        have hne : k' ≠ k := fun e => hk' (e ▸ hk)
        have := h.fresh k' hk'
        simpa [hne] using this
      · intro k' hk'
        exact h.marked k' hk'
      · intro k' hk'
        by_cases hne : k' = k
        · subst hne; simp
        · simpa [hne] using h.spot0 k' hk'
    · -- never traded: its margin is zero already
      have hm0 : b.margin k = 0 := (h.fresh k hk).2.1
      have heq : ({ b with margin := upd b.margin k 0, cash := b.cash + b.margin k } : Broker K) = b := by
        have hf : upd b.margin k 0 = b.margin := by
          funext k'; simp only [upd]; split_ifs with hh
          · subst hh; exact hm0.symm
          · rfl
        rw [hf, hm0]
        cases b
        simp
      rw [heq]; exact h

theorem foldl_mark1_inv (w : World K) (D : K) (l : List Key) (b : Broker K) (h : Inv w D b) :
    Inv w D (l.foldl (fun b k => mark1 w k b) b) := by
  induction l generalizing b with
  | nil => exact h
  | cons k ks ih => exact ih _ (mark1_inv w D k b h)

theorem markAll_inv (w : World K) (D : K) (b : Broker K) (h : Inv w D b) : Inv w D (markAll w b) :=
  foldl_mark1_inv w D b.held b h

/-! ### transact -/

/-- the state right before the closing `mark1` of `transact` -/
def transactCore (w : World K) (b : Broker K) (t : Trade K) : Broker K :=
  let k := t.key
  let s := w.spec k
  let px := t.acq
  let qNew := b.pos k + t.qty
  let mexp := px * absv qNew * s.mult * s.mr
  let mdiff := mexp - b.margin k
  let fee := t.commission w
  let snap : Bool := decide (absv qNew < w.eps)
  let qFin := if snap then 0 else qNew
  let settle : K := match b.lastMark k with
    | some lp => if s.mr = 0 then 0 else t.qty * s.mult * (lp - px)
    | none => 0
  { b with
    cash := b.cash - fee - t.costCash w - mdiff
    margin := upd b.margin k (b.margin k + mdiff + settle)
    pos := upd b.pos k qFin
    lastMark := upd b.lastMark k (match b.lastMark k with | some lp => some lp | none => some px)
    held := if k ∈ b.held then b.held else b.held ++ [k]
    comm := b.comm + fee
    basis := upd b.basis k (b.basis k + t.qty * px)
    snapped := b.snapped || (snap && decide (qNew ≠ 0)) }

theorem transact_eq (w : World K) (b : Broker K) (t : Trade K) :
    transact w b t = mark1 w t.key (transactCore w (mark1 w t.key b) t) := rfl

theorem transactCore_inv (w : World K) (D : K) (b : Broker K) (t : Trade K) (h : Inv w D b)
    (hw : WFSpec (w.spec t.key)) (hs : (transactCore w b t).snapped = false) :
    Inv w D (transactCore w b t) := by
  set k := t.key with hkdef
  -- no snap fired: the position after the trade is pos + qty
  have hsnap : (if decide (absv (b.pos k + t.qty) < w.eps) = true then (0 : K) else b.pos k + t.qty)
      = b.pos k + t.qty := by
    simp only [transactCore, Bool.or_eq_false_iff, Bool.and_eq_false_iff] at hs
    rcases hs.2 with h1 | h1
    · have h1' : ¬ absv (b.pos k + t.qty) < w.eps := by simpa using h1
      simp [h1']
    · have : b.pos k + t.qty = 0 := by simpa using h1
      simp [this]
  have spot_goal : ∀ k', (w.spec k').mr = 0 → (transactCore w b t).margin k' = 0 := by
    intro k' hk'
    by_cases hne : k' = k
    · rw [hne] at hk' ⊢
      have h0 := h.spot0 k hk'
      simp only [transactCore, ← hkdef, upd_same, hk', if_true, h0]
      cases b.lastMark k <;> simp
    · simpa [transactCore, ← hkdef, hne] using h.spot0 k' hk'
  by_cases hk : k ∈ b.held
  · -- already held: lastMark is some lp
    obtain ⟨lp, hl⟩ := Option.ne_none_iff_exists'.mp (h.marked k hk)
    refine ⟨?_, ?_, ?_, ?_, spot_goal⟩
    · have hsum := sumL_off_mem b.held h.nodup (Lterm w b) (Lterm w (transactCore w b t)) k hk
        (by intro k' hk'; simp [Lterm, lmv, transactCore, ← hkdef, hk'])
      have hl' := h.ledger
      simp only [Ledger] at hl' ⊢
      have hheld : (transactCore w b t).held = b.held := by simp [transactCore, ← hkdef, hk]
      rw [hheld, hsum]
      simp only [transactCore, ← hkdef, Lterm, lmv, upd_same, hl, Option.getD_some, hsnap]
      rw [show b.cash = D + b.interest - b.comm - sumL (b.held.map (Lterm w b)) by rw [← hl']; ring]
      simp only [Lterm, lmv, hl, Option.getD_some, Trade.costCash, Trade.notional, ← hkdef]
      rcases hw.1 with ⟨hc, hm⟩ | ⟨hc, hm, _⟩
      · simp only [hc, hm, if_true]; ring
      · have hm' : (w.spec k).mr ≠ 0 := ne_of_gt hm
        simp only [hc, hm', if_false]; ring
    · simpa [transactCore, ← hkdef, hk] using h.nodup
    · intro k' hk'
      have hk'' : k' ∉ b.held := by simpa [transactCore, ← hkdef, hk] using hk'
      have hne : k' ≠ k := fun e => hk'' (e ▸ hk)
      simpa [transactCore, ← hkdef, hne] using h.fresh k' hk''
    · intro k' hk'
      have hk'' : k' ∈ b.held := by simpa [transactCore, ← hkdef, hk] using hk'
      by_cases hne : k' = k
      · subst hne; simp [transactCore, ← hkdef, hl]
      · simpa [transactCore, ← hkdef, hne] using h.marked k' hk''
  · -- first trade in this contract
    obtain ⟨hp0, hm0, hb0, hl0⟩ := h.fresh k hk
    have hheld : (transactCore w b t).held = b.held ++ [k] := by simp [transactCore, ← hkdef, hk]
    refine ⟨?_, ?_, ?_, ?_, spot_goal⟩
    · have hsum := sumL_off_not_mem b.held (Lterm w b) (Lterm w (transactCore w b t)) k hk
        (by intro k' hk'; simp [Lterm, lmv, transactCore, ← hkdef, hk'])
      have hl' := h.ledger
      simp only [Ledger] at hl' ⊢
      rw [hheld, List.map_append, sumL_append, hsum]
      simp only [List.map_cons, List.map_nil, sumL_cons, sumL_nil, add_zero]
      have hsnap0 := hsnap
      rw [hp0] at hsnap0
      simp only [zero_add] at hsnap0
      simp only [transactCore, ← hkdef, Lterm, lmv, upd_same, hl0, Option.getD_some, hp0, hm0, hb0, zero_add, hsnap0]
      rw [show b.cash = D + b.interest - b.comm - sumL (b.held.map (Lterm w b)) by rw [← hl']; ring]
      simp only [Trade.costCash, Trade.notional, ← hkdef]
      rcases hw.1 with ⟨hc, hm⟩ | ⟨hc, hm, _⟩
      · simp only [hc, hm, if_true]; ring
      · have hm' : (w.spec k).mr ≠ 0 := ne_of_gt hm
        simp only [hc, hm', if_false]; ring
    · rw [hheld]
      exact List.nodup_append.mpr ⟨h.nodup, by simp, by
        intro a ha b' hb'; simp at hb'; subst hb'; exact fun e => hk (e ▸ ha)⟩
    · intro k' hk'
      rw [hheld] at hk'
      have hk1 : k' ∉ b.held := fun e => hk' (List.mem_append_left _ e)
      have hne : k' ≠ k := fun e => hk' (by simp [e])
      simpa [transactCore, ← hkdef, hne] using h.fresh k' hk1
    · intro k' hk'
      rw [hheld] at hk'
      by_cases hne : k' = k
      · subst hne; simp [transactCore, ← hkdef, hl0]
      · have : k' ∈ b.held := by simpa [hne] using hk'
        simpa [transactCore, ← hkdef, hne] using h.marked k' this

theorem transact_snapped (w : World K) (b : Broker K) (t : Trade K) :
    (transact w b t).snapped = (transactCore w (mark1 w t.key b) t).snapped := by
  rw [transact_eq]; exact (mark1_ghost _ _ _).2.2.2.1

theorem snapped_mono_core (w : World K) (b : Broker K) (t : Trade K)
    (h : (transactCore w b t).snapped = false) : b.snapped = false := by
  simp only [transactCore, Bool.or_eq_false_iff] at h; exact h.1

theorem transact_snapped_mono (w : World K) (b : Broker K) (t : Trade K)
    (h : (transact w b t).snapped = false) : b.snapped = false := by
  rw [transact_snapped] at h
  have := snapped_mono_core w _ t h
  rwa [(mark1_ghost _ _ _).2.2.2.1] at this

/-- one trade preserves the bookkeeping invariant (any execution price, any size, either sign) -/
theorem transact_inv (w : World K) (D : K) (b : Broker K) (t : Trade K) (h : Inv w D b)
    (hw : WFSpec (w.spec t.key)) (hs : (transact w b t).snapped = false) :
    Inv w D (transact w b t) := by
  rw [transact_eq]
  apply mark1_inv
  apply transactCore_inv _ _ _ _ (mark1_inv w D t.key b h) hw
  rw [← transact_snapped]; exact hs

/-! ### operations that do not touch the contract books -/

theorem inv_of_same (w : World K) (D : K) (b b' : Broker K) (h : Inv w D b)
    (hp : b'.pos = b.pos) (hm : b'.margin = b.margin) (hl : b'.lastMark = b.lastMark)
    (hh : b'.held = b.held) (hb : b'.basis = b.basis)
    (hc : b'.cash - b'.interest + b'.comm = b.cash - b.interest + b.comm) : Inv w D b' := by
  have hL : Lterm w b' = Lterm w b := by
    funext k; simp only [Lterm, lmv, hp, hm, hl, hb]
  refine ⟨?_, hh ▸ h.nodup, ?_, ?_, ?_⟩
  · have := h.ledger
    simp only [Ledger, hh, hL] at this ⊢
    linarith
  · intro k hk; rw [hh] at hk; rw [hp, hm, hl, hb]; exact h.fresh k hk
  · intro k hk; rw [hh] at hk; rw [hl]; exact h.marked k hk
  · intro k hk; rw [hm]; exact h.spot0 k hk

/-! ### the snap flag is monotone (no invariant needed) -/

theorem foldl_transact_snapped_mono (w : World K) (ts : List (Trade K)) (b : Broker K)
    (hs : (ts.foldl (transact w) b).snapped = false) : b.snapped = false := by
  induction ts generalizing b with
  | nil => exact hs
  | cons t ts ih => exact transact_snapped_mono w b t (ih _ hs)

theorem foldl_mark1_snapped (w : World K) (l : List Key) (b : Broker K) :
    (l.foldl (fun b k => mark1 w k b) b).snapped = b.snapped := by
  induction l generalizing b with
  | nil => rfl
  | cons k ks ih => simp only [List.foldl_cons]; rw [ih]; exact (mark1_ghost w k b).2.2.2.1

theorem markAll_snapped (w : World K) (b : Broker K) : (markAll w b).snapped = b.snapped :=
  foldl_mark1_snapped w b.held b

theorem netLiq_fst (w : World K) (r : Bool) (b : Broker K) : (netLiq w r b).1 = markAll w b := by
  unfold netLiq
  simp only
  split
  · rfl
  · split <;> rfl

theorem weightsOf_fst (w : World K) (b : Broker K) : (weightsOf w b).1 = markAll w b := by
  unfold weightsOf
  have := netLiq_fst w true b
  split
  · rename_i b' e heq; rw [heq] at this; exact this
  · rename_i b' v heq
    rw [heq] at this
    split <;> exact this

theorem accrue_snapped (pw : K → K → K) (w : World K) (t : Time) (a : Bool) (b : Broker K) :
    (accrue pw w t a b).1.snapped = b.snapped := by
  unfold accrue
  simp only
  split_ifs <;> first | rfl | (split <;> rfl)

theorem accrue_inv (pw : K → K → K) (w : World K) (D : K) (t : Time) (a : Bool) (b : Broker K)
    (h : Inv w D b) : Inv w D (accrue pw w t a b).1 := by
  unfold accrue
  simp only
  split_ifs <;>
    first
    | exact inv_of_same w D b _ h rfl rfl rfl rfl rfl rfl
    | (split <;>
        first
        | exact inv_of_same w D b _ h rfl rfl rfl rfl rfl rfl
        | exact inv_of_same w D b _ h rfl rfl rfl rfl rfl (by simp only; ring))

variable [HasTrunc K]

theorem rebalanceExec_shape (w : World K) (r : Rebal K) (i n : K) (ts : List (Trade K)) (b2 : Broker K) :
    (rebalanceExec w r i n ts b2).1 =
      { markAll w (ts.foldl (transact w) b2) with record := (rebalanceExec w r i n ts b2).1.record } := by
  have hn4 := netLiq_fst w true (ts.foldl (transact w) b2)
  unfold rebalanceExec
  split
  · rename_i b4 e heq4
    rw [heq4] at hn4; simp only at hn4 ⊢
    rw [← hn4]
  · rename_i b4 nlvPost heq4
    rw [heq4] at hn4; simp only at hn4
    split
    · simp only; rw [← hn4]
    · simp only; rw [← hn4]

/-- shape of the state a rebalance leaves behind -/
theorem rebalance_shape (pw : K → K → K) (w : World K) (r : Rebal K) (b : Broker K) :
    (rebalance pw w r b).1 = (accrue pw w r.time true b).1 ∨
    (rebalance pw w r b).1 = markAll w (accrue pw w r.time true b).1 ∨
    ∃ ts : List (Trade K),
      (rebalance pw w r b).1 =
        { markAll w (ts.foldl (transact w) (markAll w (accrue pw w r.time true b).1)) with
          record := (rebalance pw w r b).1.record } := by
  unfold rebalance
  split
  · rename_i b1' e heq
    left; rw [heq]
  · rename_i b1' interest heq
    rw [heq]; simp only
    have hn := netLiq_fst w true b1'
    split
    · rename_i b2 e heq2
      rw [heq2] at hn
      right; left; exact hn
    · rename_i b2 nlvPre heq2
      rw [heq2] at hn; simp only at hn
      split
      · right; left; exact hn
      · rename_i trades heq3
        right; right
        refine ⟨trades, ?_⟩
        rw [← hn]
        exact rebalanceExec_shape w r interest nlvPre trades b2

theorem rebalance_snapped_mono (pw : K → K → K) (w : World K) (r : Rebal K) (b : Broker K)
    (hs : (rebalance pw w r b).1.snapped = false) : b.snapped = false := by
  have hb1 := accrue_snapped pw w r.time true b
  rcases rebalance_shape pw w r b with e | e | ⟨ts, e⟩
  · rw [e] at hs; rw [← hb1]; exact hs
  · rw [e, markAll_snapped] at hs; rw [← hb1]; exact hs
  · rw [e] at hs
    simp only at hs
    rw [markAll_snapped] at hs
    have := foldl_transact_snapped_mono w ts _ hs
    rw [markAll_snapped] at this
    rw [← hb1]; exact this

theorem foldl_transact_inv (w : World K) (D : K) (hw : ∀ k, WFSpec (w.spec k)) (ts : List (Trade K))
    (b : Broker K) (h : Inv w D b) (hs : (ts.foldl (transact w) b).snapped = false) :
    Inv w D (ts.foldl (transact w) b) := by
  induction ts generalizing b with
  | nil => exact h
  | cons t ts ih =>
      simp only [List.foldl_cons] at hs ⊢
      have hmono := foldl_transact_snapped_mono w ts _ hs
      exact ih _ (transact_inv w D b t h (hw t.key) hmono) hs

theorem rebalance_inv (pw : K → K → K) (w : World K) (D : K) (hw : ∀ k, WFSpec (w.spec k))
    (r : Rebal K) (b : Broker K) (h : Inv w D b) (hs : (rebalance pw w r b).1.snapped = false) :
    Inv w D (rebalance pw w r b).1 := by
  have ha := accrue_inv pw w D r.time true b h
  rcases rebalance_shape pw w r b with e | e | ⟨ts, e⟩
  · rw [e]; exact ha
  · rw [e]; exact markAll_inv w D _ ha
  · rw [e] at hs ⊢
    simp only at hs
    rw [markAll_snapped] at hs
    have h3 := foldl_transact_inv w D hw ts _ (markAll_inv w D _ ha) hs
    exact inv_of_same w D _ _ (markAll_inv w D _ h3) rfl rfl rfl rfl rfl rfl

/-! what each operation leaves behind, as a state -/
theorem stepOp_fst (pw : K → K → K) (w : World K) (b : Broker K) (op : Op K) :
    (stepOp pw w b op).1 = match op with
      | .ev e => { b with ex := b.ex.step e }
      | .trade k q bid ask =>
          (match mkTrade w k q bid ask with | .error _ => b | .ok t => transact w b t)
      | .tradeq k q =>
          (match mkTrade w k q (b.ex.books k).bid (b.ex.books k).ask with
           | .error _ => b | .ok t => transact w b t)
      | .mark k => mark1 w k b
      | .markAll => markAll w b
      | .nlv _ => markAll w b
      | .values _ => b
      | .weights => markAll w b
      | .accrue t a => (accrue pw w t a b).1
      | .rebal r => (rebalance pw w r b).1 := by
  cases op with
  | ev e => rfl
  | trade k q bid ask => simp only [stepOp]; split <;> rename_i heq <;> simp only [heq]
  | tradeq k q => simp only [stepOp]; split <;> rename_i heq <;> simp only [heq]
  | mark k => rfl
  | markAll => rfl
  | nlv r =>
      have hn := netLiq_fst w r b
      simp only [stepOp]
      split <;> rename_i b' _ heq <;> rw [heq] at hn <;> exact hn
  | values kind => simp only [stepOp]; split <;> rfl
  | weights =>
      have hn := weightsOf_fst w b
      simp only [stepOp]
      split <;> rename_i b' _ heq <;> rw [heq] at hn <;> exact hn
  | accrue t a =>
      simp only [stepOp]
      split <;> rename_i b' _ heq <;> rw [heq]
  | rebal r =>
      simp only [stepOp]
      split <;> rename_i b' _ heq <;> rw [heq]

theorem stepOp_snapped_mono (pw : K → K → K) (w : World K) (b : Broker K) (op : Op K)
    (hs : (stepOp pw w b op).1.snapped = false) : b.snapped = false := by
  rw [stepOp_fst] at hs
  cases op with
  | ev e => exact hs
  | trade k q bid ask =>
      simp only at hs
      split at hs
      · exact hs
      · exact transact_snapped_mono w b _ hs
  | tradeq k q =>
      simp only at hs
      split at hs
      · exact hs
      · exact transact_snapped_mono w b _ hs
  | mark k => rw [← (mark1_ghost w k b).2.2.2.1]; exact hs
  | markAll => rw [← markAll_snapped w b]; exact hs
  | nlv r => rw [← markAll_snapped w b]; exact hs
  | values kind => exact hs
  | weights => rw [← markAll_snapped w b]; exact hs
  | accrue t a => rw [← accrue_snapped pw w t a b]; exact hs
  | rebal r => exact rebalance_snapped_mono pw w r b hs

/-- every operation of a history preserves the bookkeeping invariant -/
theorem stepOp_inv (pw : K → K → K) (w : World K) (D : K) (hw : ∀ k, WFSpec (w.spec k))
    (b : Broker K) (op : Op K) (h : Inv w D b) (hs : (stepOp pw w b op).1.snapped = false) :
    Inv w D (stepOp pw w b op).1 := by
  rw [stepOp_fst] at hs ⊢
  cases op with
  | ev e => exact inv_ex w D b _ h
  | trade k q bid ask =>
      simp only at hs ⊢
      cases hm : mkTrade w k q bid ask with
      | error e => simp only [hm]; exact h
      | ok t => simp only [hm] at hs ⊢; exact transact_inv w D b t h (hw _) hs
  | tradeq k q =>
      simp only at hs ⊢
      cases hm : mkTrade w k q (b.ex.books k).bid (b.ex.books k).ask with
      | error e => simp only [hm]; exact h
      | ok t => simp only [hm] at hs ⊢; exact transact_inv w D b t h (hw _) hs
  | mark k => exact mark1_inv w D k b h
  | markAll => exact markAll_inv w D b h
  | nlv r => exact markAll_inv w D b h
  | values kind => exact h
  | weights => exact markAll_inv w D b h
  | accrue t a => exact accrue_inv pw w D t a b h
  | rebal r => exact rebalance_inv pw w D hw r b h hs

theorem runOps_snapped_mono (pw : K → K → K) (w : World K) (ops : List (Op K)) (b : Broker K)
    (hs : (runOps pw w b ops).snapped = false) : b.snapped = false := by
  induction ops generalizing b with
  | nil => exact hs
  | cons op ops ih => exact stepOp_snapped_mono pw w b op (ih _ hs)

theorem runOps_inv (pw : K → K → K) (w : World K) (D : K) (hw : ∀ k, WFSpec (w.spec k))
    (ops : List (Op K)) (b : Broker K) (h : Inv w D b)
    (hs : (runOps pw w b ops).snapped = false) : Inv w D (runOps pw w b ops) := by
  induction ops generalizing b with
  | nil => exact h
  | cons op ops ih =>
      have h1s := runOps_snapped_mono pw w ops _ hs
      exact ih _ (stepOp_inv pw w D hw b op h h1s) hs

end TV
