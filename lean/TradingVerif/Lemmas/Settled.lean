/-
  Settled states: what an account-wide mark leaves behind when only the *open* positions are quoted.
  An open margined position sits at its liquidation quote; a flat one holds no margin whether or not
  its contract is quoted (repair F11).  The NLV identity and decomposition under that weaker hypothesis.
-/
import TradingVerif.Lemmas.Valuation
set_option linter.unusedSectionVars false
set_option linter.unusedVariables false
set_option linter.unusedSimpArgs false
namespace TV
variable {K : Type} [Field K] [LinearOrder K] [IsStrictOrderedRing K]

/-- every open position has a liquidation quote (flat ones need none) -/
def OpenQuoted (b : Broker K) : Prop := ∀ k ∈ b.held, b.pos k ≠ 0 → Quoted b k

/-- a flat position holds no margin right after its own mark, quoted or not -/
theorem mark1_flat_margin (w : World K) (D : K) (k : Key) (b : Broker K) (h : Inv w D b)
    (h0 : b.pos k = 0) : (mark1 w k b).margin k = 0 := by
  by_cases hmr : (w.spec k).mr = 0
  · have : mark1 w k b = b := by unfold mark1; simp [hmr]
    rw [this]; exact h.spot0 k hmr
  · rcases mark1_cases w k b with e | ⟨p, lp, _, _, _, e⟩ | ⟨_, _, _, e⟩
    · rw [e]
      unfold mark1 at e
      simp only [hmr, if_false] at e
      by_cases hk : k ∈ b.held
      · cases hq : liqPrice b k (b.pos k) with
        | none =>
            rw [hq] at e
            simp only [h0, if_true] at e
            have := congrArg (fun x => x.margin k) e
            simp only [upd_same] at this
            exact this.symm
        | some p =>
            cases hl : b.lastMark k with
            | none => exact absurd hl (h.marked k hk)
            | some lp =>
                rw [hq, hl] at e
                have := congrArg (fun x => x.margin k) e
                simp only [upd_same, h0] at this
                rw [← this]; simp [absv]
      · exact (h.fresh k hk).2.1
    · rw [e]; simp only [upd_same, h0]; simp [absv]
    · rw [e]; simp only [upd_same]

theorem foldl_mark1_margin_notin (w : World K) (l : List Key) (k' : Key) (b : Broker K) (hk : k' ∉ l) :
    (l.foldl (fun b k => mark1 w k b) b).margin k' = b.margin k' := by
  induction l generalizing b with
  | nil => rfl
  | cons k ks ih =>
      simp only [List.foldl_cons]
      have hne : k' ≠ k := fun e => hk (by simp [e])
      rw [ih _ (fun e => hk (List.mem_cons_of_mem _ e)), (mark1_other w k k' b hne).1]

theorem foldl_mark1_pos (w : World K) (l : List Key) (b : Broker K) :
    (l.foldl (fun b k => mark1 w k b) b).pos = b.pos := by
  induction l generalizing b with
  | nil => rfl
  | cons k ks ih => simp only [List.foldl_cons]; rw [ih, mark1_pos]

/-- after marking a list that contains `k'`, a flat `k'` holds no margin -/
theorem foldl_mark1_flat_margin (w : World K) (D : K) (l : List Key) (b : Broker K) (h : Inv w D b)
    (k' : Key) (hk' : k' ∈ l) (h0 : b.pos k' = 0) :
    (l.foldl (fun b k => mark1 w k b) b).margin k' = 0 := by
  induction l generalizing b with
  | nil => cases hk'
  | cons k ks ih =>
      simp only [List.foldl_cons]
      by_cases hin : k' ∈ ks
      · exact ih _ (mark1_inv w D k b h) hin (by rw [mark1_pos]; exact h0)
      · have hkk : k' = k := by
          rcases List.mem_cons.mp hk' with e | e
          · exact e
          · exact absurd e hin
        subst hkk
        rw [foldl_mark1_margin_notin w ks k' _ hin]
        exact mark1_flat_margin w D k' b h h0

/-- **after an account-wide mark every flat position holds no margin** -/
theorem markAll_flat_margin (w : World K) (D : K) (b : Broker K) (h : Inv w D b) (k : Key)
    (h0 : b.pos k = 0) : (markAll w b).margin k = 0 := by
  by_cases hk : k ∈ b.held
  · exact foldl_mark1_flat_margin w D b.held b h k hk h0
  · unfold markAll
    rw [foldl_mark1_margin_notin w b.held k b hk]
    exact (h.fresh k hk).2.1

/-- marking a list that contains a quoted, already traded `k'` puts it at its quote; nothing is asked of the
    other contracts -/
theorem foldl_mark1_marks_one (w : World K) (l : List Key) (hl : l.Nodup) (b : Broker K) (k' : Key)
    (hk' : k' ∈ l) (hq : Quoted b k') (hm : b.lastMark k' ≠ none) :
    MarkedAt w (l.foldl (fun b k => mark1 w k b) b) k' := by
  induction l generalizing b with
  | nil => cases hk'
  | cons k ks ih =>
      simp only [List.foldl_cons]
      have hk_notin : k ∉ ks := (List.nodup_cons.mp hl).1
      have hks : ks.Nodup := (List.nodup_cons.mp hl).2
      rcases List.mem_cons.mp hk' with e | hin
      · subst e
        obtain ⟨p, hp⟩ := hq
        exact foldl_mark1_keeps w ks k' _ hk_notin (mark1_marks w k' b p hp hm)
      · exact ih hks (mark1 w k b) hin (quoted_mark1 w k k' b hq) (lastMark_mark1_ne_none w k k' b hm)

theorem markAll_marks_one (w : World K) (D : K) (b : Broker K) (h : Inv w D b) (k : Key) (hk : k ∈ b.held)
    (hq : Quoted b k) : MarkedAt w (markAll w b) k :=
  foldl_mark1_marks_one w b.held h.nodup b k hk hq (h.marked k hk)

/-- value of one held contract on a state where the open positions are quoted and marked and the flat ones
    hold no margin -/
theorem value_settled (w : World K) (D : K) (b : Broker K) (k : Key) (h : Inv w D b)
    (hw : WFSpec (w.spec k)) (hq : b.pos k ≠ 0 → Quoted b k) (hm : b.pos k ≠ 0 → MarkedAt w b k)
    (hf : b.pos k = 0 → b.margin k = 0) :
    valueOf w .liquidation b k =
      .ok (Lterm w b k + (w.spec k).mult * (b.pos k * liqv b k - b.basis k)) := by
  by_cases h0 : b.pos k = 0
  · unfold valueOf
    simp only [h0, if_true]
    have hm0 := hf h0
    simp only [Lterm, liqv, h0, hm0, if_true]
    congr 1
    split_ifs <;> ring
  · exact value_marked w D b k h hw (hq h0) (hm h0)

theorem valueOf_decomp_settled (w : World K) (D : K) (b : Broker K) (k : Key) (h : Inv w D b)
    (hw : WFSpec (w.spec k)) (hq : b.pos k ≠ 0 → Quoted b k) (hm : b.pos k ≠ 0 → MarkedAt w b k)
    (hf : b.pos k = 0 → b.margin k = 0) :
    valueOf w .liquidation b k =
      .ok (b.margin k + (if (w.spec k).mr = 0 then (w.spec k).mult * b.pos k * liqv b k else 0)) := by
  by_cases h0 : b.pos k = 0
  · unfold valueOf
    simp only [h0, if_true, hf h0]
    congr 1
    split_ifs <;> ring
  · obtain ⟨p, hp⟩ := hq h0
    unfold valueOf
    simp only [h0, if_false]
    rw [liq_side b k (b.pos k) h0, hp]
    simp only
    rcases hw.1 with ⟨hc, hmr⟩ | ⟨hc, hmr, _⟩
    · simp only [hc, hmr, if_true, liqv, h0, if_false, hp, Option.getD_some]
      congr 1; ring
    · simp only [hc, ne_of_gt hmr, if_false]
      congr 1; ring

/-- the NLV identity on a settled state -/
theorem nlvMarked_identity_settled (w : World K) (D : K) (b : Broker K) (h : Inv w D b)
    (hw : ∀ k, WFSpec (w.spec k)) (hq : OpenQuoted b)
    (hm : ∀ k ∈ b.held, b.pos k ≠ 0 → MarkedAt w b k)
    (hf : ∀ k ∈ b.held, b.pos k = 0 → b.margin k = 0) :
    nlvMarked w b = .ok (D + b.interest - b.comm +
      sumL (b.held.map fun k => (w.spec k).mult * (b.pos k * liqv b k - b.basis k))) := by
  unfold nlvMarked valuesOf
  rw [valuesOn_ok w .liquidation b
    (fun k => Lterm w b k + (w.spec k).mult * (b.pos k * liqv b k - b.basis k)) b.held
    (fun k hk => value_settled w D b k h (hw k) (hq k hk) (hm k hk) (hf k hk))]
  simp only [List.map_map]
  have : (fun kv : Key × K => kv.2) ∘ (fun k => (k, Lterm w b k + (w.spec k).mult * (b.pos k * liqv b k - b.basis k)))
      = fun k => Lterm w b k + (w.spec k).mult * (b.pos k * liqv b k - b.basis k) := by
    funext k; rfl
  rw [this, sumL_map_add]
  have hl := h.ledger
  simp only [Ledger] at hl
  congr 1
  linarith

theorem openQuoted_markAll (w : World K) (b : Broker K) (h : OpenQuoted b) : OpenQuoted (markAll w b) := by
  intro k hk h0
  rw [markAll_held] at hk
  rw [markAll_pos] at h0
  exact quoted_markAll w b k (h k hk h0)

/-- **the NLV computed by `net_liquidation_value` when only the open positions are quoted** -/
theorem netLiq_identity_open (w : World K) (D : K) (b : Broker K) (h : Inv w D b)
    (hw : ∀ k, WFSpec (w.spec k)) (hq : OpenQuoted b) :
    nlvMarked w (markAll w b) = .ok (D + b.interest - b.comm +
      sumL (b.held.map fun k => (w.spec k).mult * (b.pos k * liqv b k - b.basis k))) := by
  have h' := markAll_inv w D b h
  have hm' : ∀ k ∈ (markAll w b).held, (markAll w b).pos k ≠ 0 → MarkedAt w (markAll w b) k := by
    intro k hk h0
    rw [markAll_held] at hk
    rw [markAll_pos] at h0
    exact markAll_marks_one w D b h k hk (hq k hk h0)
  have hf' : ∀ k ∈ (markAll w b).held, (markAll w b).pos k = 0 → (markAll w b).margin k = 0 := by
    intro k _ h0
    rw [markAll_pos] at h0
    exact markAll_flat_margin w D b h k h0
  rw [nlvMarked_identity_settled w D (markAll w b) h' hw (openQuoted_markAll w b hq) hm' hf']
  obtain ⟨g1, g2, g3⟩ := markAll_ghost w b
  simp only [markAll_held, markAll_pos, g1, g2, g3, liqv_markAll]

/-- the decomposition (cash + margins + fully-paid values) under the same weaker hypothesis -/
theorem nlv_decomposition_open_inv (w : World K) (D : K) (hw : ∀ k, WFSpec (w.spec k)) (b0 : Broker K)
    (h0 : Inv w D b0) (hq : OpenQuoted b0) :
    let b := markAll w b0
    nlvMarked w b = .ok (b.cash + sumL (b.held.map b.margin) +
      sumL (b.held.map fun k => if (w.spec k).mr = 0 then (w.spec k).mult * b.pos k * liqv b k else 0)) := by
  intro b
  have h : Inv w D b := markAll_inv w D _ h0
  have hq' : OpenQuoted b := openQuoted_markAll w b0 hq
  have hm' : ∀ k ∈ b.held, b.pos k ≠ 0 → MarkedAt w b k := by
    intro k hk hp
    rw [markAll_held] at hk
    rw [markAll_pos] at hp
    exact markAll_marks_one w D b0 h0 k hk (hq k hk hp)
  have hf' : ∀ k ∈ b.held, b.pos k = 0 → b.margin k = 0 := by
    intro k _ hp
    rw [markAll_pos] at hp
    exact markAll_flat_margin w D b0 h0 k hp
  unfold nlvMarked valuesOf
  rw [valuesOn_ok w .liquidation b
    (fun k => b.margin k + (if (w.spec k).mr = 0 then (w.spec k).mult * b.pos k * liqv b k else 0)) b.held
    (fun k hk => valueOf_decomp_settled w D b k h (hw k) (hq' k hk) (hm' k hk) (hf' k hk))]
  simp only [List.map_map]
  have : (fun kv : Key × K => kv.2) ∘ (fun k => (k, b.margin k +
      (if (w.spec k).mr = 0 then (w.spec k).mult * b.pos k * liqv b k else 0)))
      = fun k => b.margin k + (if (w.spec k).mr = 0 then (w.spec k).mult * b.pos k * liqv b k else 0) := by
    funext k; rfl
  rw [this, sumL_map_add]
  congr 1; ring

end TV
