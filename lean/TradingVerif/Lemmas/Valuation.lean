/-
  Marked states, the margin invariant and the NLV identity (C01, C05).
-/
import TradingVerif.Lemmas.Ledger
set_option linter.unusedSectionVars false
set_option linter.unusedVariables false
set_option linter.unusedSimpArgs false
namespace TV
variable {K : Type} [Field K] [LinearOrder K] [IsStrictOrderedRing K]

/-- after a mark, a margined contract sits exactly at its liquidation quote -/
def MarkedAt (w : World K) (b : Broker K) (k : Key) : Prop :=
  (w.spec k).mr ≠ 0 → ∃ p, liqPrice b k (b.pos k) = some p ∧ b.lastMark k = some p ∧
    b.margin k = p * absv (b.pos k) * (w.spec k).mult * (w.spec k).mr

theorem mark1_eq (w : World K) (k : Key) (b : Broker K) (p lp : K) (hmr : (w.spec k).mr ≠ 0)
    (hp : liqPrice b k (b.pos k) = some p) (hl : b.lastMark k = some lp) :
    mark1 w k b = { b with
        margin := upd b.margin k (p * absv (b.pos k) * (w.spec k).mult * (w.spec k).mr)
        cash := b.cash + (b.margin k + b.pos k * (w.spec k).mult * (p - lp)
                  - p * absv (b.pos k) * (w.spec k).mult * (w.spec k).mr)
        lastMark := upd b.lastMark k (some p) } := by
  unfold mark1
  simp only [hmr, if_false, hp, hl]
  congr 1
  funext k'; simp only [upd]; split_ifs <;> ring

theorem liqPrice_mark1 (w : World K) (k k' : Key) (b : Broker K) (q : K) :
    liqPrice (mark1 w k b) k' q = liqPrice b k' q := by
  simp only [liqPrice, mark1_ex]

/-- marking `k` puts `k` at its quote (when it has a quote and has been traded) -/
theorem mark1_marks (w : World K) (k : Key) (b : Broker K) (p : K)
    (hp : liqPrice b k (b.pos k) = some p) (hl : b.lastMark k ≠ none) : MarkedAt w (mark1 w k b) k := by
  intro hmr
  obtain ⟨lp, hl⟩ := Option.ne_none_iff_exists'.mp hl
  refine ⟨p, ?_, ?_, ?_⟩
  · rw [liqPrice_mark1, mark1_pos]; exact hp
  · rw [mark1_eq w k b p lp hmr hp hl]; simp
  · rw [mark1_eq w k b p lp hmr hp hl]; simp

/-- marking another contract does not disturb `k'` -/
theorem mark1_keeps (w : World K) (k k' : Key) (b : Broker K) (hne : k' ≠ k) (h : MarkedAt w b k') :
    MarkedAt w (mark1 w k b) k' := by
  intro hmr
  obtain ⟨p, h1, h2, h3⟩ := h hmr
  obtain ⟨e1, e2⟩ := mark1_other w k k' b hne
  exact ⟨p, by rw [liqPrice_mark1, mark1_pos]; exact h1, by rw [e2]; exact h2, by rw [e1, mark1_pos]; exact h3⟩

/-- has a liquidation quote for its current position -/
def Quoted (b : Broker K) (k : Key) : Prop := ∃ p, liqPrice b k (b.pos k) = some p

theorem quoted_mark1 (w : World K) (k k' : Key) (b : Broker K) (h : Quoted b k') : Quoted (mark1 w k b) k' := by
  obtain ⟨p, hp⟩ := h
  exact ⟨p, by rw [liqPrice_mark1, mark1_pos]; exact hp⟩

theorem lastMark_mark1_ne_none (w : World K) (k k' : Key) (b : Broker K) (h : b.lastMark k' ≠ none) :
    (mark1 w k b).lastMark k' ≠ none := by
  rcases mark1_cases w k b with e | ⟨p, lp, _, _, _, e⟩ | ⟨_, _, _, e⟩
  · rw [e]; exact h
  · rw [e]; simp only [upd]; split_ifs <;> simp [h]
  · rw [e]; exact h

theorem foldl_mark1_keeps (w : World K) (l : List Key) (k' : Key) (b : Broker K) (hk : k' ∉ l)
    (h : MarkedAt w b k') : MarkedAt w (l.foldl (fun b k => mark1 w k b) b) k' := by
  induction l generalizing b with
  | nil => exact h
  | cons k ks ih =>
      simp only [List.foldl_cons]
      have hne : k' ≠ k := fun e => hk (by simp [e])
      exact ih _ (fun e => hk (List.mem_cons_of_mem _ e)) (mark1_keeps w k k' b hne h)

theorem foldl_mark1_marks (w : World K) (l : List Key) (hl : l.Nodup) (b : Broker K)
    (hq : ∀ k ∈ l, Quoted b k) (hm : ∀ k ∈ l, b.lastMark k ≠ none) :
    ∀ k ∈ l, MarkedAt w (l.foldl (fun b k => mark1 w k b) b) k := by
  induction l generalizing b with
  | nil => intro k hk; cases hk
  | cons k ks ih =>
      intro k' hk'
      simp only [List.foldl_cons]
      have hk_notin : k ∉ ks := (List.nodup_cons.mp hl).1
      have hks : ks.Nodup := (List.nodup_cons.mp hl).2
      rcases List.mem_cons.mp hk' with rfl | hin
      · obtain ⟨p, hp⟩ := hq k' (List.mem_cons_self)
        exact foldl_mark1_keeps w ks k' _ hk_notin (mark1_marks w k' b p hp (hm k' (List.mem_cons_self)))
      · exact ih hks (mark1 w k b)
          (fun x hx => quoted_mark1 w k x b (hq x (List.mem_cons_of_mem _ hx)))
          (fun x hx => lastMark_mark1_ne_none w k x b (hm x (List.mem_cons_of_mem _ hx))) k' hin

theorem markAll_pos (w : World K) (b : Broker K) : (markAll w b).pos = b.pos := by
  unfold markAll
  generalize b.held = l
  induction l generalizing b with
  | nil => rfl
  | cons k ks ih => simp only [List.foldl_cons]; rw [ih, mark1_pos]

theorem markAll_ex (w : World K) (b : Broker K) : (markAll w b).ex = b.ex := by
  unfold markAll
  generalize b.held = l
  induction l generalizing b with
  | nil => rfl
  | cons k ks ih => simp only [List.foldl_cons]; rw [ih, mark1_ex]

theorem foldl_mark1_held (w : World K) (l : List Key) (b : Broker K) :
    (l.foldl (fun b k => mark1 w k b) b).held = b.held := by
  induction l generalizing b with
  | nil => rfl
  | cons k ks ih => simp only [List.foldl_cons]; rw [ih, mark1_held]

theorem markAll_held (w : World K) (b : Broker K) : (markAll w b).held = b.held :=
  foldl_mark1_held w b.held b

theorem markAll_ghost (w : World K) (b : Broker K) :
    (markAll w b).interest = b.interest ∧ (markAll w b).comm = b.comm ∧ (markAll w b).basis = b.basis := by
  unfold markAll
  generalize b.held = l
  induction l generalizing b with
  | nil => exact ⟨rfl, rfl, rfl⟩
  | cons k ks ih =>
      simp only [List.foldl_cons]
      obtain ⟨h1, h2, h3, _⟩ := mark1_ghost w k b
      obtain ⟨i1, i2, i3⟩ := ih (mark1 w k b)
      exact ⟨i1.trans h1, i2.trans h2, i3.trans h3⟩

/-- C05 core: after `marking_to_market()` every held contract with a quote sits at its quote -/
theorem markAll_marks (w : World K) (D : K) (b : Broker K) (h : Inv w D b)
    (hq : ∀ k ∈ b.held, Quoted b k) : ∀ k ∈ b.held, MarkedAt w (markAll w b) k :=
  foldl_mark1_marks w b.held h.nodup b hq (fun k hk => h.marked k hk)

/-! ### valuation -/

/-- the side `holdings_values` reads is the side `liq_price` reads, for a non-flat position -/
theorem liq_side (b : Broker K) (k : Key) (q : K) (hq : q ≠ 0) :
    (if 0 ≤ q then (b.ex.books k).bid else (b.ex.books k).ask) = liqPrice b k q := by
  unfold liqPrice Book.liq
  rcases lt_trichotomy q 0 with h | h | h
  · have : ¬ 0 ≤ q := not_le.mpr h
    simp [this, (sgn_neg_iff q).mpr h, Sign.flip, Book.acq]
  · exact absurd h hq
  · simp [le_of_lt h, (sgn_pos_iff q).mpr h, Sign.flip, Book.acq]

theorem valuesOn_ok (w : World K) (kind : ValKind) (b : Broker K) (g : Key → K) (l : List Key)
    (h : ∀ k ∈ l, valueOf w kind b k = .ok (g k)) :
    valuesOn w kind b l = .ok (l.map fun k => (k, g k)) := by
  induction l with
  | nil => rfl
  | cons k ks ih =>
      simp only [valuesOn, h k (List.mem_cons_self), ih (fun x hx => h x (List.mem_cons_of_mem _ hx)),
        List.map_cons]

/-- liquidation price of the current position, 0 when flat or unquoted -/
def liqv (b : Broker K) (k : Key) : K := if b.pos k = 0 then 0 else (liqPrice b k (b.pos k)).getD 0

/-- value of one held contract in `holdings_values('liquidation')` on a marked state, and its relation
    to the ledger term -/
theorem value_marked (w : World K) (D : K) (b : Broker K) (k : Key) (h : Inv w D b)
    (hw : WFSpec (w.spec k)) (hq : Quoted b k) (hm : MarkedAt w b k) :
    valueOf w .liquidation b k =
      .ok (Lterm w b k + (w.spec k).mult * (b.pos k * liqv b k - b.basis k)) := by
  obtain ⟨p, hp⟩ := hq
  unfold valueOf
  by_cases h0 : b.pos k = 0
  · simp only [h0, if_true]
    rcases hw.1 with ⟨hc, hmr⟩ | ⟨hc, hmr, _⟩
    · have := h.spot0 k hmr
      simp [Lterm, liqv, h0, hmr, this]
    · obtain ⟨p', _, hl, hmg⟩ := hm (ne_of_gt hmr)
      simp [Lterm, liqv, lmv, h0, hl, hmg, ne_of_gt hmr]
  · simp only [h0, if_false]
    rw [liq_side b k (b.pos k) h0, hp]
    simp only
    rcases hw.1 with ⟨hc, hmr⟩ | ⟨hc, hmr, _⟩
    · simp only [Lterm, liqv, h0, if_false, hp, Option.getD_some, hmr, if_true, hc]
      congr 1; ring
    · obtain ⟨p', hp', hl, hmg⟩ := hm (ne_of_gt hmr)
      rw [hp] at hp'; cases hp'
      simp only [Lterm, liqv, lmv, h0, if_false, hp, Option.getD_some, ne_of_gt hmr, hc, hl]
      congr 1; ring

/-- **NLV identity on a marked state**: cash + liquidation values
    = deposit + interest − commissions + Σ mult · (pos · liq − Σ dq·px). -/
theorem nlvMarked_identity (w : World K) (D : K) (b : Broker K) (h : Inv w D b)
    (hw : ∀ k, WFSpec (w.spec k)) (hq : ∀ k ∈ b.held, Quoted b k)
    (hm : ∀ k ∈ b.held, MarkedAt w b k) :
    nlvMarked w b = .ok (D + b.interest - b.comm +
      sumL (b.held.map fun k => (w.spec k).mult * (b.pos k * liqv b k - b.basis k))) := by
  unfold nlvMarked valuesOf
  rw [valuesOn_ok w .liquidation b
    (fun k => Lterm w b k + (w.spec k).mult * (b.pos k * liqv b k - b.basis k)) b.held
    (fun k hk => value_marked w D b k h (hw k) (hq k hk) (hm k hk))]
  simp only [List.map_map]
  have : (fun kv : Key × K => kv.2) ∘ (fun k => (k, Lterm w b k + (w.spec k).mult * (b.pos k * liqv b k - b.basis k)))
      = fun k => Lterm w b k + (w.spec k).mult * (b.pos k * liqv b k - b.basis k) := by
    funext k; rfl
  rw [this, sumL_map_add]
  have hl := h.ledger
  simp only [Ledger] at hl
  congr 1
  linarith

theorem quoted_markAll (w : World K) (b : Broker K) (k : Key) (h : Quoted b k) : Quoted (markAll w b) k := by
  obtain ⟨p, hp⟩ := h
  exact ⟨p, by simp only [liqPrice, markAll_ex, markAll_pos] at hp ⊢; exact hp⟩

theorem liqv_markAll (w : World K) (b : Broker K) (k : Key) : liqv (markAll w b) k = liqv b k := by
  simp only [liqv, liqPrice, markAll_ex, markAll_pos]

/-- the NLV computed by `net_liquidation_value` (which marks first) -/
theorem netLiq_identity (w : World K) (D : K) (b : Broker K) (h : Inv w D b)
    (hw : ∀ k, WFSpec (w.spec k)) (hq : ∀ k ∈ b.held, Quoted b k) :
    nlvMarked w (markAll w b) = .ok (D + b.interest - b.comm +
      sumL (b.held.map fun k => (w.spec k).mult * (b.pos k * liqv b k - b.basis k))) := by
  have h' := markAll_inv w D b h
  have hq' : ∀ k ∈ (markAll w b).held, Quoted (markAll w b) k := by
    intro k hk; rw [markAll_held] at hk; exact quoted_markAll w b k (hq k hk)
  have hm' : ∀ k ∈ (markAll w b).held, MarkedAt w (markAll w b) k := by
    intro k hk; rw [markAll_held] at hk; exact markAll_marks w D b h hq k hk
  rw [nlvMarked_identity w D (markAll w b) h' hw hq' hm']
  obtain ⟨g1, g2, g3⟩ := markAll_ghost w b
  simp only [markAll_held, markAll_pos, g1, g2, g3, liqv_markAll]

/-! ### effect of one trade on the quantities the NLV formula reads -/

theorem mark1_comm_etc (w : World K) (k : Key) (b : Broker K) :
    (mark1 w k b).comm = b.comm ∧ (mark1 w k b).interest = b.interest ∧ (mark1 w k b).basis = b.basis := by
  obtain ⟨h1, h2, h3, _⟩ := mark1_ghost w k b
  exact ⟨h2, h1, h3⟩

theorem transact_effect (w : World K) (b : Broker K) (t : Trade K) (hs : (transact w b t).snapped = false) :
    (transact w b t).pos = upd b.pos t.key (b.pos t.key + t.qty) ∧
    (transact w b t).held = (if t.key ∈ b.held then b.held else b.held ++ [t.key]) ∧
    (transact w b t).comm = b.comm + t.commission w ∧
    (transact w b t).interest = b.interest ∧
    (transact w b t).basis = upd b.basis t.key (b.basis t.key + t.qty * t.acq) ∧
    (transact w b t).ex = b.ex := by
  rw [transact_snapped] at hs
  rw [transact_eq]
  obtain ⟨c1, c2, c3⟩ := mark1_comm_etc w t.key (transactCore w (mark1 w t.key b) t)
  obtain ⟨d1, d2, d3⟩ := mark1_comm_etc w t.key b
  rw [mark1_pos, mark1_held, c1, c2, c3, mark1_ex]
  have hsnap : (if decide (absv ((mark1 w t.key b).pos t.key + t.qty) < w.eps) = true then (0 : K)
      else (mark1 w t.key b).pos t.key + t.qty) = (mark1 w t.key b).pos t.key + t.qty := by
    simp only [transactCore, Bool.or_eq_false_iff, Bool.and_eq_false_iff] at hs
    rcases hs.2 with h1 | h1
    · have h1' : ¬ absv ((mark1 w t.key b).pos t.key + t.qty) < w.eps := by simpa using h1
      simp [h1']
    · have : (mark1 w t.key b).pos t.key + t.qty = 0 := by simpa using h1
      simp [this]
  rw [mark1_pos] at hsnap
  simp only [transactCore, mark1_pos, mark1_held, d1, d2, d3, mark1_ex, hsnap, and_self]

/-- the closed form of C01 -/
def nlvFormula (w : World K) (D : K) (b : Broker K) : K :=
  D + b.interest - b.comm + sumL (b.held.map fun k => (w.spec k).mult * (b.pos k * liqv b k - b.basis k))

/-- one trade moves the closed form by −commission + mult·(pos'·liq' − pos·liq − dq·px) -/
theorem formula_trade_delta (w : World K) (D : K) (b : Broker K) (t : Trade K) (h : Inv w D b)
    (hs : (transact w b t).snapped = false) :
    nlvFormula w D (transact w b t) - nlvFormula w D b =
      - t.commission w + (w.spec t.key).mult *
        ((transact w b t).pos t.key * liqv (transact w b t) t.key - b.pos t.key * liqv b t.key
          - t.qty * t.acq) := by
  obtain ⟨e1, e2, e3, e4, e5, e6⟩ := transact_effect w b t hs
  set k := t.key with hk
  have hoff : ∀ k', k' ≠ k →
      (fun x => (w.spec x).mult * ((transact w b t).pos x * liqv (transact w b t) x - (transact w b t).basis x)) k'
      = (fun x => (w.spec x).mult * (b.pos x * liqv b x - b.basis x)) k' := by
    intro k' hne
    simp only [liqv, liqPrice, e1, e5, e6, upd_other _ _ _ _ hne]
  unfold nlvFormula
  rw [e3, e4, e2]
  by_cases hin : k ∈ b.held
  · simp only [hin, if_true]
    rw [sumL_off_mem b.held h.nodup _ _ k hin hoff]
    simp only [e5, upd_same]
    ring
  · simp only [hin, if_false]
    obtain ⟨p0, _, b0, _⟩ := h.fresh k hin
    rw [List.map_append, sumL_append, sumL_off_not_mem b.held _ _ k hin hoff]
    simp only [List.map_cons, List.map_nil, sumL_cons, sumL_nil, e5, upd_same, p0, b0]
    ring

/-- a quote update for `k` moves the closed form by pos·mult·Δliq -/
theorem formula_quote_delta (w : World K) (D : K) (b : Broker K) (e : MEvent K) (h : Inv w D b)
    (hk : e.key ∈ b.held) :
    nlvFormula w D { b with ex := b.ex.step e } - nlvFormula w D b =
      b.pos e.key * (w.spec e.key).mult * (liqv { b with ex := b.ex.step e } e.key - liqv b e.key) := by
  unfold nlvFormula
  have hoff : ∀ k', k' ≠ e.key →
      (fun x => (w.spec x).mult * (b.pos x * liqv { b with ex := b.ex.step e } x - b.basis x)) k'
      = (fun x => (w.spec x).mult * (b.pos x * liqv b x - b.basis x)) k' := by
    intro k' hne
    have : (b.ex.step e).books k' = b.ex.books k' := by
      cases e with
      | quote k2 t2 b2 a2 =>
          simp only [MEvent.key] at hne
          simp only [Exchange.step]
          split
          · exact upd_other _ _ _ _ hne
          · rfl
      | disc k2 t2 =>
          simp only [MEvent.key] at hne
          simp only [Exchange.step]
          exact upd_other _ _ _ _ hne
    simp only [liqv, liqPrice, this]
  simp only
  rw [sumL_off_mem b.held h.nodup _ _ e.key hk hoff]
  ring

end TV
