/-
  Helper lemmas shared by the property files: point updates, `absv`, `sgn`, `sumL`.
  `K` is any linear ordered field.
-/
import Mathlib.Tactic.Ring
import Mathlib.Tactic.Linarith
import Mathlib.Tactic.FieldSimp
import Mathlib.Algebra.Order.Field.Basic
import TradingVerif.Model.Broker
import TradingVerif.Lemmas.Upd
set_option linter.unusedSectionVars false
namespace TV

variable {K : Type} [Field K] [LinearOrder K] [IsStrictOrderedRing K]

theorem absv_eq_abs (x : K) : absv x = |x| := by
  unfold absv
  split_ifs with h
  · exact (abs_of_neg h).symm
  · exact (abs_of_nonneg (not_lt.mp h)).symm

theorem absv_nonneg (x : K) : 0 ≤ absv x := by rw [absv_eq_abs]; exact abs_nonneg x

@[simp] theorem absv_zero : absv (0 : K) = 0 := by simp [absv]

theorem sgn_pos_iff (x : K) : sgn x = .pos ↔ 0 < x := by
  unfold sgn
  split_ifs with h1 h2
  · simp; exact le_of_lt h1
  · simp [h2]
  · simp [h2]

theorem sgn_neg_iff (x : K) : sgn x = .neg ↔ x < 0 := by
  unfold sgn
  split_ifs with h1 h2 <;> simp [h1]

theorem sgn_zero_iff (x : K) : sgn x = .zero ↔ x = 0 := by
  unfold sgn
  split_ifs with h1 h2
  · simp; exact ne_of_lt h1
  · simp; exact ne_of_gt h2
  · simp; exact le_antisymm (not_lt.mp h2) (not_lt.mp h1)

/-! ### sums over a key list -/

@[simp] theorem sumL_nil : sumL ([] : List K) = 0 := rfl
@[simp] theorem sumL_cons (x : K) (xs : List K) : sumL (x :: xs) = x + sumL xs := rfl

theorem sumL_append (xs ys : List K) : sumL (xs ++ ys) = sumL xs + sumL ys := by
  induction xs with
  | nil => simp
  | cons x xs ih => simp [ih, add_assoc]

theorem sumL_map_add (l : List Key) (f g : Key → K) :
    sumL (l.map fun k => f k + g k) = sumL (l.map f) + sumL (l.map g) := by
  induction l with
  | nil => simp
  | cons x xs ih => simp only [List.map_cons, sumL_cons, ih]; ring

theorem sumL_map_sub (l : List Key) (f g : Key → K) :
    sumL (l.map fun k => f k - g k) = sumL (l.map f) - sumL (l.map g) := by
  induction l with
  | nil => simp
  | cons x xs ih => simp only [List.map_cons, sumL_cons, ih]; ring

theorem sumL_map_congr (l : List Key) (f g : Key → K) (h : ∀ k ∈ l, f k = g k) :
    sumL (l.map f) = sumL (l.map g) := by
  induction l with
  | nil => rfl
  | cons x xs ih =>
      simp only [List.map_cons, sumL_cons]
      rw [h x (List.mem_cons_self), ih (fun k hk => h k (List.mem_cons_of_mem _ hk))]

/-- Changing a summand at a key outside the list changes nothing. -/
theorem sumL_off_not_mem (l : List Key) (f g : Key → K) (k : Key) (hk : k ∉ l)
    (h : ∀ k', k' ≠ k → g k' = f k') : sumL (l.map g) = sumL (l.map f) :=
  sumL_map_congr l g f (fun k' hk' => h k' (fun e => hk (e ▸ hk')))

/-- Changing the summand of one key of a duplicate-free list. -/
theorem sumL_off_mem (l : List Key) (hl : l.Nodup) (f g : Key → K) (k : Key) (hk : k ∈ l)
    (h : ∀ k', k' ≠ k → g k' = f k') : sumL (l.map g) = sumL (l.map f) - f k + g k := by
  induction l with
  | nil => cases hk
  | cons x xs ih =>
      have hx : x ∉ xs := (List.nodup_cons.mp hl).1
      have hxs : xs.Nodup := (List.nodup_cons.mp hl).2
      simp only [List.map_cons, sumL_cons]
      rcases List.mem_cons.mp hk with rfl | hk'
      · rw [sumL_off_not_mem xs f g k hx h]; ring
      · have hne : x ≠ k := fun e => hx (e ▸ hk')
        rw [ih hxs hk', h x hne]; ring

end TV
