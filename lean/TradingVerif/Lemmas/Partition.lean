/-
  Sorting, grid and bucket lemmas behind C02 / C04 / C08 / C15.
-/
import Mathlib.Data.List.Basic
import Mathlib.Tactic.Linarith
import TradingVerif.Model.Transmitter
set_option linter.unusedSectionVars false
set_option linter.unusedVariables false
namespace TV

/-! ### the grid: `sorted(set(timesteps))` -/

theorem dedupSorted_mem (l : List Time) (t : Time) : t ∈ dedupSorted l ↔ t ∈ l := by
  induction l using dedupSorted.induct with
  | case1 => simp [dedupSorted]
  | case2 a => simp [dedupSorted]
  | case3 b rest ih =>
      rw [dedupSorted, if_pos rfl, ih]
      simp
  | case4 a b rest h ih =>
      rw [dedupSorted, if_neg h, List.mem_cons, ih]
      simp

theorem dedupSorted_strict (l : List Time) (h : l.Pairwise (· ≤ ·)) : (dedupSorted l).Pairwise (· < ·) := by
  induction l using dedupSorted.induct with
  | case1 => simp [dedupSorted]
  | case2 a => simp [dedupSorted]
  | case3 b rest ih =>
      rw [dedupSorted, if_pos rfl]
      exact ih (List.pairwise_cons.mp h).2
  | case4 a b rest hab ih =>
      rw [dedupSorted, if_neg hab]
      have h2 := (List.pairwise_cons.mp h)
      refine List.pairwise_cons.mpr ⟨?_, ih h2.2⟩
      intro x hx
      rw [dedupSorted_mem] at hx
      have hax : a ≤ x := h2.1 x hx
      rcases List.mem_cons.mp hx with rfl | hx'
      · exact lt_of_le_of_ne hax hab
      · have hbx : b ≤ x := (List.pairwise_cons.mp h2.2).1 x hx'
        have hab' : a ≤ b := h2.1 b (List.mem_cons_self)
        exact lt_of_lt_of_le (lt_of_le_of_ne hab' hab) hbx

theorem insertT_perm (x : Time) (l : List Time) : (insertT x l).Perm (x :: l) := by
  induction l with
  | nil => exact List.Perm.refl _
  | cons y ys ih =>
      unfold insertT
      split_ifs
      · exact List.Perm.refl _
      · exact (List.Perm.cons y ih).trans (List.Perm.swap x y ys)

theorem insertT_sorted (x : Time) (l : List Time) (h : l.Pairwise (· ≤ ·)) : (insertT x l).Pairwise (· ≤ ·) := by
  induction l with
  | nil => simp [insertT]
  | cons y ys ih =>
      have hp := List.pairwise_cons.mp h
      unfold insertT
      split_ifs with hxy
      · refine List.pairwise_cons.mpr ⟨?_, h⟩
        intro z hz
        rcases List.mem_cons.mp hz with rfl | hz'
        · exact hxy
        · exact le_trans hxy (hp.1 z hz')
      · refine List.pairwise_cons.mpr ⟨?_, ih hp.2⟩
        intro z hz
        have := (insertT_perm x ys).mem_iff.mp hz
        rcases List.mem_cons.mp this with rfl | hz'
        · exact le_of_lt (not_le.mp hxy)
        · exact hp.1 z hz'

theorem sortT_sorted (l : List Time) : (sortT l).Pairwise (· ≤ ·) := by
  induction l with
  | nil => simp [sortT]
  | cons x xs ih => exact insertT_sorted x _ ih

theorem sortT_perm (l : List Time) : (sortT l).Perm l := by
  induction l with
  | nil => exact List.Perm.refl _
  | cons x xs ih => exact (insertT_perm x _).trans (List.Perm.cons x ih)

/-- the grid is strictly increasing … -/
theorem mkGrid_strict (ts : List Time) : (mkGrid ts).Pairwise (· < ·) :=
  dedupSorted_strict _ (sortT_sorted ts)

/-- … and has exactly the members of the input (duplicates and order of the input do not matter) -/
theorem mkGrid_mem (ts : List Time) (t : Time) : t ∈ mkGrid ts ↔ t ∈ ts := by
  unfold mkGrid
  rw [dedupSorted_mem]
  exact (sortT_perm ts).mem_iff

/-! ### the stable sort of the events -/
variable {ρ : Type}

theorem insertEv_perm (x : TEvent ρ) (l : List (TEvent ρ)) : (insertEv x l).Perm (x :: l) := by
  induction l with
  | nil => exact List.Perm.refl _
  | cons y ys ih =>
      unfold insertEv
      split_ifs
      · exact List.Perm.refl _
      · exact (List.Perm.cons y ih).trans (List.Perm.swap x y ys)

theorem insertEv_sorted (x : TEvent ρ) (l : List (TEvent ρ)) (h : l.Pairwise (fun a b => a.time ≤ b.time)) :
    (insertEv x l).Pairwise (fun a b => a.time ≤ b.time) := by
  induction l with
  | nil => simp [insertEv]
  | cons y ys ih =>
      have hp := List.pairwise_cons.mp h
      unfold insertEv
      split_ifs with hxy
      · refine List.pairwise_cons.mpr ⟨?_, h⟩
        intro z hz
        rcases List.mem_cons.mp hz with rfl | hz'
        · exact hxy
        · exact le_trans hxy (hp.1 z hz')
      · refine List.pairwise_cons.mpr ⟨?_, ih hp.2⟩
        intro z hz
        have := (insertEv_perm x ys).mem_iff.mp hz
        rcases List.mem_cons.mp this with rfl | hz'
        · exact le_of_lt (not_le.mp hxy)
        · exact hp.1 z hz'

/-- timestamps are non-decreasing after sorting -/
theorem sortEvents_sorted (evs : List (TEvent ρ)) : (sortEvents evs).Pairwise (fun a b => a.time ≤ b.time) := by
  induction evs with
  | nil => simp [sortEvents]
  | cons x xs ih => exact insertEv_sorted x _ ih

/-- sorting neither drops nor duplicates an event -/
theorem sortEvents_perm (evs : List (TEvent ρ)) : (sortEvents evs).Perm evs := by
  induction evs with
  | nil => exact List.Perm.refl _
  | cons x xs ih => exact (insertEv_perm x _).trans (List.Perm.cons x ih)

theorem sublist_insertEv (x : TEvent ρ) (l : List (TEvent ρ)) : l.Sublist (insertEv x l) := by
  induction l with
  | nil => simp
  | cons y ys ih =>
      unfold insertEv
      split_ifs
      · exact List.sublist_cons_self x _
      · exact List.Sublist.cons_cons y ih

theorem cons_sublist_insertEv (x : TEvent ρ) (c l : List (TEvent ρ)) (hc : c.Sublist l)
    (hx : ∀ z ∈ c, x.time ≤ z.time) : (x :: c).Sublist (insertEv x l) := by
  induction l generalizing c with
  | nil =>
      have : c = [] := List.eq_nil_of_sublist_nil hc
      subst this; simp [insertEv]
  | cons y ys ih =>
      unfold insertEv
      split_ifs with hxy
      · exact List.Sublist.cons_cons x hc
      · cases hc with
        | cons _ h => exact List.Sublist.cons y (ih c h hx)
        | cons_cons _ h =>
            exact absurd (hx y (List.mem_cons_self)) hxy

/-- **Stability**: a sub-sequence of the input that is already in timestamp order (in particular two events
    with equal timestamps, in insertion order) keeps its order -/
theorem sublist_sortEvents (evs c : List (TEvent ρ)) (hs : c.Pairwise (fun a b => a.time ≤ b.time))
    (h : c.Sublist evs) : c.Sublist (sortEvents evs) := by
  induction evs generalizing c with
  | nil =>
      have : c = [] := List.eq_nil_of_sublist_nil h
      subst this; exact List.Sublist.slnil
  | cons x xs ih =>
      unfold sortEvents
      cases h with
      | cons _ h' => exact (ih c hs h').trans (sublist_insertEv x _)
      | cons_cons _ h' =>
          rename_i c'
          have hp := List.pairwise_cons.mp hs
          exact cons_sublist_insertEv x c' _ (ih c' hp.2 h') hp.1

theorem sortEvents_stable (evs : List (TEvent ρ)) (a b : TEvent ρ) (hab : a.time ≤ b.time)
    (h : [a, b].Sublist evs) : [a, b].Sublist (sortEvents evs) :=
  sublist_sortEvents evs [a, b] (by simp [hab]) h

theorem insertEv_of_le_all (x : TEvent ρ) (l : List (TEvent ρ)) (h : ∀ z ∈ l, x.time ≤ z.time) :
    insertEv x l = x :: l := by
  cases l with
  | nil => rfl
  | cons y ys => simp [insertEv, h y (List.mem_cons_self)]

theorem insertEv_cons_le (x y : TEvent ρ) (ys : List (TEvent ρ)) (h : x.time ≤ y.time) :
    insertEv x (y :: ys) = x :: y :: ys := by simp [insertEv, h]

theorem insertEv_cons_gt (x y : TEvent ρ) (ys : List (TEvent ρ)) (h : ¬ x.time ≤ y.time) :
    insertEv x (y :: ys) = y :: insertEv x ys := by simp [insertEv, h]

theorem insertEv_filter (p : TEvent ρ → Bool) (x : TEvent ρ) (l : List (TEvent ρ))
    (hl : l.Pairwise (fun a b => a.time ≤ b.time)) :
    (insertEv x l).filter p = if p x then insertEv x (l.filter p) else l.filter p := by
  induction l with
  | nil => by_cases hx : p x = true <;> simp [insertEv, hx]
  | cons y ys ih =>
      have hp := List.pairwise_cons.mp hl
      by_cases hxy : x.time ≤ y.time
      · rw [insertEv_cons_le x y ys hxy]
        by_cases hpx : p x = true
        · have hall : ∀ z ∈ (y :: ys).filter p, x.time ≤ z.time := by
            intro z hz
            have hz' := (List.mem_filter.mp hz).1
            rcases List.mem_cons.mp hz' with rfl | hz''
            · exact hxy
            · exact le_trans hxy (hp.1 z hz'')
          rw [if_pos hpx, insertEv_of_le_all x _ hall, List.filter_cons, if_pos hpx]
        · rw [if_neg hpx, List.filter_cons, if_neg hpx]
      · rw [insertEv_cons_gt x y ys hxy, List.filter_cons, ih hp.2]
        by_cases hpx : p x = true
        · by_cases hpy : p y = true
          · rw [if_pos hpy, if_pos hpx, if_pos hpx, List.filter_cons, if_pos hpy, insertEv_cons_gt x y _ hxy]
          · rw [if_neg hpy, if_pos hpx, if_pos hpx, List.filter_cons, if_neg hpy]
        · by_cases hpy : p y = true
          · rw [if_pos hpy, if_neg hpx, if_neg hpx, List.filter_cons, if_pos hpy]
          · rw [if_neg hpy, if_neg hpx, if_neg hpx, List.filter_cons, if_neg hpy]

/-- **Sorting commutes with filtering**: what is delivered out of a subset of the events is the sorted
    subset — the heart of "outputs up to `t` depend only on events stamped up to `t`" -/
theorem sortEvents_filter (p : TEvent ρ → Bool) (evs : List (TEvent ρ)) :
    (sortEvents evs).filter p = sortEvents (evs.filter p) := by
  induction evs with
  | nil => rfl
  | cons x xs ih =>
      show (insertEv x (sortEvents xs)).filter p = sortEvents ((x :: xs).filter p)
      rw [insertEv_filter p x _ (sortEvents_sorted xs), ih]
      by_cases hx : p x = true
      · rw [if_pos hx, List.filter_cons, if_pos hx]; rfl
      · rw [if_neg hx, List.filter_cons, if_neg hx]

/-! ### buckets -/

theorem bucketOf_cons (t0 : Time) (rest : List Time) (x : Time) :
    bucketOf (t0 :: rest) x = if x ≤ t0 then some t0 else bucketOf rest x := by
  unfold bucketOf
  by_cases h : x ≤ t0 <;> simp [List.find?, h]

/-- **Each event goes to the first grid point at or after its time.** -/
theorem bucket_spec (grid : List Time) (hg : grid.Pairwise (· < ·)) (t g : Time)
    (h : bucketOf grid t = some g) : g ∈ grid ∧ t ≤ g ∧ ∀ g' ∈ grid, t ≤ g' → g ≤ g' := by
  induction grid with
  | nil => simp [bucketOf] at h
  | cons g0 rest ih =>
      have hp := List.pairwise_cons.mp hg
      rw [bucketOf_cons] at h
      split_ifs at h with hle
      · cases h
        refine ⟨List.mem_cons_self, hle, ?_⟩
        intro g' hg' _
        rcases List.mem_cons.mp hg' with rfl | hin
        · exact le_refl _
        · exact le_of_lt (hp.1 g' hin)
      · obtain ⟨h1, h2, h3⟩ := ih hp.2 h
        refine ⟨List.mem_cons_of_mem _ h1, h2, ?_⟩
        intro g' hg' hle'
        rcases List.mem_cons.mp hg' with rfl | hin
        · exact absurd hle' hle
        · exact h3 g' hin hle'

theorem bucket_none_iff (grid : List Time) (t : Time) : bucketOf grid t = none ↔ ∀ g ∈ grid, g < t := by
  unfold bucketOf
  rw [List.find?_eq_none]
  simp

/-- an event is bucketed iff it is stamped no later than some grid point -/
theorem bucket_some_iff (grid : List Time) (t : Time) : (∃ g, bucketOf grid t = some g) ↔ ∃ g ∈ grid, t ≤ g := by
  constructor
  · rintro ⟨g, h⟩
    have := List.find?_some h
    exact ⟨g, List.mem_of_find?_eq_some h, by simpa using this⟩
  · rintro ⟨g, hg, hle⟩
    cases hb : bucketOf grid t with
    | some g' => exact ⟨g', rfl⟩
    | none =>
        have := (bucket_none_iff grid t).mp hb g hg
        exact absurd hle (not_le.mpr this)

/-- `bucket e ≤ t ↔ time e ≤ t` for a grid point `t`: the heart of "no look-ahead" -/
theorem bucket_le_iff (grid : List Time) (hg : grid.Pairwise (· < ·)) (t x g : Time) (ht : t ∈ grid)
    (h : bucketOf grid x = some g) : g ≤ t ↔ x ≤ t := by
  obtain ⟨h1, h2, h3⟩ := bucket_spec grid hg x g h
  constructor
  · intro hgt; exact le_trans h2 hgt
  · intro hxt; exact h3 t ht hxt

/-! ### concatenating the buckets of a sorted list gives the list back -/

theorem sorted_split (es : List (TEvent ρ)) (hes : es.Pairwise (fun a b => a.time ≤ b.time)) (c : Time) :
    es = es.filter (fun e => decide (e.time ≤ c)) ++ es.filter (fun e => !decide (e.time ≤ c)) := by
  induction es with
  | nil => simp
  | cons a as ih =>
    have hpa := List.pairwise_cons.mp hes
    by_cases h : a.time ≤ c
    · simp only [List.filter_cons, h, decide_true, Bool.not_true, if_true, List.cons_append]
      simp only [Bool.false_eq_true, if_false]
      exact congrArg _ (ih hpa.2)
    · have hall : ∀ e ∈ a :: as, ¬ e.time ≤ c := by
        intro e he
        rcases List.mem_cons.mp he with rfl | he'
        · exact h
        · have := hpa.1 e he'; intro hc; exact h (le_trans this hc)
      have h1 : (a :: as).filter (fun e => decide (e.time ≤ c)) = [] := by
        apply List.filter_eq_nil_iff.mpr
        intro e he; simpa using hall e he
      have h2 : (a :: as).filter (fun e => !decide (e.time ≤ c)) = a :: as := by
        apply List.filter_eq_self.mpr
        intro e he; simpa using hall e he
      rw [h1, h2]; rfl

/-- **Partition theorem**: for a strictly increasing grid and a list sorted by time, the buckets
    "first grid point ≥ time", concatenated in grid order, are exactly the events stamped no later
    than some grid point, in order: every such event in exactly one bucket, none lost, none duplicated,
    nothing after the grid. -/
theorem concat_buckets (ts : List Time) (hts : ts.Pairwise (· < ·)) :
    ∀ (es : List (TEvent ρ)), es.Pairwise (fun a b => a.time ≤ b.time) →
    ts.flatMap (fun t => es.filter (fun e => decide (bucketOf ts e.time = some t)))
      = es.filter (fun e => decide (∃ t ∈ ts, e.time ≤ t)) := by
  induction ts with
  | nil => intro es _; simp
  | cons t0 rest ih =>
    intro es hes
    have hp := List.pairwise_cons.mp hts
    set es' := es.filter (fun e => !decide (e.time ≤ t0)) with hes'
    have hes'sorted : es'.Pairwise (fun a b => a.time ≤ b.time) := hes.filter _
    have ih' := ih hp.2 es' hes'sorted
    have hhead : es.filter (fun e => decide (bucketOf (t0 :: rest) e.time = some t0))
        = es.filter (fun e => decide (e.time ≤ t0)) := by
      apply List.filter_congr
      intro e _
      rw [bucketOf_cons]
      by_cases h : e.time ≤ t0
      · simp [h]
      · simp only [h, if_false, decide_false]
        have : bucketOf rest e.time ≠ some t0 := by
          intro hb
          have hm : t0 ∈ rest := by
            unfold bucketOf at hb; exact List.mem_of_find?_eq_some hb
          exact absurd (hp.1 t0 hm) (lt_irrefl _)
        simp [this]
    have htail : rest.flatMap (fun t => es.filter (fun e => decide (bucketOf (t0 :: rest) e.time = some t)))
        = rest.flatMap (fun t => es'.filter (fun e => decide (bucketOf rest e.time = some t))) := by
      apply List.flatMap_congr
      intro t ht
      rw [hes', List.filter_filter]
      apply List.filter_congr
      intro e _
      rw [bucketOf_cons]
      have hne : t0 ≠ t := ne_of_lt (hp.1 t ht)
      by_cases h : e.time ≤ t0
      · simp [h, hne]
      · simp [h]
    rw [List.flatMap_cons, hhead, htail, ih']
    conv_rhs => rw [sorted_split es hes t0, List.filter_append]
    congr 1
    · symm; rw [List.filter_filter]; apply List.filter_congr
      intro e _
      by_cases h : e.time ≤ t0
      · simp [h]
      · simp [h]
    · rw [hes', List.filter_filter, List.filter_filter]; apply List.filter_congr
      intro e _
      by_cases h : e.time ≤ t0
      · simp [h]
      · simp [h]

/-- splitting a sorted list by a predicate that is downward closed along the list -/
theorem filter_split_downward (l : List (TEvent ρ)) (q : TEvent ρ → Bool)
    (hq : l.Pairwise (fun a b => q b = true → q a = true)) :
    l.filter q ++ l.filter (fun e => !q e) = l := by
  induction l with
  | nil => simp
  | cons a as ih =>
      have hp := List.pairwise_cons.mp hq
      by_cases ha : q a = true
      · simp only [List.filter_cons, ha, if_true, Bool.not_true, Bool.false_eq_true, if_false, List.cons_append]
        rw [ih hp.2]
      · have hall : ∀ e ∈ as, q e = false := by
          intro e he
          by_contra hne
          have : q e = true := by simpa using hne
          exact ha (hp.1 e he this)
        have h1 : as.filter q = [] := List.filter_eq_nil_iff.mpr (by intro e he; simp [hall e he])
        have h2 : as.filter (fun e => !q e) = as := List.filter_eq_self.mpr (by intro e he; simp [hall e he])
        have ha' : q a = false := by simpa using ha
        simp [List.filter_cons, ha', h1, h2]

end TV
