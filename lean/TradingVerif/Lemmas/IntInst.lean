/- `int()` on integers is the identity: the instance used by the concrete `decide` witnesses. -/
import TradingVerif.Model.Broker
namespace TV
instance instHasTruncInt : HasTrunc Int := ⟨id⟩
end TV
