/-
  Accounts and the exchange.  No operation of an account changes the exchange: only market events do.  Hence
  several accounts on one exchange (each modelled with its own copy of the book state) keep seeing the same books,
  and each evolves exactly as it would alone.
-/
import TradingVerif.Lemmas.Reach
set_option linter.unusedSectionVars false
set_option linter.unusedVariables false
set_option linter.unusedSimpArgs false
namespace TV
variable {K : Type} [Field K] [LinearOrder K] [IsStrictOrderedRing K] [HasTrunc K]

theorem transact_ex (w : World K) (b : Broker K) (t : Trade K) : (transact w b t).ex = b.ex := by
  rw [transact_eq, mark1_ex]
  show (mark1 w t.key b).ex = b.ex
  exact mark1_ex w t.key b

theorem foldl_transact_ex (w : World K) (ts : List (Trade K)) (b : Broker K) :
    (ts.foldl (transact w) b).ex = b.ex := by
  induction ts generalizing b with
  | nil => rfl
  | cons t ts ih => simp only [List.foldl_cons]; rw [ih, transact_ex]

theorem netLiq_ex (w : World K) (r : Bool) (b : Broker K) : (netLiq w r b).1.ex = b.ex := by
  rw [netLiq_fst, markAll_ex]

theorem weightsOf_ex (w : World K) (b : Broker K) : (weightsOf w b).1.ex = b.ex := by
  unfold weightsOf
  have h := netLiq_ex w true b
  generalize netLiq w true b = p at h
  obtain ⟨b', res⟩ := p
  cases res with
  | error e => exact h
  | ok v =>
      simp only
      split <;> exact h

theorem rebalanceExec_ex (w : World K) (r : Rebal K) (i n : K) (ts : List (Trade K)) (b : Broker K) :
    (rebalanceExec w r i n ts b).1.ex = b.ex := by
  unfold rebalanceExec
  have h := netLiq_ex w true (ts.foldl (transact w) b)
  rw [foldl_transact_ex] at h
  generalize netLiq w true (ts.foldl (transact w) b) = p at h
  obtain ⟨b4, res⟩ := p
  cases res with
  | error e => exact h
  | ok v =>
      simp only
      split <;> exact h

theorem rebalance_ex (pw : K → K → K) (w : World K) (r : Rebal K) (b : Broker K) :
    (rebalance pw w r b).1.ex = b.ex := by
  unfold rebalance
  have h1 := (accrue_frame3 pw w r.time true b).2.2
  generalize accrue pw w r.time true b = p1 at h1
  obtain ⟨b1, res1⟩ := p1
  cases res1 with
  | error e => exact h1
  | ok interest =>
      simp only
      have h2 := netLiq_ex w true b1
      generalize netLiq w true b1 = p2 at h2
      obtain ⟨b2, res2⟩ := p2
      cases res2 with
      | error e => exact h2.trans h1
      | ok nlvPre =>
          simp only
          cases hm : makeTrades w b2 nlvPre r with
          | error e => exact h2.trans h1
          | ok trades => exact (rebalanceExec_ex w r interest nlvPre trades b2).trans (h2.trans h1)

/-- **Only market events change the exchange**: every operation of an account - trades, marks, valuations,
    weights, accruals, rebalances, successful or failing - leaves the books exactly as they were. -/
theorem stepOp_ex (pw : K → K → K) (w : World K) (b : Broker K) (op : Op K) :
    (stepOp pw w b op).1.ex = (match op with | .ev e => b.ex.step e | _ => b.ex) := by
  cases op with
  | ev e => rfl
  | trade k q bid ask =>
      simp only [stepOp]
      split
      · rfl
      · exact transact_ex w b _
  | tradeq k q =>
      simp only [stepOp]
      split
      · rfl
      · exact transact_ex w b _
  | mark k => exact mark1_ex w k b
  | markAll => exact markAll_ex w b
  | nlv r =>
      simp only [stepOp]
      have h := netLiq_ex w r b
      generalize netLiq w r b = p at h
      obtain ⟨b', res⟩ := p
      cases res <;> exact h
  | values kind =>
      simp only [stepOp]
      split <;> rfl
  | weights =>
      simp only [stepOp]
      have h := weightsOf_ex w b
      generalize weightsOf w b = p at h
      obtain ⟨b', res⟩ := p
      cases res <;> exact h
  | accrue t a =>
      simp only [stepOp]
      have h := (accrue_frame3 pw w t a b).2.2
      generalize accrue pw w t a b = p at h
      obtain ⟨b', res⟩ := p
      cases res <;> exact h
  | rebal r =>
      simp only [stepOp]
      have h := rebalance_ex pw w r b
      generalize rebalance pw w r b = p at h
      obtain ⟨b', res⟩ := p
      cases res <;> exact h

/-! ### two accounts on one exchange -/

/-- a step of a process in which two accounts live on one exchange: a market event reaches both, an account
    operation touches its own account only -/
inductive JOp (α : Type) where
  | mkt (e : MEvent α)
  | acct1 (op : Op α)
  | acct2 (op : Op α)

/-- `acct` operations are account operations proper (market events enter through `mkt`) -/
def JOp.proper : JOp K → Prop
  | .mkt _ => True
  | .acct1 op => ∀ e, op ≠ .ev e
  | .acct2 op => ∀ e, op ≠ .ev e

def jstep (pw : K → K → K) (w1 w2 : World K) (s : Broker K × Broker K) : JOp K → Broker K × Broker K
  | .mkt e => ((stepOp pw w1 s.1 (.ev e)).1, (stepOp pw w2 s.2 (.ev e)).1)
  | .acct1 op => ((stepOp pw w1 s.1 op).1, s.2)
  | .acct2 op => (s.1, (stepOp pw w2 s.2 op).1)

def jrun (pw : K → K → K) (w1 w2 : World K) (s : Broker K × Broker K) (js : List (JOp K)) : Broker K × Broker K :=
  js.foldl (jstep pw w1 w2) s

/-- what the first account sees of a joint history: the market events and its own operations -/
def proj1 : List (JOp K) → List (Op K)
  | [] => []
  | .mkt e :: js => .ev e :: proj1 js
  | .acct1 op :: js => op :: proj1 js
  | .acct2 _ :: js => proj1 js

theorem stepOp_ex_proper (pw : K → K → K) (w : World K) (b : Broker K) (op : Op K) (h : ∀ e, op ≠ .ev e) :
    (stepOp pw w b op).1.ex = b.ex := by
  rw [stepOp_ex]
  cases op with
  | ev e => exact absurd rfl (h e)
  | _ => rfl

/-- **The copies stay one exchange**: if the two accounts start on the same books, then after any joint history
    (any interleaving of market events and of the two accounts' operations, with different fee schedules and
    contract specifications if need be) they still see the same books. -/
theorem shared_exchange_stays_shared (pw : K → K → K) (w1 w2 : World K) (js : List (JOp K))
    (hp : ∀ j ∈ js, j.proper) (s : Broker K × Broker K) (h : s.1.ex = s.2.ex) :
    (jrun pw w1 w2 s js).1.ex = (jrun pw w1 w2 s js).2.ex := by
  induction js generalizing s with
  | nil => exact h
  | cons j js ih =>
      simp only [jrun, List.foldl_cons]
      apply ih (fun x hx => hp x (List.mem_cons_of_mem _ hx))
      have hj := hp j List.mem_cons_self
      cases j with
      | mkt e => show (s.1.ex.step e) = (s.2.ex.step e); rw [h]
      | acct1 op =>
          show (stepOp pw w1 s.1 op).1.ex = s.2.ex
          rw [stepOp_ex_proper pw w1 s.1 op hj]; exact h
      | acct2 op =>
          show s.1.ex = (stepOp pw w2 s.2 op).1.ex
          rw [stepOp_ex_proper pw w2 s.2 op hj]; exact h

/-- **Each account evolves as it would alone**: the first account's state after any joint history is its state
    after the market events and its own operations, whatever the other account did in between. -/
theorem two_accounts_isolated (pw : K → K → K) (w1 w2 : World K) (js : List (JOp K)) (s : Broker K × Broker K) :
    (jrun pw w1 w2 s js).1 = runOps pw w1 s.1 (proj1 js) := by
  induction js generalizing s with
  | nil => rfl
  | cons j js ih =>
      simp only [jrun, List.foldl_cons]
      have := ih (jstep pw w1 w2 s j)
      simp only [jrun] at this
      rw [this]
      cases j with
      | mkt e => rfl
      | acct1 op => rfl
      | acct2 op => rfl

end TV
