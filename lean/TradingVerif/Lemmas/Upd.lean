/- Point-update lemmas (no Mathlib). -/
import TradingVerif.Model.Num
namespace TV

@[simp] theorem upd_same {β : Type} (f : Key → β) (k : Key) (v : β) : upd f k v k = v := by
  simp [upd]

@[simp] theorem upd_other {β : Type} (f : Key → β) (k k' : Key) (v : β) (h : k' ≠ k) :
    upd f k v k' = f k' := by
  simp [upd, h]

theorem upd_apply {β : Type} (f : Key → β) (k k' : Key) (v : β) :
    upd f k v k' = if k' = k then v else f k' := rfl

end TV
