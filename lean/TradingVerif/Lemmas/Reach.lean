/-
  Helpers for the end-to-end statement of C03 (a rebalance reaches its target): frame of the accrual,
  the shape of the trade list `make_trades` builds without threshold and lot rounding, and the key set of
  the imbalance.
-/
import TradingVerif.Lemmas.Valuation
set_option linter.unusedSectionVars false
set_option linter.unusedVariables false
set_option linter.unusedSimpArgs false
namespace TV
variable {K : Type} [Field K] [LinearOrder K] [IsStrictOrderedRing K]

/-- the accrual touches the cash balance and the interest clock only -/
theorem accrue_frame3 (pw : K → K → K) (w : World K) (t : Time) (a : Bool) (b : Broker K) :
    (accrue pw w t a b).1.pos = b.pos ∧ (accrue pw w t a b).1.held = b.held ∧
    (accrue pw w t a b).1.ex = b.ex := by
  unfold accrue
  simp only
  split_ifs <;>
    first
    | exact ⟨rfl, rfl, rfl⟩
    | (split <;> exact ⟨rfl, rfl, rfl⟩)

theorem mkTrade_fields (w : World K) (k : Key) (q bid ask : Option K) (t : Trade K)
    (h : mkTrade w k q bid ask = .ok t) :
    t.key = k ∧ q = some t.qty ∧ bid = some t.bid ∧ ask = some t.ask := by
  unfold mkTrade at h
  cases bid with
  | none => simp at h
  | some b =>
    cases ask with
    | none => simp at h
    | some a =>
      cases q with
      | none => simp at h
      | some qq =>
        simp only at h
        split_ifs at h with h0 hc
        cases h
        exact ⟨rfl, rfl, rfl, rfl⟩

/-- in a list whose keys are pairwise different, looking a member up by its key finds that member -/
theorem find_key_of_mem {A : Type} (key : A → Key) (l : List A) (hn : (l.map key).Nodup) (a : A) (ha : a ∈ l) :
    l.find? (fun x => key x = key a) = some a := by
  induction l with
  | nil => cases ha
  | cons x xs ih =>
      simp only [List.map_cons, List.nodup_cons] at hn
      by_cases hx : key x = key a
      · rcases List.mem_cons.mp ha with e | hin
        · subst e; simp
        · exact absurd (List.mem_map.mpr ⟨a, hin, hx.symm⟩) hn.1
      · have hin : a ∈ xs := by
          rcases List.mem_cons.mp ha with e | hin
          · subst e; exact absurd rfl hx
          · exact hin
        simp only [List.find?_cons, hx, decide_false]
        exact ih hn.2 hin

/-- a list with pairwise different keys holds at most one value per key -/
theorem pair_unique {B : Type} (l : List (Key × B)) (hn : (l.map (·.1)).Nodup) (k : Key) (v v' : B)
    (h1 : (k, v) ∈ l) (h2 : (k, v') ∈ l) (hne : v ≠ v') : False := by
  induction l with
  | nil => cases h1
  | cons x xs ih =>
      simp only [List.map_cons, List.nodup_cons] at hn
      rcases List.mem_cons.mp h1 with e1 | i1 <;> rcases List.mem_cons.mp h2 with e2 | i2
      · apply hne
        have := e1.trans e2.symm
        simpa using this
      · subst e1; exact hn.1 (List.mem_map.mpr ⟨(k, v'), i2, rfl⟩)
      · subst e2; exact hn.1 (List.mem_map.mpr ⟨(k, v), i1, rfl⟩)
      · exact ih hn.2 i1 i2

/-- the held, non-cash contracts with a non-zero position -/
def heldNZ (w : World K) (b : Broker K) : List Key :=
  b.held.filter fun k => !(w.spec k).isCash && decide (b.pos k ≠ 0)

theorem mem_heldNZ (w : World K) (b : Broker K) (k : Key) :
    k ∈ heldNZ w b ↔ k ∈ b.held ∧ (w.spec k).isCash = false ∧ b.pos k ≠ 0 := by
  unfold heldNZ
  rw [List.mem_filter]
  simp

/-- the absolute imbalance, spelled out -/
theorem imbalanceOf_abs (w : World K) (b : Broker K) (tgt : List (Key × Option K)) :
    imbalanceOf w b tgt true =
      ((tgt.map fun kv => (kv.1, kv.2.map fun q => if kv.1 ∈ heldNZ w b then q - b.pos kv.1 else q)) ++
       ((heldNZ w b).filter fun k => !(tgt.map (·.1)).contains k).map fun k => (k, some (0 - b.pos k))).filter
        (fun kv => kv.2 ≠ some 0) := by
  unfold imbalanceOf heldNZ
  simp only [Bool.not_true, Bool.false_eq_true, if_false]

/-- every entry of the imbalance is non-zero and is either a targeted contract (target minus position) or a
    held, untargeted one (minus the whole position) -/
theorem mem_imbalanceOf (w : World K) (b : Broker K) (tgt : List (Key × Option K)) (kv : Key × Option K)
    (h : kv ∈ imbalanceOf w b tgt true) :
    kv.2 ≠ some 0 ∧
    ((∃ v, (kv.1, v) ∈ tgt ∧ kv.2 = v.map fun q => if kv.1 ∈ heldNZ w b then q - b.pos kv.1 else q) ∨
     (kv.1 ∈ heldNZ w b ∧ kv.1 ∉ tgt.map (·.1) ∧ kv.2 = some (0 - b.pos kv.1))) := by
  rw [imbalanceOf_abs, List.mem_filter] at h
  refine ⟨by simpa using h.2, ?_⟩
  rcases List.mem_append.mp h.1 with ha | he
  · left
    obtain ⟨x, hx, rfl⟩ := List.mem_map.mp ha
    exact ⟨x.2, hx, rfl⟩
  · right
    obtain ⟨k, hk, rfl⟩ := List.mem_map.mp he
    rw [List.mem_filter] at hk
    refine ⟨hk.1, ?_, rfl⟩
    have := hk.2
    simpa using this

/-- the keys of the imbalance are pairwise different -/
theorem imbalanceOf_nodup (w : World K) (b : Broker K) (tgt : List (Key × Option K))
    (ht : (tgt.map (·.1)).Nodup) (hh : b.held.Nodup) : ((imbalanceOf w b tgt true).map (·.1)).Nodup := by
  rw [imbalanceOf_abs]
  refine List.Nodup.sublist (List.Sublist.map _ List.filter_sublist) ?_
  rw [List.map_append, List.map_map, List.map_map]
  have e1 : (tgt.map ((fun kv : Key × Option K => kv.1) ∘
      fun kv => (kv.1, kv.2.map fun q => if kv.1 ∈ heldNZ w b then q - b.pos kv.1 else q))) = tgt.map (·.1) := by
    apply List.map_congr_left; intro x _; rfl
  have e2 : (((heldNZ w b).filter fun k => !(tgt.map (·.1)).contains k).map
      ((fun kv : Key × Option K => kv.1) ∘ fun k => (k, some (0 - b.pos k)))) =
      (heldNZ w b).filter fun k => !(tgt.map (·.1)).contains k := by
    rw [List.map_congr_left (g := id) (by intro x _; rfl), List.map_id]
  rw [e1, e2, List.nodup_append]
  refine ⟨ht, ?_, ?_⟩
  · exact List.Nodup.sublist (List.filter_sublist.trans List.filter_sublist) hh
  · intro a ha c hc e
    subst e
    rw [List.mem_filter] at hc
    have := hc.2
    simp only [Bool.not_eq_eq_eq_not, Bool.not_true, List.contains_eq_mem, decide_eq_false_iff_not] at this
    exact this ha

variable [HasTrunc K]

/-- without a threshold and without lot rounding, `make_trades` builds one trade per imbalanced contract,
    for exactly the imbalance, at the book's quotes -/
theorem tradeFor_frac (w : World K) (b : Broker K) (nlv : K) (r : Rebal K) (alloc : List (Key × K))
    (k : Key) (q : K) (hf : r.fractional = true) (hm : r.margin = 0) :
    tradeFor w b nlv r alloc k q = (mkTrade w k (some q) (b.ex.books k).bid (b.ex.books k).ask).map some := by
  unfold tradeFor
  have hlt : ∀ x : K, ¬ absv x < 0 := fun x => not_lt.mpr (absv_nonneg x)
  simp only [hf, if_true, Bool.not_true, Bool.false_and, Bool.false_eq_true, if_false, hm]
  cases hacq : (b.ex.books k).acq (sgn q) <;> simp [hlt]

theorem tradesFor_frac (w : World K) (b : Broker K) (nlv : K) (r : Rebal K) (alloc : List (Key × K))
    (hf : r.fractional = true) (hm : r.margin = 0) (imb : List (Key × Option K)) (ts : List (Trade K))
    (h : tradesFor w b nlv r alloc imb = .ok ts) :
    ts.map (fun t => (t.key, t.qty)) = imb.map (fun kv => (kv.1, kv.2.getD 0)) ∧
    ∀ t ∈ ts, (b.ex.books t.key).bid = some t.bid ∧ (b.ex.books t.key).ask = some t.ask := by
  induction imb generalizing ts with
  | nil =>
      simp only [tradesFor, Except.ok.injEq] at h
      subst h
      exact ⟨rfl, by intro t ht; cases ht⟩
  | cons kv rest ih =>
      rw [tradesFor, tradeFor_frac w b nlv r alloc kv.1 _ hf hm] at h
      cases hmk : mkTrade w kv.1 (some (kv.2.getD 0)) (b.ex.books kv.1).bid (b.ex.books kv.1).ask with
      | error e => rw [hmk] at h; simp [Except.map] at h
      | ok t =>
        rw [hmk] at h
        simp only [Except.map] at h
        cases hr : tradesFor w b nlv r alloc rest with
        | error e => rw [hr] at h; simp at h
        | ok ts' =>
          rw [hr] at h
          simp only [Except.ok.injEq] at h
          subst h
          obtain ⟨hk, hq, hb, ha⟩ := mkTrade_fields w _ _ _ _ t hmk
          have hq' : kv.2.getD 0 = t.qty := by simpa using hq
          obtain ⟨ih1, ih2⟩ := ih ts' hr
          refine ⟨by simp [ih1, hk, hq'], ?_⟩
          intro u hu
          rcases List.mem_cons.mp hu with e | hin
          · subst e; rw [hk]; exact ⟨hb, ha⟩
          · exact ih2 u hin

/-- with fractional quantities (any threshold), `make_trades` either skips an imbalanced contract — only when
    its weight is below the threshold *and* it is part of the target — or builds the trade for exactly the
    imbalance -/
def skipped (w : World K) (b : Broker K) (nlv : K) (r : Rebal K) (alloc : List (Key × K)) (kv : Key × Option K) : Bool :=
  (match (b.ex.books kv.1).acq (sgn (kv.2.getD 0)) with
    | none => false
    | some p => decide (absv ((w.spec kv.1).mult * (kv.2.getD 0) * p / nlv) < r.margin)) &&
  (alloc.map (·.1)).contains kv.1

theorem tradeFor_frac_any (w : World K) (b : Broker K) (nlv : K) (r : Rebal K) (alloc : List (Key × K))
    (kv : Key × Option K) (hf : r.fractional = true) :
    tradeFor w b nlv r alloc kv.1 (kv.2.getD 0) =
      if skipped w b nlv r alloc kv then .ok none
      else (mkTrade w kv.1 (some (kv.2.getD 0)) (b.ex.books kv.1).bid (b.ex.books kv.1).ask).map some := by
  unfold tradeFor skipped
  simp only [hf, if_true, Bool.not_true, Bool.false_and, Bool.false_eq_true, if_false]
  cases (b.ex.books kv.1).acq (sgn (kv.2.getD 0)) <;> rfl

theorem tradesFor_frac_any (w : World K) (b : Broker K) (nlv : K) (r : Rebal K) (alloc : List (Key × K))
    (hf : r.fractional = true) (imb : List (Key × Option K)) (ts : List (Trade K))
    (h : tradesFor w b nlv r alloc imb = .ok ts) :
    ts.map (fun t => (t.key, t.qty)) =
      (imb.filter fun kv => !skipped w b nlv r alloc kv).map (fun kv => (kv.1, kv.2.getD 0)) := by
  induction imb generalizing ts with
  | nil =>
      simp only [tradesFor, Except.ok.injEq] at h
      subst h; rfl
  | cons kv rest ih =>
      rw [tradesFor, tradeFor_frac_any w b nlv r alloc kv hf] at h
      by_cases hsk : skipped w b nlv r alloc kv = true
      · simp only [hsk, if_true] at h
        cases hr : tradesFor w b nlv r alloc rest with
        | error e => rw [hr] at h; simp at h
        | ok ts' =>
          rw [hr] at h
          simp only [Except.ok.injEq] at h
          subst h
          rw [ih ts' hr]
          simp [List.filter_cons, hsk]
      · simp only [hsk, Bool.false_eq_true, if_false] at h
        cases hmk : mkTrade w kv.1 (some (kv.2.getD 0)) (b.ex.books kv.1).bid (b.ex.books kv.1).ask with
        | error e => rw [hmk] at h; simp [Except.map] at h
        | ok t =>
          rw [hmk] at h
          simp only [Except.map] at h
          cases hr : tradesFor w b nlv r alloc rest with
          | error e => rw [hr] at h; simp at h
          | ok ts' =>
            rw [hr] at h
            simp only [Except.ok.injEq] at h
            subst h
            obtain ⟨hk, hq, _, _⟩ := mkTrade_fields w _ _ _ _ t hmk
            have hq' : kv.2.getD 0 = t.qty := by simpa using hq
            simp [List.filter_cons, hsk, ih ts' hr, hk, hq']

/-- the quantity `make_trades` asks for: the imbalance itself, or its whole-lot part -/
def askedQty (r : Rebal K) (kv : Key × Option K) : K :=
  if r.fractional then kv.2.getD 0 else HasTrunc.trunc (kv.2.getD 0)

/-- is a trade emitted for this imbalanced contract? not when the whole-lot part is zero, not when the weight
    of the imbalance is below the threshold and the contract is part of the target -/
def emitted (w : World K) (b : Broker K) (nlv : K) (r : Rebal K) (alloc : List (Key × K)) (kv : Key × Option K) : Bool :=
  !(!r.fractional && decide (askedQty r kv = 0)) && !skipped w b nlv r alloc kv

theorem tradeFor_any (w : World K) (b : Broker K) (nlv : K) (r : Rebal K) (alloc : List (Key × K))
    (kv : Key × Option K) :
    tradeFor w b nlv r alloc kv.1 (kv.2.getD 0) =
      if emitted w b nlv r alloc kv then
        (mkTrade w kv.1 (some (askedQty r kv)) (b.ex.books kv.1).bid (b.ex.books kv.1).ask).map some
      else .ok none := by
  unfold tradeFor emitted skipped askedQty
  by_cases hf : r.fractional = true
  · simp only [hf, if_true, Bool.not_true, Bool.false_and, Bool.false_eq_true, if_false, Bool.not_false,
      Bool.true_and]
    cases (b.ex.books kv.1).acq (sgn (kv.2.getD 0)) with
    | none => simp
    | some p => simp only; split_ifs <;> simp_all
  · have hf' : r.fractional = false := by simpa using hf
    simp only [hf', Bool.false_eq_true, if_false, Bool.not_false, Bool.true_and]
    by_cases h0 : HasTrunc.trunc (kv.2.getD 0) = (0 : K)
    · simp [h0]
    · simp only [h0, decide_false, Bool.false_eq_true, if_false, Bool.not_false, Bool.true_and]
      cases (b.ex.books kv.1).acq (sgn (kv.2.getD 0)) with
      | none => simp
      | some p => simp only; split_ifs <;> simp_all

/-- **The trade list of a rebalance, exactly**: one trade per emitted imbalance entry, in order, for the asked
    quantity (any threshold, fractional or whole lots) -/
theorem tradesFor_any (w : World K) (b : Broker K) (nlv : K) (r : Rebal K) (alloc : List (Key × K))
    (imb : List (Key × Option K)) (ts : List (Trade K)) (h : tradesFor w b nlv r alloc imb = .ok ts) :
    ts.map (fun t => (t.key, t.qty)) =
      (imb.filter fun kv => emitted w b nlv r alloc kv).map (fun kv => (kv.1, askedQty r kv)) := by
  induction imb generalizing ts with
  | nil =>
      simp only [tradesFor, Except.ok.injEq] at h
      subst h; rfl
  | cons kv rest ih =>
      rw [tradesFor, tradeFor_any w b nlv r alloc kv] at h
      by_cases hem : emitted w b nlv r alloc kv = true
      · simp only [hem, if_true] at h
        cases hmk : mkTrade w kv.1 (some (askedQty r kv)) (b.ex.books kv.1).bid (b.ex.books kv.1).ask with
        | error e => rw [hmk] at h; simp [Except.map] at h
        | ok t =>
          rw [hmk] at h
          simp only [Except.map] at h
          cases hr : tradesFor w b nlv r alloc rest with
          | error e => rw [hr] at h; simp at h
          | ok ts' =>
            rw [hr] at h
            simp only [Except.ok.injEq] at h
            subst h
            obtain ⟨hk, hq, _, _⟩ := mkTrade_fields w _ _ _ _ t hmk
            have hq' : askedQty r kv = t.qty := by simpa using hq
            simp [List.filter_cons, hem, ih ts' hr, hk, hq']
      · simp only [hem, Bool.false_eq_true, if_false] at h
        cases hr : tradesFor w b nlv r alloc rest with
        | error e => rw [hr] at h; simp at h
        | ok ts' =>
          rw [hr] at h
          simp only [Except.ok.injEq] at h
          subst h
          rw [ih ts' hr]
          simp [List.filter_cons, hem]

/-- the keys of a cleaned target are among the resolved keys, without repetition when those are distinct -/
theorem cleanAlloc_zip_keys (w : World K) (ks : List Key) (v : List K) :
    ((cleanAlloc w (ks.zip v)).map (·.1)).Sublist ks := by
  unfold cleanAlloc
  refine (List.filter_sublist.map _).trans ?_
  induction ks generalizing v with
  | nil => simp
  | cons k ks ih =>
      cases v with
      | nil => simp
      | cons x xs => simp only [List.zip_cons_cons, List.map_cons]; exact (ih xs).cons₂ k

end TV
