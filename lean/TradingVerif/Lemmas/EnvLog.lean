/-
  What `notify` and the batch processors do to the observer log and to the bookkeeping fields of the
  environment state (used by C02, C04, C07, C08, C10).
-/
import TradingVerif.Lemmas.Partition
import TradingVerif.Model.Env
set_option linter.unusedSectionVars false
set_option linter.unusedVariables false
namespace TV
section
variable {α : Type} [Add α] [Sub α] [Mul α] [Div α] [Neg α] [LT α] [LE α]
  [DecidableLT α] [DecidableLE α] [DecidableEq α] [OfNat α 0] [OfNat α 1] [OfNat α 2]
  [IntCast α] [HasTrunc α]

def isMarket : LogKind → Bool
  | .quote _ => true
  | .disc _ => true
  | .custom _ => true
  | _ => false

def marketLog (l : List LogEntry) : List LogEntry := l.filter (fun e => isMarket e.kind)

/-- the log entry a correctly dispatched transmitter event produces -/
def entryOf (e : TEvent (Payload α)) : LogEntry := ⟨logKindOf e.payload, some e.time, some e.time⟩

theorem isMarket_logKindOf (p : Payload α) : isMarket (logKindOf p) = true := by
  cases p with
  | market m => cases m <;> rfl
  | custom i => rfl

/-- every entry written by `notify` carries `env.now() = event.time` -/
def LogOK (l : List LogEntry) : Prop := ∀ e ∈ l, e.clock = e.stamp

theorem dispatch_log (s : EnvState α) (k : LogKind) (t : Option Time) (m : Option (MEvent α)) :
    (dispatch s k t m).log = s.log ++ [⟨k, t, s.now⟩] := rfl

theorem notify_log (s : EnvState α) (k : LogKind) (t : Option Time) (m : Option (MEvent α)) :
    (notify s k t m).log =
      s.log ++ (if isNewDate s t then
        [⟨.newDate, (match s.lastEvent with | some x => x | none => none),
                    (match s.lastEvent with | some x => x | none => none)⟩] else []) ++ [⟨k, t, t⟩] := by
  unfold notify
  by_cases h : isNewDate s t = true
  · simp only [h, if_true, dispatch, List.append_assoc]; rfl
  · simp only [h, Bool.false_eq_true, if_false, dispatch, List.append_nil]

/-- fields that `notify` never touches -/
theorem notify_frame (s : EnvState α) (k : LogKind) (t : Option Time) (m : Option (MEvent α)) :
    (notify s k t m).steps = s.steps ∧ (notify s k t m).cursor = s.cursor ∧
    (notify s k t m).pendLat = s.pendLat ∧ (notify s k t m).pendNon = s.pendNon ∧
    (notify s k t m).done = s.done ∧ (notify s k t m).queue = s.queue ∧
    (notify s k t m).now = t ∧ (notify s k t m).contractClock = t ∧ (notify s k t m).lastEvent = some t := by
  unfold notify
  by_cases h : isNewDate s t = true <;> simp [h, dispatch]

theorem notify_broker_none (s : EnvState α) (k : LogKind) (t : Option Time) :
    (notify s k t none).broker = s.broker := by
  unfold notify
  by_cases h : isNewDate s t = true <;> simp [h, dispatch]

/-- `notify` changes the broker only through the exchange -/
theorem notify_broker_ex (s : EnvState α) (k : LogKind) (t : Option Time) (m : Option (MEvent α)) :
    (notify s k t m).broker = { s.broker with ex := (notify s k t m).broker.ex } := by
  unfold notify
  by_cases h : isNewDate s t = true <;> cases m <;> simp [h, dispatch]

theorem notify_logOK (s : EnvState α) (k : LogKind) (t : Option Time) (m : Option (MEvent α))
    (h : LogOK s.log) : LogOK (notify s k t m).log := by
  rw [notify_log]
  intro e he
  simp only [List.mem_append] at he
  rcases he with (he | he) | he
  · exact h e he
  · split_ifs at he
    · simp only [List.mem_singleton] at he; subst he; rfl
    · cases he
  · simp only [List.mem_singleton] at he; subst he; rfl

theorem notify_market (s : EnvState α) (k : LogKind) (t : Option Time) (m : Option (MEvent α)) :
    marketLog (notify s k t m).log = marketLog s.log ++ (if isMarket k then [⟨k, t, t⟩] else []) := by
  rw [notify_log]
  unfold marketLog
  simp only [List.filter_append]
  have h1 : ∀ x : Option Time, List.filter (fun e : LogEntry => isMarket e.kind)
      (if isNewDate s t then [⟨.newDate, x, x⟩] else []) = [] := by
    intro x; split_ifs <;> simp [isMarket]
  rw [h1]
  by_cases hk : isMarket k = true <;> simp [hk]

theorem notifyEvent_eq (s : EnvState α) (e : TEvent (Payload α)) :
    ∃ m, notifyEvent s e = notify s (logKindOf e.payload) (some e.time) m := by
  unfold notifyEvent
  cases e.payload with
  | market m => exact ⟨some m, rfl⟩
  | custom i => exact ⟨none, rfl⟩

theorem notifyEvent_market (s : EnvState α) (e : TEvent (Payload α)) :
    marketLog (notifyEvent s e).log = marketLog s.log ++ [entryOf e] := by
  obtain ⟨m, hm⟩ := notifyEvent_eq s e
  rw [hm, notify_market, isMarket_logKindOf]
  rfl

theorem notifyEvent_logOK (s : EnvState α) (e : TEvent (Payload α)) (h : LogOK s.log) :
    LogOK (notifyEvent s e).log := by
  obtain ⟨m, hm⟩ := notifyEvent_eq s e
  rw [hm]; exact notify_logOK s _ _ m h

theorem notifyEvent_frame (s : EnvState α) (e : TEvent (Payload α)) :
    (notifyEvent s e).steps = s.steps ∧ (notifyEvent s e).cursor = s.cursor ∧
    (notifyEvent s e).pendLat = s.pendLat ∧ (notifyEvent s e).pendNon = s.pendNon ∧
    (notifyEvent s e).done = s.done ∧ (notifyEvent s e).queue = s.queue := by
  obtain ⟨m, hm⟩ := notifyEvent_eq s e
  rw [hm]
  obtain ⟨h1, h2, h3, h4, h5, h6, _⟩ := notify_frame s (logKindOf e.payload) (some e.time) m
  exact ⟨h1, h2, h3, h4, h5, h6⟩

theorem foldl_notifyEvent (l : List (TEvent (Payload α))) (s : EnvState α) :
    marketLog (l.foldl notifyEvent s).log = marketLog s.log ++ l.map entryOf ∧
    (LogOK s.log → LogOK (l.foldl notifyEvent s).log) ∧
    (l.foldl notifyEvent s).steps = s.steps ∧ (l.foldl notifyEvent s).cursor = s.cursor ∧
    (l.foldl notifyEvent s).pendLat = s.pendLat ∧ (l.foldl notifyEvent s).pendNon = s.pendNon ∧
    (l.foldl notifyEvent s).done = s.done ∧ (l.foldl notifyEvent s).queue = s.queue := by
  induction l generalizing s with
  | nil => simp
  | cons e es ih =>
      simp only [List.foldl_cons, List.map_cons]
      obtain ⟨i1, i2, i3, i4, i5, i6, i7, i8⟩ := ih (notifyEvent s e)
      obtain ⟨f1, f2, f3, f4, f5, f6⟩ := notifyEvent_frame s e
      refine ⟨?_, ?_, i3.trans f1, i4.trans f2, i5.trans f3, i6.trans f4, i7.trans f5, i8.trans f6⟩
      · rw [i1, notifyEvent_market]; simp
      · intro h; exact i2 (notifyEvent_logOK s e h)

/-- `_process_latent_events` delivers exactly the pending latent batch, once, in order -/
theorem processLatent_spec (s : EnvState α) :
    marketLog (processLatent s).log = marketLog s.log ++ s.pendLat.map entryOf ∧
    (LogOK s.log → LogOK (processLatent s).log) ∧
    (processLatent s).steps = s.steps ∧ (processLatent s).cursor = s.cursor ∧
    (processLatent s).pendLat = [] ∧ (processLatent s).pendNon = s.pendNon ∧
    (processLatent s).done = s.done ∧ (processLatent s).queue = s.queue := by
  obtain ⟨i1, i2, i3, i4, i5, i6, i7, i8⟩ := foldl_notifyEvent s.pendLat s
  unfold processLatent
  exact ⟨i1, i2, i3, i4, rfl, i6, i7, i8⟩

/-- `_process_nonlatent_events` delivers exactly the pending non-latent batch and then loads the batches
    of the next timestep of the episode — or flags the end of the data -/
theorem processNonlatent_spec (cfg : EnvCfg α) (s : EnvState α) (hc : s.cursor ≠ 0) :
    marketLog (processNonlatent cfg s).log = marketLog s.log ++ s.pendNon.map entryOf ∧
    (LogOK s.log → LogOK (processNonlatent cfg s).log) ∧ (processNonlatent cfg s).steps = s.steps ∧
    (processNonlatent cfg s).queue = s.queue ∧
    (s.steps[s.cursor]? = none → (processNonlatent cfg s).done = true ∧ (processNonlatent cfg s).cursor = s.cursor) ∧
    (∀ cur, s.steps[s.cursor]? = some cur →
      (processNonlatent cfg s).done = s.done ∧ (processNonlatent cfg s).cursor = s.cursor + 1 ∧
      (processNonlatent cfg s).pendLat = cfg.tx.latent cur ∧ (processNonlatent cfg s).pendNon = cfg.tx.nonlatent cur) := by
  obtain ⟨i1, i2, i3, i4, i5, i6, i7, i8⟩ := foldl_notifyEvent s.pendNon s
  unfold processNonlatent
  cases hcur : s.steps[s.cursor]? with
  | none =>
      have hcur' : (List.foldl notifyEvent s s.pendNon).steps[(List.foldl notifyEvent s s.pendNon).cursor]? = none := by
        rw [i3, i4]; exact hcur
      simp only [hcur']
      refine ⟨i1, i2, i3, i8, ?_, ?_⟩
      · intro _; exact ⟨by trivial, i4⟩
      · intro cur h; cases h
  | some cur =>
      have hcur' : (List.foldl notifyEvent s s.pendNon).steps[(List.foldl notifyEvent s s.pendNon).cursor]? = some cur := by
        rw [i3, i4]; exact hcur
      have hc' : (List.foldl notifyEvent s s.pendNon).cursor ≠ 0 := by rw [i4]; exact hc
      simp only [hcur', hc', if_false]
      refine ⟨i1, i2, i3, i8, ?_, ?_⟩
      · intro h; cases h
      · intro c hcc
        cases hcc
        exact ⟨i7, by rw [i4], rfl, rfl⟩

end
end TV
