/-
  Pre-repair variants of model functions (the behaviour of the pinned tree before the `fix:`
  commits), kept only so that the property files can show, on concrete histories, that the
  theorems distinguish them (mutant witnesses).
-/
import TradingVerif.Model.Broker
import TradingVerif.Model.Env
namespace TV.Legacy
open TV

section
variable {α : Type} [Add α] [Sub α] [Mul α] [Div α] [Neg α] [LT α] [LE α]
  [DecidableLT α] [DecidableLE α] [DecidableEq α] [OfNat α 0] [OfNat α 1] [OfNat α 2]

/-- F1: `Broker.transact` re-based the *whole* position at the acquisition price -/
def transact (w : World α) (b0 : Broker α) (t : Trade α) : Broker α :=
  let k := t.key
  let s := w.spec k
  let b := mark1 w k b0
  let px := t.acq
  let qNew := b.pos k + t.qty
  let mexp := px * absv qNew * s.mult * s.mr
  let mdiff := mexp - b.margin k
  let fee := t.commission w
  let b1 : Broker α := { b with
    cash := b.cash - fee - t.costCash w - mdiff
    margin := upd b.margin k (b.margin k + mdiff)
    pos := upd b.pos k qNew
    lastMark := upd b.lastMark k (some px)
    held := if k ∈ b.held then b.held else b.held ++ [k]
    comm := b.comm + fee
    basis := upd b.basis k (b.basis k + t.qty * px) }
  mark1 w k b1

/-- F11: `marking_to_market` skipped a contract without a liquidation price even when nothing was held, leaving
    the settlement of a closing trade in the margin account (where a flat position's valuation ignores it) -/
def mark1F11 (w : World α) (k : Key) (b : Broker α) : Broker α :=
  let s := w.spec k
  if s.mr = 0 then b else
  match liqPrice b k (b.pos k), b.lastMark k with
  | some p, some lp =>
      let m1 := b.margin k + b.pos k * s.mult * (p - lp)
      let target := p * absv (b.pos k) * s.mult * s.mr
      let excess := m1 - target
      { b with margin := upd b.margin k (m1 - excess)
               cash := b.cash + excess
               lastMark := upd b.lastMark k (some p) }
  | _, _ => b

/-- the current `transact` with the pre-F11 marking -/
def transactF11 (w : World α) (b0 : Broker α) (t : Trade α) : Broker α :=
  let k := t.key
  let s := w.spec k
  let b := mark1F11 w k b0
  let px := t.acq
  let qNew := b.pos k + t.qty
  let mexp := px * absv qNew * s.mult * s.mr
  let mdiff := mexp - b.margin k
  let fee := t.commission w
  let settle : α := match b.lastMark k with
    | some lp => if s.mr = 0 then 0 else t.qty * s.mult * (lp - px)
    | none => 0
  let b1 : Broker α := { b with
    cash := b.cash - fee - t.costCash w - mdiff
    margin := upd b.margin k (b.margin k + mdiff + settle)
    pos := upd b.pos k qNew
    lastMark := upd b.lastMark k (match b.lastMark k with | some lp => some lp | none => some px)
    held := if k ∈ b.held then b.held else b.held ++ [k]
    comm := b.comm + fee
    basis := upd b.basis k (b.basis k + t.qty * px) }
  mark1F11 w k b1

/-- F2: the liquidation value of a fully-paid contract omitted the multiplier -/
def valueOfLiq (w : World α) (b : Broker α) (k : Key) : Option α :=
  let q := b.pos k
  let s := w.spec k
  if q = 0 then some 0 else
  match (if 0 ≤ q then (b.ex.books k).bid else (b.ex.books k).ask) with
  | none => none
  | some p => some (s.cashReq * q * p + b.margin k)

end
section
variable {α : Type} [Add α] [Sub α] [Mul α] [Div α] [Neg α] [LT α] [LE α]
  [DecidableLT α] [DecidableLE α] [DecidableEq α] [OfNat α 0] [OfNat α 1] [OfNat α 2]
  [IntCast α] [HasTrunc α]

/-- F9: `step` did not re-assert the environment's own time into the process-wide contract clock -/
def stepPre (s : EnvState α) (a : Action α) : EnvState α × Action α :=
  let q := a :: s.queue
  (processLatent { s with queue := q.dropLast }, q.getLast?.getD a)

def envStep (pw : α → α → α) (lg : α → α) (cfg : EnvCfg α) (s : EnvState α) (a : Action α) :
    EnvState α × Except Err (StepOut α) :=
  if s.done then (s, .error .episodeOver) else
  match stepExec pw cfg (stepPre s a).1 (stepPre s a).2 with
  | (s2, .error e) => (s2, .error e)
  | (s2, .ok traded) => stepFinish lg cfg s2 traded

end
end TV.Legacy
