/-
  Model of `tradingenv/broker/{broker,trade,fees,allocation,rebalancing,track_record}.py`.

  Conventions
  * numbers are polymorphic (`α`); a NaN quote is `none`;
  * the base-currency entry of `_holdings_quantity` is the field `cash`; the cash book is quoted
    1.0 : 1.0 (as `TradingEnv.reset` does), so cash is valued at par;
  * Python exceptions: `Err`; an operation that raises after mutating returns the mutated state
    together with the error;
  * ghost fields (`interest`, `comm`, `basis`, `snapped`) do not influence any non-ghost field;
    they carry the history the ledger theorems speak about.
-/
import TradingVerif.Model.Exchange
namespace TV

inductive Err where
  | endOfEpisode      -- EndOfEpisodeError: NLV <= 0
  | missingPrice      -- ValueError: missing liquidation price of a non-zero position
  | unexpectedSign    -- ValueError: acq_price(NaN)
  | missingBid | missingAsk | nanQty | zeroQty | cashTrade   -- Trade.__init__ rejections
  | intOfNan          -- int(NaN)
  | timeRegression    -- accrued_interest(now < last)
  | duplicateTimestamp
  | invalidAction | episodeOver | other
deriving DecidableEq, Repr

structure Spec (α : Type) where
  mult : α
  cashReq : α
  mr : α
  isCash : Bool := false

/-- static configuration of a broker: contract specs, fee schedule, epsilon -/
structure World (α : Type) where
  spec : Key → Spec α
  fixed : α
  prop : α
  markup : α
  rateKey : Key
  eps : α

/-- `Trade` after its constructor checks. -/
structure Trade (α : Type) where
  key : Key
  qty : α
  bid : α
  ask : α

/-- what `TrackRecord._checkpoint` stores (the fields the properties speak about) -/
structure Entry (α : Type) where
  time : Time
  interest : α
  nlvPre : α
  nlvPost : α
  trades : List (Trade α)
  target : List (Key × α)
  posPost : List (Key × α)
  cashPost : α
  cashPre : α              -- cash of the pre-trade snapshot (after the accrual and the marking)
  posPre : List (Key × α)       -- positions of the pre-trade snapshot
  marginPre : List (Key × α)    -- margins posted in the pre-trade snapshot
  marginPost : List (Key × α)   -- margins posted in the post-trade snapshot

structure Broker (α : Type) where
  ex : Exchange α := {}
  cash : α
  pos : Key → α
  margin : Key → α
  lastMark : Key → Option α := fun _ => none
  held : List Key := []           -- contracts ever transacted, insertion order
  lastAccrual : Option Time := none
  record : List (Entry α) := []
  -- ghost ledger
  interest : α
  comm : α
  basis : Key → α
  snapped : Bool := false

section
variable {α : Type} [Add α] [Sub α] [Mul α] [Div α] [Neg α] [LT α] [LE α]
  [DecidableLT α] [DecidableLE α] [DecidableEq α] [OfNat α 0] [OfNat α 1] [OfNat α 2]

def sumL : List α → α
  | [] => 0
  | x :: xs => x + sumL xs

def Broker.init (deposit : α) : Broker α :=
  { cash := deposit, pos := fun _ => 0, margin := fun _ => 0, interest := 0, comm := 0, basis := fun _ => 0 }

/-! ### Trade -/
def Trade.acq (t : Trade α) : α := if 0 < t.qty then t.ask else t.bid
def Trade.notional (w : World α) (t : Trade α) : α := t.acq * t.qty * (w.spec t.key).mult
def Trade.costCash (w : World α) (t : Trade α) : α := t.notional w * (w.spec t.key).cashReq
def Trade.commission (w : World α) (t : Trade α) : α := w.fixed + absv (t.notional w) * w.prop
def Trade.costSpread (w : World α) (t : Trade α) : α := absv t.qty * (w.spec t.key).mult * (t.ask - t.bid)

/-- `Trade.__init__`: the order of the rejections is the constructor's. `none` = NaN. -/
def mkTrade (w : World α) (k : Key) (qty bid ask : Option α) : Except Err (Trade α) :=
  match bid with
  | none => .error .missingBid
  | some b =>
    match ask with
    | none => .error .missingAsk
    | some a =>
      match qty with
      | none => .error .nanQty
      | some q =>
        if q = 0 then .error .zeroQty
        else if (w.spec k).isCash then .error .cashTrade
        else .ok ⟨k, q, b, a⟩

/-! ### Marking to market -/

/-- liquidation price of the book of `k` for a position of size `q` (`liq_price(q)`) -/
def liqPrice (b : Broker α) (k : Key) (q : α) : Option α := (b.ex.books k).liq (sgn q)

/-- `Broker.marking_to_market(contract)`: variation margin, then sweep to/from cash -/
def mark1 (w : World α) (k : Key) (b : Broker α) : Broker α :=
  let s := w.spec k
  if s.mr = 0 then b else
  match liqPrice b k (b.pos k), b.lastMark k with
  | some p, some lp =>
      let m1 := b.margin k + b.pos k * s.mult * (p - lp)
      let target := p * absv (b.pos k) * s.mult * s.mr
      let excess := m1 - target
      { b with margin := upd b.margin k (m1 - excess)
               cash := b.cash + excess
               lastMark := upd b.lastMark k (some p) }
  | none, _ =>
      -- no liquidation price: nothing can be marked - but when nothing is held, whatever is left in the margin
      -- account (the settlement of the closing trade) goes back to cash; no price is needed for that (repair F11)
      if b.pos k = 0 then { b with margin := upd b.margin k 0, cash := b.cash + b.margin k } else b
  | some _, none => b

/-- `Broker.marking_to_market()` over every contract with a margin entry -/
def markAll (w : World α) (b : Broker α) : Broker α := b.held.foldl (fun b k => mark1 w k b) b

/-! ### Transact (the repaired bookkeeping: only the traded quantity pays the spread) -/
def transact (w : World α) (b0 : Broker α) (t : Trade α) : Broker α :=
  let k := t.key
  let s := w.spec k
  let b := mark1 w k b0
  let px := t.acq
  let qNew := b.pos k + t.qty
  let mexp := px * absv qNew * s.mult * s.mr
  let mdiff := mexp - b.margin k
  let fee := t.commission w
  let snap : Bool := decide (absv qNew < w.eps)
  let qFin := if snap then 0 else qNew
  let settle : α := match b.lastMark k with
    | some lp => if s.mr = 0 then 0 else t.qty * s.mult * (lp - px)
    | none => 0
  let b1 : Broker α := { b with
    cash := b.cash - fee - t.costCash w - mdiff
    margin := upd b.margin k (b.margin k + mdiff + settle)
    pos := upd b.pos k qFin
    lastMark := upd b.lastMark k (match b.lastMark k with | some lp => some lp | none => some px)
    held := if k ∈ b.held then b.held else b.held ++ [k]
    comm := b.comm + fee
    basis := upd b.basis k (b.basis k + t.qty * px)
    snapped := b.snapped || (snap && decide (qNew ≠ 0)) }
  mark1 w k b1

/-! ### Valuation -/
inductive ValKind | notional | liquidation
deriving DecidableEq

/-- one term of `holdings_values(kind)`; `Except.error` = the `ValueError` for a missing price -/
def valueOf (w : World α) (kind : ValKind) (b : Broker α) (k : Key) : Except Err α :=
  let q := b.pos k
  let s := w.spec k
  if q = 0 then .ok 0 else
  match (if 0 ≤ q then (b.ex.books k).bid else (b.ex.books k).ask) with
  | none => .error .missingPrice
  | some p =>
      match kind with
      | .notional => .ok (q * p * s.mult)
      | .liquidation => .ok (s.cashReq * q * p * s.mult + b.margin k)

def valuesOn (w : World α) (kind : ValKind) (b : Broker α) : List Key → Except Err (List (Key × α))
  | [] => .ok []
  | k :: ks =>
      match valueOf w kind b k with
      | .error e => .error e
      | .ok v =>
          match valuesOn w kind b ks with
          | .error e => .error e
          | .ok vs => .ok ((k, v) :: vs)

/-- `Broker.holdings_values(kind)` over the held contracts (the first missing price raises) -/
def valuesOf (w : World α) (kind : ValKind) (b : Broker α) : Except Err (List (Key × α)) :=
  valuesOn w kind b b.held

/-- sum of `holdings_values('liquidation')` on a marked state, cash at par -/
def nlvMarked (w : World α) (b : Broker α) : Except Err α :=
  match valuesOf w .liquidation b with
  | .error e => .error e
  | .ok vs => .ok (b.cash + sumL (vs.map (·.2)))

/-- `Broker.net_liquidation_value(raise_if_broke)`: marks to market (state change!), values, raises -/
def netLiq (w : World α) (raiseIfBroke : Bool) (b : Broker α) : Broker α × Except Err α :=
  let b' := markAll w b
  match nlvMarked w b' with
  | .error e => (b', .error e)
  | .ok v => if raiseIfBroke && decide (v ≤ 0) then (b', .error .endOfEpisode) else (b', .ok v)

/-- `Broker.holdings_weights()` -/
def weightsOf (w : World α) (b : Broker α) : Broker α × Except Err (List (Key × α)) :=
  match netLiq w true b with
  | (b', .error e) => (b', .error e)
  | (b', .ok v) =>
      match valuesOf w .notional b' with
      | .error e => (b', .error e)
      | .ok vs => (b', .ok (vs.map fun kv => (kv.1, kv.2 / v)))

/-! ### Interest -/
variable [IntCast α]

/-- seconds in a 365-day year, in microseconds -/
def usPerYear : Int := 31536000 * 1000000

/-- `Broker.accrued_interest(now, accrue)`; `pw` is the power function (`**`), a leaf. -/
def accruedAmount (pw : α → α → α) (cash rate markup : α) (dtUs : Int) : α :=
  let years : α := (dtUs : α) / (usPerYear : α)
  let cagr := match sgn cash with
    | .pos => rate - markup
    | .neg => rate + markup
    | .zero => rate
  let a := cash * (pw (1 + cagr) years - 1)
  if 0 < cash ∧ a < 0 then 0 else a

def accrue (pw : α → α → α) (w : World α) (now : Time) (doAccrue : Bool) (b : Broker α) :
    Broker α × Except Err α :=
  let last := b.lastAccrual.getD now
  let b0 := { b with lastAccrual := some last }
  if now < last then (b0, .error .timeRegression) else
  match (b.ex.books w.rateKey).mid with
  | none => (b0, .error .other)     -- a NaN rate poisons the balance; outside the model
  | some r =>
      let a := accruedAmount pw b.cash r w.markup (now - last)
      if doAccrue then
        ({ b0 with cash := b.cash + a, lastAccrual := some now, interest := b.interest + a }, .ok a)
      else (b0, .ok a)

/-! ### Rebalancing -/
class HasTrunc (α : Type) where
  /-- Python `int(x)`: truncation toward zero -/
  trunc : α → α

structure Rebal (α : Type) where
  time : Time
  byWeight : Bool := true          -- measure = 'weight' | 'nr-contracts'
  absolute : Bool := true
  fractional : Bool := true
  margin : α
  target : List (Key × α)          -- as given (keys distinct)

/-- `_Allocation.__init__`: cash and zero entries are dropped -/
def cleanAlloc (w : World α) (l : List (Key × α)) : List (Key × α) :=
  l.filter fun kv => !(w.spec kv.1).isCash && decide (kv.2 ≠ 0)

def lookupD (l : List (Key × α)) (k : Key) : α := (l.lookup k).getD 0

/-- `Weights._to_nr_contracts`: weight * nlv / acquisition price / multiplier (`none` = NaN) -/
def toNrContracts (w : World α) (b : Broker α) (nlv : α) (alloc : List (Key × α)) : List (Key × Option α) :=
  alloc.map fun kv =>
    (kv.1, ((b.ex.books kv.1).acq (sgn kv.2)).map fun p => kv.2 * nlv / p / (w.spec kv.1).mult)

/-- `imbalance -= NrContracts(holdings)`: target keys first, then held-but-untargeted keys; zeros dropped -/
def imbalanceOf (w : World α) (b : Broker α) (tgt : List (Key × Option α)) (absolute : Bool) :
    List (Key × Option α) :=
  if !absolute then tgt.filter (fun kv => kv.2 ≠ some 0) else
  let heldNZ := b.held.filter fun k => !(w.spec k).isCash && decide (b.pos k ≠ 0)
  let a := tgt.map fun kv => (kv.1, kv.2.map fun q => if kv.1 ∈ heldNZ then q - b.pos kv.1 else q)
  let extra := (heldNZ.filter fun k => !(tgt.map (·.1)).contains k).map fun k => (k, some (0 - b.pos k))
  (a ++ extra).filter (fun kv => kv.2 ≠ some 0)

variable [HasTrunc α]

/-- `Rebalancing.make_trades` for one imbalanced contract: `none` = skipped -/
def tradeFor (w : World α) (b : Broker α) (nlv : α) (r : Rebal α) (alloc : List (Key × α))
    (k : Key) (q : α) : Except Err (Option (Trade α)) :=
  let q' := if r.fractional then q else HasTrunc.trunc q
  if !r.fractional && decide (q' = 0) then .ok none             -- sub-lot imbalance: skipped
  else
    -- weight of the (untruncated) imbalance; a NaN price makes the comparison false
    let below : Bool := match (b.ex.books k).acq (sgn q) with
      | none => false
      | some p => decide (absv ((w.spec k).mult * q * p / nlv) < r.margin)
    if below && (alloc.map (·.1)).contains k then .ok none
    else (mkTrade w k (some q') (b.ex.books k).bid (b.ex.books k).ask).map some

/-- the loop of `make_trades`: one (possibly skipped) trade per imbalanced contract; the first rejection
    aborts the whole computation -/
def tradesFor (w : World α) (b : Broker α) (nlv : α) (r : Rebal α) (alloc : List (Key × α)) :
    List (Key × Option α) → Except Err (List (Trade α))
  | [] => .ok []
  | kv :: rest =>
      match tradeFor w b nlv r alloc kv.1 (kv.2.getD 0) with
      | .error e => .error e
      | .ok ot =>
          match tradesFor w b nlv r alloc rest with
          | .error e => .error e
          | .ok ts => .ok (match ot with | some t => t :: ts | none => ts)

def makeTrades (w : World α) (b : Broker α) (nlv : α) (r : Rebal α) : Except Err (List (Trade α)) :=
  let alloc := cleanAlloc w r.target
  let tgt : List (Key × Option α) :=
    if r.byWeight then toNrContracts w b nlv alloc else alloc.map fun kv => (kv.1, some kv.2)
  let imb := imbalanceOf w b tgt r.absolute
  -- `_to_weights` raises on a NaN quantity before any trade is built
  if imb.any (fun kv => kv.2.isNone) then .error .unexpectedSign else
  tradesFor w b nlv r alloc imb

/-- second half of `Broker.rebalance`: execute the trades, snapshot, checkpoint -/
def rebalanceExec (w : World α) (r : Rebal α) (interest nlvPre : α) (trades : List (Trade α))
    (b2 : Broker α) : Broker α × Except Err Unit :=
  match netLiq w true (trades.foldl (transact w) b2) with
  | (b4, .error e) => (b4, .error e)
  | (b4, .ok nlvPost) =>
    if (b4.record.map (·.time)).contains r.time then (b4, .error .duplicateTimestamp)
    else
      let e : Entry α := { time := r.time, interest := interest, nlvPre := nlvPre, nlvPost := nlvPost,
                           trades := trades, target := cleanAlloc w r.target,
                           posPost := b4.held.map (fun k => (k, b4.pos k)), cashPost := b4.cash,
                           cashPre := b2.cash,
                           posPre := b2.held.map (fun k => (k, b2.pos k)),
                           marginPre := b2.held.map (fun k => (k, b2.margin k)),
                           marginPost := b4.held.map (fun k => (k, b4.margin k)) }
      ({ b4 with record := b4.record ++ [e] }, .ok ())

/-- `Broker.rebalance`: accrue, snapshot, build all trades, then execute them -/
def rebalance (pw : α → α → α) (w : World α) (r : Rebal α) (b : Broker α) : Broker α × Except Err Unit :=
  match accrue pw w r.time true b with
  | (b1, .error e) => (b1, .error e)
  | (b1, .ok interest) =>
    match netLiq w true b1 with
    | (b2, .error e) => (b2, .error e)
    | (b2, .ok nlvPre) =>
      match makeTrades w b2 nlvPre r with
      | .error e => (b2, .error e)
      | .ok trades => rebalanceExec w r interest nlvPre trades b2

/-! ### Operations of a broker history -/
inductive Op (α : Type) where
  | ev (e : MEvent α)                              -- quote update / discontinuation
  | trade (k : Key) (qty bid ask : Option α)       -- a trade at explicit prices
  | tradeq (k : Key) (qty : Option α)              -- a trade built from the book's current quotes
  | mark (k : Key)
  | markAll
  | nlv (raiseIfBroke : Bool)
  | values (kind : ValKind)
  | weights
  | accrue (t : Time) (doAccrue : Bool)
  | rebal (r : Rebal α)

inductive Out (α : Type) where
  | unit
  | num (v : α)
  | kvs (l : List (Key × α))
  | err (e : Err)

def stepOp (pw : α → α → α) (w : World α) (b : Broker α) : Op α → Broker α × Out α
  | .ev e => ({ b with ex := b.ex.step e }, .unit)
  | .trade k q bid ask =>
      match mkTrade w k q bid ask with
      | .error e => (b, .err e)
      | .ok t => (transact w b t, .unit)
  | .tradeq k q =>
      match mkTrade w k q (b.ex.books k).bid (b.ex.books k).ask with
      | .error e => (b, .err e)
      | .ok t => (transact w b t, .unit)
  | .mark k => (mark1 w k b, .unit)
  | .markAll => (markAll w b, .unit)
  | .nlv r =>
      match netLiq w r b with
      | (b', .ok v) => (b', .num v)
      | (b', .error e) => (b', .err e)
  | .values kind =>
      match valuesOf w kind b with
      | .ok vs => (b, .kvs vs)
      | .error e => (b, .err e)
  | .weights =>
      match weightsOf w b with
      | (b', .ok vs) => (b', .kvs vs)
      | (b', .error e) => (b', .err e)
  | .accrue t a =>
      match accrue pw w t a b with
      | (b', .ok v) => (b', .num v)
      | (b', .error e) => (b', .err e)
  | .rebal r =>
      match rebalance pw w r b with
      | (b', .ok ()) => (b', .unit)
      | (b', .error e) => (b', .err e)

def runOps (pw : α → α → α) (w : World α) (b : Broker α) (ops : List (Op α)) : Broker α :=
  ops.foldl (fun b op => (stepOp pw w b op).1) b

end
end TV
