/-
  Model of the tabular environment's data path (`TradingEnvXY.__init__`, `_make_timesteps`,
  `_make_transmitter`, `State.process_EventNewObservation` / `State.parse`).
  A table column is a list of optional numbers (`none` = NaN); the sklearn transformer is an opaque
  row-wise function whose output the harness supplies.
-/
import TradingVerif.Model.Num
namespace TV.Tab

section
variable {β : Type}

/-- `deque(maxlen = window)`: the first observation fills the whole queue, every observation is appended -/
def pushObs (window : Nat) (first : Bool) (q : List β) (row : β) : List β :=
  let q1 := if first then List.replicate window row else q
  let q2 := q1 ++ [row]
  q2.drop (q2.length - window)

/-- the queue after a non-empty sequence of observations -/
def queueAfter (window : Nat) : List β → List β
  | [] => []
  | r :: rs => rs.foldl (pushObs window false) (pushObs window true [] r)

/-- every `stride`-th element starting from the first -/
def everyNth (stride : Nat) : List β → List β
  | [] => []
  | x :: xs => x :: everyNth stride (xs.drop (stride - 1))
termination_by l => l.length
decreasing_by simp [List.length_drop]; omega

/-- `x[::-stride][::-1]`: rows at offsets 0, stride, 2·stride, … back from the most recent, oldest first -/
def thin (stride : Option Nat) (q : List β) : List β :=
  match stride with
  | none => q
  | some 0 => q
  | some s => (everyNth s q.reverse).reverse

end

section
variable {α : Type} [Add α] [Sub α] [Mul α] [Div α] [Neg α] [LT α] [LE α]
  [DecidableLT α] [DecidableLE α] [DecidableEq α] [OfNat α 0] [OfNat α 1] [OfNat α 2]

/-- forward fill of a column -/
def ffillFrom (last : Option α) : List (Option α) → List (Option α)
  | [] => []
  | x :: xs =>
      match x with
      | some v => some v :: ffillFrom (some v) xs
      | none => last :: ffillFrom last xs

def ffill (xs : List (Option α)) : List (Option α) := ffillFrom none xs

def fill0 (xs : List (Option α)) : List α := xs.map (·.getD 0)

def clipTo (x lo hi : α) : α := if x < lo then lo else if hi < x then hi else x

/-- `X.ffill(); X.fillna(0.); X.clip(-clip, clip)` on one column -/
def prepareColumn (clip : α) (xs : List (Option α)) : List α :=
  (fill0 (ffill xs)).map (fun v => clipTo v (-clip) clip)

/-- `_make_transmitter.add_prices(Y, spread)`: the mid price widened by half the spread on each side -/
def widen (p spread : α) : α × α := (p - p * spread / 2, p + p * spread / 2)

end

/-- `_make_timesteps`: dates of the price table inside the common valid range, minus holidays, minus the first
    `window` of them -/
def makeTimesteps (yDates : List Time) (holidays : List Time) (lo hi : Time) (window : Nat) : List Time :=
  ((yDates.filter (fun t => decide (lo ≤ t) && decide (t ≤ hi))).filter (fun t => !holidays.contains t)).drop window

end TV.Tab
