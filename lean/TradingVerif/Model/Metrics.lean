/-
  Model of `tradingenv/metrics.py` (the level-series metrics installed on pandas objects).
  A series is a list of (index entry, value): the index entry is `none` for NaT, the value `none` for NaN.
  `sqrt`, `log` and `pow` are leaves (parameters).
-/
import TradingVerif.Model.Num
namespace TV.Met

structure Row (α : Type) where
  time : Option Time          -- `none` = NaT
  value : Option α            -- `none` = NaN

structure Leaves (α : Type) where
  sqrt : α → α
  log : α → α
  pow : α → α → α

section
variable {α : Type} [Add α] [Sub α] [Mul α] [Div α] [Neg α] [LT α] [LE α]
  [DecidableLT α] [DecidableLE α] [DecidableEq α] [OfNat α 0] [OfNat α 1] [NatCast α] [IntCast α]

def usPerDay : Int := 86400000000
def dateOf (t : Time) : Int := t / usPerDay

def sumL : List α → α
  | [] => 0
  | x :: xs => x + sumL xs

def strictlyIncreasing : List Time → Bool
  | a :: b :: rest => decide (a < b) && strictlyIncreasing (b :: rest)
  | _ => true

/-- `PandasMetrics.validate`: no NaN, all values positive, no duplicate index entries, a datetime index
    (`isDatetime`), no NaT, monotonic increasing -/
def validate (isDatetime : Bool) (l : List (Row α)) : Bool :=
  l.all (fun r => r.value.isSome) &&
  l.all (fun r => match r.value with | some v => decide (0 < v) | none => false) &&
  isDatetime &&
  l.all (fun r => r.time.isSome) &&
  strictlyIncreasing (l.filterMap (·.time))

/-- values of a validated series with their timestamps -/
def points (l : List (Row α)) : List (Time × α) :=
  l.filterMap fun r => match r.time, r.value with | some t, some v => some (t, v) | _, _ => none

/-- keep the last observation of each calendar day (input sorted by time) -/
def collapseDays : List (Time × α) → List (Time × α)
  | [] => []
  | [p] => [p]
  | p :: q :: rest => if dateOf p.1 = dateOf q.1 then collapseDays (q :: rest) else p :: collapseDays (q :: rest)

/-- `level()`: the values, with several observations per day collapsed to the last of each day -/
def level (l : List (Row α)) : List α := (collapseDays (points l)).map (·.2)

/-- `simple_returns`: `v_i / v_{i-1} - 1` -/
def returns : List α → List α
  | a :: b :: rest => (b / a - 1) :: returns (b :: rest)
  | _ => []

def cummaxFrom (m : α) : List α → List α
  | [] => []
  | x :: xs => let m' := if m < x then x else m; m' :: cummaxFrom m' xs

def cummax : List α → List α
  | [] => []
  | x :: xs => x :: cummaxFrom x xs

/-- `drawdown`: `level / level.cummax() - 1` -/
def drawdown (lv : List α) : List α := (lv.zip (cummax lv)).map fun p => p.1 / p.2 - 1

def minL : List α → Option α
  | [] => none
  | x :: xs => some (xs.foldl (fun m y => if y < m then y else m) x)

def maxDrawdown (lv : List α) : Option α := minL (drawdown lv)

def mean (xs : List α) : α := sumL xs / (xs.length : α)

/-- sample variance (`ddof = 1`) -/
def variance1 (xs : List α) : α :=
  let m := mean xs
  sumL (xs.map fun x => (x - m) * (x - m)) / ((xs.length : α) - 1)

def insertSorted (x : α) : List α → List α
  | [] => [x]
  | y :: ys => if x ≤ y then x :: y :: ys else y :: insertSorted x ys

def sortL : List α → List α
  | [] => []
  | x :: xs => insertSorted x (sortL xs)

end

/-- `nr_calendar_days`: whole days between the first and the last index entry -/
def nrCalendarDays (l : List (Time)) : Int :=
  match l.head?, l.getLast? with
  | some a, some b => (b - a) / usPerDay
  | _, _ => 0

section
variable {α : Type} [Add α] [Sub α] [Mul α] [Div α] [Neg α] [LT α] [LE α]
  [DecidableLT α] [DecidableLE α] [DecidableEq α] [OfNat α 0] [OfNat α 1] [NatCast α] [IntCast α]

def nrYears (times : List Time) : α := ((nrCalendarDays times : Int) : α) / ((365 : Nat) : α)

/-- `cagr`: `(last / first) ** (1 / years) - 1` -/
def cagr (L : Leaves α) (lv : List α) (times : List Time) : Option α :=
  match lv.head?, lv.getLast? with
  | some a, some b => some (L.pow (b / a) (1 / nrYears times) - 1)
  | _, _ => none

/-- `volatility`: `sqrt(252) * std(returns, ddof=1)` -/
def volatility (L : Leaves α) (lv : List α) : α :=
  L.sqrt ((252 : Nat) : α) * L.sqrt (variance1 (returns lv))

def downsideVol (L : Leaves α) (lv : List α) : α :=
  L.sqrt ((252 : Nat) : α) * L.sqrt (variance1 ((returns lv).filter (fun r => decide (r < 0))))

def upsideVol (L : Leaves α) (lv : List α) : α :=
  L.sqrt ((252 : Nat) : α) * L.sqrt (variance1 ((returns lv).filter (fun r => decide (0 < r))))

/-- `Series.quantile(q)` with linear interpolation: position `(n-1)·q` in the sorted values;
    `fl` is the floor of that position (an input computed by the caller from `q` and `n`) -/
def quantileAt (xs : List α) (q : α) (fl : Nat) : Option α :=
  let s := sortL xs
  let pos := ((xs.length - 1 : Nat) : α) * q
  match s[fl]?, s[fl + 1]? with
  | some a, some b => some (a + (pos - (fl : α)) * (b - a))
  | some a, none => some a
  | none, _ => none

/-- `expected_shortfall`: mean of the returns not above the value at risk -/
def expectedShortfall (rets : List α) (var : α) : α := mean (rets.filter (fun r => decide (r ≤ var)))

/-- `martin_risk`: root mean square drawdown (the Ulcer index) -/
def martinRisk (L : Leaves α) (lv : List α) : α := L.sqrt (mean ((drawdown lv).map fun d => d * d))

def excessReturns (a b : List α) : List α := (a.zip b).map fun p => p.1 - p.2

def trackingError (L : Leaves α) (lv bench : List α) : α :=
  L.sqrt ((252 : Nat) : α) * L.sqrt (variance1 (excessReturns (returns lv) (returns bench)))

end
end TV.Met
