/-
  Model of the calendar arithmetic of `tradingenv/contracts.py`: proleptic Gregorian day numbers
  (days since 1970-01-01), weekdays (Monday = 0, as `calendar.weekday`), the expiry and last-trading-date
  rules of ES, NK, VX and the Treasury futures, contract symbols, chain listings.
-/
namespace TV.Cal

def isLeap (y : Int) : Bool := (y % 4 == 0 && y % 100 != 0) || y % 400 == 0

def monthLen (y m : Int) : Int :=
  if m == 2 then (if isLeap y then 29 else 28)
  else if m == 4 || m == 6 || m == 9 || m == 11 then 30 else 31

/-- days since 1970-01-01 of the civil date (y, m, d) (Hinnant's algorithm; floor division) -/
def daysFromCivil (y m d : Int) : Int :=
  let y' := if m ≤ 2 then y - 1 else y
  let era := y' / 400
  let yoe := y' - era * 400
  let mp := if m > 2 then m - 3 else m + 9
  let doy := (153 * mp + 2) / 5 + d - 1
  let doe := yoe * 365 + yoe / 4 - yoe / 100 + doy
  era * 146097 + doe - 719468

/-- inverse: (year, month, day) of a day number -/
def civilFromDays (z : Int) : Int × Int × Int :=
  let z := z + 719468
  let era := z / 146097
  let doe := z - era * 146097
  let yoe := (doe - doe / 1460 + doe / 36524 - doe / 146096) / 365
  let y := yoe + era * 400
  let doy := doe - (365 * yoe + yoe / 4 - yoe / 100)
  let mp := (5 * doy + 2) / 153
  let d := doy - (153 * mp + 2) / 5 + 1
  let m := if mp < 10 then mp + 3 else mp - 9
  (if m ≤ 2 then y + 1 else y, m, d)

/-- Monday = 0 … Sunday = 6 (1970-01-01 was a Thursday) -/
def weekday (n : Int) : Int := (n + 3) % 7

/-- "list the days of the month, group them by weekday, take index k" (`dates["Friday"][k]`):
    the day of the month of the k-th (0-based) weekday `w`, or 0 if there is none -/
def nthWeekdayDay (wd1 len w : Int) (k : Nat) : Int :=
  let days := (List.range len.toNat).filter (fun (i : Nat) => (wd1 + (i : Int)) % 7 == w)
  match days[k]? with
  | some i => (i : Int) + 1
  | none => 0

/-- last Monday–Friday day of a month (the last entry of a business-day range restricted to the month) -/
def lastWeekdayDay (wd1 len : Int) : Int :=
  let days := (List.range len.toNat).filter (fun (i : Nat) => decide ((wd1 + (i : Int)) % 7 ≤ 4))
  match days.getLast? with
  | some i => (i : Int) + 1
  | none => 0

/-- closed form of `nthWeekdayDay` (proved equal on the whole (weekday of the 1st, month length) table) -/
def nthWeekdayClosed (wd1 w : Int) (k : Nat) : Int := 1 + ((w - wd1) % 7) + 7 * (k : Int)

/-- closed form of `lastWeekdayDay` -/
def lastWeekdayClosed (wd1 len : Int) : Int :=
  let wl := (wd1 + len - 1) % 7
  if wl == 5 then len - 1 else if wl == 6 then len - 2 else len

/-- one business day back (`- BDay(1)` from any day) -/
def prevBDay (n : Int) : Int :=
  if weekday n == 0 then n - 3 else if weekday n == 6 then n - 2 else n - 1

inductive Cls | ES | NK | VX | ZQ | ZT | ZF | ZN | ZB
deriving DecidableEq, Repr

def Cls.name : Cls → String
  | .ES => "ES" | .NK => "NK" | .VX => "VX" | .ZQ => "ZQ" | .ZT => "ZT" | .ZF => "ZF" | .ZN => "ZN" | .ZB => "ZB"

def Cls.isTreasury : Cls → Bool
  | .ZQ | .ZT | .ZF | .ZN | .ZB => true
  | _ => false

/-- quarterly listing (`QE-DEC`) or monthly (`ME`) -/
def Cls.monthly : Cls → Bool
  | .VX => true
  | _ => false

def wd1Of (y m : Int) : Int := weekday (daysFromCivil y m 1)

/-- `_get_expiry_date(year, month)` as a day number -/
def expiry (c : Cls) (y m : Int) : Int :=
  match c with
  | .ES => daysFromCivil y m (nthWeekdayClosed (wd1Of y m) 4 2)
  | .NK => daysFromCivil y m (nthWeekdayClosed (wd1Of y m) 4 1)
  | .VX =>
      let nm := civilFromDays (daysFromCivil y m 1 + 32)
      let day := 21 - (wd1Of nm.1 nm.2.1 + 2) % 7
      daysFromCivil nm.1 nm.2.1 day - 30
  | _ => daysFromCivil y m (lastWeekdayClosed (wd1Of y m) (monthLen y m))

/-- `_get_last_trading_date(expiry)` -/
def lastTrading (c : Cls) (e : Int) : Int :=
  match c with
  | .ES => e - 8
  | .NK => e - 14
  | .VX => prevBDay (prevBDay e)
  | _ =>
      let p := civilFromDays (e - 30)
      daysFromCivil p.1 p.2.1 24

def monthCode (m : Int) : String :=
  match m with
  | 1 => "F" | 2 => "G" | 3 => "H" | 4 => "J" | 5 => "K" | 6 => "M"
  | 7 => "N" | 8 => "Q" | 9 => "U" | 10 => "V" | 11 => "X" | 12 => "Z"
  | _ => "?"

def twoDigits (n : Int) : String :=
  let k := (n % 100).toNat
  (if k < 10 then "0" else "") ++ toString k

/-- class code + month code of the expiry month + two-digit year of the expiry -/
def symbol (c : Cls) (y m : Int) : String :=
  let p := civilFromDays (expiry c y m)
  c.name ++ monthCode p.2.1 ++ twoDigits p.1

/-- the (year, month) pairs listed by `pandas.date_range(start, end, freq)`: months whose month end lies in
    `[start, end]`, all of them (`ME`) or the quarter ends Mar/Jun/Sep/Dec (`QE-DEC`), ascending -/
def listing (c : Cls) (startDay endDay : Int) : List (Int × Int) :=
  let s := civilFromDays startDay
  let e := civilFromDays endDay
  let nMonths := ((e.1 - s.1) * 12 + (e.2.1 - s.2.1) + 1).toNat
  let months := (List.range nMonths).map fun (i : Nat) =>
    let t := (s.2.1 - 1) + (i : Int)
    (s.1 + t / 12, t % 12 + 1)
  months.filter fun ym =>
    let eom := daysFromCivil ym.1 ym.2 (monthLen ym.1 ym.2)
    decide (startDay ≤ eom) && decide (eom ≤ endDay) && (c.monthly || ym.2 % 3 == 0)

end TV.Cal
