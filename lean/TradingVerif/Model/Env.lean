/-
  Model of `tradingenv/env.py` (`TradingEnv.reset/step/notify/_process_*`), `spaces.py`
  (`BoxPortfolio`, `DiscretePortfolio`, `null_action`, `make_rebalancing_request`), `rewards.py`.

  The observer log is what a recording `Feature` subscribed to every event type sees:
  (kind, event stamp, `env.now()` during the dispatch).
-/
import TradingVerif.Model.Broker
import TradingVerif.Model.Transmitter
namespace TV

/-- payload of a transmitter event -/
inductive Payload (α : Type) where
  | market (e : MEvent α)          -- EventNBBO / EventContractDiscontinued (reaches the exchange)
  | custom (id : Nat)              -- any other user event (reaches observers only)

inductive LogKind where
  | quote (k : Key) | disc (k : Key) | custom (id : Nat)
  | newDate | reset | step | done
deriving DecidableEq, Repr

structure LogEntry where
  kind : LogKind
  stamp : Option Time      -- `event.time`
  clock : Option Time      -- `env.now()` while the observers are being notified
deriving DecidableEq, Repr

inductive Action (α : Type) where
  | vec (v : List (Option α))      -- continuous: a vector (NaN entries are `none`)
  | idx (i : Int)                  -- discrete: an index
  | junk                           -- anything else (wrong type / shape)

inductive SpaceKind (α : Type) where
  | box (low high : α)
  | boxv (bounds : List (α × α))   -- a box with its own bounds for every contract (array `low` / `high`)
  | disc (allocs : List (List α))

structure Space (α : Type) where
  keys : List Key                  -- contracts, in order (may include the cash contract)
  kind : SpaceKind α
  asWeights : Bool := true
  fractional : Bool := true
  margin : α

inductive RewardKind (α : Type) where
  | simple | pnl | log
  | logret (scale clip riskAversion : α)

structure EnvCfg (α : Type) where
  world : World α
  chains : List (Key × Chain) := []    -- futures chains of the action space, by name
  deposit : α
  tx : TxCfg (Payload α)
  delay : Nat := 0
  space : Space α
  reward : RewardKind α
  episodeLen : Option Nat := none      -- already includes the constructor's `+ 1`

structure EnvState (α : Type) where
  broker : Broker α
  now : Option Time := none
  lastEvent : Option (Option Time) := none     -- `_last_event.time` (outer none: no event yet)
  done : Bool := false
  queue : List (Action α) := []               -- newest first (`appendleft`), executed from the right (`pop`)
  pendLat : List (TEvent (Payload α)) := []
  pendNon : List (TEvent (Payload α)) := []
  steps : List Time := []                     -- the episode's timesteps
  cursor : Nat := 0                           -- `_step_nr`
  log : List LogEntry := []                   -- observer log, oldest first
  contractClock : Option Time := none         -- the process-wide `AbstractContract.now` as this env last set it

structure StepOut (α : Type) where
  reward : α
  done : Bool
  traded : Bool          -- `info` carries the rebalancing (false when the decision found the account insolvent)

section
variable {α : Type} [Add α] [Sub α] [Mul α] [Div α] [Neg α] [LT α] [LE α]
  [DecidableLT α] [DecidableLE α] [DecidableEq α] [OfNat α 0] [OfNat α 1] [OfNat α 2]
  [IntCast α] [HasTrunc α]

def usPerDay : Int := 86400000000

def dateOf (t : Time) : Int := t / usPerDay     -- floor division

/-- `TradingEnv._is_new_date` -/
def isNewDate (s : EnvState α) (t : Option Time) : Bool :=
  match s.lastEvent, t with
  | some (some lt), some t => decide (dateOf lt ≠ dateOf t)
  | _, _ => false

def logKindOf : Payload α → LogKind
  | .market (.quote k _ _ _) => .quote k
  | .market (.disc k _) => .disc k
  | .custom id => .custom id

/-- dispatch to the observers: the exchange processes market events, the recorder logs everything -/
def dispatch (s : EnvState α) (kind : LogKind) (stamp : Option Time) (mk : Option (MEvent α)) : EnvState α :=
  let b := match mk with
    | some e => { s.broker with ex := s.broker.ex.step e }
    | none => s.broker
  { s with broker := b, log := s.log ++ [⟨kind, stamp, s.now⟩], lastEvent := some stamp }

/-- `TradingEnv.notify` (repaired order: the new-date notification first, then the clock) -/
def notify (s : EnvState α) (kind : LogKind) (stamp : Option Time) (mk : Option (MEvent α)) : EnvState α :=
  let s1 :=
    if isNewDate s stamp then
      -- EventNewDate carries the previous event's time; its own `notify` sets the clock to that time
      let lt := match s.lastEvent with | some x => x | none => none
      let s0 := { s with now := lt, contractClock := lt }
      dispatch s0 .newDate lt none
    else s
  let s2 := { s1 with now := stamp, contractClock := stamp }
  dispatch s2 kind stamp mk

def notifyEvent (s : EnvState α) (e : TEvent (Payload α)) : EnvState α :=
  match e.payload with
  | .market m => notify s (logKindOf e.payload) (some e.time) (some m)
  | .custom _ => notify s (logKindOf e.payload) (some e.time) none

/-- `_process_latent_events` -/
def processLatent (s : EnvState α) : EnvState α :=
  { (s.pendLat.foldl notifyEvent s) with pendLat := [] }

/-- `_process_nonlatent_events`: deliver, then fetch the next batch or flag the end of the data -/
def processNonlatent (cfg : EnvCfg α) (s : EnvState α) : EnvState α :=
  let s1 := s.pendNon.foldl notifyEvent s
  match s1.steps[s1.cursor]? with
  | none => { s1 with done := true }
  | some cur =>
      let (l, n) := if s1.cursor = 0 then cfg.tx.firstBatch cur else cfg.tx.batch cur
      { s1 with pendLat := l, pendNon := n, cursor := s1.cursor + 1 }

/-! ### action spaces -/

def nullAction (sp : Space α) : Action α :=
  match sp.kind with
  | .box _ _ => .vec (sp.keys.map fun _ => some 0)
  | .boxv _ => .vec (sp.keys.map fun _ => some 0)
  | .disc _ => .idx 0

/-- `action in space` -/
def contains (sp : Space α) : Action α → Bool
  | .vec v =>
      (match sp.kind with
       | .box lo hi => decide (v.length = sp.keys.length) &&
           v.all (fun x => match x with | some y => decide (lo ≤ y) && decide (y ≤ hi) | none => false)
       | .boxv bs => decide (v.length = sp.keys.length) && decide (bs.length = sp.keys.length) &&
           (v.zip bs).all (fun p => match p.1 with
             | some y => decide (p.2.1 ≤ y) && decide (y ≤ p.2.2) | none => false)
       | .disc _ => false)
  | .idx i =>
      (match sp.kind with
       | .disc allocs => decide (0 ≤ i) && decide (i < allocs.length)
       | .box _ _ => false
       | .boxv _ => false)
  | .junk => false

/-- the allocation an in-space action denotes -/
def denote (sp : Space α) : Action α → List α
  | .vec v => v.map (fun x => x.getD 0)
  | .idx i => (match sp.kind with | .disc allocs => (allocs[i.toNat]?).getD [] | .box _ _ => [] | .boxv _ => [])
  | .junk => []

/-- `contract.static_hashing()`: a chain resolves to its lead contract at the process-wide contract clock;
    `none` is the `IndexError` past the end of the chain -/
def resolveKey (chains : List (Key × Chain)) (clock : Option Time) (k : Key) : Option Key :=
  match chains.lookup k with
  | none => some k
  | some c => (c.lead (clock.getD 0)).map (·.2)

/-- `PortfolioSpace.make_rebalancing_request` -/
def makeRequest (chains : List (Key × Chain)) (clock : Option Time) (sp : Space α) (a : Action α) (now : Time) :
    Except Err (Rebal α) :=
  if contains sp a then
    match sp.keys.mapM (resolveKey chains clock) with
    | none => .error .other
    | some ks =>
      .ok { time := now, byWeight := sp.asWeights, absolute := true, fractional := sp.fractional,
            margin := sp.margin, target := ks.zip (denote sp a) }
  else .error .invalidAction

/-! ### rewards -/

def clipTo (x lo hi : α) : α := if x < lo then lo else if hi < x then hi else x

/-- `reward.calculate(env)`: reads `track_record[-1].context_pre.nlv` and the (raising) current NLV -/
def rewardOf (lg : α → α) (cfg : EnvCfg α) (b : Broker α) : Broker α × Except Err α :=
  match b.record.getLast? with
  | none => (b, .error .other)          -- IndexError: no rebalancing recorded yet
  | some e =>
    match netLiq cfg.world true b with
    | (b', .error err) => (b', .error err)
    | (b', .ok v) =>
      let r := match cfg.reward with
        | .simple => v / e.nlvPre - 1
        | .pnl => v - e.nlvPre
        | .log => lg (v / e.nlvPre)
        | .logret scale clip ra =>
            let x := clipTo (lg (v / e.nlvPre) / scale) (-clip) clip
            if x < 0 then x * (1 + ra) else x
      (b', .ok r)

/-! ### reset / step -/

/-- `Transmitter._reset` hands `numpy.random.choice` the range of admissible starts; an empty range is
    refused (ValueError), and the sampled index always lies in the range -/
def resetAdmissible (cfg : EnvCfg α) (lo hi : Time) (start : Nat) : Bool :=
  match cfg.episodeLen with
  | none => true
  | some L => decide (start < nStarts (cfg.tx.foldSteps lo hi).length L)

/-- `TradingEnv.reset(fold, episode_length)`; `start` is the sampled start index (an input) -/
def envReset (cfg : EnvCfg α) (lo hi : Time) (start : Nat) (prevClock : Option Time) : EnvState α :=
  let b0 : Broker α := Broker.init cfg.deposit
  -- reset seeds the reference-rate book with 0 (the cash book is valued at par by the model)
  let b1 : Broker α := { b0 with ex := b0.ex.step (.quote cfg.world.rateKey 0 (some 0) (some 0)) }
  let b1 := { b1 with ex := { b1.ex with lastUpdate := none } }
  let s0 : EnvState α :=
    { broker := b1, queue := List.replicate cfg.delay (nullAction cfg.space),
      steps := cfg.tx.episodeSteps lo hi cfg.episodeLen start, contractClock := prevClock }
  -- `_next()` once, then both batches are processed (the second call also fetches the next batch)
  let s1 := match s0.steps[0]? with
    | none => { s0 with done := true }      -- (an empty fold: the implementation raises StopIteration)
    | some cur =>
        let (l, n) := cfg.tx.firstBatch cur
        { s0 with pendLat := l, pendNon := n, cursor := 1 }
  let s2 := processNonlatent cfg (processLatent s1)
  let s3 := notify s2 .reset s2.now none
  if s3.done then notify s3 .done s3.now none else s3

/-- first part of `step`: re-assert the contract clock (repair F9), shift the action queue, deliver the
    latent batch. Returns the state and the action that is due now. -/
def stepPre (s : EnvState α) (a : Action α) : EnvState α × Action α :=
  let q := a :: s.queue
  (processLatent { s with contractClock := s.now, queue := q.dropLast }, q.getLast?.getD a)

/-- second part: membership test, rebalancing request, `Broker.rebalance`.
    `.ok traded`: `traded = false` when the decision found the account insolvent (EndOfEpisodeError is
    caught, nothing traded, the episode ends); any other error propagates out of `step`. -/
def stepExec (pw : α → α → α) (cfg : EnvCfg α) (s1 : EnvState α) (act : Action α) :
    EnvState α × Except Err Bool :=
  match makeRequest cfg.chains s1.contractClock cfg.space act (s1.now.getD 0) with
  | .error e => (s1, .error e)
  | .ok reb =>
    match rebalance pw cfg.world reb s1.broker with
    | (b2, .ok ()) => ({ s1 with broker := b2 }, .ok true)
    | (b2, .error .endOfEpisode) => ({ s1 with broker := b2, done := true }, .ok false)
    | (b2, .error e) => ({ s1 with broker := b2 }, .error e)

/-- third part: deliver the non-latent batch, fetch the next one, reward, notifications -/
def stepFinish (lg : α → α) (cfg : EnvCfg α) (s2 : EnvState α) (traded : Bool) :
    EnvState α × Except Err (StepOut α) :=
  let s3 := processNonlatent cfg s2
  match rewardOf lg cfg s3.broker with
  | (b4, .error e) => ({ s3 with broker := b4 }, .error e)
  | (b4, .ok r) =>
    let s5 := notify { s3 with broker := b4 } .step s3.now none
    let s6 := if s5.done then notify s5 .done s5.now none else s5
    (s6, .ok { reward := r, done := s6.done, traded := traded })

/-- `TradingEnv.step(action)` -/
def envStep (pw : α → α → α) (lg : α → α) (cfg : EnvCfg α) (s : EnvState α) (a : Action α) :
    EnvState α × Except Err (StepOut α) :=
  if s.done then (s, .error .episodeOver) else
  match stepExec pw cfg (stepPre s a).1 (stepPre s a).2 with
  | (s2, .error e) => (s2, .error e)
  | (s2, .ok traded) => stepFinish lg cfg s2 traded

end
end TV
