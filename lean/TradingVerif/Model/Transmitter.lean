/-
  Model of `tradingenv/transmitter.py`: `_create_partitions`, `_reset`, `_next`, `walk_forward`.
  Times are integer microseconds.  Events carry an arbitrary payload `ρ`.
-/
import TradingVerif.Model.Num
namespace TV

structure TEvent (ρ : Type) where
  time : Time
  payload : ρ

/-- `datetime(1800, 1, 1)` in microseconds since 1970: the "previous timestep" of the first grid point -/
def sentinel1800 : Time := -5364662400000000

/-- `sorted(set(timesteps))` second half: drop adjacent duplicates of a sorted list -/
def dedupSorted : List Time → List Time
  | [] => []
  | [a] => [a]
  | a :: b :: rest => if a = b then dedupSorted (b :: rest) else a :: dedupSorted (b :: rest)

def insertT (x : Time) : List Time → List Time
  | [] => [x]
  | y :: ys => if x ≤ y then x :: y :: ys else y :: insertT x ys

def sortT : List Time → List Time
  | [] => []
  | x :: xs => insertT x (sortT xs)

/-- `sorted(set(timesteps))` -/
def mkGrid (timesteps : List Time) : List Time := dedupSorted (sortT timesteps)

/-- `bisect_left(grid, t)` as a grid point: the first grid point `≥ t` -/
def bucketOf (grid : List Time) (t : Time) : Option Time := grid.find? (fun g => decide (t ≤ g))

/-- the grid point before `g` (the sentinel for the first one) -/
def prevOf (grid : List Time) (g : Time) : Time :=
  ((grid.filter (fun x => decide (x < g))).getLast?).getD sentinel1800

/-- minimum gap between consecutive grid points (`none` = infinite) -/
def minGap : List Time → Option Int
  | a :: b :: rest =>
      match minGap (b :: rest) with
      | none => some (b - a)
      | some m => some (if b - a < m then b - a else m)
  | _ => none

section
variable {ρ : Type}

/-- insert before the first element that is not earlier (keeps earlier-inserted ties first) -/
def insertEv (x : TEvent ρ) : List (TEvent ρ) → List (TEvent ρ)
  | [] => [x]
  | y :: ys => if x.time ≤ y.time then x :: y :: ys else y :: insertEv x ys

/-- `sorted(events)`: Python's sort is stable and compares by time only; the stable sort of a list is
    unique, so it is modelled by the simplest one (insertion sort) -/
def sortEvents : List (TEvent ρ) → List (TEvent ρ)
  | [] => []
  | x :: xs => insertEv x (sortEvents xs)

structure TxCfg (ρ : Type) where
  timesteps : List Time
  events : List (TEvent ρ)        -- insertion order
  latency : Int := 0              -- microseconds
  markov : Bool := false
  warmup : Option Int := none     -- microseconds

def TxCfg.grid (c : TxCfg ρ) : List Time := mkGrid c.timesteps

/-- the events that are partitioned at all: stamped no later than the last grid point (and, under
    markov reset, no earlier than the first), stably sorted by time -/
def TxCfg.sorted (c : TxCfg ρ) : List (TEvent ρ) :=
  let last := c.grid.getLast?.getD 0
  let evs := sortEvents (c.events.filter (fun e => decide (e.time ≤ last)))
  if c.markov then evs.filter (fun e => decide (c.grid.head?.getD 0 ≤ e.time)) else evs

/-- does the event run before the pending execution? (`sec_since_timestep <= latency`) -/
def isLatent (c : TxCfg ρ) (e : TEvent ρ) (g : Time) : Bool :=
  decide (e.time - prevOf c.grid g ≤ c.latency)

def TxCfg.latent (c : TxCfg ρ) (g : Time) : List (TEvent ρ) :=
  c.sorted.filter (fun e => decide (bucketOf c.grid e.time = some g) && isLatent c e g)

def TxCfg.nonlatent (c : TxCfg ρ) (g : Time) : List (TEvent ρ) :=
  c.sorted.filter (fun e => decide (bucketOf c.grid e.time = some g) && !isLatent c e g)

/-- `_create_partitions` rejects `latency >= min gap` (and an empty grid) -/
def TxCfg.valid (c : TxCfg ρ) : Bool :=
  !c.grid.isEmpty && (match minGap c.grid with | none => true | some m => decide (c.latency < m))

/-- grid points that carry at least one event: the keys of the two partitions -/
def TxCfg.eventSteps (c : TxCfg ρ) : List Time :=
  c.grid.filter (fun g => !(c.latent g).isEmpty || !(c.nonlatent g).isEmpty)

/-- `_reset`: steps of the fold `[lo, hi]`; with an episode length `len`, the slice starting at `start` -/
def TxCfg.foldSteps (c : TxCfg ρ) (lo hi : Time) : List Time :=
  c.eventSteps.filter (fun g => decide (lo ≤ g) && decide (g ≤ hi))

/-- number of admissible start positions: `len(steps[:-(L-1)])` (Python slicing semantics, `L ≥ 1`) -/
def nStarts (nSteps L : Nat) : Nat := if L ≤ 1 then 0 else nSteps - (L - 1)

def TxCfg.episodeSteps (c : TxCfg ρ) (lo hi : Time) (len : Option Nat) (start : Nat) : List Time :=
  match len with
  | none => c.foldSteps lo hi
  | some L => ((c.foldSteps lo hi).drop start).take L

/-- `_next` for the first step of an episode: history replay (all / warm-up horizon), grid point by grid
    point, latent batch then non-latent batch — or only the step's own batches under markov reset -/
def TxCfg.firstBatch (c : TxCfg ρ) (cur : Time) : List (TEvent ρ) × List (TEvent ρ) :=
  if c.markov then (c.latent cur, c.nonlatent cur)
  else
    let inHorizon (g : Time) : Bool :=
      -- `if self._warmup`: a zero timedelta is falsy in Python, i.e. treated as "no horizon"
      (match c.warmup with | none => true | some wu => if wu = 0 then true else decide (cur - wu ≤ g)) && decide (g ≤ cur)
    ([], (c.grid.filter inHorizon).flatMap (fun g => c.latent g ++ c.nonlatent g))

/-- `_next` for any later step -/
def TxCfg.batch (c : TxCfg ρ) (cur : Time) : List (TEvent ρ) × List (TEvent ρ) :=
  (c.latent cur, c.nonlatent cur)

end

/-! ### walk-forward splitting (indices into the grid) -/
structure WFold where
  trainStart : Nat
  trainEnd : Nat
  testStart : Nat
  testEnd : Nat
deriving Repr, DecidableEq

/-- `count[: -train-test+1 : test]`, the start indices of the training windows -/
def wfStarts (n train test : Nat) : List Nat :=
  -- Python: stop = n - train - test + 1 when that offset is negative (it always is for train+test ≥ 2)
  let stop := n + 1 - train - test
  (List.range stop).filter (fun i => i % test = 0)

def walkForward (n train test : Nat) (sliding : Bool) : List WFold :=
  (wfStarts n train test).map fun s =>
    { trainStart := if sliding then s else 0
      trainEnd := s + train - 1
      testStart := s + train
      testEnd := s + train + test - 1 }

end TV
