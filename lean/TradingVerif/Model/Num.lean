/-
  Numbers, keys, point-updated maps.  Import-free.

  Every model definition is polymorphic in the number type `α` through the plain
  notation classes below.  It is *executed* at core `Rat` (exact) by the drivers and
  *reasoned about* at an arbitrary linear ordered field by the files under `Props/`.
-/
namespace TV

/-- A contract is identified by its symbol (`AbstractContract.__hash__/__eq__`). -/
abbrev Key := String

/-- Times are integers: microseconds since 1970-01-01 (naive datetimes). -/
abbrev Time := Int

section
variable {α : Type}

/-- `dict[k] = v` on a total map with a default (`defaultdict`). -/
def upd {β : Type} (f : Key → β) (k : Key) (v : β) : Key → β :=
  fun k' => if k' = k then v else f k'

variable [Neg α] [LT α] [DecidableLT α] [OfNat α 0]

/-- Python `abs`. -/
def absv (x : α) : α := if x < 0 then -x else x

/-- Python `numpy.sign` as a three-way case split. -/
inductive Sign | neg | zero | pos
deriving DecidableEq, Repr

def sgn (x : α) : Sign := if x < 0 then .neg else if 0 < x then .pos else .zero

end
end TV
