/-
  Model of `tradingenv/exchange.py` (LimitOrderBook, Exchange) and of the keyed access
  through a futures chain (`FutureChain.static_hashing`, `contracts.py`).
  A NaN price is `none`.
-/
import TradingVerif.Model.Num
namespace TV

/-- One accepted quote as stored in `LimitOrderBook.history`. -/
structure HistRow (α : Type) where
  time : Time
  bid : Option α
  ask : Option α
deriving Repr

instance {α : Type} [DecidableEq α] : DecidableEq (HistRow α) := fun a b => by
  cases a; cases b; simp only [HistRow.mk.injEq]; exact inferInstance

/-- `LimitOrderBook`: current bid/ask (`none` = NaN), liveness, time, history (oldest first). -/
structure Book (α : Type) where
  bid : Option α := none
  ask : Option α := none
  alive : Bool := true
  time : Option Time := none
  hist : List (HistRow α) := []

/-- Market events that reach the exchange. -/
inductive MEvent (α : Type) where
  | quote (k : Key) (t : Time) (bid ask : Option α)
  | disc (k : Key) (t : Time)

def MEvent.key {α : Type} : MEvent α → Key
  | .quote k _ _ _ => k
  | .disc k _ => k

def MEvent.time {α : Type} : MEvent α → Time
  | .quote _ t _ _ => t
  | .disc _ t => t

/-- `Exchange`: books by key (a `defaultdict(LimitOrderBook)`) and `last_update`. -/
structure Exchange (α : Type) where
  books : Key → Book α := fun _ => {}
  lastUpdate : Option Time := none

section
variable {α : Type}

/-- `LimitOrderBook.update` -/
def Book.update (b : Book α) (t : Time) (bid ask : Option α) : Book α :=
  { b with bid := bid, ask := ask, time := some t, hist := b.hist ++ [⟨t, bid, ask⟩] }

/-- `LimitOrderBook.terminate`: quotes blanked, history kept, dead. -/
def Book.terminate (b : Book α) (t : Time) : Book α :=
  { bid := none, ask := none, alive := false, time := some t, hist := b.hist }

/-- `Exchange.process_EventNBBO` / `process_EventContractDiscontinued` -/
def Exchange.step (ex : Exchange α) : MEvent α → Exchange α
  | .quote k t bid ask =>
      let b := ex.books k
      { books := if b.alive then upd ex.books k (b.update t bid ask) else ex.books
        lastUpdate := some t }
  | .disc k t =>
      { ex with books := upd ex.books k ((ex.books k).terminate t) }

def Exchange.run (ex : Exchange α) (evs : List (MEvent α)) : Exchange α :=
  evs.foldl Exchange.step ex

variable [Add α] [Div α] [OfNat α 2]

/-- `LimitOrderBook.mid_price` (NaN if either side is NaN). -/
def Book.mid (b : Book α) : Option α :=
  match b.bid, b.ask with
  | some x, some y => some ((y + x) / 2)
  | _, _ => none

/-- `LimitOrderBook.acq_price(sign)`: buy at the ask, sell at the bid, flat at the mid. -/
def Book.acq (b : Book α) : Sign → Option α
  | .neg => b.bid
  | .pos => b.ask
  | .zero => b.mid

def Sign.flip : Sign → Sign
  | .neg => .pos
  | .pos => .neg
  | .zero => .zero

/-- `LimitOrderBook.liq_price(q) = acq_price(-q)` -/
def Book.liq (b : Book α) (s : Sign) : Option α := b.acq s.flip

end

/-! ### Futures chain keyed access -/

/-- A chain is its contracts in listing order: (last trading instant, symbol). -/
structure Chain where
  contracts : List (Time × Key)
  month : Nat := 0

/-- `bisect_right(last_trading_dates, now)`: number of leading entries with `ltd ≤ now`
    (the list is sorted ascending, so this is the insertion point to the right). -/
def bisectRight : List Time → Time → Nat
  | [], _ => 0
  | t :: ts, now => if now < t then 0 else bisectRight ts now + 1

def Chain.leadIdx (c : Chain) (now : Time) : Nat :=
  bisectRight (c.contracts.map (·.1)) now + c.month

/-- `FutureChain.lead_contract(now)`; `none` is Python's `IndexError`. -/
def Chain.lead (c : Chain) (now : Time) : Option (Time × Key) :=
  c.contracts[c.leadIdx now]?

end TV
