/- Driver: environment / transmitter model behind the line protocol
   (C02, C04, C07, C08, C09, C10, C15, C17, parts of C11). Several named environments share one
   process-wide contract clock. -/
import TradingVerif.Model.Env
import TradingVerif.Proto
import TradingVerif.DriverUtil
open TV TV.Proto

structure Build where
  specs : List (Key × Spec Rat) := []
  fixed : Rat := 0
  prop : Rat := 0
  markup : Rat := 0
  rateKey : Key := "RATE"
  deposit : Rat := 100
  grid : List Time := []
  events : List (TEvent (Payload Rat)) := []
  latency : Int := 0
  delay : Nat := 0
  markov : Bool := false
  warmup : Option Int := none
  chains : List (Key × Chain) := []
  spaceKeys : List Key := []
  box : Option (Rat × Rat) := some (0, 1)
  boxv : Option (List (Rat × Rat)) := none
  allocs : List (List Rat) := []
  asWeights : Bool := true
  fractional : Bool := true
  margin : Rat := 0
  reward : RewardKind Rat := .simple
  eplen : Option Nat := none

def Build.cfg (b : Build) : EnvCfg Rat :=
  { world := { spec := fun k => (b.specs.lookup k).getD { mult := 1, cashReq := 1, mr := 0 }
               fixed := b.fixed, prop := b.prop, markup := b.markup, rateKey := b.rateKey,
               eps := mkRat 1 10000000 }
    chains := b.chains
    deposit := b.deposit
    tx := { timesteps := b.grid, events := b.events, latency := b.latency, markov := b.markov, warmup := b.warmup }
    delay := b.delay
    space := { keys := b.spaceKeys
               kind := match b.boxv, b.box with
                 | some bs, _ => .boxv bs
                 | none, some (lo, hi) => .box lo hi
                 | none, none => .disc b.allocs
               asWeights := b.asWeights, fractional := b.fractional, margin := b.margin }
    reward := b.reward
    episodeLen := b.eplen }

structure EnvSlot where
  build : Build := {}
  cfg : Option (EnvCfg Rat) := none
  st : EnvState Rat := { broker := Broker.init 0 }
  logSeen : Nat := 0

structure St where
  envs : List (String × EnvSlot) := []
  cur : String := "A"
  clock : Option Time := none

def St.slot (s : St) : EnvSlot := (s.envs.lookup s.cur).getD {}
def St.setSlot (s : St) (e : EnvSlot) : St :=
  { s with envs := (s.cur, e) :: s.envs.filter (·.1 ≠ s.cur) }

def showKind : LogKind → String
  | .quote k => s!"q:{k}"
  | .disc k => s!"d:{k}"
  | .custom i => s!"c:{i}"
  | .newDate => "newdate"
  | .reset => "reset"
  | .step => "step"
  | .done => "done"

def showEntry (e : LogEntry) : String := s!"{showKind e.kind}@{showOInt e.stamp}@{showOInt e.clock}"

def parseOInt (s : String) : Option (Option Int) := if s = "none" then some none else s.toInt?.map some

def parseRats (ws : List String) : Option (List Rat) := ws.mapM parseRat?

def upd (s : St) (f : Build → Build) : St × String :=
  let e := s.slot
  (s.setSlot { e with build := f e.build }, "ok")

/-- run an operation of the current environment with the shared contract clock threaded through -/
def withEnv (s : St) (f : EnvCfg Rat → EnvState Rat → EnvState Rat × String) : St × String :=
  let e := s.slot
  match e.cfg with
  | none => (s, "err nobuild")
  | some cfg =>
      let st0 := { e.st with contractClock := s.clock }
      let (st1, out) := f cfg st0
      ({ (s.setSlot { e with st := st1 }) with clock := st1.contractClock }, out)

def showStep (r : EnvState Rat × Except Err (StepOut Rat)) : EnvState Rat × String :=
  match r with
  | (st, .ok o) => (st, s!"ok {showRat o.reward} {o.done} {o.traded} {st.broker.record.length} {showOInt st.now}")
  | (st, .error e) => (st, showErr e)

def step (s : St) (ws : List String) : St × String :=
  match ws with
  | ["reset"] => ({}, "ok")
  | ["use", name] => ({ s with cur := name }, "ok")
  | ["spec", k, m, c, r, ic] =>
      match parseRat? m, parseRat? c, parseRat? r, parseBool ic with
      | some m, some c, some r, some ic =>
          upd s fun b => { b with specs := (k, { mult := m, cashReq := c, mr := r, isCash := ic }) :: b.specs }
      | _, _, _, _ => (s, "bad-op")
  | ["fees", f, p, m, rk] =>
      match parseRat? f, parseRat? p, parseRat? m with
      | some f, some p, some m => upd s fun b => { b with fixed := f, prop := p, markup := m, rateKey := rk }
      | _, _, _ => (s, "bad-op")
  | ["deposit", d] =>
      match parseRat? d with
      | some d => upd s fun b => { b with deposit := d }
      | none => (s, "bad-op")
  | "grid" :: ts =>
      match ts.mapM String.toInt? with
      | some l => upd s fun b => { b with grid := b.grid ++ l }
      | none => (s, "bad-op")
  | ["evq", k, t, bid, ask] =>
      match t.toInt?, parseORat? bid, parseORat? ask with
      | some ti, some bid, some ask =>
          upd s fun b => { b with events := b.events ++ [⟨ti, .market (.quote k ti bid ask)⟩] }
      | _, _, _ => (s, "bad-op")
  | ["evd", k, t] =>
      match t.toInt? with
      | some ti => upd s fun b => { b with events := b.events ++ [⟨ti, .market (.disc k ti)⟩] }
      | none => (s, "bad-op")
  | ["evc", id, t] =>
      match id.toNat?, t.toInt? with
      | some i, some ti => upd s fun b => { b with events := b.events ++ [⟨ti, .custom i⟩] }
      | _, _ => (s, "bad-op")
  | ["latency", l] =>
      match l.toInt? with
      | some l => upd s fun b => { b with latency := l }
      | none => (s, "bad-op")
  | ["delay", d] =>
      match d.toNat? with
      | some d => upd s fun b => { b with delay := d }
      | none => (s, "bad-op")
  | ["markov", m] =>
      match parseBool m with
      | some m => upd s fun b => { b with markov := m }
      | none => (s, "bad-op")
  | ["warmup", wu] =>
      match parseOInt wu with
      | some wu => upd s fun b => { b with warmup := wu }
      | none => (s, "bad-op")
  | "chain" :: name :: month :: cs =>
      let parsed := cs.filterMap fun c =>
        match c.splitOn ":" with
        | [t, sym] => t.toInt?.map (fun ti => (ti, sym))
        | _ => none
      if parsed.length ≠ cs.length then (s, "bad-op") else
      match month.toNat? with
      | some m => upd s fun b => { b with chains := (name, { contracts := parsed, month := m }) :: b.chains }
      | none => (s, "bad-op")
  | "space" :: "box" :: lo :: hi :: aw :: fr :: mg :: keys =>
      match parseRat? lo, parseRat? hi, parseBool aw, parseBool fr, parseRat? mg with
      | some lo, some hi, some aw, some fr, some mg =>
          upd s fun b => { b with box := some (lo, hi), boxv := none, asWeights := aw, fractional := fr, margin := mg, spaceKeys := keys }
      | _, _, _, _, _ => (s, "bad-op")
  | "space" :: "boxv" :: aw :: fr :: mg :: n :: rest =>
      -- `n` bounds `lo:hi` (one per contract), then the contracts
      match parseBool aw, parseBool fr, parseRat? mg, n.toNat? with
      | some aw, some fr, some mg, some n =>
          let bs := (rest.take n).filterMap fun c =>
            match c.splitOn ":" with
            | [lo, hi] => (parseRat? lo).bind fun lo => (parseRat? hi).map fun hi => (lo, hi)
            | _ => none
          if bs.length ≠ n then (s, "bad-op") else
          upd s fun b => { b with box := none, boxv := some bs, asWeights := aw, fractional := fr, margin := mg,
                                  spaceKeys := rest.drop n }
      | _, _, _, _ => (s, "bad-op")
  | "space" :: "disc" :: aw :: fr :: keys =>
      match parseBool aw, parseBool fr with
      | some aw, some fr =>
          upd s fun b => { b with box := none, boxv := none, asWeights := aw, fractional := fr, margin := 0, spaceKeys := keys, allocs := [] }
      | _, _ => (s, "bad-op")
  | "alloc" :: vs =>
      match parseRats vs with
      | some l => upd s fun b => { b with allocs := b.allocs ++ [l] }
      | none => (s, "bad-op")
  | ["reward", "simple"] => upd s fun b => { b with reward := .simple }
  | ["reward", "pnl"] => upd s fun b => { b with reward := .pnl }
  | ["reward", "log"] => upd s fun b => { b with reward := .log }
  | ["reward", "logret", sc, cl, ra] =>
      match parseRat? sc, parseRat? cl, parseRat? ra with
      | some sc, some cl, some ra => upd s fun b => { b with reward := .logret sc cl ra }
      | _, _, _ => (s, "bad-op")
  | ["eplen", n] =>
      if n = "none" then upd s fun b => { b with eplen := none } else
      match n.toNat? with
      | some n => upd s fun b => { b with eplen := some n }
      | none => (s, "bad-op")
  | ["build"] =>
      let e := s.slot
      let cfg := e.build.cfg
      if cfg.tx.valid then (s.setSlot { e with cfg := some cfg }, "ok") else (s, "err rejected")
  | ["gridq"] =>
      let cfg := s.slot.build.cfg
      (s, String.intercalate "," (cfg.tx.grid.map toString))
  | ["steps", lo, hi] =>
      match lo.toInt?, hi.toInt? with
      | some lo, some hi =>
          let cfg := s.slot.build.cfg
          let l := cfg.tx.foldSteps lo hi
          (s, if l.isEmpty then "-" else String.intercalate "," (l.map toString))
      | _, _ => (s, "bad-op")
  | ["nstarts", lo, hi] =>
      match lo.toInt?, hi.toInt? with
      | some lo, some hi =>
          let cfg := s.slot.build.cfg
          (s, toString (nStarts (cfg.tx.foldSteps lo hi).length (cfg.episodeLen.getD 0)))
      | _, _ => (s, "bad-op")
  | "ereset" :: lo :: hi :: start :: rest =>
      -- optional 4th argument: `reset(fold, episode_length=m)` overrides the configured length for this episode
      let ovr : Option (Option Nat) := match rest with
        | [] => some none
        | [m] => m.toNat?.map some
        | _ => none
      match lo.toInt?, hi.toInt?, start.toNat?, ovr with
      | some lo, some hi, some st, some ovr =>
          let (s', out) := withEnv s fun cfg st0 =>
            let cfg' : EnvCfg Rat := match ovr with | some m => { cfg with episodeLen := some m } | none => cfg
            if !resetAdmissible cfg' lo hi st then (st0, "err rejected") else
            let st1 := envReset cfg' lo hi st st0.contractClock
            (st1, s!"ok {st1.done} {showOInt st1.now}")
          (s'.setSlot { s'.slot with logSeen := 0 }, out)
      | _, _, _, _ => (s, "bad-op")
  | "step" :: vs =>
      match vs.mapM parseORat? with
      | some v => withEnv s fun cfg st0 => showStep (envStep pwFloat lgFloat cfg st0 (.vec v))
      | none => (s, "bad-op")
  | ["stepi", i] =>
      match i.toInt? with
      | some i => withEnv s fun cfg st0 => showStep (envStep pwFloat lgFloat cfg st0 (.idx i))
      | none => (s, "bad-op")
  | ["stepj"] => withEnv s fun cfg st0 => showStep (envStep pwFloat lgFloat cfg st0 .junk)
  | ["log"] =>
      let e := s.slot
      let l := e.st.log.drop e.logSeen
      (s.setSlot { e with logSeen := e.st.log.length },
        if l.isEmpty then "-" else String.intercalate ";" (l.map showEntry))
  | ["pos"] =>
      let b := s.slot.st.broker
      (s, showKV (b.held.map fun k => (k, b.pos k)))
  | ["state"] =>
      let b := s.slot.st.broker
      (s, s!"{showRat b.cash} pos={showKV (b.held.map fun k => (k, b.pos k))} margin={showKV (b.held.map fun k => (k, b.margin k))}")
  | ["nlv"] =>
      withEnv s fun cfg st0 =>
        match netLiq cfg.world false st0.broker with
        | (b', .ok v) => ({ st0 with broker := b' }, showRat v)
        | (b', .error e) => ({ st0 with broker := b' }, showErr e)
  | ["nrec"] => (s, toString s.slot.st.broker.record.length)
  | ["rec", i] =>
      match i.toNat? with
      | some i =>
          match s.slot.st.broker.record[i]? with
          | some e => (s, s!"{e.time} {showRat e.interest} {showRat e.nlvPre} {showRat e.nlvPost} {showTrades e.trades} tgt={showKV e.target} pos={showKV e.posPost}")
          | none => (s, "none")
      | none => (s, "bad-op")
  | ["recn", i] =>
      match i.toNat? with
      | some i =>
          match s.slot.st.broker.record[i]? with
          | some e => (s, s!"{e.time} {showRat e.interest} {showRat e.nlvPre} {showRat e.nlvPost} {showRat e.cashPre} {showRat e.cashPost} ppre={showKV e.posPre} mpre={showKV e.marginPre} ppost={showKV e.posPost} mpost={showKV e.marginPost}")
          | none => (s, "none")
      | none => (s, "bad-op")
  | ["book", k] =>
      let b := s.slot.st.broker.ex.books k
      (s, s!"{showORat b.bid} {showORat b.ask} {b.alive}")
  | ["now"] => (s, showOInt s.slot.st.now)
  | ["done"] => (s, toString s.slot.st.done)
  | ["wf", n, tr, te, sl] =>
      match n.toNat?, tr.toNat?, te.toNat?, parseBool sl with
      | some n, some tr, some te, some sl =>
          let l := walkForward n tr te sl
          (s, if l.isEmpty then "-" else String.intercalate ";" (l.map fun f => s!"{f.trainStart},{f.trainEnd},{f.testStart},{f.testEnd}"))
      | _, _, _, _ => (s, "bad-op")
  | _ => (s, "bad-op")

def main : IO Unit := run step ({} : St)
