/- Driver: broker model behind the line protocol (C01, C03, C05, C06, C12, C13, parts of C09). -/
import TradingVerif.Model.Broker
import TradingVerif.Proto
import TradingVerif.DriverUtil
open TV TV.Proto

structure St where
  specs : List (Key × Spec Rat) := []
  fixed : Rat := 0
  prop : Rat := 0
  markup : Rat := 0
  rateKey : Key := "RATE"
  eps : Rat := mkRat 1 10000000
  b : Broker Rat := Broker.init 0

def St.world (s : St) : World Rat :=
  { spec := fun k => (s.specs.lookup k).getD { mult := 1, cashReq := 1, mr := 0 }
    fixed := s.fixed, prop := s.prop, markup := s.markup, rateKey := s.rateKey, eps := s.eps }

def showState (s : St) : String :=
  let b := s.b
  s!"{showRat b.cash} pos={showKV (b.held.map fun k => (k, b.pos k))} margin={showKV (b.held.map fun k => (k, b.margin k))}"

/-- run one model operation (`stepOp`, the function the theorems are about) and render its output -/
def exec (s : St) (op : Op Rat) : St × String :=
  match stepOp pwFloat s.world s.b op with
  | (b', .unit) => ({ s with b := b' }, "ok")
  | (b', .num v) => ({ s with b := b' }, showRat v)
  | (b', .kvs l) => ({ s with b := b' }, showKV l)
  | (b', .err e) => ({ s with b := b' }, showErr e)

def step (s : St) (ws : List String) : St × String :=
  let w := s.world
  match ws with
  | ["reset"] => ({}, "ok")
  | ["spec", k, m, c, r, ic] =>
      match parseRat? m, parseRat? c, parseRat? r, parseBool ic with
      | some m, some c, some r, some ic =>
          ({ s with specs := (k, { mult := m, cashReq := c, mr := r, isCash := ic }) :: s.specs }, "ok")
      | _, _, _, _ => (s, "bad-op")
  | ["fees", f, p, m, rk] =>
      match parseRat? f, parseRat? p, parseRat? m with
      | some f, some p, some m => ({ s with fixed := f, prop := p, markup := m, rateKey := rk }, "ok")
      | _, _, _ => (s, "bad-op")
  | ["eps", e] =>
      match parseRat? e with
      | some e => ({ s with eps := e }, "ok")
      | none => (s, "bad-op")
  | ["deposit", d] =>
      match parseRat? d with
      | some d => ({ s with b := Broker.init d }, "ok")
      | none => (s, "bad-op")
  | ["q", k, t, b, a] =>
      match t.toInt?, parseORat? b, parseORat? a with
      | some ti, some bid, some ask => exec s (.ev (.quote k ti bid ask))
      | _, _, _ => (s, "bad-op")
  | ["d", k, t] =>
      match t.toInt? with
      | some ti => exec s (.ev (.disc k ti))
      | none => (s, "bad-op")
  | ["trade", k, q, b, a] =>
      match parseORat? q, parseORat? b, parseORat? a with
      | some q, some b, some a => exec s (.trade k q b a)
      | _, _, _ => (s, "bad-op")
  | ["tradeq", k, q] =>
      match parseORat? q with
      | some q => exec s (.tradeq k q)
      | none => (s, "bad-op")
  | ["mark", k] => exec s (.mark k)
  | ["markall"] => exec s .markAll
  | ["nlv", r] =>
      match parseBool r with
      | some r => exec s (.nlv r)
      | none => (s, "bad-op")
  | ["values", kind] => exec s (.values (if kind = "liq" then ValKind.liquidation else ValKind.notional))
  | ["weights"] => exec s .weights
  | ["accrue", t, a] =>
      match t.toInt?, parseBool a with
      | some ti, some a => exec s (.accrue ti a)
      | _, _ => (s, "bad-op")
  | "rebal" :: t :: bw :: ab :: fr :: mg :: tgt =>
      match t.toInt?, parseBool bw, parseBool ab, parseBool fr, parseRat? mg, parseKV tgt with
      | some ti, some bw, some ab, some fr, some mg, some tgt =>
          let r : Rebal Rat := { time := ti, byWeight := bw, absolute := ab, fractional := fr, margin := mg, target := tgt }
          match stepOp pwFloat w s.b (.rebal r) with
          | (b', .err e) => ({ s with b := b' }, showErr e)
          | (b', _) =>
              match b'.record.getLast? with
              | some e => ({ s with b := b' }, s!"ok {showRat e.interest} {showRat e.nlvPre} {showRat e.nlvPost}")
              | none => ({ s with b := b' }, "ok")
      | _, _, _, _, _, _ => (s, "bad-op")
  | ["state"] => (s, showState s)
  | ["pos"] => (s, showKV (s.b.held.map fun k => (k, s.b.pos k)))
  | ["ledger"] =>
      (s, s!"{showRat s.b.interest} {showRat s.b.comm} basis={showKV (s.b.held.map fun k => (k, s.b.basis k))}")
  | ["nrec"] => (s, toString s.b.record.length)
  | ["lasttrades"] =>
      match s.b.record.getLast? with
      | some e => (s, showTrades e.trades)
      | none => (s, "-")
  | ["snapped"] => (s, toString s.b.snapped)
  | _ => (s, "bad-op")

def main : IO Unit := run step ({} : St)
