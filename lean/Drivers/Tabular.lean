/- Driver: tabular-environment model (C18). -/
import TradingVerif.Model.Tabular
import TradingVerif.Proto
open TV TV.Tab TV.Proto

structure St where
  window : Nat := 1
  stride : Option Nat := none
  queue : List (List Rat) := []
  first : Bool := true

def showRow (r : List Rat) : String := String.intercalate "," (r.map showRat)
def showRows (l : List (List Rat)) : String := if l.isEmpty then "-" else String.intercalate ";" (l.map showRow)

def parseCol (ws : List String) : Option (List (Option Rat)) := ws.mapM parseORat?

def step (s : St) (ws : List String) : St × String :=
  match ws with
  | ["reset"] => ({}, "ok")
  | ["window", w, st] =>
      match w.toNat?, (if st = "none" then some none else st.toNat?.map some) with
      | some w, some st => ({ s with window := w, stride := st, queue := [], first := true }, "ok")
      | _, _ => (s, "bad-op")
  | "obs" :: vs =>
      match vs.mapM parseRat? with
      | some row =>
          let q := pushObs s.window s.first s.queue row
          ({ s with queue := q, first := false }, showRows (thin s.stride q))
      | none => (s, "bad-op")
  | "prep" :: clip :: vs =>
      match parseRat? clip, parseCol vs with
      | some c, some col => (s, String.intercalate "," ((prepareColumn c col).map showRat))
      | _, _ => (s, "bad-op")
  | ["widen", p, sp] =>
      match parseRat? p, parseRat? sp with
      | some p, some sp => let w := widen p sp; (s, s!"{showRat w.1} {showRat w.2}")
      | _, _ => (s, "bad-op")
  | "steps" :: lo :: hi :: w :: rest =>
      -- rest = yDates... | holidays...
      match lo.toInt?, hi.toInt?, w.toNat? with
      | some lo, some hi, some w =>
          let (ys, hs) := rest.span (· ≠ "|")
          match ys.mapM String.toInt?, (hs.drop 1).mapM String.toInt? with
          | some ys, some hs =>
              let l := makeTimesteps ys hs lo hi w
              (s, if l.isEmpty then "-" else String.intercalate "," (l.map toString))
          | _, _ => (s, "bad-op")
      | _, _, _ => (s, "bad-op")
  | _ => (s, "bad-op")

def main : IO Unit := run step ({} : St)
