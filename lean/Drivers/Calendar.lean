/- Driver: calendar / futures-expiry model (C19, C11). -/
import TradingVerif.Model.Calendar
import TradingVerif.Proto
open TV.Cal TV.Proto

def parseCls : String → Option Cls
  | "ES" => some .ES | "NK" => some .NK | "VX" => some .VX | "ZQ" => some .ZQ
  | "ZT" => some .ZT | "ZF" => some .ZF | "ZN" => some .ZN | "ZB" => some .ZB
  | _ => none

def step (s : Unit) (ws : List String) : Unit × String :=
  match ws with
  | ["reset"] => (s, "ok")
  | ["exp", c, y, m] =>
      match parseCls c, y.toInt?, m.toInt? with
      | some c, some y, some m =>
          let e := expiry c y m
          (s, s!"{e} {lastTrading c e} {symbol c y m}")
      | _, _, _ => (s, "bad-op")
  | ["civil", n] =>
      match n.toInt? with
      | some n => let p := civilFromDays n; (s, s!"{p.1} {p.2.1} {p.2.2} {weekday n}")
      | none => (s, "bad-op")
  | ["days", y, m, d] =>
      match y.toInt?, m.toInt?, d.toInt? with
      | some y, some m, some d => (s, toString (daysFromCivil y m d))
      | _, _, _ => (s, "bad-op")
  | ["listing", c, a, b] =>
      match parseCls c, a.toInt?, b.toInt? with
      | some c, some a, some b =>
          let l := listing c a b
          (s, if l.isEmpty then "-" else String.intercalate "," (l.map fun ym => symbol c ym.1 ym.2))
      | _, _, _ => (s, "bad-op")
  | _ => (s, "bad-op")

def main : IO Unit := run step ()
