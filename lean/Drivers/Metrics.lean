/- Driver: performance-metrics model (C16). -/
import TradingVerif.Model.Metrics
import TradingVerif.Proto
import TradingVerif.DriverUtil
open TV TV.Met TV.Proto

def leavesF : Leaves Rat := { sqrt := sqrtFloat, log := lgFloat, pow := pwFloat }

structure St where
  a : List (Row Rat) := []
  aDt : Bool := true
  b : List (Row Rat) := []
  bDt : Bool := true

def parseRow (w : String) : Option (Row Rat) :=
  match w.splitOn ":" with
  | [t, v] =>
      let tt : Option (Option Time) := if t = "nat" then some none else t.toInt?.map some
      match tt, parseORat? v with
      | some tt, some vv => some ⟨tt, vv⟩
      | _, _ => none
  | _ => none

def showList (l : List Rat) : String := if l.isEmpty then "-" else String.intercalate "," (l.map showRat)
def showO : Option Rat → String
  | some r => showRat r
  | none => "nan"

def timesOf (l : List (Row Rat)) : List Time := l.filterMap (·.time)

def metric (s : St) (name : String) (arg : Option Rat) : String :=
  if !validate s.aDt s.a then "err rejected" else
  let lv := level s.a
  let ts := timesOf s.a
  let rets := returns lv
  let q := arg.getD (mkRat 25 1000)
  let fl := ((((rets.length - 1 : Nat) : Rat) * q).floor).toNat
  let rf := arg.getD 0
  let cg := cagr leavesF lv ts
  let excess : Option Rat := cg.map (· - rf)
  match name with
  | "validate" => "ok"
  | "level" => showList lv
  | "returns" => showList rets
  | "ncaldays" => toString (nrCalendarDays ts)
  | "cagr" => showO cg
  | "cumret" => showO (match lv.head?, lv.getLast? with | some a, some b => some (b / a - 1) | _, _ => none)
  | "vol" => showRat (volatility leavesF lv)
  | "dd" => showList (drawdown lv)
  | "maxdd" => showO (maxDrawdown lv)
  | "var" => showO (quantileAt rets q fl)
  | "es" => showO ((quantileAt rets q fl).map (expectedShortfall rets))
  | "downvol" => showRat (downsideVol leavesF lv)
  | "upvol" => showRat (upsideVol leavesF lv)
  | "martin" => showRat (martinRisk leavesF lv)
  | "sharpe" => showO (excess.map (· / volatility leavesF lv))
  | "sortino" => showO (excess.map (· / downsideVol leavesF lv))
  | "calmar" => showO (match excess, maxDrawdown lv with | some e, some m => some (e / (-m)) | _, _ => none)
  | "martinr" => showO (excess.map (· / martinRisk leavesF lv))
  | "te" =>
      if !validate s.bDt s.b then "err rejected" else showRat (trackingError leavesF lv (level s.b))
  | "ir" =>
      if !validate s.bDt s.b then "err rejected" else
      match cg, cagr leavesF (level s.b) (timesOf s.b) with
      | some c1, some c2 => showRat ((c1 - c2) / trackingError leavesF lv (level s.b))
      | _, _ => "nan"
  | _ => "bad-op"

def step (s : St) (ws : List String) : St × String :=
  match ws with
  | ["reset"] => ({}, "ok")
  | "series" :: dtf :: rows =>
      match parseBool dtf, rows.mapM parseRow with
      | some d, some l => ({ s with a := l, aDt := d }, "ok")
      | _, _ => (s, "bad-op")
  | "series2" :: dtf :: rows =>
      match parseBool dtf, rows.mapM parseRow with
      | some d, some l => ({ s with b := l, bDt := d }, "ok")
      | _, _ => (s, "bad-op")
  | ["metric", name] => (s, metric s name none)
  | ["metric", name, a] =>
      match parseRat? a with
      | some a => (s, metric s name (some a))
      | none => (s, "bad-op")
  | _ => (s, "bad-op")

def main : IO Unit := run step ({} : St)
