/- Driver: exchange / order-book model behind the line protocol (C14, chain keys of C11). -/
import TradingVerif.Model.Exchange
import TradingVerif.Proto
open TV TV.Proto

structure St where
  ex : Exchange Rat := {}
  chains : List (String × Chain) := []
  now : Time := 0

def resolve (s : St) (k : String) : Option Key :=
  if k.startsWith "@" then
    match s.chains.lookup (k.drop 1).toString with
    | some c => (c.lead s.now).map (·.2)
    | none => none
  else some k

def parseSign : String → Option Sign
  | "-1" => some .neg
  | "0" => some .zero
  | "1" => some .pos
  | _ => none

def showBook (s : St) (b : Book Rat) : String :=
  let h := b.hist.map fun r => s!"{r.time},{showORat r.bid},{showORat r.ask}"
  s!"{showORat b.bid} {showORat b.ask} {b.alive} {showOInt b.time} {showOInt s.ex.lastUpdate} {b.hist.length} {String.intercalate ";" h}"

def step (s : St) (ws : List String) : St × String :=
  match ws with
  | ["reset"] => ({ s with ex := {} }, "ok")
  | "chain" :: name :: month :: cs =>
      let parsed := cs.filterMap fun c =>
        match c.splitOn ":" with
        | [t, sym] => t.toInt?.map (fun ti => (ti, sym))
        | _ => none
      if parsed.length ≠ cs.length then (s, "bad-op") else
      match month.toNat? with
      | some m => ({ s with chains := (name, { contracts := parsed, month := m }) :: s.chains }, "ok")
      | none => (s, "bad-op")
  | ["now", t] =>
      match t.toInt? with
      | some ti => ({ s with now := ti }, "ok")
      | none => (s, "bad-op")
  | ["q", k, t, b, a] =>
      match resolve s k, t.toInt?, parseORat? b, parseORat? a with
      | some key, some ti, some bid, some ask =>
          ({ s with ex := s.ex.step (.quote key ti bid ask) }, "ok")
      | none, some _, some _, some _ => (s, "err index")
      | _, _, _, _ => (s, "bad-op")
  | ["d", k, t] =>
      match resolve s k, t.toInt? with
      | some key, some ti => ({ s with ex := s.ex.step (.disc key ti) }, "ok")
      | none, some _ => (s, "err index")
      | _, _ => (s, "bad-op")
  | ["book", k] =>
      match resolve s k with
      | some key => (s, showBook s (s.ex.books key))
      | none => (s, "err index")
  | ["key", k] =>
      match resolve s k with
      | some key => (s, key)
      | none => (s, "err index")
  | ["acq", k, sg] =>
      match resolve s k, parseSign sg with
      | some key, some sign => (s, showORat ((s.ex.books key).acq sign))
      | none, some _ => (s, "err index")
      | _, _ => (s, "bad-op")
  | ["liq", k, sg] =>
      match resolve s k, parseSign sg with
      | some key, some sign => (s, showORat ((s.ex.books key).liq sign))
      | none, some _ => (s, "err index")
      | _, _ => (s, "bad-op")
  | ["mid", k] =>
      match resolve s k with
      | some key => (s, showORat (s.ex.books key).mid)
      | none => (s, "err index")
  | _ => (s, "bad-op")

def main : IO Unit := run step ({} : St)
