import TradingVerif.Model.Num
import TradingVerif.Model.Exchange
import TradingVerif.Proto
import TradingVerif.Model.Broker
