import TradingVerif.Model.Num
import TradingVerif.Model.Exchange
import TradingVerif.Proto
import TradingVerif.Model.Broker
import TradingVerif.Model.Legacy
import TradingVerif.Model.Transmitter
import TradingVerif.Model.Env
import TradingVerif.DriverUtil
