import importlib
import sys

from .runner import main

if __name__ == "__main__":
    if len(sys.argv) < 2:
        print("usage: check <Cxx> [quick|thorough] [--replay FILE]", file=sys.stderr)
        sys.exit(2)
    pid = sys.argv[1]
    try:
        mod = importlib.import_module(f"tv.props.{pid.lower()}")
    except ModuleNotFoundError as e:
        print(f"no check for {pid}: {e}", file=sys.stderr)
        sys.exit(2)
    sys.exit(main(mod.PROP, sys.argv[2:]))
