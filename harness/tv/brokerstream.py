"""Broker histories: generator, in-process execution on the real Broker through public API,
protocol lines for the Lean broker driver, and the independent Fraction ledger (property oracle).

Used by C01, C03, C05, C06, C12, C13 (each compares / judges only its own observables)."""
from __future__ import annotations

import math
from fractions import Fraction

from .core import F, fr, from_us
from .runner import ImplRun

T0 = 1546300800 * 1_000_000  # 2019-01-01
DAY = 86_400_000_000
REL = Fraction(1, 10**9)

BUILTIN = {  # key -> (class name, year, month)
    "ESH19": ("ES", 2019, 3), "ESM19": ("ES", 2019, 6), "NKH19": ("NK", 2019, 3),
    "VXH19": ("VX", 2019, 3), "ZNH19": ("ZN", 2019, 3), "ZQH19": ("ZQ", 2019, 3),
}


def make_contract(c: dict):
    """Build the real contract object for a case's contract description."""
    import tradingenv.contracts as tc

    kind = c["kind"]
    if kind in ("ETF", "Index", "Stock"):
        return getattr(tc, kind)(c["key"])
    if kind == "builtin":
        cls, y, m = BUILTIN[c["key"]]
        return getattr(tc, cls)(y, m)
    if kind == "user":
        mult, cr, mr = float(Fraction(c["mult"])), float(Fraction(c["cashReq"])), float(Fraction(c["mr"]))

        class UserContract(tc.AbstractContract):
            def __init__(self, symbol):
                self._symbol = symbol

            @property
            def symbol(self):
                return self._symbol

            multiplier = mult
            cash_requirement = cr
            margin_requirement = mr

        return UserContract(c["key"])
    raise ValueError(kind)


def spec_of(c: dict, obj) -> tuple[Fraction, Fraction, Fraction]:
    return F(obj.multiplier), F(obj.cash_requirement), F(obj.margin_requirement)


def kv(d: dict) -> str:
    items = sorted((k, v) for k, v in d.items() if v != 0)
    return ",".join(f"{k}:{fr(v)}" for k, v in items) if items else "-"


class Session:
    """Executes one case on the implementation and records everything oracles need."""

    def __init__(self, case: dict, run: ImplRun):
        from tradingenv.broker.broker import Broker
        from tradingenv.broker.fees import BrokerFees
        from tradingenv.contracts import Cash, Rate
        from tradingenv.events import EventNBBO
        from tradingenv.exchange import Exchange

        self.case, self.r = case, run
        self.objs = {c["key"]: make_contract(c) for c in case["contracts"]}
        self.specs = {c["key"]: spec_of(c, self.objs[c["key"]]) for c in case["contracts"]}
        fixed, prop, markup = (Fraction(x) for x in case.get("fees", ["0", "0", "0"]))
        self.fixed, self.prop, self.markup = F(float(fixed)), F(float(prop)), F(float(markup))
        self.rate = Rate("RATE")
        self.cash_c = Cash()
        self.ex = Exchange()
        self.deposit = F(float(Fraction(case.get("deposit", "100000"))))
        self.broker = Broker(self.ex, self.cash_c, float(self.deposit),
                             BrokerFees(float(markup), self.rate, float(prop), float(fixed)))
        # another account on the same Exchange object (a benchmark / second client): it trades the same contracts and is
        # valued right before or right after the account under test; nothing it does changes what the property says
        # about the account under test (it does not move quotes)
        self.shadow = None
        if case.get("shadow"):
            self.shadow = Broker(self.ex, self.cash_c, float(self.deposit) * 3 + 1000.0,
                                 BrokerFees(0.0, self.rate, 0.0005, 1.0))
            run.tags.add("second-account-on-exchange")
        t0 = from_us(case.get("t0", T0))
        self.ex.process_EventNBBO(EventNBBO(t0, self.cash_c, 1.0, 1.0))
        r0 = float(Fraction(case.get("rate0", "0")))
        self.ex.process_EventNBBO(EventNBBO(t0, self.rate, r0, r0))
        r = run
        for c in case["contracts"]:
            m, cr, mr = self.specs[c["key"]]
            r.op(f"spec {c['key']} {fr(m)} {fr(cr)} {fr(mr)} 0")
        r.op("spec USD 1 1 0 1")
        r.op(f"fees {fr(self.fixed)} {fr(self.prop)} {fr(self.markup)} RATE")
        r.op(f"deposit {fr(self.deposit)}")
        r.op(f"q RATE {case.get('t0', T0)} {fr(r0)} {fr(r0)}")
        # independent ledger (Fractions)
        self.quotes: dict[str, tuple] = {}
        self.dead: set[str] = set()
        self.lpos = {k: Fraction(0) for k in self.objs}
        self.lbasis = {k: Fraction(0) for k in self.objs}
        self.lcomm = Fraction(0)
        self.lint = Fraction(0)
        self.scale = abs(self.deposit) + 1
        self.last_nlv = None
        self.obs: list[dict] = []

    # ------------------------------------------------------------------ helpers
    def sym(self, contract) -> str:
        return contract.symbol if hasattr(contract, "symbol") else str(contract)

    def state(self):
        hq = self.broker.holdings_quantity
        hm = self.broker.holdings_margins
        cash = F(hq.get(self.cash_c, 0.0))
        pos = {self.sym(c): F(v) for c, v in hq.items() if self.sym(c) != "USD"}
        mar = {self.sym(c): F(v) for c, v in hm.items() if self.sym(c) != "USD"}
        return cash, pos, mar

    def liq(self, k, q):
        b, a = self.quotes.get(k, (None, None))
        if q > 0:
            return b
        if q < 0:
            return a
        return None if b is None or a is None else (a + b) / 2

    def bump_scale(self):
        g = abs(self.deposit)
        for k, q in self.lpos.items():
            b, a = self.quotes.get(k, (None, None))
            p = a if a is not None else b
            if p is not None:
                g += abs(q * p * self.specs[k][0])
        self.scale = max(self.scale, g + abs(self.lint) + abs(self.lcomm))

    def tol(self):
        return REL * self.scale

    def expected_nlv(self):
        """deposit + interest - commissions + sum mult (pos liq - basis); None if a needed quote is missing"""
        v = self.deposit + self.lint - self.lcomm
        for k, q in self.lpos.items():
            m = self.specs[k][0]
            if q != 0:
                p = self.liq(k, q)
                if p is None:
                    return None
                v += m * (q * p - self.lbasis[k])
            else:
                v -= m * self.lbasis[k]
        return v

    def call(self, fn):
        from tradingenv.broker.broker import EndOfEpisodeError

        try:
            return "ok", fn()
        except EndOfEpisodeError:
            return "err eoe", None
        except Exception as e:  # ValueError, KeyError, ... all mean "rejected"
            self.r.trace.append(f"   raised {type(e).__name__}: {str(e)[:120]}")
            return "err rejected", None

    def when(self, t):
        """the instant `t` as the datetime handed to the broker: naive (the library's convention) or, in `tz_mode`,
        timezone-aware with a UTC offset that changes from call to call (the same instants, written differently)"""
        d = from_us(t)
        if not self.case.get("tz_mode"):
            return d
        import datetime as _dt
        self._tzn = getattr(self, "_tzn", 0) + 1
        off = [0, 5, -3, 1, 9, -8][self._tzn % 6] if self.case["tz_mode"] == "mixed" else 0
        tz = _dt.timezone(_dt.timedelta(hours=off))
        return d.replace(tzinfo=_dt.timezone.utc).astimezone(tz)

    def emit_state(self, compare=True):
        cash, pos, mar = self.state()
        s = f"{fr(cash)} pos={kv(pos)} margin={kv(mar)}"
        self.r.op("pos", kv(pos), self.tol())
        self.r.op("state", s if compare else None, self.tol())
        return cash, pos, mar

    def book_trade(self, k, qty, px):
        """ledger update for an executed trade (quantity, execution price)"""
        m = self.specs[k][0]
        self.lpos[k] += qty
        self.lbasis[k] += qty * px
        self.lcomm += self.fixed + abs(px * qty * m) * self.prop

    # ------------------------------------------------------------------ ops
    @staticmethod
    def req_key(op):
        return (op[2], op[3], op[4], op[5], tuple(sorted(op[6].items())))

    def shadow_look(self, op, when):
        """what the second account does around an operation of the account under test"""
        from tradingenv.broker.trade import Trade

        sh, mode = self.shadow, self.case.get("shadow")
        if sh is None or (mode != "both" and mode != when):
            return
        kind = op[0]
        try:
            if kind in ("tradeq", "trade") and when == "before":
                # takes the other side of half the size, at the book's quotes
                obj = self.objs[op[1]]
                qty = -float(Fraction(op[2])) / 2 if op[2] != "nan" else 0.0
                bid, ask = self.ex[obj].bid_price, self.ex[obj].ask_price
                if qty:
                    sh.transact(Trade(from_us(op[-1]) if isinstance(op[-1], int) else from_us(T0), obj, qty, bid, ask, sh.fees))
            if kind in ("mark", "markall", "nlv", "values", "weights", "rebal", "context", "tradeq", "trade"):
                sh.net_liquidation_value(False)
        except Exception:  # noqa  (whatever happens to the other account is not what is being judged)
            pass

    def do(self, op):
        o = self._do(op)
        self.shadow_look(op, "after")
        return o

    def _do(self, op):
        from tradingenv.broker.rebalancing import Rebalancing
        from tradingenv.broker.trade import Trade
        from tradingenv.events import EventContractDiscontinued, EventNBBO

        r, kind = self.r, op[0]
        o = dict(op=op)
        self.shadow_look(op, "before")
        if kind == "q":
            _, k, t, b, a = op
            fb = float("nan") if b == "nan" else float(Fraction(b))
            fa = float("nan") if a == "nan" else float(Fraction(a))
            obj = self.rate if k == "RATE" else self.objs[k]
            self.ex.process_EventNBBO(EventNBBO(from_us(t), obj, fb, fa))
            r.op(f"q {k} {t} {fr(fb)} {fr(fa)}", "ok")
            if k != "RATE":
                if k not in self.dead:
                    self.quotes[k] = (F(fb), F(fa))
            else:
                self.rate_now = F(fb)
        elif kind == "d":
            _, k, t = op
            self.ex.process_EventContractDiscontinued(EventContractDiscontinued(from_us(t), self.objs[k]))
            r.op(f"d {k} {t}", "ok")
            self.dead.add(k)
            self.quotes[k] = (None, None)
        elif kind in ("tradeq", "trade"):
            k, qty = op[1], float(Fraction(op[2])) if op[2] != "nan" else float("nan")
            obj = self.objs[k]
            if kind == "tradeq":
                bid, ask = self.ex[obj].bid_price, self.ex[obj].ask_price
                line = f"tradeq {k} {fr(qty)}"
            else:
                bid = float("nan") if op[3] == "nan" else float(Fraction(op[3]))
                ask = float("nan") if op[4] == "nan" else float(Fraction(op[4]))
                line = f"trade {k} {fr(qty)} {fr(bid)} {fr(ask)}"
            st, tr = self.call(lambda: Trade(from_us(op[-1]) if isinstance(op[-1], int) else from_us(T0), obj, qty, bid, ask, self.broker.fees))
            if st == "ok":
                st, _ = self.call(lambda: self.broker.transact(tr))
                px = F(ask) if qty > 0 else F(bid)
                self.book_trade(k, F(qty), px)
                o.update(traded=k, qty=F(qty), px=px)
            r.op(line, st)
            o["status"] = st
        elif kind == "mark":
            st, _ = self.call(lambda: self.broker.marking_to_market(self.objs[op[1]]))
            r.op(f"mark {op[1]}", st)
            o["marked"] = [op[1]]
        elif kind == "markall":
            st, _ = self.call(lambda: self.broker.marking_to_market())
            r.op("markall", st)
            o["marked"] = list(self.objs)
        elif kind == "nlv":
            st, v = self.call(lambda: self.broker.net_liquidation_value(bool(op[1])))
            r.op(f"nlv {int(op[1])}", fr(v) if st == "ok" else st, self.tol())
            o.update(status=st, nlv=F(v) if st == "ok" else None, valued=True)
        elif kind == "values":
            what = op[1]
            st, v = self.call(lambda: self.broker.holdings_values(kind="liquidation" if what == "liq" else "notional"))
            if st == "ok":
                d = {self.sym(c): F(x) for c, x in v.items() if self.sym(c) != "USD"}
                r.op(f"values {what}", kv(d), self.tol())
                o["values"] = (what, d)
            else:
                r.op(f"values {what}", st)
            o["status"] = st
        elif kind == "weights":
            st, v = self.call(lambda: self.broker.holdings_weights())
            if st == "ok":
                d = {self.sym(c): F(x) for c, x in v.items() if self.sym(c) != "USD"}
                r.op("weights", kv(d), Fraction(1, 10**8) * max([Fraction(1)] + [abs(x) for x in d.values()]))
                o["weights"] = d
            else:
                r.op("weights", st)
            o.update(status=st, valued=(st == "ok"))
        elif kind == "context":
            # Broker.context(): one snapshot (NLV, weights, notional values, quantities incl. cash, margins); every field
            # is compared with the model's marked state, so the fields are also checked against each other
            st, ctx = self.call(lambda: self.broker.context())
            if st == "ok":
                r.op("nlv 1", fr(ctx.nlv), self.tol())
                dw = {self.sym(c): F(x) for c, x in ctx.weights.items() if self.sym(c) != "USD"}
                r.op("weights", kv(dw), Fraction(1, 10**8) * max([Fraction(1)] + [abs(x) for x in dw.values()]))
                dv = {self.sym(c): F(x) for c, x in ctx.values.items() if self.sym(c) != "USD"}
                r.op("values notional", kv(dv), self.tol())
                cash = sum(F(x) for c, x in ctx.nr_contracts.items() if self.sym(c) == "USD")
                pos = {self.sym(c): F(x) for c, x in ctx.nr_contracts.items() if self.sym(c) != "USD"}
                mar = {self.sym(c): F(x) for c, x in ctx.margins.items() if self.sym(c) != "USD"}
                r.op("state", f"{fr(cash)} pos={kv(pos)} margin={kv(mar)}", self.tol())
                o.update(nlv=F(ctx.nlv), weights=dw, valued=True, ctx=dict(cash=cash, pos=pos, margins=mar))
            else:
                r.op("nlv 1", st)
            o["status"] = st
        elif kind == "accrue":
            _, t, flag = op
            st, v = self.call(lambda: self.broker.accrued_interest(self.when(t), bool(flag)))
            r.op(f"accrue {t} {int(flag)}", fr(v) if st == "ok" else st, self.tol())
            if st == "ok" and flag:
                self.lint += F(v)
            o.update(status=st, amount=F(v) if st == "ok" else None)
        elif kind == "rebal":
            _, t, bw, ab, frac, mg, tgt = op[:7]
            preview = op[7] if len(op) > 7 else None
            keys = list(tgt)
            objs = [self.cash_c if k == "USD" else self.objs[k] for k in keys]
            vals = [float(Fraction(tgt[k])) for k in keys]
            # the form in which the caller hands over the allocation (what a policy network or a config table produces)
            form = self.case.get("alloc_form")
            alloc_arg = vals
            if form:
                import numpy as _np
                alloc_arg = {"f32": [_np.float32(v) for v in vals], "f32arr": _np.array(vals, dtype=_np.float32),
                             "np64": [_np.float64(v) for v in vals], "arr": _np.array(vals, dtype=float),
                             "tuple": tuple(vals)}[form]
                r.tags.add("allocation-form-" + form)
            fmg = float(Fraction(mg))
            probe_trades = ...
            if self.case.get("probe_make_trades"):
                # `Rebalancing.make_trades(broker)` is also a public entry point: it computes the trades of a request
                # without executing anything. The account is valued first (so that the marking it triggers is a
                # no-op), then probed: positions, balances and the track record must be untouched, and the list must be
                # the one the rebalance then executes (no interest accrues in these cases).
                self.do(["nlv", 0])
                snap = (self.state(), len(self.broker.track_record))
                try:
                    probe = Rebalancing(contracts=objs, allocation=alloc_arg, measure="weight" if bw else "nr-contracts",
                                        absolute=bool(ab), fractional=bool(frac), margin=fmg, time=self.when(t))
                    probe_trades = [(self.sym(tr_.contract), F(tr_.quantity)) for tr_ in probe.make_trades(self.broker)]
                except Exception:  # noqa  (a request the library refuses: the rebalance below is refused too)
                    probe_trades = None
                if (self.state(), len(self.broker.track_record)) != snap:
                    r.fail("make-trades-side-effect", clause="make_trades computes, it does not execute",
                           before=str(snap)[:200], after=str((self.state(), len(self.broker.track_record)))[:200])
            n_before = len(self.broker.track_record)
            pos_before = dict(self.state()[1])

            previewed = None
            if preview is not None:
                # the request object is previewed (`make_trades`, as the docstring of Broker.rebalance advertises), the
                # market then moves, and the *same* object is executed: the trades must be those of the moment of execution
                try:
                    previewed = Rebalancing(contracts=objs, allocation=alloc_arg, measure="weight" if bw else "nr-contracts",
                                            absolute=bool(ab), fractional=bool(frac), margin=fmg, time=self.when(t))
                    self.do(["nlv", 0])
                    previewed.make_trades(self.broker)
                except Exception:  # noqa
                    previewed = None
                self.do(preview)
                n_before = len(self.broker.track_record)
                pos_before = dict(self.state()[1])

            kept = getattr(self, "kept_requests", {}).pop(self.req_key(op), None)
            if kept is not None and previewed is None:
                # the request object that the other account executed earlier is now sent to the account under test
                kept.time = self.when(t)
                previewed = kept
                r.tags.add("request-object-reused")

            def go():
                reb = previewed if previewed is not None else Rebalancing(
                    contracts=objs, allocation=alloc_arg, measure="weight" if bw else "nr-contracts",
                    absolute=bool(ab), fractional=bool(frac), margin=fmg, time=self.when(t))
                self._reb = reb
                if self.shadow is not None and self.case.get("shadow_reuse"):
                    # the same request object is first sent to the other account (comparing accounts / fee schedules),
                    # then to the account under test: the trades must be those of *this* account at this moment
                    try:
                        self.shadow.rebalance(reb)
                    except Exception:  # noqa
                        pass
                self.broker.rebalance(reb)
                return reb

            def probe():
                trk = self.broker.track_record
                try:
                    last = None if len(trk) == 0 else id(trk[-1])
                except Exception as e_:  # noqa
                    last = "raises " + type(e_).__name__
                try:
                    shown = repr(trk)
                except Exception as e_:  # noqa  (an empty record cannot be printed)
                    shown = "raises " + type(e_).__name__
                return (len(trk), shown, last)

            probe_before = probe()
            self._reb = None
            st, reb = self.call(go)
            o["record_probe"] = (probe_before, probe())
            line = f"rebal {t} {int(bw)} {int(ab)} {int(frac)} {fr(fmg)} " + " ".join(f"{k}={fr(v)}" for k, v in zip(keys, vals))
            reb = self._reb
            interest = getattr(reb, "profit_on_idle_cash", ...) if reb is not None else ...
            if interest is not ... and interest is not None:
                self.lint += F(interest)
            exp_pre = self.expected_nlv()
            trades = getattr(reb, "trades", ...) if reb is not None else ...
            executed = []
            if trades is not ... and trades is not None:
                # trades are executed in order; on an error after the first trade some may not have run:
                # positions tell which (each trade moves exactly its own contract)
                posn = self.state()[1]
                for tr in trades:
                    k = self.sym(tr.contract)
                    if st == "ok" or posn.get(k, 0) != pos_before.get(k, 0):
                        px = F(tr.ask_price) if tr.quantity > 0 else F(tr.bid_price)
                        self.book_trade(k, F(tr.quantity), px)
                        executed.append((k, F(tr.quantity), px))
            if st == "ok":
                r.op(line.strip(), f"ok {fr(reb.profit_on_idle_cash)} {fr(reb.context_pre.nlv)} {fr(reb.context_post.nlv)}", self.tol())
            else:
                r.op(line.strip(), st)
            r.op("nrec", str(len(self.broker.track_record)))
            if probe_trades is not ...:
                executed_list = [(self.sym(tr_.contract), F(tr_.quantity)) for tr_ in reb.trades] if st == "ok" else None
                if (probe_trades is None) != (executed_list is None) or (
                        probe_trades is not None and sorted(probe_trades) != sorted(executed_list)):
                    r.fail("make-trades-differs-from-rebalance", probed=str(probe_trades)[:300], executed=str(executed_list)[:300],
                           clause="Rebalancing.make_trades(broker) / Rebalancing.trades")
            if st == "ok":
                tl = sorted((self.sym(tr.contract), fr(tr.quantity), fr(tr.acq_price)) for tr in reb.trades)
                r.op("lasttrades", ",".join(":".join(x) for x in tl) if tl else "-")
                o["trade_list"] = [(self.sym(tr.contract), F(tr.quantity), F(tr.acq_price)) for tr in reb.trades]
            o.update(status=st, rebal=dict(t=t, byWeight=bool(bw), absolute=bool(ab), fractional=bool(frac), margin=F(fmg),
                                            target={k: F(v) for k, v in zip(keys, vals)}),
                     trades=executed, nrec_before=n_before, nrec_after=len(self.broker.track_record),
                     pos_before=pos_before, reb=reb if st == "ok" else None, exp_nlv_pre=exp_pre,
                     nlv_pre=F(reb.context_pre.nlv) if reb is not None and hasattr(reb.context_pre, "nlv") else None,
                     nlv_post=F(reb.context_post.nlv) if st == "ok" else None, valued=(st == "ok"))
        elif kind == "shadow_rebal":
            # the *other* account executes a request now; the object is kept and later sent to the account under test by
            # the `rebal` op with the same parameters. Not modelled (nothing about the account under test changes).
            _, t, bw, ab, frac, mg, tgt = op[:7]
            if self.shadow is not None:
                try:
                    keys_ = list(tgt)
                    req = Rebalancing(contracts=[self.cash_c if k == "USD" else self.objs[k] for k in keys_],
                                      allocation=[float(Fraction(tgt[k])) for k in keys_],
                                      measure="weight" if bw else "nr-contracts", absolute=bool(ab), fractional=bool(frac),
                                      margin=float(Fraction(mg)), time=self.when(t))
                    self.shadow.rebalance(req)
                    if not hasattr(self, "kept_requests"):
                        self.kept_requests = {}
                    self.kept_requests[self.req_key(op)] = req
                except Exception:  # noqa
                    pass
            o["status"] = "ok"
        else:
            raise ValueError(f"unknown op {op}")
        self.bump_scale()
        cash, pos, mar = self.emit_state()
        o.update(cash=cash, pos=pos, margins=mar, quotes=dict(self.quotes), lpos=dict(self.lpos),
                 exp_nlv=self.expected_nlv(), tol=self.tol())
        self.obs.append(o)
        r.trace.append(f"{op} -> {o.get('status', 'ok')} cash={float(cash):.6f} pos={ {k: float(v) for k, v in pos.items() if v} } "
                       f"margins={ {k: float(v) for k, v in mar.items() if v} } nlv={None if o.get('nlv') is None else float(o['nlv'])}")
        return o


def run_case(case: dict, compare_kinds: set[str] | None = None) -> tuple[ImplRun, Session]:
    r = ImplRun()
    s = Session(case, r)
    for op in case["ops"]:
        s.do(op)
    if compare_kinds is not None:
        r.lines = [(l, e if l.split()[0] in compare_kinds else None, t) for l, e, t in r.lines]
    return r, s


# ---------------------------------------------------------------------- generator
def gen_contracts(rng, exact: bool, n=None):
    kinds = []
    n = n or rng.randint(1, 4)
    pool = ["etf", "spotm", "builtin", "userfut", "userfut", "builtin", "etf"]
    used = set()
    for i in range(n):
        what = rng.choice(pool)
        if what == "etf":
            key = f"S{i}"
            kinds.append(dict(key=key, kind=rng.choice(["ETF", "Index", "Stock"])))
        elif what == "spotm":
            kinds.append(dict(key=f"M{i}", kind="user", mult=str(rng.choice([2, 10, Fraction(1, 2), 100])), cashReq="1", mr="0"))
        elif what == "builtin":
            key = rng.choice([k for k in BUILTIN if k not in used] or ["ESH19"])
            if key in used:
                kinds.append(dict(key=f"S{i}", kind="ETF"))
                continue
            used.add(key)
            kinds.append(dict(key=key, kind="builtin"))
        else:
            mr = rng.choice(["1/2", "1/4", "1/8", "1"]) if exact else rng.choice(["1/2", "1/10", "3/100", "1", "1/3"])
            kinds.append(dict(key=f"F{i}", kind="user", mult=str(rng.choice([1, 2, 50, 1000])), cashReq="0", mr=mr))
    return kinds


def gen_price(rng, exact, base=None):
    if base is None:
        base = Fraction(rng.randint(40, 4000), 4) if exact else F(round(rng.uniform(5, 3000), 2))
    else:
        base = base * (Fraction(rng.randint(88, 112), 100)) if not exact else base + Fraction(rng.randint(-40, 40), 4)
        if base <= 1:
            base = Fraction(5)
    if exact:
        half = Fraction(rng.choice([0, 0, 1, 2, 8]), 4)
    else:
        half = base * Fraction(rng.choice([0, 0, 1, 5, 50]), 10000)
    bid, ask = base - half, base + half
    if bid <= 0:
        bid = ask
    return base, F(float(bid)), F(float(ask))


HISTORY_RULE = (" Histories also contain: several operations with one timestamp (quote, valuation, quote with the same stamp); "
                "price moves of a few parts per million; one-sided books that still quote the side needed to liquidate the "
                "position held; trades of a few 1e-8 contracts on top of a known position; Broker.context() snapshots; "
                "requests previewed with make_trades(), a quote move, then the same request object executed; histories in "
                "which the epsilon snap fires on more than rounding dust are skipped and counted (K1). In a fifth of the histories a "
                "second account lives on the same Exchange object, trades the same contracts and is valued right before / "
                "after the account under test; in half of those a rebalancing request object is first sent to that other "
                "account and then to the account under test. About one operation in 25 is one the library legitimately refuses "
                "(a trade of zero / NaN size, an accrual at an earlier time, a rebalance whose time stamp is already recorded, a "
                "rebalance that has to buy a contract whose ask has just disappeared), "
                "after which the history goes on.")


def gen_history(rng, tier="quick", exact=None, allow=None, fees=None, nmax=None, one_sided=True):
    """A broker history. `allow` restricts op kinds."""
    exact = rng.random() < 0.35 if exact is None else exact
    contracts = gen_contracts(rng, exact)
    keys = [c["key"] for c in contracts]
    if fees is None:
        fees = rng.choice([["0", "0", "0"], ["0", "1/1000", "0"], ["1", "0", "1/200"], ["1/2", "1/4096", "1/128"]]) if rng.random() < 0.6 else ["0", "0", "0"]
    deposit = rng.choice(["100000", "1000000", "250000"])
    allow = allow or {"q", "tradeq", "trade", "mark", "markall", "nlv", "values", "weights", "accrue", "rebal"}
    ops, t = [], T0
    mids, pos = {}, {k: Fraction(0) for k in keys}
    for k in keys:
        mids[k], b, a = gen_price(rng, exact)
        ops.append(["q", k, t, fr(b), fr(a)])
    n = rng.randint(4, nmax or (40 if tier == "quick" else 110))
    forced = ["open", "add", "reduce", "close", "flip"]
    rng.shuffle(forced)
    trusted = True       # does `pos` still track the real positions? (not after a rebalance)
    for i in range(n):
        # several operations often share one timestamp (quotes of one bar, a valuation between two of them)
        t += rng.choice([0, 0, 0, 1_000_000, 3600_000_000, DAY, 3 * DAY, 30 * DAY])
        u = rng.random()
        k = rng.choice(keys)
        if rng.random() < 0.06 and "q" in allow and "nlv" in allow:
            # a burst inside one bar: quote, valuation, another quote with the same stamp, valuation
            for _ in range(2):
                mids[k], b, a = gen_price(rng, exact, mids[k])
                ops.append(["q", k, t, fr(b), fr(a)])
                ops.append(["nlv", rng.choice([0, 0, 1])] if rng.random() < 0.8 else ["weights"])
            continue
        if rng.random() < 0.04 and i > 2:
            # an operation the library legitimately refuses, after which the history goes on: a trade of zero or NaN
            # size, an accrual at an earlier time, a second rebalance with a time stamp already recorded
            kinds = [x for x in ("tradeq", "accrue", "rebal") if x in allow]
            if "rebal" in allow and "q" in allow and pos.get(k, 0) >= 0 and one_sided:
                kinds += ["unpriced-leg", "unpriced-leg"]
            if kinds:
                what = rng.choice(kinds)
                if what == "unpriced-leg":
                    # the ask of a contract that is flat or held long disappears, a request that has to buy it is
                    # refused while its trades are being built (after the account was valued), the ask comes back
                    mids[k], b, a = gen_price(rng, exact, mids[k])
                    ops.append(["q", k, t, fr(b), "nan"])
                    t += 1
                    tgt = {kk: fr(Fraction(rng.randint(1, 6), 8)) for kk in keys if kk == k or rng.random() < 0.4}
                    ops.append(["rebal", t, 1, 1, 1, "0", tgt])
                    ops.append(["q", k, t + 1, fr(b), fr(a)])
                    for kk in keys:
                        pos[kk] = pos[kk] if pos[kk] != 0 else Fraction(0)
                    trusted = False
                elif what == "tradeq":
                    ops.append(["tradeq", k, rng.choice(["0", "nan"]), t])
                elif what == "accrue":
                    prev = [o[1] for o in ops if o[0] in ("accrue", "rebal")]
                    if prev:
                        ops.append(["accrue", max(prev) - rng.choice([1, DAY]), 1])
                else:
                    prev = [o for o in ops if o[0] == "rebal"]
                    if prev:
                        ops.append(list(prev[-1][:7]))
                        for kk in keys:
                            pos[kk] = Fraction(1)
                        trusted = False
                ops.append(["nlv", 0])
                continue
        if u < 0.25 and "q" in allow:
            old_mid = mids[k]
            mids[k], b, a = gen_price(rng, exact, mids[k])
            shape = rng.random()
            if shape < 0.10 and not exact:
                # a tiny move (a tick on a large price): one to nine parts per million of the previous mid
                mids[k] = old_mid * (1 + Fraction(rng.choice([-9, -5, -1, 1, 5, 9]), 10**6))
                half = mids[k] * Fraction(rng.choice([0, 1, 5]), 10000)
                b, a = F(float(mids[k] - half)), F(float(mids[k] + half))
                ops.append(["q", k, t, fr(b), fr(a)])
            elif shape < 0.16 and pos.get(k, 0) != 0 and one_sided:
                # a one-sided book: the side needed to liquidate the position held is still quoted, the other is not
                ops.append(["q", k, t, fr(b), "nan"] if pos[k] > 0 else ["q", k, t, "nan", fr(a)])
                ops.append(rng.choice([["nlv", 0], ["weights"], ["markall"], ["mark", k], ["nlv", 0]]))
            else:
                ops.append(["q", k, t, fr(b), fr(a)])
        elif u < 0.55 and ("tradeq" in allow or "trade" in allow):
            want = forced.pop() if forced and rng.random() < 0.5 else rng.choice(["open", "add", "reduce", "close", "flip"])
            cur = pos[k]
            unit = Fraction(rng.randint(1, 12)) if exact or rng.random() < 0.5 else Fraction(rng.randint(1, 4000), 8)
            side = 1 if cur > 0 else -1 if cur < 0 else rng.choice([1, -1])
            if cur == 0 or want == "open":
                q = side * unit if cur == 0 else side * unit
            elif want == "add":
                q = side * unit
            elif want == "reduce":
                q = -cur / 2 if abs(cur) >= Fraction(1, 2) else -cur
            elif want == "close":
                q = -cur
            else:
                q = -cur - side * unit
            if q == 0:
                q = Fraction(side)
            if abs(cur) >= 1 and trusted and not exact and rng.random() < 0.04:
                # a trade of a few hundred-millionths of a contract on top of an existing position (what a fully
                # invested account sells to pay a ticket fee on an expensive instrument)
                q = Fraction(rng.choice([-9, -5, -2, 2, 5, 9]), 10**8)
            pos[k] += q
            if "trade" in allow and rng.random() < 0.15:
                # explicit (possibly off-market) execution prices
                _, b, a = gen_price(rng, exact, mids[k])
                ops.append(["trade", k, fr(F(float(q))), fr(b), fr(a), t])
            else:
                ops.append(["tradeq", k, fr(F(float(q))), t])
        elif u < 0.62 and "mark" in allow:
            ops.append(["mark", k] if rng.random() < 0.6 else ["markall"])
        elif u < 0.78 and "nlv" in allow:
            ops.append(["nlv", 0])
        elif u < 0.83 and "values" in allow:
            ops.append(["values", rng.choice(["liq", "notional"])])
        elif u < 0.86 and "weights" in allow:
            ops.append(["weights"])
        elif u < 0.88 and "weights" in allow and "nlv" in allow and "values" in allow:
            ops.append(["context"])
        elif u < 0.92 and "accrue" in allow:
            ops.append(["accrue", t, rng.choice([0, 1, 1])])
        elif "rebal" in allow:
            tgt = {}
            for kk in rng.sample(keys, rng.randint(0, len(keys))):
                tgt[kk] = fr(Fraction(rng.randint(-12, 12), 8) if exact else F(round(rng.uniform(-1.2, 1.2), 3)))
            t += 1  # distinct record timestamps
            if rng.random() < 0.2 and "q" in allow and keys:
                kq = rng.choice(keys)
                mids[kq], b, a = gen_price(rng, exact, mids[kq])
                ops.append(["rebal", t, 1, 1, 1, "0", tgt, ["q", kq, t, fr(b), fr(a)]])
            else:
                ops.append(["rebal", t, 1, 1, 1, "0", tgt])
            for kk in keys:
                pos[kk] = Fraction(1)  # unknown afterwards; only used to steer trade kinds
            trusted = False
        else:
            ops.append(["nlv", 0])
    ops.append(["nlv", 0])
    case = dict(contracts=contracts, fees=fees, deposit=deposit, exact=exact, ops=ops)
    if rng.random() < 0.2:
        # a second account lives on the same Exchange object
        case["shadow"] = rng.choice(["before", "after", "both"])
        case["shadow_reuse"] = rng.random() < 0.5
    return case


def small_scope_histories(max_len=4):
    """Every history of up to `max_len` operations over a small alphabet on two contracts (a spot asset and a
    margined future with multiplier 2), exact (dyadic) prices with a spread, proportional fees: the bounded
    part of the search for a failing input (it supports the correspondence, it is not the proof)."""
    import itertools
    contracts = [dict(key="S0", kind="ETF"), dict(key="F1", kind="user", mult="2", cashReq="0", mr="1/4")]
    alphabet = [
        ("q", "S0", "96", "98"), ("q", "S0", "104", "105"), ("q", "F1", "40", "41"), ("q", "F1", "60", "64"),
        ("t", "S0", "2"), ("t", "S0", "-3"), ("t", "F1", "1"), ("t", "F1", "-2"), ("nlv",), ("weights",),
    ]
    out = []
    for n in range(1, max_len + 1):
        for seq in itertools.product(alphabet, repeat=n):
            t = T0
            ops = [["q", "S0", t, "100", "101"], ["q", "F1", t, "50", "52"]]
            for i, a in enumerate(seq):
                t = T0 + (i + 1) * 3600_000_000
                if a[0] == "q":
                    ops.append(["q", a[1], t, a[2], a[3]])
                elif a[0] == "t":
                    ops.append(["tradeq", a[1], a[2], t])
                elif a[0] == "nlv":
                    ops.append(["nlv", 0])
                else:
                    ops.append(["weights"])
            ops.append(["nlv", 0])
            out.append(dict(contracts=contracts, fees=["0", "1/1024", "0"], deposit="100000", exact=True, ops=ops))
    return out
