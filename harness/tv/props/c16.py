"""C16 - performance metrics equal their definitions and are scale-invariant."""
from __future__ import annotations

import math
import statistics
from fractions import Fraction

from ..core import F, fr, from_us
from ..runner import ImplRun, Prop

DAY = 86_400_000_000
T0 = 1546300800 * 1_000_000
REL = 1e-9


def close(a, b, rel=REL):
    if a is None or b is None:
        return a is b
    if math.isnan(a) or math.isnan(b):
        return math.isnan(a) and math.isnan(b)
    return abs(a - b) <= rel * max(1.0, abs(a), abs(b))


class C16(Prop):
    id = "C16"
    driver = "Metrics"
    quick_n = 220
    thorough_n = 15000
    shrink_key = None
    rule = ("random valid level series (length 2..400; daily with gaps or intraday with several observations per day; "
            "with a risk-free rate or a benchmark series on the same index), every listed metric compared with the "
            "model and with an independent pure-Python definition; the same series multiplied by a positive constant "
            "(scale invariance); every single-defect corruption (a NaN, a non-positive value, a duplicated index "
            "entry, an unsorted index, a non-datetime index, a NaT) must be rejected by every metric. Non-trivial = "
            "an intraday series with several observations per day, or a corrupted series, or a series with a "
            "benchmark; distinct = distinct cases. 6% of the series are long daily histories (800-1300 observations) with "
            "an early crash, measured on CAGR / cumulative return / max drawdown / Calmar; for every other valid series "
            "of at least 3 daily levels the rows of tearsheet() are checked too (against the independent definitions, "
            "risk-adjusted rows against the metric called with the tearsheet's own risk-free series; in half of them with a "
            "`prices=` frame whose 'CAGR <asset>' rows are checked and whose invalid columns must be rejected); a quarter of the "
            "cases pass the series as one column of a two-column DataFrame (either position; a value corruption may sit in "
            "the other column only); a fifth use a timezone-aware index; 12% are idle accounts (flat on most days, halving or doubling on a few: exactly "
            "equal returns across the quantile position)")
    nontrivial_tags = {"dataframe", "tearsheet-long-history", "intraday", "corrupted", "benchmark", "long"}
    assumptions = [
        "sqrt, log and ** are leaves (C library in both the executed model and the implementation), 1e-9 relative",
        "quantiles use pandas' default linear interpolation; ddof = 1",
    ]

    def gen(self, rng, tier):
        n = rng.choice([2, 3, 5, 8, 20, 60, 400 if tier == "thorough" else 120])
        intraday = rng.random() < 0.35
        long_history = rng.random() < 0.06
        if long_history:
            # more than three years of daily observations with the deepest drawdown early on: any metric computed on a
            # trailing window instead of the whole history differs
            n, intraday = rng.choice([800, 1000, 1300]), False
        times, t = [], T0 + rng.randint(0, 500) * DAY
        if intraday:
            # any time of day for the first observation (the elapsed whole days then differ from the date difference)
            t += rng.choice([0, 9, 13, 16, 22]) * 3600 * 1_000_000 + rng.choice([0, 30]) * 60 * 1_000_000
        for i in range(n):
            times.append(t)
            if intraday:
                t += rng.choice([3600, 7200, 6 * 3600, 20 * 3600, 30 * 3600]) * 1_000_000
            else:
                t += rng.choice([1, 1, 1, 2, 3, 7]) * DAY
        if (times[-1] - times[0]) // DAY < 1:
            times[-1] = times[0] + DAY + 3600 * 1_000_000
            times = sorted(set(times))
        v = rng.uniform(0.5, 500)
        vals = []
        crash_at = rng.randint(5, max(6, n // 8)) if long_history else None
        for i, _ in enumerate(times):
            v *= math.exp(rng.gauss(0.0003, rng.choice([0.002, 0.01, 0.03])))
            if crash_at is not None and crash_at <= i < crash_at + 4:
                v *= 0.8
            vals.append(fr(F(v)))
        if rng.random() < 0.12 and not long_history and not intraday:
            # an idle account: the level is flat on most days (returns of exactly 0.0) and halves or doubles on a few,
            # so that several *equal* returns sit across the quantile position (all values are powers of two: exact)
            n = rng.choice([41, 60, 101])
            times = [T0 + i * DAY for i in range(n)]
            v, vals = 2.0 ** rng.randint(8, 12), []
            for i in range(n):
                u = rng.random()
                v = v * (0.5 if u < 0.06 else 2.0 if u < 0.10 else 1.0)
                vals.append(fr(F(v)))
            if all(x == vals[0] for x in vals):
                vals[n // 2:] = [fr(F(float(Fraction(vals[0]) / 2)))] * (n - n // 2)
        bench = None
        if rng.random() < 0.4:
            b = rng.uniform(0.5, 500)
            bench = []
            for _ in times:
                b *= math.exp(rng.gauss(0.0002, 0.008))
                bench.append(fr(F(b)))
        corrupt = None
        if rng.random() < 0.3 and not long_history:
            corrupt = rng.choice(["nan", "zero", "negative", "duplicate", "unsorted", "nondatetime", "nat"])
        only = None
        if long_history:
            bench, only = None, ["cagr", "cumret", "maxdd", "calmar"]
        tz_hours = rng.choice([9, -5, 13, -10]) if rng.random() < 0.2 else None
        if tz_hours:
            bench = None
        # the same methods are installed on DataFrames (one level series per column): the series under test is one
        # column of a two-column frame; a corruption of the values may sit in the *other* column only
        frame = rng.choice(["first", "second"]) if rng.random() < 0.25 else None
        return dict(frame=frame, frame_bad_other=rng.random() < 0.5, tz_hours=tz_hours, only=only, times=times, values=vals, bench=bench, rf=fr(F(round(rng.uniform(0, 0.05), 4))),
                    scale=fr(F(rng.choice([0.001, 2.0, 1000.0, 7.5]))), q=rng.choice(["1/40", "1/20", "1/2", "1/10"]),
                    corrupt=corrupt, intraday=intraday)

    def series(self, case, scale=1.0):
        import numpy as np
        import pandas as pd
        import tradingenv.metrics  # noqa: F401  (installs the methods on pandas objects)

        idx = [from_us(t) for t in case["times"]]
        vals = [float(Fraction(v)) * scale for v in case["values"]]
        c = case.get("corrupt")
        n = len(vals)
        k = n // 2
        if c == "nan":
            vals[k] = float("nan")
        elif c == "zero":
            vals[k] = 0.0
        elif c == "negative":
            vals[k] = -vals[k]
        elif c == "duplicate":
            idx[k] = idx[k - 1] if k > 0 else idx[1]
        elif c == "unsorted" and n >= 2:
            idx[0], idx[-1] = idx[-1], idx[0]
        if c == "nondatetime":
            index = pd.Index(list(range(n)))
        elif c == "nat":
            idx2 = list(idx)
            idx2[k] = pd.NaT
            index = pd.DatetimeIndex(idx2)
        else:
            index = pd.DatetimeIndex(idx)
            if case.get("tz_hours"):
                # the same wall-clock times, timezone-aware (fixed offset): calendar days are those of the index's own
                # zone, elapsed time is unaffected
                import datetime as _dt
                index = index.tz_localize(_dt.timezone(_dt.timedelta(hours=case["tz_hours"])))
        return pd.Series(vals, index=index, dtype=float), idx, vals

    def line(self, idx_us, vals, corrupt):
        rows = []
        for i, (t, v) in enumerate(zip(idx_us, vals)):
            rows.append(f"{'nat' if t is None else t}:{fr(v)}")
        return " ".join(rows)

    def run_impl(self, case):
        import numpy as np
        import pandas as pd

        import warnings
        warnings.simplefilter("ignore")
        r = ImplRun()
        s, idx, vals = self.series(case)
        c = case.get("corrupt")
        if case["intraday"]:
            r.tags.add("intraday")
        if c:
            r.tags.add("corrupted")
        if case.get("bench"):
            r.tags.add("benchmark")
        if len(vals) >= 100:
            r.tags.add("long")
        from ..core import us
        idx_us = [None if (c == "nat" and i == len(vals) // 2) else us(t) for i, t in enumerate(idx)]
        r.op(f"series {0 if c == 'nondatetime' else 1} " + self.line(idx_us, vals, c), "ok")
        bench = None
        if case.get("bench"):
            bench = pd.Series([float(Fraction(v)) for v in case["bench"]], index=pd.DatetimeIndex([from_us(t) for t in case["times"]]))
            r.op("series2 1 " + " ".join(f"{t}:{v}" for t, v in zip(case["times"], [fr(F(float(Fraction(v)))) for v in case["bench"]])), "ok")
        rf = float(Fraction(case["rf"]))
        q = float(Fraction(case["q"]))
        metrics = [("cagr", lambda x: x.cagr(), None), ("cumret", lambda x: x.cumulative_return().iloc[-1], None),
                   ("vol", lambda x: x.volatility(), None), ("maxdd", lambda x: x.max_drawdown(), None),
                   ("var", lambda x: x.value_at_risk(q), case["q"]), ("es", lambda x: x.expected_shortfall(q), case["q"]),
                   ("downvol", lambda x: x.downside_volatility(), None), ("upvol", lambda x: x.upside_volatility(), None),
                   ("martin", lambda x: x.martin_risk(), None),
                   ("sharpe", lambda x: x.sharpe_ratio(rf), case["rf"]), ("sortino", lambda x: x.sortino_ratio(rf), case["rf"]),
                   ("calmar", lambda x: x.calmar_ratio(rf), case["rf"]), ("martinr", lambda x: x.martin_ratio(rf), case["rf"])]
        if bench is not None:
            metrics += [("te", lambda x: x.tracking_error(bench), None), ("ir", lambda x: x.information_ratio(bench), None)]
        if case.get("only"):
            # long histories: the metrics whose exact evaluation stays cheap (no sums over thousands of rationals)
            metrics = [m for m in metrics if m[0] in case["only"]]
        target, pick = s, (lambda res: res)
        if case.get("frame"):
            r.tags.add("dataframe")
            mine, other = s, s * 3
            if c in ("nan", "zero", "negative") and case.get("frame_bad_other"):
                clean = dict(case); clean["corrupt"] = None
                mine, other = self.series(clean)[0], s
            cols = {"a": mine, "b": other} if case["frame"] == "first" else {"b": other, "a": mine}
            target, pick = pd.DataFrame(cols), (lambda res: res["a"])
        got = {}
        for name, fn, arg in metrics:
            try:
                val = float(pick(fn(target)))
                st = "ok"
            except ValueError as e:
                val, st = None, "err rejected"
            except ZeroDivisionError:
                val, st = None, "zerodiv"
            except Exception as e:  # any other exception class: the metric crashed
                val, st = None, f"crash {type(e).__name__}: {str(e)[:80]}"
            got[name] = (st, val)
            line = f"metric {name}" + (f" {fr(F(float(Fraction(arg))))}" if arg is not None else "")
            if st == "ok" and val is not None and not (math.isnan(val) or math.isinf(val)):
                r.op(line, fr(F(val)), Fraction(1, 10**8) * max(Fraction(1), abs(F(val))))
            elif st == "err rejected":
                r.op(line, "err rejected")
            else:
                r.op(line, None)
            if c and st != "err rejected":
                r.fail("invalid-series-measured", metric=name, corruption=c, value=val, theorem="validate_accepts_iff / validate_rejects_*",
                       clause="series that are not valid levels are rejected rather than silently measured")
            if not c and st == "err rejected":
                r.fail("valid-series-rejected", metric=name, theorem="validate_accepts_iff")
            if not c and st.startswith("crash"):
                r.fail("metric-crashed", metric=name, error=st, n=len(vals), theorem="the model's definition",
                       clause="for every valid level series of any length >= 2 each reported metric equals its definition")
        if c:
            return r
        # ---------------- independent definitions (pure Python on the collapsed level)
        pts = sorted(zip(case["times"], vals))
        lvl = []
        for t, v in pts:
            if lvl and lvl[-1][0] // DAY == t // DAY:
                lvl[-1] = (t, v)
            else:
                lvl.append((t, v))
        L = [v for _, v in lvl]
        rets = [b / a - 1 for a, b in zip(L, L[1:])]
        days = (case["times"][-1] - case["times"][0]) // DAY
        years = days / 365
        exp = {}
        exp["cagr"] = (L[-1] / L[0]) ** (1 / years) - 1 if years else None
        exp["cumret"] = L[-1] / L[0] - 1
        sd = lambda xs: statistics.stdev(xs) if len(xs) >= 2 else float("nan")
        exp["vol"] = math.sqrt(252) * sd(rets)
        run, dd = -math.inf, []
        for v in L:
            run = max(run, v)
            dd.append(v / run - 1)
        exp["maxdd"] = min(dd)
        srt = sorted(rets)
        if srt:
            pos = (len(srt) - 1) * q
            lo = math.floor(pos)
            exp["var"] = srt[lo] + (pos - lo) * (srt[min(lo + 1, len(srt) - 1)] - srt[lo])
            tail = [x for x in rets if x <= exp["var"]]
            exp["es"] = sum(tail) / len(tail) if tail else float("nan")
        exp["downvol"] = math.sqrt(252) * sd([x for x in rets if x < 0])
        exp["upvol"] = math.sqrt(252) * sd([x for x in rets if x > 0])
        exp["martin"] = math.sqrt(sum(d * d for d in dd) / len(dd))
        if exp["cagr"] is not None:
            ex = exp["cagr"] - rf
            exp["sharpe"] = ex / exp["vol"] if exp["vol"] == exp["vol"] and exp["vol"] != 0 else None
            exp["sortino"] = ex / exp["downvol"] if exp["downvol"] == exp["downvol"] and exp["downvol"] != 0 else None
            exp["calmar"] = ex / -exp["maxdd"] if exp["maxdd"] != 0 else None
            exp["martinr"] = ex / exp["martin"] if exp["martin"] != 0 else None
        for name, want in exp.items():
            st, val = got.get(name, (None, None))
            if want is None or st != "ok" or val is None:
                continue
            if isinstance(want, float) and (math.isnan(want) or math.isinf(want)):
                continue
            if math.isnan(val) or math.isinf(val):
                continue
            if not close(val, want, 1e-8):
                r.fail("metric-definition", metric=name, reported=val, expected=want, theorem="the model's definition",
                       clause="each reported metric equals its textbook definition computed independently")
        # the quantile lies between two observed returns, the shortfall is not above it (quantile_bracket,
        # expected_shortfall_le_var); reference points are the returns computed here from the input
        gv, ge = got.get("var", (None, None)), got.get("es", (None, None))
        if srt and gv[0] == "ok" and gv[1] is not None and not math.isnan(gv[1]):
            slack = 1e-9 * max(1.0, abs(srt[0]), abs(srt[-1]))
            if not (srt[0] - slack <= gv[1] <= srt[-1] + slack):
                r.fail("var-outside-observed-returns", reported=gv[1], lowest=srt[0], highest=srt[-1],
                       theorem="quantile_bracket")
            if ge[0] == "ok" and ge[1] is not None and not math.isnan(ge[1]) and ge[1] > gv[1] + slack:
                r.fail("shortfall-above-var", shortfall=ge[1], var=gv[1], theorem="expected_shortfall_le_var")
        # drawdown range / zero at highs / (1+cagr)^years
        d_impl = s.drawdown()
        dv = [float(x) for x in d_impl.tolist()]
        if any(not (-1 < x <= 0) for x in dv):
            r.fail("drawdown-range", theorem="drawdown_range")
        if any(abs(x) > 0 and abs(L[i] - max(L[:i + 1])) == 0 for i, x in enumerate(dv)):
            r.fail("drawdown-nonzero-at-high", theorem="drawdown_zero_at_high")
        # (1 + cagr) is computed from cagr by the caller: ill-conditioned when cagr is within 1e-3 of -1 (one-day
        # series losing value: cagr = ratio**365 - 1), so the equation is only checked where it is well conditioned
        if (exp["cagr"] is not None and got["cagr"][0] == "ok" and abs(1 + got["cagr"][1]) > 1e-3
                and not close((1 + got["cagr"][1]) ** years, L[-1] / L[0], 1e-8)):
            r.fail("cagr-equation", theorem="cagr_spec")
        # ---------------- scale invariance on the implementation
        k = float(Fraction(case["scale"]))
        s2, _, _ = self.series(case, scale=k)
        for name, fn, arg in metrics:
            if name in ("te", "ir") or got[name][0] != "ok":
                continue
            try:
                v2 = float(fn(s2))
            except Exception:
                continue
            v1 = got[name][1]
            if v1 is None or math.isnan(v1) or math.isinf(v1) or math.isnan(v2) or math.isinf(v2):
                continue
            if not close(v1, v2, 1e-7):
                r.fail("not-scale-invariant", metric=name, value=v1, scaled=v2, factor=k,
                       theorem="metric_of_returns_scale_invariant / metric_of_drawdown_scale_invariant / ratio_scale")
        # ---------------- the tearsheet reports the same metrics (rows independent of the risk-free asset against the
        # independent definitions; the risk-adjusted rows against the metric called with the tearsheet's own
        # risk-free series)
        if not case.get("only") and len(L) >= 3:
            try:
                with_prices = len(L) % 2 == 0
                if with_prices:
                    # the optional `prices=` frame adds one "CAGR <asset>" row per price column: the series itself is one
                    # of the columns here, so its row must be the series' own CAGR
                    pf = pd.DataFrame({"self": s, "twice": s * 2})
                    ts = s.tearsheet(risk_free=rf, prices=pf)
                    r.tags.add("tearsheet-prices")
                else:
                    ts = s.tearsheet(risk_free=rf)
                col = ts.iloc[:, 0]
                if with_prices and exp.get("cagr") is not None:
                    for key in (("Markets", "CAGR self"), ("Markets", "CAGR twice")):
                        val = float(col[key])
                        if not (math.isnan(val) or math.isinf(val)) and not close(val, exp["cagr"], 1e-8):
                            r.fail("tearsheet-row", row=" / ".join(key), reported=val, expected=exp["cagr"],
                                   clause="each reported metric equals its textbook definition (the tearsheet's rows too)")
                    # a price column that is not a valid level series must not be measured
                    bad = s.copy()
                    bad.iloc[len(bad) // 2] = [float("nan"), 0.0, -1.0][len(L) % 3]
                    try:
                        ts_bad = s.tearsheet(risk_free=rf, prices=pd.DataFrame({"self": s, "bad": bad}))
                        v_bad = float(ts_bad.iloc[:, 0][("Markets", "CAGR bad")])
                        r.fail("invalid-series-measured", metric="tearsheet CAGR of an invalid price column", value=v_bad,
                               theorem="validate_accepts_iff / validate_rejects_*",
                               clause="series that are not valid levels are rejected rather than silently measured")
                    except (ValueError, KeyError):
                        pass
                rows = {"cagr": ("Return", "CAGR"), "vol": ("Risk", "Volatility"), "downvol": ("Risk", "Downside volatility"),
                        "upvol": ("Risk", "Upside volatility"), "maxdd": ("Risk", "Max drawdown"), "martin": ("Risk", "Martin risk")}
                for name, key in rows.items():
                    want = exp.get(name)
                    if want is None or (isinstance(want, float) and (math.isnan(want) or math.isinf(want))):
                        continue
                    val = float(col[key])
                    if math.isnan(val) or math.isinf(val):
                        continue
                    if not close(val, want, 1e-8):
                        r.fail("tearsheet-row", row=" / ".join(key), reported=val, expected=want,
                               clause="each reported metric equals its textbook definition (the tearsheet's rows too)")
                rfs = s.make_series_from_cagr(rf, "RiskFree").loc[s.index]
                for key, fn in ((("Risk-adjusted return", "Calmar ratio"), lambda: s.calmar_ratio(rfs)),
                                (("Risk-adjusted return", "Sharpe ratio"), lambda: s.sharpe_ratio(rfs)),
                                (("Risk-adjusted return", "Sortino ratio"), lambda: s.sortino_ratio(rfs)),
                                (("Risk-adjusted return", "Martin ratio"), lambda: s.martin_ratio(rfs)),
                                (("Risk", "VaR 5%"), lambda: s.value_at_risk(0.05)),
                                (("Risk", "Expected shortfall 2%"), lambda: s.expected_shortfall(0.02))):
                    try:
                        want = float(fn())
                    except Exception:
                        continue
                    val = float(col[key])
                    if any(math.isnan(x) or math.isinf(x) for x in (val, want)):
                        continue
                    if not close(val, want, 1e-9):
                        r.fail("tearsheet-row", row=" / ".join(key), reported=val, expected=want,
                               clause="the tearsheet reports the metric it names")
                r.tags.add("tearsheet")
            except Exception as e:  # noqa  (the tearsheet needs enough observations for every metric; not judged when it refuses)
                r.trace.append(f"tearsheet raised {type(e).__name__}: {str(e)[:100]}")
        return r


PROP = C16()
