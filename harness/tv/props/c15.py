"""C15 - episodes stay inside their fold; episode length and walk-forward are exact."""
from __future__ import annotations

from fractions import Fraction

from .. import envstream as es
from ..core import from_us, us
from ..runner import ImplRun, Prop


def pd_to_dt(x):
    import pandas as pd

    return pd.Timestamp(x).to_pydatetime()


class C15(Prop):
    id = "C15"
    driver = "Env"
    quick_n = 120
    thorough_n = 12000
    exhaustive_flag = True
    rule = ("(a) episodes: grids of 3..10 timesteps with gaps (timesteps without events), fold dictionaries including "
            "overlapping folds and folds that cut the grid, configured episode lengths 1..fold size+1, every start "
            "index forced in turn through the intercepted sampler, steps until the episode ends plus one more; in a quarter of the cases the "
            "Transmitter first holds only the beginning of the data and serves another environment on every fold, the "
            "rest being appended (add_timesteps / add_events) before the environment under test is built on it; in 30% a "
            "second environment with its own Transmitter over a sub-grid (default fold, same fold name) is alive, built "
            "and reset before the one under test; "
            "(b) walk-forward: every (N, train, test, sliding) with N <= 16 (quick) / 40 (thorough), enumerated "
            "exhaustively. Non-trivial = an episode with a configured length inside a fold narrower than the grid, or a "
            "start index > 0, or a length for which no start fits, or a walk-forward with >= 2 folds; distinct = "
            "distinct cases")
    nontrivial_tags = {"narrow-fold", "start>0", "none-fits", "wf-multi", "overlapping-folds", "gap-timestep"}
    assumptions = [
        "the start index is sampled by numpy; the harness intercepts np.random.choice, records its (range, p) arguments "
        "and forces each admissible index in turn",
    ]
    shrink_key = None
    COMPARE = {"ereset", "log", "step", "stepi", "nrec", "wf", "steps", "nstarts"}

    def exhaustive_cases(self, tier):
        nmax = 16 if tier == "quick" else 40
        out = []
        for n in range(1, nmax + 1):
            for train in range(1, min(n, 12) + 1):
                for test in range(1, min(n, 8) + 1):
                    if train + test > n + 1:
                        continue
                    out.append(dict(kind="wf", n=n, train=train, test=test, sliding=(n + train + test) % 2))
        return out

    def gen(self, rng, tier):
        case, grid, keys = es.gen_episode(rng, tier, n_contracts=1, extra_events=False, delay=0, latency=0,
                                          markov=rng.random() < 0.3, warmup=None, spread=0,
                                          space=None, reward="simple", fees=["0", "0", "0"])
        case["space"] = dict(kind="box", low="0", high="1", keys=keys, asWeights=1, fractional=1, margin="0")
        # some grid points carry no event at all (not event-bearing: never visited)
        grid = sorted(set(case["grid"]))
        if len(grid) > 4 and rng.random() < 0.5:
            drop = rng.choice(grid[1:-1])
            case["events"] = [e for e in case["events"] if e[2] != drop]
            case["_gap"] = drop
        folds = {}
        a, b = sorted(rng.sample(range(len(grid)), 2)) if len(grid) > 2 else (0, len(grid) - 1)
        folds["training-set"] = [grid[a] - rng.choice([0, 1]), grid[b] + rng.choice([0, 1])]
        c, d = sorted(rng.sample(range(len(grid)), 2))
        folds["test-set"] = [grid[c], grid[d]]
        case["folds"] = folds
        fold = rng.choice(list(folds))
        size = len([g for g in grid if folds[fold][0] <= g <= folds[fold][1]])
        case["eplen"] = rng.choice([None] + list(range(1, size + 2)))
        start = rng.randint(0, max(0, size))
        nsteps = (case["eplen"] or size) + 1
        case["ops"] = [["reset", fold, start]] + [["step", [str(Fraction(i % 5, 8))]] for i in range(nsteps + 1)]
        if rng.random() < 0.2:
            # a request that cannot fit (refused) right before the real one: the refusal leaves nothing behind
            too_long = size + rng.randint(2, 6)
            if rng.random() < 0.5:
                case["ops"] = [["reset", fold, 0, too_long]] + case["ops"]
                case["_prefix"] = 1
            else:
                # ... or: an episode on this fold, then a request on the *other* fold that cannot fit there (refused),
                # then the episode that is judged, on this fold again
                other = next(f for f in folds if f != fold)
                osize = len([g for g in grid if folds[other][0] <= g <= folds[other][1]])
                case["ops"] = [["reset", fold, 0], ["step", ["1/8"]], ["reset", other, 0, osize + rng.randint(2, 6)]] + case["ops"]
                case["_prefix"] = 3
            case["_refused_first"] = True
        case["kind"] = "episode"
        # a second live environment with its own Transmitter over other data (built and reset before the one under test)
        case["sibling"] = rng.random() < 0.3
        if len(grid) >= 3 and rng.random() < 0.25:
            # the data is appended to a Transmitter that has already served episodes on these folds
            case["grow_after"] = rng.randint(1, len(grid) - 1)
        return case

    def run_impl(self, case):
        if case.get("kind") == "wf":
            return self.run_wf(case)
        r, s = es.run_case(case, self.COMPARE)
        if s.env is None:
            return r
        grid = sorted(set(case["grid"]))
        if case.get("_refused_first"):
            r.tags.add("refused-request-first")
            k = case.get("_prefix", 1)
            refused = s.obs[k - 1] if len(s.obs) >= k else None
            if refused is not None and refused["status"].startswith("ok"):
                r.fail("reset-accepted-though-none-fits", theorem="refused_iff_none_fits", length=case["ops"][k - 1][3])
            s.obs = s.obs[k:]
            if not s.obs:
                return r
        ro = s.obs[0]
        lo, hi = ro["lo"], ro["hi"]
        # event-bearing timesteps of the fold, from the property text
        from .c04 import expected_delivery
        ev_times = sorted({us(e.time) for e in s.tx.events if us(e.time) <= grid[-1] and (not case.get("markov") or us(e.time) >= grid[0])})
        import bisect
        bearing = sorted({grid[bisect.bisect_left(grid, t)] for t in ev_times})
        fold_steps = [g for g in bearing if lo <= g <= hi]
        if len(fold_steps) < len([g for g in grid if lo <= g <= hi]):
            r.tags.add("gap-timestep")
        if len(fold_steps) < len(bearing):
            r.tags.add("narrow-fold")
        f = case.get("folds") or {}
        if len(f) == 2:
            (a1, b1), (a2, b2) = f.values()
            if a1 <= b2 and a2 <= b1:
                r.tags.add("overlapping-folds")
        n = case.get("eplen")
        if n is not None:
            L = n + 1
            fits = max(0, len(fold_steps) - (L - 1))
            samp = ro.get("sampler") or {}
            if fits == 0:
                r.tags.add("none-fits")
                if ro["status"].startswith("ok"):
                    r.fail("reset-accepted-though-none-fits", fold_size=len(fold_steps), length=n,
                           theorem="refused_iff_none_fits")
                r.op(f"nstarts {lo} {hi}", "0")
                return r
            r.op(f"nstarts {lo} {hi}", str(samp.get("n")))
            if samp.get("n") != fits:
                r.fail("sampler-range", offered=samp.get("n"), expected=fits, theorem="start_fits",
                       clause="the start is drawn only from - and can be any of - the positions where the whole episode fits")
            if samp.get("p") is not None and any(p <= 0 for p in samp["p"]):
                r.fail("sampler-zero-weight", theorem="sampler_support_full")
            start = ro["start"]
            if start > 0:
                r.tags.add("start>0")
            expect_steps = fold_steps[start:start + L]
        else:
            expect_steps = fold_steps
        if not ro["status"].startswith("ok"):
            if expect_steps:
                r.fail("reset-refused", status=ro["status"], theorem="steps_in_fold")
            return r
        visited = [us(ro["now"])] if ro["now"] is not None else []
        ok_steps = 0
        for so in s.obs[1:]:
            if so["status"].startswith("ok"):
                ok_steps += 1
                visited.append(us(so["now"]))
                if ok_steps == len(expect_steps) - 1 and not so["done"]:
                    r.fail("not-done-at-last-decision", steps=ok_steps, theorem="episode_length_exact")
                if ok_steps < len(expect_steps) - 1 and so["done"]:
                    r.fail("done-too-early", steps=ok_steps, expected=len(expect_steps) - 1, theorem="episode_length_exact")
            else:
                break
        if visited != expect_steps[:len(visited)] or ok_steps != len(expect_steps) - 1:
            r.fail("episode-timesteps", visited=visited, expected=expect_steps, decisions=ok_steps,
                   theorem="steps_in_fold / episode_length_exact",
                   clause="an episode visits consecutive event-bearing timesteps of the fold, exactly n decisions")
        for t in visited:
            if not (lo <= t <= hi):
                r.fail("timestep-outside-fold", t=t, lo=lo, hi=hi, theorem="steps_in_fold")
        return r

    def run_wf(self, case):
        import datetime as dt

        from tradingenv.transmitter import Transmitter

        r = ImplRun()
        n, tr, te, sl = case["n"], case["train"], case["test"], bool(case["sliding"])
        ts = [dt.datetime(2020, 1, 1) + dt.timedelta(days=i) for i in range(n)]
        folds = Transmitter(ts).walk_forward(tr, te, sl)
        rows = list(zip(*(list(map(int, x)) for x in (folds.train_start, folds.train_end, folds.test_start, folds.test_end))))
        r.op(f"wf {n} {tr} {te} {int(sl)}", ";".join(",".join(map(str, x)) for x in rows) if rows else "-")
        if len(rows) >= 2:
            r.tags.add("wf-multi")
        prev = None
        for a, b, c, d in rows:
            if d - c + 1 != te or c != b + 1 or d > n - 1 or (sl and b - a + 1 != tr) or (not sl and a != 0):
                r.fail("walk-forward-window", fold=(a, b, c, d), n=n, train=tr, test=te, theorem="walk_forward_spec")
            if prev is not None and not (prev[3] < c and c - prev[2] == te):
                r.fail("walk-forward-overlap", prev=prev, fold=(a, b, c, d), theorem="walk_forward_disjoint")
            prev = (a, b, c, d)
        # the same folds as timestamps (Folds.as_time): each bound is the timestep at the fold's index
        try:
            ft = folds.as_time()
            for i, (a, b, c, d) in enumerate(rows):
                want = (ts[a], ts[b], ts[c], ts[d])
                got_t = tuple(pd_to_dt(x[i]) for x in (ft.train_start, ft.train_end, ft.test_start, ft.test_end))
                if got_t != want:
                    r.fail("walk-forward-window", fold=(a, b, c, d), as_time=[str(x) for x in got_t],
                           expected=[str(x) for x in want], theorem="walk_forward_spec",
                           clause="test windows ... begin immediately after their own training window (as timestamps)")
        except Exception as e:  # noqa
            if rows:
                r.fail("walk-forward-window", error=f"as_time raised {type(e).__name__}: {str(e)[:80]}")
        # completeness: another fold would not fit
        last_start = rows[-1][2] - tr if rows else -te
        if last_start + te + tr + te - 1 <= n - 1:
            r.fail("walk-forward-missing-fold", n=n, train=tr, test=te, folds=len(rows), theorem="mem_wfStarts")
        return r


PROP = C15()
