"""C02 - no look-ahead: outputs up to time t never depend on data stamped after t."""
from __future__ import annotations

import copy
import math
from fractions import Fraction

from .. import envstream as es
from ..core import F, fr, us
from ..runner import ImplRun, Prop


def snapshot(o, s_env_rec=None):
    """Everything the environment has returned or recorded at an observation point."""
    return dict(status=o["status"], reward=o.get("reward"), done=o.get("done"), traded=o.get("traded"),
                log=[(k, None if t is None else us(t)) for k, t, c in o["log"]],
                pos={k: v for k, v in o["pos"].items() if v != 0}, nlv=o.get("nlv"), nrec=o["nrec"],
                now=None if o["now"] is None else us(o["now"]), feature_obs=o.get("feature_obs"))


def record_dump(env, upto):
    out = []
    tr = env.broker.track_record
    for i in range(min(len(tr), upto)):
        e = tr[i]
        out.append((us(e.time), F(e.profit_on_idle_cash), F(e.context_pre.nlv), F(e.context_post.nlv),
                    sorted((t.contract.symbol, F(t.quantity), F(t.acq_price)) for t in e.trades)))
    return out


class C02(Prop):
    id = "C02"
    driver = "Env"
    quick_n = 110
    thorough_n = 8000
    rule = ("(a) event API: a bar-shaped episode and a twin whose events stamped after a random cut t (a timestep) "
            "carry re-drawn prices (same timestamps, so the same event-bearing steps), same actions: everything "
            "returned or recorded up to the step landing on t must be identical (log, rewards, done, positions, NLV, "
            "track-record entries); a second twin perturbs only events stamped after t + latency and the trades of the "
            "following step must be identical. (b) tabular API (TradingEnvXY): rows of X, Y and the rate dated after t "
            "are perturbed with transformer_end <= t (z-score / yeo-johnson / none, window 1..6, stride), or - a quarter of "
            "these cases - X only, with the caller's own sklearn instance fitted on rows <= t and no transformer_end: "
            "observations, rewards, done flags up to t must be identical. Non-trivial = the perturbation actually "
            "changed a later output (so the comparison is not vacuous); distinct = distinct cases")
    rule = rule + "; a few per cent of the cases use pandas Timestamps at nanosecond resolution (grid points with a sub-microsecond part, quotes 400 ns .. 3 us after a grid point, a latency of 1.5 us in C08), judged by the oracle alone" + es.CONTEXT_RULE
    nontrivial_tags = {"nanosecond-stamps", "later-output-changed", "xy-later-output-changed"}
    assumptions = [
        "perturbations change values, not timestamps (the property's hypothesis: same event-bearing steps)",
        "sklearn's fit/transform are opaque; what is checked is that nothing dated after transformer_end reaches them "
        "and nothing else looks ahead",
    ]
    shrink_key = None
    COMPARE = {"ereset", "log", "step", "stepi", "state", "nrec"}

    def gen(self, rng, tier):
        if rng.random() < 0.05:
            return es.gen_ns_case(rng, 0)
        if rng.random() < 0.3:
            return self.gen_xy(rng, tier)
        case, grid, keys = es.gen_episode(rng, tier, markov=rng.random() < 0.15, one_per_bar=False)
        n = len(grid) - 1
        case["ops"] = [["reset", None, 0]] + es.gen_actions(rng, case, n)
        case["cut"] = rng.randint(0, max(0, n - 1))
        case["pseed"] = rng.randint(0, 10**9)
        case["kind"] = "env"
        return case

    def gen_xy(self, rng, tier):
        return dict(kind="xy", seed=rng.randint(0, 10**9), n=rng.randint(30, 60), nx=rng.randint(1, 3), ny=rng.randint(1, 2),
                    window=rng.choice([1, 1, 2, 3, 6]), stride=rng.choice([None, None, 2]),
                    transformer=rng.choice(["z-score", "yeo-johnson", None]), delay=rng.choice([0, 1]),
                    cut=rng.randint(12, 25), missing=rng.random() < 0.5, drop_x=rng.random() < 0.7,
                    # the caller's own fitted sklearn instance instead of a name (and no transformer_end): fitted on rows
                    # dated <= t, it must be used as it is
                    prefit=rng.random() < 0.25)

    # ------------------------------------------------------------------ event API
    def perturbed(self, case, after):
        import random

        prng = random.Random(case["pseed"])
        c2 = copy.deepcopy(case)
        for e in c2["events"]:
            if e[0] == "q" and e[2] > after and e[1] != "RATE":
                b, a = Fraction(e[3]), Fraction(e[4])
                f = Fraction(prng.randint(50, 200), 100)
                e[3], e[4] = fr(F(float(b * f))), fr(F(float(a * f)))
        return c2

    def run_impl(self, case):

        if case.get("kind") == "ns":
            # nanosecond-resolution pandas stamps: judged by the oracle alone (the model's unit is the microsecond)
            from ..runner import ImplRun as _IR
            r = _IR()
            es.judge_ns_case(r, case, es.run_ns_case(case), exec_prices=bool(case.get("latency_ns")))
            return r
        if case.get("kind") == "xy":
            return self.run_xy(case)
        r, s = es.run_case(case, self.COMPARE)
        if s.env is None:
            return r
        grid = sorted(set(case["grid"]))
        ro = s.obs[0]
        if not ro["status"].startswith("ok"):
            return r
        steps = [o for o in s.obs[1:]]
        # the step with index k (0-based among steps) lands on the (k+1)-th timestep of the episode
        ep_times = [us(ro["now"])] + [us(o["now"]) for o in steps if o["status"].startswith("ok") and o["now"] is not None]
        k = min(case["cut"], len(ep_times) - 1)
        # the cut is the k-th timestep of the episode *as given in the input* (bar-shaped streams: every grid point bears
        # a quote, the episode starts at the first one) - not the clock the implementation reports, which a defect
        # could have moved
        t = grid[k] if k < len(grid) else ep_times[k]
        lat = case.get("latency", 0)
        # twin 1: everything after t re-drawn
        r2 = ImplRun()
        s2 = es.EnvSession(self.perturbed(case, t), r2)
        for op in case["ops"]:
            s2.do(op)
        a = [snapshot(o) for o in s.obs[:k + 1]]
        b = [snapshot(o) for o in s2.obs[:k + 1]]
        if a != b:
            first = next(i for i, (x, y) in enumerate(zip(a, b)) if x != y)
            diff = {key: (str(a[first][key])[:200], str(b[first][key])[:200]) for key in a[first] if a[first][key] != b[first][key]}
            r.fail("look-ahead", cut=t, observation_point=first, differs=diff, theorem="batches_depend_on_past / envStep_congr",
                   clause="outputs up to the step landing on t are identical for streams agreeing on events stamped <= t")
        # what is recorded by then (entries executed at or before t)
        n_rec = s.obs[k]["nrec"]
        if record_dump(s.env, n_rec) != record_dump(s2.env, n_rec):
            r.fail("look-ahead-record", cut=t, theorem="batches_depend_on_past / envStep_congr")
        if [snapshot(o) for o in s.obs[k + 1:]] != [snapshot(o) for o in s2.obs[k + 1:]]:
            r.tags.add("later-output-changed")
        # twin 2: only events after t + latency re-drawn -> the trades of the following step are the same
        if k + 1 < len(s.obs):
            r3 = ImplRun()
            s3 = es.EnvSession(self.perturbed(case, t + lat), r3)
            for op in case["ops"]:
                s3.do(op)
            o1, o3 = s.obs[k + 1], s3.obs[k + 1]
            # the execution of that step is what is recorded (the step may still end differently afterwards: its
            # post-trade events are stamped after t + latency and may even ruin the twin's account, C09/K2)
            e1 = o1["nrec_after"] == o1["nrec_before"] + 1
            e3 = o3["nrec_after"] == o3["nrec_before"] + 1
            if e1 != e3:
                r.fail("execution-looks-ahead", cut=t, latency=lat, executed=(e1, e3), theorem="latent_within_latency")
            elif e1:
                d1 = record_dump(s.env, 10**6)[o1["nrec_after"] - 1] if len(s.env.broker.track_record) >= o1["nrec_after"] else None
                d3 = record_dump(s3.env, 10**6)[o3["nrec_after"] - 1] if len(s3.env.broker.track_record) >= o3["nrec_after"] else None
                if d1 is not None and d3 is not None and (d1[0], d1[1], d1[2], d1[4]) != (d3[0], d3[1], d3[2], d3[4]):
                    r.fail("execution-looks-ahead", cut=t, latency=lat, entry=str(d1)[:300], twin=str(d3)[:300],
                           theorem="latent_within_latency",
                           clause="the trades executed in the following step depend on nothing stamped after t + latency")
        return r

    # ------------------------------------------------------------------ tabular API
    def run_xy(self, case):
        import warnings

        import numpy as np
        import pandas as pd
        from tradingenv.env import TradingEnvXY

        r = ImplRun()
        rng = np.random.default_rng(case["seed"])
        n = case["n"]
        idx = pd.bdate_range("2019-01-01", periods=n)
        X = pd.DataFrame(rng.normal(size=(n, case["nx"])), index=idx, columns=[f"x{i}" for i in range(case["nx"])])
        if case["missing"]:
            mask = rng.random(X.shape) < 0.1
            X = X.mask(mask)
        Y = pd.DataFrame(100 * np.exp(np.cumsum(rng.normal(0, 0.01, size=(n, case["ny"])), axis=0)), index=idx,
                         columns=[f"P{i}" for i in range(case["ny"])])
        rate = pd.Series(rng.uniform(0, 0.03, size=n), index=idx, name="rate")
        cut = idx[case["cut"]]
        if case.get("drop_x"):
            # feature rows missing on dates the price table has (the cut date among them): the observation at such
            # a date must come from the latest *earlier* feature row
            keep = rng.random(n) > 0.15
            keep[0] = True
            keep[case["cut"]] = False
            X = X.loc[keep]
        X2, Y2, rate2 = X.copy(), Y.copy(), rate.copy()
        later = idx > cut
        laterx = X2.index > cut
        X2.loc[laterx] = rng.normal(size=(laterx.sum(), case["nx"])) * 3
        Y2.loc[later] = Y2.loc[later] * rng.uniform(0.8, 1.25, size=(later.sum(), case["ny"]))
        rate2.loc[later] = rng.uniform(0, 0.05, size=later.sum())
        acts = rng.uniform(-0.5, 0.5, size=(n, case["ny"]))
        if case.get("prefit"):
            # only the feature table is perturbed: without transformer_end the reward scale is computed from the whole
            # price table by design
            Y2, rate2 = Y.copy(), rate.copy()
            r.tags.add("prefitted-transformer-instance")

        def run(Xa, Ya, ra):
            with warnings.catch_warnings():
                warnings.simplefilter("ignore")
                if case.get("prefit"):
                    from sklearn.preprocessing import PowerTransformer, StandardScaler

                    inst = PowerTransformer("yeo-johnson") if case["transformer"] == "yeo-johnson" else StandardScaler()
                    inst.fit(Xa.loc[:cut])
                    env = TradingEnvXY(Xa, Ya, transformer=inst, window=case["window"],
                                       stride=case["stride"], steps_delay=case["delay"], rate=ra)
                else:
                    env = TradingEnvXY(Xa, Ya, transformer=case["transformer"], transformer_end=cut, window=case["window"],
                                       stride=case["stride"], steps_delay=case["delay"], rate=ra)
                out = []
                o = env.reset()
                out.append((us(env.now()), o.tobytes(), None, None))
                i = 0
                done = False
                while not done and i < n:
                    try:
                        o, rew, done, info = env.step(acts[i])
                    except Exception as e:  # e.g. the account is ruined by the perturbed future (K2 of C09)
                        out.append((us(env.now()), b"raised", type(e).__name__, True))
                        break
                    out.append((us(env.now()), o.tobytes(), float(rew), bool(done)))
                    i += 1
                return out, env

        (a, env1), (b, env2) = run(X, Y, rate), run(X2, Y2, rate2)
        tcut = us(cut)
        a1 = [x for x in a if x[0] <= tcut]
        b1 = [x for x in b if x[0] <= tcut]

        def same(x, y):
            # sklearn's fitted mean/scale can differ in the last bit with the memory layout of the frame it was
            # given (pairwise summation order), so observations are compared at 1e-12, not bitwise
            if x[0] != y[0] or x[3] != y[3] or (x[2] is None) != (y[2] is None):
                return False
            if isinstance(x[2], str) or isinstance(y[2], str):
                return x[2] == y[2]
            if x[2] is not None and abs(x[2] - y[2]) > 1e-9:
                return False
            if x[1] == b"raised" or y[1] == b"raised":
                return x[1] == y[1]
            ox, oy = np.frombuffer(x[1]), np.frombuffer(y[1])
            return ox.shape == oy.shape and bool(np.all(np.abs(ox - oy) <= 1e-12))

        if len(a1) != len(b1) or not all(same(x, y) for x, y in zip(a1, b1)):
            first = next((i for i, (x, y) in enumerate(zip(a1, b1)) if not same(x, y)), min(len(a1), len(b1)))
            r.fail("xy-look-ahead", cut=str(cut.date()), step=first, transformer=str(case["transformer"]),
                   window=case["window"], theorem="prepared_prefix (C18) / batches_depend_on_past",
                   clause="altering rows dated after t (transformer fitted up to <= t) changes no output up to t")
        if [x for x in a if x[0] > tcut] != [x for x in b if x[0] > tcut]:
            r.tags.add("xy-later-output-changed")
        r.trace.append(f"xy n={n} cut={cut.date()} steps={len(a)} transformer={case['transformer']} window={case['window']}")
        return r


PROP = C02()
