"""C11 - futures chains always trade the live lead contract and roll before expiry."""
from __future__ import annotations

import datetime as dt
from fractions import Fraction

from .. import envstream as es
from ..core import F, fr, from_us, us
from ..runner import ImplRun, Prop

SPANS = {"ES": ("1997-09", "2041-01"), "NK": ("1990-12", "2041-01"), "VX": ("2004-03", "2030-01"),
         "ZN": ("1990-01", "2041-01"), "ZQ": ("2000-01", "2020-01"), "ZT": ("2000-01", "2020-01"),
         "ZF": ("2000-01", "2020-01"), "ZB": ("2000-01", "2020-01")}


def roll_episode(rng, cls_name):
    """Daily episode across a roll of the class's chain, trading the chain with spread and threshold."""
    import tradingenv.contracts as tc

    cls = getattr(tc, cls_name)
    ch = tc.FutureChain(cls, "2019-01", "2020-07")
    k = rng.randint(0, len(ch.contracts) - 4)
    fut = ch.contracts[k]
    ltd, exp = fut.last_trading_date, fut.expiry
    ltd = ltd.to_pydatetime() if hasattr(ltd, "to_pydatetime") else ltd
    exp = exp.to_pydatetime() if hasattr(exp, "to_pydatetime") else exp
    start = ltd - dt.timedelta(days=rng.randint(2, 5))
    ndays = (exp - start).days + rng.randint(1, 3)
    days = [start + dt.timedelta(days=i) for i in range(ndays)]
    if rng.random() < 0.4 and len(days) > 6:
        # gaps shorter than the roll window
        drop = rng.randrange(1, len(days) - 1)
        if not (ltd <= days[drop] < exp and sum(1 for d in days if ltd <= d < exp) <= 1):
            days.pop(drop)
    lat_us, cross = 0, None
    if rng.random() < 0.35:
        # a decision a few seconds before the midnight that is a last trading date, executed after it: the latency
        # window crosses the roll, with a quote inside the window so that the clock actually moves past the date.
        # The chain is resolved at the instant of execution (that is where the trades are stamped and priced).
        sec = rng.choice([1, 5, 20])
        # (the latency must be shorter than every gap of the grid: the midnight itself is not a timestep here)
        days = sorted((set(days) - {ltd}) | {ltd - dt.timedelta(seconds=sec)})
        lat_us = (sec + rng.choice([0, 1, 30])) * 1_000_000
        cross = us(ltd) + rng.choice([0, 1, lat_us - sec * 1_000_000])
    grid = [us(d) for d in days]
    month = 1 if rng.random() < 0.25 else 0   # the chain resolves to the contract after the lead
    syms = [c.symbol for c in ch.contracts[k:k + 3 + month]]
    events = []
    mids = {s: Fraction(rng.randint(400, 12000), 4) for s in syms}
    for t in grid:
        for s_, c in zip(syms, ch.contracts[k:k + 3 + month]):
            ce = c.expiry.to_pydatetime() if hasattr(c.expiry, "to_pydatetime") else c.expiry
            if from_us(t) >= ce:
                continue  # no quotes after the contract expired
            mids[s_] = mids[s_] * Fraction(rng.randint(98, 102), 100)
            half = mids[s_] * Fraction(rng.choice([0, 1, 4]), 4000)
            events.append(["q", s_, t, fr(F(float(mids[s_] - half))), fr(F(float(mids[s_] + half)))])
    late_next = lat_us == 0 and rng.random() < 0.25
    if late_next:
        # the contract the chain resolves to after the roll is first quoted one timestep late: the decision at the first
        # step past the last trading date is refused (missing quote), the caller carries on with the next decision
        nxt = syms[1 + month]
        first_after = next((t for t in grid if t >= us(ltd)), None)
        if first_after is not None:
            events = [e for e in events if not (e[1] == nxt and e[2] <= first_after)]
    if cross is not None:
        for s_ in syms:
            mids[s_] = mids[s_] * Fraction(rng.randint(98, 102), 100)
            events.append(["q", s_, cross, fr(F(float(mids[s_]))), fr(F(float(mids[s_])))])
        events.sort(key=lambda e: e[2])
    case = dict(contracts=[], chains=[dict(name="c", cls=cls_name, start="2019-01", end="2020-07", month=month)],
                fees=rng.choice([["0", "0", "0"], ["0", "1/2000", "0"]]), deposit="10000000", grid=grid, events=events,
                latency=lat_us, delay=0, markov=False, warmup=None,
                space=dict(kind="box", low="-1", high="1", keys=["@c"], asWeights=1, fractional=1,
                           margin=rng.choice(["0", "0", "1/50", "1/7"])),  # never equal to a target weight k/32: an imbalance exactly at the
                           # threshold is decided by rounding in the real-valued regime (boundaries are C12's exact regime)
                reward="pnl")
    w = Fraction(rng.choice([-1, 1]) * rng.randint(2, 12), 16)
    case["ops"] = [["reset", None, 0]] + [["step", [fr(w if rng.random() < 0.8 else w / 2)]] for _ in range(len(grid) - 1)]
    margin = Fraction(case["space"]["margin"])
    if margin > 0 and rng.random() < 0.6:
        # a position built above the threshold, cut to a residual worth less than the threshold shortly before the
        # roll: the old lead must still be closed at the roll (liquidations are not subject to the threshold)
        big = Fraction(rng.choice([-1, 1]) * rng.randint(6, 12), 16)
        small = (1 if big > 0 else -1) * margin * Fraction(rng.choice([1, 2, 3]), 4) + Fraction(1, 1024)
        j = next((i for i, t in enumerate(grid) if t >= us(ltd)), len(grid) - 1)
        cut = max(1, j - rng.choice([0, 1, 1, 2]))
        later = rng.choice([small, small, big])
        acts = [big if i < cut else small if i < j + 1 else later for i in range(len(grid) - 1)]
        case["ops"] = [["reset", None, 0]] + [["step", [fr(a)]] for a in acts]
    case["kind"] = "episode"
    case["peek_chain"] = rng.random() < 0.3
    if late_next:
        case["_late_next"] = True
    if lat_us:
        case["_latency_roll"] = True
    case["_roll"] = dict(symbol=fut.symbol, ltd=us(ltd), expiry=us(exp))
    return case


class C11(Prop):
    id = "C11"
    driver = "Env"
    quick_n = 60
    thorough_n = 4000
    shrink_key = None
    exhaustive_flag = True
    rule = ("(a) lead resolution, exhaustive over each built-in class's chain span: FutureChain.lead_contract(now) for "
            "month offsets 0..2 with `now` at every exact last-trading instant, 1 microsecond before and after, and "
            "mid-way between consecutive ones - compared with the model's bisect and with the rule 'earliest last-"
            "trading date strictly later than now'; (b) episodes trading a chain (month offset 0, in a quarter of the cases 1) across a roll (long and short targets, "
            "spreads, thresholds up to 25%, grids with gaps shorter than the roll window; decisions taken seconds before a last trading date "
            "and executed, after the latency, past it; in 30% the policy calls chain.lead_contract(month=1) between steps; in a quarter of the zero-latency cases the new lead is first quoted one timestep late, so the decision at the roll is refused and the next one carries on): after every rebalance every "
            "other contract of the chain is flat and nothing is held at or after its expiry. Non-trivial = a lead "
            "table, or an episode in which a position was actually rolled; distinct = distinct cases")
    nontrivial_tags = {"lead-table", "rolled"}
    assumptions = [
        "quotes for a contract stop at its expiry (the discontinuation event the chain adds terminates its book)",
    ]
    COMPARE = {"ereset", "step", "state", "nrec", "log", "now", "key"}

    def exhaustive_cases(self, tier):
        cls = ["ES", "NK", "VX", "ZN"] if tier == "quick" else list(SPANS)
        return [dict(kind="lead", cls=c, month=m) for c in cls for m in (0, 1, 2)]

    def gen(self, rng, tier):
        return roll_episode(rng, rng.choice(["ES", "ES", "NK", "VX", "ZN", "ZF"]))

    def run_impl(self, case):
        from tradingenv.contracts import AbstractContract

        saved = AbstractContract.now
        try:
            return self.run_lead(case) if case["kind"] == "lead" else self.run_episode(case)
        finally:
            AbstractContract.now = saved

    def run_lead(self, case):
        import tradingenv.contracts as tc

        r = ImplRun()
        r.driver = "Exchange"
        r.tags.add("lead-table")
        cls = getattr(tc, case["cls"])
        a, b = SPANS[case["cls"]]
        ch = tc.FutureChain(cls, a, b, month=case["month"])
        ltds = [us(c.last_trading_date) for c in ch.contracts]
        r.op("chain c {} {}".format(case["month"], " ".join(f"{t}:{c.symbol}" for t, c in zip(ltds, ch.contracts))))
        pts = []
        for i, t in enumerate(ltds[:-1 - case["month"] - 1]):
            pts += [t - 1, t, t + 1, (t + ltds[i + 1]) // 2]
        pts = [ltds[0] - 86_400_000_000] + pts
        prev_idx = -1
        for now in pts:
            lead = ch.lead_contract(from_us(now))
            r.op(f"now {now}")
            r.op("key @c", lead.symbol)
            later = [i for i, t in enumerate(ltds) if t > now]
            want = ch.contracts[later[0] + case["month"]]
            if lead is not want:
                r.fail("lead-rule", cls=case["cls"], month=case["month"], now=now, lead=lead.symbol, expected=want.symbol,
                       theorem="lead_live / lead_offset",
                       clause="the listed contract with the earliest last-trading date strictly later than now, shifted by the offset")
            if case["month"] == 0 and not (us(lead.last_trading_date) > now):
                r.fail("lead-not-live", cls=case["cls"], now=now, lead=lead.symbol, theorem="lead_live")
            idx = ch.contracts.index(lead)
            if idx < prev_idx:
                r.fail("lead-moved-backwards", cls=case["cls"], now=now, theorem="lead_monotone")
            prev_idx = idx
        return r

    def run_episode(self, case):
        r, s = es.run_case(case, self.COMPARE)
        if s.env is None:
            return r
        chain = s.chains["c"]
        exp = {c.symbol: us(c.expiry) for c in chain.contracts}
        ltd = {c.symbol: us(c.last_trading_date) for c in chain.contracts}
        held_syms = set()
        prev_now = s.obs[0].get("now")
        for o in s.obs[1:]:
            if o["status"] == "err rejected" and case.get("_late_next"):
                # a refused decision (the new lead is not quoted yet) executes nothing: in particular it does not move
                # the environment on to the next timestep
                r.tags.add("refused-decision-at-roll")
                if o.get("now") is not None and prev_now is not None and o["now"] != prev_now:
                    r.fail("refused-step-moved-the-clock", before=str(prev_now), after=str(o["now"]),
                           theorem="envStep error branch / clock_eq_event_time (C04)",
                           clause="... the target re-established in the new lead at prevailing quotes (a refused decision is not a step)")
                prev_now = o.get("now")
                continue
            prev_now = o.get("now")
            if not o["status"].startswith("ok"):
                break
            now_exec = o.get("rec_time")
            if now_exec is None:
                continue
            month = case["chains"][0].get("month", 0)
            li = next(i for i, c in enumerate(chain.contracts) if ltd[c.symbol] > now_exec)
            lead = chain.contracts[li + month].symbol
            for k, q in o["pos"].items():
                if q != 0:
                    held_syms.add(k)
                    if k != lead:
                        r.fail("non-lead-position-after-rebalance", step_time=now_exec, held=k, qty=float(q), lead=lead,
                               theorem="roll_closes_old_lead",
                               clause="after any rebalance that targets the chain the position in every other contract of the chain is zero")
                    if us(o["now"]) >= exp[k]:
                        r.fail("held-at-expiry", contract=k, now=us(o["now"]), expiry=exp[k],
                               theorem="roll_closes_old_lead / roll_window_nonempty")
        if len(held_syms) >= 2:
            r.tags.add("rolled")
        if case.get("_latency_roll"):
            r.tags.add("latency-window-crosses-roll")
        if case["chains"][0].get("month", 0):
            r.tags.add("month-offset")
        return r


PROP = C11()
