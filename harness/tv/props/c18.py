"""C18 - the tabular environment serves exactly the data it was given."""
from __future__ import annotations

import math
import warnings
from fractions import Fraction

from ..core import F, fr, us
from ..runner import ImplRun, Prop


class C18(Prop):
    id = "C18"
    driver = "Tabular"
    quick_n = 40
    thorough_n = 2500
    shrink_key = None
    rule = ("random feature / price tables on business days, calendar days or hourly session bars (missing values, differing index ranges, "
            "feature rows on dates absent from the price table), window 1..30, strides, transformers none / z-score / "
            "yeo-johnson, clip values up to 5, spreads, the NYSE calendar and, in a third of the cases, LSE / JPX / XHKG / EUREX / CME_Equity / 24-7 (holidays inside the span), start / end "
            "bounds, a rate series, the stride given as a numpy integer scalar in 30% of the cases, prices that repeat exactly for long stretches (a peg) in 30%, folds whose episodes start in the middle of the data; the whole episode is stepped and every observation, quote, rate and timestep is "
            "checked against the published tables. Non-trivial = window > 1 with a stride, or missing values in X, or "
            "a holiday inside the span, or X and Y indices differ; distinct = distinct cases")
    nontrivial_tags = {"stride", "missing", "holiday", "index-mismatch", "window>1"}
    assumptions = [
        "the sklearn transformer is opaque: the property speaks of the *published* transformed table (env.X); the "
        "preparation after the transformer (forward fill, fill 0, clip, trimming) is recomputed by the model",
        "pandas_market_calendars supplies the holiday set (read from the implementation)",
    ]

    def gen(self, rng, tier):
        c = self._gen0(rng, tier)
        if rng.random() < 0.3:
            # finer than daily: hourly session bars (10:00 .. 16:00) on the exchange's trading days
            c["intraday"] = True
            c["x_offset"] = 0
            c["n"] = rng.randint(60, 160)
            c["window"] = rng.choice([1, 2, 3, 5, 6, 10, 20])
        if rng.random() < 0.3:
            c["np_ints"] = rng.choice([1, 2])
        if rng.random() < 0.3:
            c["flat_prices"] = rng.choice([1, 1, 2])
        if rng.random() < 0.35:
            c["calendar"] = rng.choice(["LSE", "JPX", "XHKG", "EUREX", "24/7", "CME_Equity"])
        if rng.random() < 0.45:
            # folds: a second fold whose episodes start in the middle of the data (for session bars, mostly on the
            # first bar of a day, right after the overnight gap), optionally with a configured episode length
            c["fold_split"] = rng.random()
            c["fold_day_start"] = rng.random() < 0.6
        return c

    def _gen0(self, rng, tier):
        return dict(seed=rng.randint(0, 10**9), n=rng.randint(40, 110), nx=rng.randint(1, 4), ny=rng.randint(1, 3),
                    window=rng.choice([1, 1, 2, 3, 5, 10, 30]), stride=rng.choice([None, None, 2, 3, 7]),
                    transformer=rng.choice(["z-score", "yeo-johnson", None]), clip=rng.choice([5.0, 2.0, 0.5, 3.0]),
                    spread=rng.choice([0.0, 0.0002, 0.01]), missing=rng.random() < 0.6, calendar_days=rng.random() < 0.4,
                    x_offset=rng.choice([0, 0, -5, 7]), start_month=rng.choice([1, 6, 11, 12]), delay=rng.choice([0, 1]),
                    bounds=rng.random() < 0.3, edge=rng.choice([None, None, None, "end-holiday", "start-holiday"]), step_rate=rng.random() < 0.5)

    def run_impl(self, case):
        import numpy as np
        import pandas as pd
        import pandas_market_calendars
        from tradingenv.contracts import Asset, Rate
        from tradingenv.env import TradingEnvXY

        r = ImplRun()
        rng = np.random.default_rng(case["seed"])
        n, w, stride = case["n"], case["window"], case["stride"]
        calname = case.get("calendar", "NYSE")
        if calname != "NYSE":
            r.tags.add("other-calendar")
        if stride is not None and stride > w:
            stride = None
        first = f"2019-{case['start_month']:02d}-01"
        idx = pd.date_range(first, periods=n, freq="D") if case["calendar_days"] else pd.bdate_range(first, periods=n)
        if case.get("intraday"):
            hol_ = set(pd.Timestamp(h) for h in pandas_market_calendars.get_calendar(calname).holidays().holidays)
            days_ = [d for d in pd.bdate_range(first, periods=n // 7 + 3) if d not in hol_]
            idx = pd.DatetimeIndex([d + pd.Timedelta(hours=h) for d in days_ for h in range(10, 17)])[:n]
            n = len(idx)   # a calendar with many holidays leaves fewer session days than asked for
            r.tags.add("intraday")
        xidx = idx
        if case["x_offset"]:
            xidx = (pd.date_range(idx[0] + pd.Timedelta(days=case["x_offset"]), periods=n, freq="D")
                    if case["calendar_days"] else pd.bdate_range(idx[0] + pd.Timedelta(days=case["x_offset"]), periods=n))
            r.tags.add("index-mismatch")
        X = pd.DataFrame(rng.normal(size=(n, case["nx"])) * 2, index=xidx, columns=[f"x{i}" for i in range(case["nx"])])
        if case["missing"]:
            X = X.mask(rng.random(X.shape) < 0.15)
            r.tags.add("missing")
        Y = pd.DataFrame(100 * np.exp(np.cumsum(rng.normal(0, 0.01, size=(n, case["ny"])), axis=0)), index=idx,
                         columns=[f"P{i}" for i in range(case["ny"])])
        if case.get("flat_prices"):
            # pegged / illiquid assets: long stretches in which the price repeats exactly
            Yv = Y.values.copy()
            keep = rng.random(Yv.shape) < 0.35
            keep[0, :] = True
            for j in range(Yv.shape[1]):
                for i in range(1, Yv.shape[0]):
                    if not keep[i, j]:
                        Yv[i, j] = Yv[i - 1, j]
            if case["flat_prices"] == 2:
                Yv[:, 0] = 1.0     # a peg
            Y = pd.DataFrame(Yv, index=Y.index, columns=Y.columns)
            r.tags.add("repeated-prices")
        rate_vals = rng.uniform(0, 0.03, size=n)
        if case.get("step_rate"):
            # a policy-rate path: constant for weeks, then a step (consecutive equal values)
            levels = rng.uniform(0, 0.03, size=max(1, n // 15 + 1))
            rate_vals = np.array([levels[i // 15] for i in range(n)])
            r.tags.add("step-rate")
        rate = pd.Series(rate_vals, index=idx, name="rate")
        kw = {}
        if case["bounds"]:
            kw = dict(start=idx[n // 6], end=idx[-n // 8])
        if case.get("edge"):
            # the usable range starts / ends exactly on an exchange holiday that has a row in the price table
            hol0 = pandas_market_calendars.get_calendar(calname).holidays().holidays
            inside = [pd.Timestamp(h) for h in hol0 if idx[0] <= pd.Timestamp(h) <= idx[-1] and pd.Timestamp(h) in idx]
            if inside:
                if case["edge"] == "end-holiday":
                    kw["end"] = inside[-1]
                    kw.pop("start", None)
                else:
                    kw["start"] = inside[0]
                    kw.pop("end", None)
                r.tags.add("range-edge-on-holiday")
        # the form of the integer options: Python ints, or numpy integer scalars (np.arange / rng.integers / a config table)
        w_arg, stride_arg = w, stride
        if case.get("np_ints"):
            stride_arg = None if stride is None else (np.int64(stride) if case["np_ints"] == 1 else np.int32(stride))
            # (a numpy integer *window* is refused loudly by the library - deque(maxlen=...) wants an int - so only the
            # stride takes that form)
            r.tags.add("numpy-integer-options")
        with warnings.catch_warnings():
            warnings.simplefilter("ignore")
            try:
                env = TradingEnvXY(X, Y, transformer=case["transformer"], window=w_arg, stride=stride_arg, clip=case["clip"],
                                   spread=case["spread"], rate=rate, steps_delay=case["delay"], calendar=calname, **kw)
            except Exception as e:  # noqa  (e.g. not enough data for the window: outside the property)
                r.skipped = f"construction refused: {type(e).__name__}"
                return r
        fold2 = None
        if case.get("fold_split") is not None:
            ts0 = sorted(env._transmitter.timesteps)
            if len(ts0) >= 6:
                a = min(len(ts0) - 3, max(2, int(case["fold_split"] * len(ts0))))
                if case.get("intraday") and case.get("fold_day_start"):
                    firsts = [i for i in range(2, len(ts0) - 2) if pd.Timestamp(ts0[i]).date() != pd.Timestamp(ts0[i - 1]).date()]
                    if firsts:
                        a = min(firsts, key=lambda i: abs(i - a))
                folds = {"training-set": [ts0[0], ts0[a - 1]], "test-set": [ts0[a], ts0[-1]]}
                with warnings.catch_warnings():
                    warnings.simplefilter("ignore")
                    env = TradingEnvXY(X, Y, transformer=case["transformer"], window=w_arg, stride=stride_arg, clip=case["clip"],
                                       spread=case["spread"], rate=rate, steps_delay=case["delay"], folds=folds, calendar=calname, **kw)
                fold2 = "test-set"
                r.tags.add("mid-data-fold")
        if w > 1:
            r.tags.add("window>1")
        if stride:
            r.tags.add("stride")
        EX, EY = env.X, env.Y
        clip = case["clip"]
        # ---- published table within bounds
        if float(EX.abs().max().max()) > clip + 1e-12 or clip > 5:
            r.fail("published-table-out-of-bounds", max=float(EX.abs().max().max()), clip=clip, theorem="prepare_bounds")
        # ---- the preparation after the (opaque) transformer, recomputed by the model column by column
        with warnings.catch_warnings():
            warnings.simplefilter("ignore")
            end = env.Y.index[-1] if "end" not in kw else min(kw["end"], Y.last_valid_index())
            Xr = X.reindex(X.index.union(Y.index), fill_value=np.nan)
            Xt = env.transformer.transform(Xr.loc[:end])
        for col in Xt.columns[:2]:
            raw = [None if (v != v) else F(float(v)) for v in Xt[col].tolist()]
            pub = EX[col]
            off = list(Xt.index).index(pub.index[0])
            line = "prep " + fr(F(clip)) + " " + " ".join("nan" if v is None else fr(v) for v in raw)
            # the published column is the prepared column from the trimming offset on
            prepared_expected = ["*"] * off + [fr(F(float(v))) for v in pub.tolist()]
            r.op(line, None)
            r.prep_checks = getattr(r, "prep_checks", []) + [(len(r.lines) - 1, off, [F(float(v)) for v in pub.tolist()])]
        # ---- timesteps: price-table dates in the common valid range, not holidays, after the first `window`
        cal = pandas_market_calendars.get_calendar(calname)
        hol = set(pd.Timestamp(h) for h in cal.holidays().holidays)
        lo = max(EX.first_valid_index(), EY.first_valid_index())
        hi = min(EX.last_valid_index(), EY.last_valid_index())
        ydates = [t for t in EY.index]
        elig = [t for t in ydates if lo <= t <= hi and t not in hol]
        if any(lo <= t <= hi and t in hol for t in ydates):
            r.tags.add("holiday")
        want_steps = elig[w:]
        steps = sorted(env._transmitter.timesteps)
        r.op("steps {} {} {} {} | {}".format(us(lo), us(hi), w, " ".join(str(us(t)) for t in ydates),
                                              " ".join(str(us(h)) for h in sorted(hol) if ydates[0] <= h <= ydates[-1])),
             ",".join(str(us(t)) for t in steps) if steps else "-")
        if [pd.Timestamp(t) for t in steps] != want_steps:
            r.fail("timesteps", got=len(steps), expected=len(want_steps), theorem="timesteps_spec",
                   clause="steps only on dates present in the price table that are not holidays, never before a full window")
        # ---- episode: observations, quotes, rate
        r.op(f"window {w} {'none' if not stride else stride}")
        shape = (math.ceil(w / stride) if stride else w, EX.shape[1])
        k = 0
        for fold_name in ([None] if fold2 is None else [None, fold2, None]):
          with warnings.catch_warnings():
            warnings.simplefilter("ignore")
            obs = env.reset() if fold_name is None else env.reset(fold_name)
            done = False
            rate_c = env._broker_fees.interest_rate
            if fold_name is not None:
                t0 = pd.Timestamp(env.now())
                if t0 != pd.Timestamp(folds[fold_name][0]):
                    r.fail("fold-start", fold=fold_name, now=str(t0), expected=str(folds[fold_name][0]),
                           clause="steps occur only on dates present in the price table ... and folds")
            while True:
                t = pd.Timestamp(env.now())
                rows = EX.loc[:t].iloc[-w:]
                want = rows.values
                if stride:
                    want = want[::-stride][::-1]
                if obs.shape != shape:
                    r.fail("observation-shape", shape=obs.shape, declared=shape, theorem="obs_shape")
                elif len(rows) == w and not np.array_equal(obs, want):
                    r.fail("observation-not-table-rows", date=str(t.date()), theorem="queue_window / thin",
                           clause="the observation is the last `window` rows (thinned by the stride from the most recent backwards) of the published table dated at or before the step")
                if np.abs(obs).max() > 5:
                    r.fail("observation-out-of-declared-bounds", theorem="prepare_bounds")
                if t not in EY.index or t in hol:
                    r.fail("step-on-invalid-date", date=str(t.date()), theorem="timesteps_spec")
                for c in EY.columns:
                    p = float(EY.loc[t, c])
                    book = env.exchange[c]
                    hs = p * case["spread"] / 2
                    if p == p and (book.bid_price != p - hs or book.ask_price != p + hs):
                        r.fail("quote-not-widened-price", date=str(t.date()), bid=book.bid_price, ask=book.ask_price, price=p,
                               theorem="quotes_widened")
                rr = rate.loc[:t]
                if len(rr) and env.exchange[rate_c].mid_price != float(rr.iloc[-1]) and t in rate.index:
                    r.fail("rate-not-given-rate", date=str(t.date()), theorem="rate passthrough")
                if k < 3:
                    # the model's queue is fed the table rows delivered so far (history within the warm-up horizon)
                    pass
                if done:
                    break
                act = rng.uniform(-0.3, 0.3, size=len(EY.columns))
                try:
                    obs, rew, done, info = env.step(act)
                except Exception as e:  # noqa
                    r.trace.append(f"step raised {type(e).__name__}")
                    break
                k += 1
        # ---- the model's queue / thinning on the rows of the published table (what the State is fed)
        starts = [(pd.Timestamp(steps[0]), None)] if steps else []
        if fold2 is not None:
            starts.append((pd.Timestamp(folds[fold2][0]), fold2))
        for first_t, fold_name in starts:
            if fold_name is not None:
                r.op(f"window {w} {'none' if not stride else stride}")   # a fresh queue for the second feed
            fed = EX.loc[:first_t]
            horizon = None if w == 1 else first_t - pd.Timedelta(days=3 + 2 * w)
            rows_fed = fed if w == 1 else fed.loc[fed.index[fed.index >= horizon][0]:] if len(fed.index[fed.index >= horizon]) else fed
            if w == 1:
                rows_fed = fed.iloc[-1:]
            qrows = [[F(float(v)) for v in row] for row in rows_fed.values.tolist()]
            for row in qrows:
                r.op("obs " + " ".join(fr(v) for v in row), None)
            # expected final observation = what reset returned
            with warnings.catch_warnings():
                warnings.simplefilter("ignore")
                o0 = env.reset() if fold_name is None else env.reset(fold_name)
            if r.lines and r.lines[-1][0].startswith("obs "):
                l, _, _ = r.lines[-1]
                r.lines[-1] = (l, ";".join(",".join(fr(F(float(v))) for v in row) for row in o0.tolist()), 0)
        r.trace.append(f"n={n} window={w} stride={stride} transformer={case['transformer']} steps={len(steps)} episode_steps={k}")
        return r

    def post_model(self, case, run, outs):
        # the `prep` lines: the model's prepared column must equal the published column from the trimming offset on
        for (i, off, pub) in getattr(run, "prep_checks", []):
            got = outs[i].split(",")
            vals = [Fraction(x) for x in got][off:off + len(pub)]
            if len(vals) != len(pub) or any(abs(a - b) > Fraction(1, 10**12) for a, b in zip(vals, pub)):
                run.fail("published-table-not-prepared-transform", theorem="prepare_causal / ffillFrom_spec",
                         clause="the published table is the transformed table forward-filled, zero-filled and clipped")
        return None


PROP = C18()
