"""C14 - order book semantics: last quote wins, per-contract isolation, dead stays dead."""
from __future__ import annotations

import math
from fractions import Fraction

from ..core import F, fr, from_us, us
from ..runner import ImplRun, Prop

DAY = 86_400_000_000
T0 = 1546300800 * 1_000_000  # 2019-01-01


def _contracts(ctor=None):
    from tradingenv.contracts import ES, ETF, FutureChain, Index, Rate, Stock, ZN

    chain = FutureChain(ES, "2019-03", "2019-12")
    zchain = FutureChain(ZN, "2019-03", "2020-03", month=1)
    if ctor:
        # the alternative constructor: the same contracts handed over as a list, in the given (not chronological) order
        import random

        rnd = random.Random(ctor)
        ec, zc = list(chain.contracts), list(zchain.contracts)
        rnd.shuffle(ec)
        zc.reverse()
        chain = FutureChain(contracts=ec)
        zchain = FutureChain(contracts=zc, month=1)
    pool = {
        "AAA": ETF("AAA"), "BBB": Index("BBB"), "CCC": Stock("CCC"), "RATE": Rate("RATE"),
        "ESH19": ES(2019, 3), "ESM19": ES(2019, 6), "ESU19": ES(2019, 9),
        "@es": chain, "@zn": zchain,
    }
    return pool


def _num(rng):
    k = rng.random()
    if k < 0.06:
        return None
    if k < 0.5:
        return Fraction(rng.randint(1, 4000), 4)
    return F(round(rng.uniform(0.01, 3000.0), rng.choice([0, 2, 6])) or 1.0)


def _same(a, b):
    a, b = float(a), float(b)
    return (math.isnan(a) and math.isnan(b)) or a == b


class C14(Prop):
    id = "C14"
    driver = "Exchange"
    quick_n = 400
    thorough_n = 80000
    rule = ("random interleavings of quote / discontinuation events over ETF, Index, Stock, Rate, ES futures, "
            "two futures chains (ES month 0, ZN month 1) and string keys, with queries (book, mid, acq, liq) after "
            "every few events; non-trivial = the sequence contains a discontinuation followed by a later quote for the "
            "same key, or >= 2 keys interleaved with a query on a key other than the last quoted, or a chain access "
            "across a roll; distinct = distinct canonical op lists")
    nontrivial_tags = {"quote-after-disc", "interleaved-query", "chain-roll", "nan-side"}
    assumptions = [
        "events are delivered through Exchange.process_EventNBBO / process_EventContractDiscontinued (public API)",
        "sizes (bid_size/ask_size) are not modelled; no anchored code reads them",
        "chain keys resolve through the process-wide contract clock, which the harness sets explicitly",
    ]

    def gen(self, rng, tier):
        keys = ["AAA", "BBB", "CCC", "RATE", "ESH19", "ESM19", "ESU19", "@es", "@zn"]
        if rng.random() < 0.15:
            return self.gen_chain_first(rng)
        nk = rng.randint(1, 5)
        use = rng.sample(keys, nk)
        n = rng.randint(3, 40 if tier == "quick" else 90)
        t = T0 + rng.randint(0, 300) * DAY
        ops = [["now", t]]
        for _ in range(n):
            k = rng.choice(use)
            r = rng.random()
            if rng.random() < 0.7:
                t += rng.choice([0, 1, 1_000_000, 3600_000_000, DAY, 7 * DAY, 40 * DAY])
            if r < 0.12 and any(u.startswith("@") for u in use):
                # move the contract clock (within the chains' spans; sometimes exactly on a last-trading instant)
                ops.append(["now", t])
            elif r < 0.55:
                b, a = _num(rng), _num(rng)
                if b is not None and a is not None and a < b:
                    a, b = b, a
                if k == "RATE":
                    b = None if b is None else b / 100000
                    a = None if a is None else a / 100000
                ops.append(["q", k, t, fr(b), fr(a)])
            elif r < 0.65:
                ops.append(["d", k, t])
            else:
                what = rng.choice(["book", "book", "mid", "acq", "liq"])
                qk = k
                if rng.random() < 0.15 and not k.startswith("@"):
                    qk = "str:" + k  # same book addressed by a plain string equal to the symbol
                if what in ("acq", "liq"):
                    ops.append([what, qk, rng.choice([-1, 0, 1])])
                else:
                    ops.append([what, qk])
        return dict(ops=ops, chain_ctor=rng.randint(1, 10**6) if rng.random() < 0.3 else None)

    def gen_chain_first(self, rng):
        """The book of a lead contract is first touched through the *chain* key; the chain then rolls; the old
        contract is then addressed by its own key, by a plain string and through the chain again."""
        leads = ["ESH19", "ESM19", "ESU19"]
        start = rng.choice([0, 0, 80, 170])          # days after 2019-01-01: before the H / M / U roll
        t = T0 + start * DAY + rng.randint(0, 20) * DAY
        ops = [["now", t]]

        def quote(k):
            b = Fraction(rng.randint(8000, 12000), 4)
            return ["q", k, t, fr(b), fr(b + Fraction(rng.randint(0, 8), 4))]

        first = rng.choice(["q", "book", "mid"])
        ops.append(quote("@es") if first == "q" else [first, "@es"])
        for _ in range(rng.randint(0, 4)):
            t += rng.choice([1, 3600_000_000, DAY])
            k = rng.choice(["@es"] + leads)
            ops.append(quote(k) if rng.random() < 0.6 else [rng.choice(["book", "mid"]), k])
        # roll: move the clock past one (sometimes two) last-trading dates
        t += rng.choice([75, 95, 120, 190]) * DAY
        ops.append(["now", t])
        for _ in range(rng.randint(3, 10)):
            t += rng.choice([0, 1, 3600_000_000, DAY])
            k = rng.choice(["@es"] + leads + ["str:" + x for x in leads])
            r = rng.random()
            if r < 0.45 and not k.startswith("str:"):
                ops.append(quote(k))
            elif r < 0.5 and not k.startswith("str:"):
                ops.append(["d", k, t])
            else:
                what = rng.choice(["book", "book", "mid", "acq", "liq"])
                ops.append([what, k, rng.choice([-1, 1])] if what in ("acq", "liq") else [what, k])
        return dict(ops=ops, chain_ctor=rng.randint(1, 10**6) if rng.random() < 0.3 else None)

    def mutate(self, case, rng):
        ops = list(case["ops"])
        if ops and rng.random() < 0.7:
            i = rng.randrange(len(ops))
            extra = self.gen(rng, "quick")["ops"]
            ops[i:i] = extra[: rng.randint(1, 6)]
        else:
            return self.gen(rng, "quick")
        return dict(ops=ops)

    def run_impl(self, case):
        import numpy as np
        from tradingenv.contracts import AbstractContract
        from tradingenv.events import EventContractDiscontinued, EventNBBO
        from tradingenv.exchange import Exchange

        r = ImplRun()
        pool = _contracts(case.get("chain_ctor"))
        if case.get("chain_ctor"):
            r.tags.add("chain-from-list")
        saved_now = AbstractContract.now
        ex = Exchange()
        # chains declared to the model with their listing
        for name in ("@es", "@zn"):
            ch = pool[name]
            r.op("chain {} {} {}".format(name[1:], ch._month, " ".join(
                f"{us(c.last_trading_date)}:{c.symbol}" for c in ch.contracts)))
        # independent oracle state (from the property text)
        ora = {}
        last_key = None
        seen_disc = set()

        def o(sym):
            return ora.setdefault(sym, dict(bid=None, ask=None, dead=False, hist=[]))

        def lead_sym(name, now):
            ch = pool[name]
            later = [c for c in ch.contracts if us(c.last_trading_date) > now]
            idx = len(ch.contracts) - len(later) + ch._month
            return ch.contracts[idx].symbol if idx < len(ch.contracts) else None

        now = None
        prev_lead = {}
        try:
            for op in case["ops"]:
                kind = op[0]
                if kind == "now":
                    now = op[1]
                    AbstractContract.now = from_us(now)
                    r.op(f"now {now}")
                    continue
                name = op[1]
                as_str = name.startswith("str:")
                base = name[4:] if as_str else name
                obj = pool[base].symbol if as_str else pool[base]
                mname = base  # protocol key
                if base.startswith("@"):
                    sym = lead_sym(base, now)
                    if prev_lead.get(base) not in (None, sym):
                        r.tags.add("chain-roll")
                    prev_lead[base] = sym
                else:
                    sym = base
                if kind == "q":
                    t, b, a = op[2], F(Fraction(op[3])) if op[3] != "nan" else None, F(Fraction(op[4])) if op[4] != "nan" else None
                    fb = float("nan") if b is None else float(b)
                    fa = float("nan") if a is None else float(a)
                    if b is None or a is None:
                        r.tags.add("nan-side")
                    try:
                        ev = EventNBBO(from_us(t), obj, fb, fa)
                        ex.process_EventNBBO(ev)
                        exp = "ok"
                    except IndexError:
                        exp = "err index"
                    except Exception as e:  # noqa
                        exp = f"err {type(e).__name__}"
                    # the implementation stores the float it was given
                    r.op(f"q {mname} {t} {fr(fb)} {fr(fa)}", exp)
                    if sym is not None:
                        s = o(sym)
                        if s["dead"]:
                            r.tags.add("quote-after-disc")
                        else:
                            s["bid"], s["ask"] = F(fb), F(fa)
                            s["hist"].append((t, F(fb), F(fa)))
                    if last_key is not None and last_key != sym:
                        r.tags.add("multi-key")
                    last_key = sym
                elif kind == "d":
                    t = op[2]
                    try:
                        ex.process_EventContractDiscontinued(EventContractDiscontinued(from_us(t), obj))
                        exp = "ok"
                    except IndexError:
                        exp = "err index"
                    r.op(f"d {mname} {t}", exp)
                    if sym is not None:
                        s = o(sym)
                        s["dead"], s["bid"], s["ask"] = True, None, None
                else:
                    try:
                        book = ex[obj]
                    except IndexError:
                        r.op(f"{kind} {mname}" + (f" {op[2]}" if len(op) > 2 else ""), "err index")
                        continue
                    s = o(sym)
                    if sym != last_key and last_key is not None:
                        r.tags.add("interleaved-query")
                    if kind == "book":
                        h = book.history
                        hist = ";".join(f"{us(t)},{fr(b)},{fr(a)}" for t, b, a in zip(h["time"], h["bid_price"], h["ask_price"]))
                        tm = "none" if book.time is None else str(us(book.time))
                        lu = "none" if ex.last_update is None else str(us(ex.last_update))
                        alive = "true" if book.is_alive else "false"
                        r.op(f"book {mname}", f"{fr(book.bid_price)} {fr(book.ask_price)} {alive} {tm} {lu} {len(h['time'])} {hist}".rstrip())
                        if (not _same(ex.bid_prices([obj])[0], book.bid_price) or not _same(ex.ask_prices([obj])[0], book.ask_price)
                                or not _same(ex.spreads([obj])[0], book.ask_price - book.bid_price)):
                            r.fail("acq-side", key=sym, op="aggregate bid/ask/spread accessors disagree with the book",
                                   theorem="book_projection")
                        # oracle: last accepted quote, history, dead stays dead
                        if (F(book.bid_price), F(book.ask_price)) != (s["bid"], s["ask"]):
                            r.fail("last-quote-wins", key=sym, reported=[fr(book.bid_price), fr(book.ask_price)],
                                   expected=[fr(s["bid"]), fr(s["ask"])], theorem="last_quote_wins / dead_stays_dead / book_frame")
                        got_hist = [(us(t), F(b), F(a)) for t, b, a in zip(h["time"], h["bid_price"], h["ask_price"])]
                        if got_hist != s["hist"]:
                            r.fail("history", key=sym, reported=len(got_hist), expected=len(s["hist"]), theorem="last_quote_wins")
                        if s["dead"] and (book.is_alive or not (math.isnan(book.bid_price) and math.isnan(book.ask_price))):
                            r.fail("dead-stays-dead", key=sym, theorem="dead_stays_dead")
                    elif kind == "mid":
                        # alternately through the book and through the exchange's aggregate accessor
                        v = book.mid_price if len(r.lines) % 2 else float(ex.mid_prices([obj])[0])
                        r.op(f"mid {mname}", fr(v), Fraction(1, 10**9) * max(1, abs(F(v) or 0)))
                        exp_mid = None if s["bid"] is None or s["ask"] is None else (s["bid"] + s["ask"]) / 2
                        if (F(v) is None) != (exp_mid is None) or (exp_mid is not None and abs(F(v) - exp_mid) > abs(exp_mid) * Fraction(1, 10**12)):
                            r.fail("mid", key=sym, reported=fr(v), expected=fr(exp_mid), theorem="acq_side")
                    else:
                        sg = op[2]
                        if len(r.lines) % 2:
                            v = book.acq_price(sg) if kind == "acq" else book.liq_price(sg)
                        else:
                            v = float(ex.acq_prices([obj], np.array([sg]))[0] if kind == "acq"
                                      else ex.liq_prices([obj], np.array([sg]))[0])
                            r.tags.add("aggregate-accessors")
                        r.op(f"{kind} {mname} {sg}", fr(v), Fraction(1, 10**9) * max(1, abs(F(v) or 0)))
                        side = sg if kind == "acq" else -sg
                        want = s["ask"] if side > 0 else s["bid"] if side < 0 else (
                            None if s["bid"] is None or s["ask"] is None else (s["bid"] + s["ask"]) / 2)
                        ok = (F(v) is None and want is None) or (F(v) is not None and want is not None and abs(F(v) - want) <= abs(want) * Fraction(1, 10**12))
                        if not ok:
                            r.fail("acq-side", key=sym, op=kind, sign=sg, reported=fr(v), expected=fr(want), theorem="acq_side")
                r.trace.append(op)
        finally:
            AbstractContract.now = saved_now
        if len([k for k in ora]) >= 2 and "interleaved-query" in r.tags:
            pass
        return r


PROP = C14()
