"""C01 - self-financing: NLV moves only by prices, interest, fees and spread."""
from __future__ import annotations

from fractions import Fraction

from .. import brokerstream as bs
from ..runner import Prop


class C01(Prop):
    id = "C01"
    driver = "Broker"
    quick_n = 350
    thorough_n = 40000
    rule = ("broker histories of quote / trade (from current quotes or explicit prices) / mark / valuation / weights / "
            "accrue / rebalance over 1-4 contracts drawn from spot x1, user-defined spot with multiplier != 1, built-in "
            "futures (ES, NK, VX, ZN, ZQ) and user-defined margined specs; exact (dyadic) and real-valued regimes; "
            "non-trivial = history contains an add or flip on a margined contract under a positive spread, a spot "
            "spec with multiplier != 1 that is traded, >= 2 margined contracts traded, fees > 0 with a trade, or an "
            "off-market execution; distinct = distinct canonical histories")
    rule = rule + bs.HISTORY_RULE
    nontrivial_tags = {"add-margined-spread", "flip", "spot-mult", "two-margined", "fees", "off-market"}
    assumptions = [
        "cash book quoted 1.0:1.0 and reference-rate book seeded, as TradingEnv.reset does",
        "real-valued observables compared within 1e-9 x gross scale (implementation rounds, the model is exact)",
        "histories on which the epsilon snap fires (|position| < 1e-7) are outside the theorem (K1) and skipped",
    ]
    COMPARE = {"nlv", "pos", "rebal", "accrue", "tradeq", "trade", "q", "d"}
    KINDS = {"nlv-identity", "position-sum", "unmapped-exception"}

    def exhaustive_cases(self, tier):
        # thorough tier: every history of up to 4 operations over a small two-contract alphabet (11 110 histories)
        return bs.small_scope_histories(4) if tier == "thorough" else []

    def gen(self, rng, tier):
        return bs.gen_history(rng, tier)

    def mutate(self, case, rng):
        c = bs.gen_history(rng, "quick")
        if rng.random() < 0.5:
            c["contracts"], c["fees"] = case["contracts"], case["fees"]
            keys = {k["key"] for k in case["contracts"]}
            if not all((op[1] in keys) for op in c["ops"] if op[0] in ("q", "tradeq", "trade", "mark")):
                return bs.gen_history(rng, "quick")
        return c

    def run_impl(self, case):
        r, s = bs.run_case(case, self.COMPARE)
        judge_c01(r, s)
        return r

    def post_model(self, case, run, outs):
        return None


def tags_for(r, s):
    margined_traded = set()
    for o in s.obs:
        k = o.get("traded")
        if k is None:
            for (kk, q, px) in o.get("trades", []) or []:
                _tag_trade(r, s, o, kk, q, margined_traded)
            continue
        _tag_trade(r, s, o, k, o["qty"], margined_traded)
        if o["op"][0] == "trade":
            r.tags.add("off-market")
    if len(margined_traded) >= 2:
        r.tags.add("two-margined")


def _tag_trade(r, s, o, k, q, margined_traded):
    m, cr, mr = s.specs[k]
    before = o["lpos"].get(k, 0) - q
    if mr != 0:
        margined_traded.add(k)
        b, a = o["quotes"].get(k, (None, None))
        if before != 0 and (before > 0) == (q > 0) and b is not None and a is not None and a > b:
            r.tags.add("add-margined-spread")
    elif m != 1:
        r.tags.add("spot-mult")
    if before != 0 and (before + q) != 0 and ((before > 0) != (before + q > 0)):
        r.tags.add("flip")
    if s.fixed or s.prop:
        r.tags.add("fees")


def snap_fired(s) -> bool:
    """did the broker's epsilon snap fire (a position of less than 1e-7 contracts left by a trade is set to 0)?"""
    for o in s.obs:
        for k, q in o["lpos"].items():
            if Fraction(1, 10**11) < abs(q) < Fraction(1, 10**7) and o["pos"].get(k, Fraction(0)) == 0:  # not mere rounding dust
                return True
    return False


def judge_c01(r, s):
    tags_for(r, s)
    if snap_fired(s):
        # outside the theorems' hypothesis (`snapped = false`): K1, the documented trade-off of Broker.transact
        r.skipped = "epsilon snap fired (K1)"
        return
    for i, o in enumerate(s.obs):
        tol = o["tol"] * 10
        # positions are the sum of executed quantities (unless the epsilon snap applies)
        for k, q in o["lpos"].items():
            got = o["pos"].get(k, Fraction(0))
            if abs(got - q) > max(tol, Fraction(1, 10**6)):
                if abs(q) < Fraction(1, 10**7) and got == 0:
                    continue
                r.fail("position-sum", op_index=i, op=o["op"], key=k, reported=float(got), expected=float(q))
        checks = []
        if o.get("nlv") is not None:
            checks.append(("nlv", o["nlv"], o["exp_nlv"]))
        if o.get("status") == "ok" and "rebal" in o:
            checks.append(("context_pre.nlv", o["nlv_pre"], o["exp_nlv_pre"]))
            checks.append(("context_post.nlv", o["nlv_post"], o["exp_nlv"]))
        for what, got, exp in checks:
            if exp is None or got is None:
                continue
            if abs(got - exp) > tol:
                r.fail("nlv-identity", op_index=i, op=o["op"], what=what, reported=float(got), expected=float(exp),
                       diff=float(got - exp), theorem="nlv_identity",
                       clause="NLV = deposit + interest - commissions + sum mult x (pos x liq - sum dq x px)")


PROP = C01()
