"""C07 - track record and rewards are a faithful, replayable account of the episode."""
from __future__ import annotations

import math
from fractions import Fraction

from .. import envstream as es
from ..core import F, fr, us
from ..runner import Prop
from .c04 import is_market


class C07(Prop):
    id = "C07"
    driver = "Env"
    quick_n = 200
    thorough_n = 15000
    rule = ("bar-shaped episodes over spot, margined and multiplier contracts with spreads, proportional and fixed "
            "fees, an interest-rate path (reference-rate quotes as events) with markup, latency, delays, all four reward "
            "functions, run to the end of the data. The track record is replayed by an independent Fraction ledger "
            "(recorded trades, commissions recomputed from the fee schedule, recorded interest, exchange quote history). "
            "Non-trivial = >= 2 record entries and (a spread or fees or a non-zero rate or latency > 0 or a margined "
            "contract); distinct = distinct cases")
    rule = (rule + "; a tenth of the cases trade a futures chain across a roll (C11's episodes, any reward); in 30% the "
            "track record's frames (NLV, costs, weights) are read after every step, as a progress log would, and "
            "checked again at the end; in 25% a request stamped like the last recorded one (needing no trade) is sent to "
            "the broker after every step and refused as a duplicate" + es.CONTEXT_RULE)
    nontrivial_tags = {"spread", "fees", "rate", "latency", "margined", "delay", "chain-roll"}
    assumptions = [
        "the quote in force at an execution is the last history row stamped <= the recorded execution time",
        "rewards and NLVs compared at 1e-9 relative; log is a leaf (math.log vs Lean Float.log)",
    ]
    COMPARE = {"ereset", "step", "stepi", "nrec", "recn", "state"}

    def gen(self, rng, tier):
        if rng.random() < 0.1:
            # a futures chain traded across a roll (the record's contracts change from one entry to the next)
            from .c11 import roll_episode
            case = roll_episode(rng, rng.choice(["ES", "NK", "VX", "ZN"]))
            case["reward"] = rng.choice(["simple", "pnl", "log"])
            case["_chain"] = True
            return case
        rate_path = rng.random() < 0.5
        read_frames = rng.random() < 0.3
        case, grid, keys = es.gen_episode(rng, tier, markov=False, warmup=None, one_per_bar=False,
                                          fees=rng.choice([["0", "0", "0"], ["0", "1/1000", "1/200"], ["1/4", "1/2000", "1/100"]]))
        if rate_path:
            for t in grid:
                if rng.random() < 0.6:
                    rr = fr(F(round(rng.uniform(-0.01, 0.08), 4)))
                    case["events"].append(["q", "RATE", t, rr, rr])
        n = len(grid) - 1
        case["read_frames"] = read_frames
        case["resend_last"] = rng.random() < 0.25
        case["ops"] = [["reset", None, 0]] + es.gen_actions(rng, case, n)
        if rng.random() < 0.08:
            # a small account fully invested in one very expensive share, with a ticket fee: every step it sells a few
            # hundred-millionths of a share to pay the previous ticket (trades far below one lot, but real money)
            k0 = keys[0]
            gs = sorted(set(case["grid"]))
            px = Fraction(rng.choice([400000, 450000, 800000]))
            evs = []
            for t in gs:
                px = px * Fraction(rng.randint(99, 101), 100)
                evs.append(["q", k0, t, fr(F(float(px))), fr(F(float(px)))])
            case.update(contracts=[dict(key=k0, kind="ETF")], events=evs, grid=gs, deposit="100", fees=["1/100", "0", "0"],
                        latency=0, delay=0, pre_env_latency=None, sibling=False,
                        space=dict(kind="box", low="0", high="1", keys=[k0], asWeights=1, fractional=1, margin="0"))
            case["ops"] = [["reset", None, 0]] + [["step", ["1"]] for _ in range(len(gs) - 1)]
            case["_tiny_trades"] = True
        return case

    def run_impl(self, case):
        r, s = es.run_case(case, self.COMPARE)
        if s.env is None:
            return r
        env = s.env
        tr = env.broker.track_record
        n = len(tr)
        for i in range(n):
            e = tr[i]
            cash_of = lambda ctx: sum(F(v) for c, v in ctx.nr_contracts.items() if type(c).__name__ == "Cash")
            def kv_of(d):
                items = sorted((c.symbol, F(v)) for c, v in d.items() if type(c).__name__ != "Cash" and abs(v) > 1e-9)
                return ",".join(f"{k}:{fr(v)}" for k, v in items) if items else "-"
            r.op(f"recn {i}", f"{us(e.time)} {fr(e.profit_on_idle_cash)} {fr(e.context_pre.nlv)} {fr(e.context_post.nlv)} "
                              f"{fr(cash_of(e.context_pre))} {fr(cash_of(e.context_post))} "
                              f"ppre={kv_of(e.context_pre.nr_contracts)} mpre={kv_of(e.context_pre.margins)} "
                              f"ppost={kv_of(e.context_post.nr_contracts)} mpost={kv_of(e.context_post.margins)}",
                 Fraction(1, 10**9) * s.scale())
        if case.get("latency"):
            r.tags.add("latency")
        if case.get("_chain"):
            r.tags.add("chain-roll")
        if case.get("delay"):
            r.tags.add("delay")
        if s.fixed or s.prop:
            r.tags.add("fees")
        if any(e[0] == "q" and e[1] == "RATE" and Fraction(e[3]) != 0 for e in case["events"]):
            r.tags.add("rate")
        if any(mr != 0 for (_, _, mr) in s.specs.values()):
            r.tags.add("margined")
        if any(e[0] == "q" and e[1] != "RATE" and e[3] != e[4] for e in case["events"]):
            r.tags.add("spread")
        steps = [o for o in s.obs if o["op"][0] != "reset"]
        if any(o["status"] == "err rejected" for o in steps):
            # a refused step may have credited interest without writing an entry (C13 states this); the record
            # of such an episode is outside the property's quantifier (bar-shaped data, in-space actions)
            r.skipped = "a step was refused (not a bar-shaped episode)"
            return r
        ok_traded = [o for o in steps if o["status"].startswith("ok") and o.get("traded")]
        # (1) exactly one entry per executed decision, strictly increasing times, stamped with the latest event
        if n != len(ok_traded):
            r.fail("entry-count", entries=n, executed_decisions=len(ok_traded), theorem="one_entry_per_executed_decision")
        times = [us(tr[i].time) for i in range(n)]
        if any(b <= a for a, b in zip(times, times[1:])):
            r.fail("record-times-not-increasing", times=times, theorem="record_times_nodup")
        last_stamp = None
        for k, t, c in s.obs[0]["log"]:
            if is_market(k):
                last_stamp = us(t)
        j = 0
        for o in steps:
            if not o["status"].startswith("ok"):
                break
            pre = last_stamp
            # events of this step delivered before the execution are those stamped <= the record's own time
            if o.get("traded") and j < n:
                lat_stamps = [us(t) for k, t, c in o["log"] if is_market(k) and us(t) <= times[j]]
                want = lat_stamps[-1] if lat_stamps else pre
                if want is not None and times[j] != want:
                    r.fail("entry-stamp", entry=j, stamp=times[j], expected=want, theorem="request_time_is_clock")
                j += 1
            for k, t, c in o["log"]:
                if is_market(k):
                    last_stamp = us(t)
        # (2) independent ledger replay
        hist = {}
        for k, obj in s.objs.items():
            h = env.exchange[obj].history
            hist[k] = list(zip([us(t) for t in h["time"]], [F(b) for b in h["bid_price"]], [F(a) for a in h["ask_price"]]))

        def quote_at(k, t):
            rows = [x for x in hist[k] if x[0] <= t]
            return (rows[-1][1], rows[-1][2]) if rows else (None, None)

        pos = {k: Fraction(0) for k in s.specs}
        basis = {k: Fraction(0) for k in s.specs}
        comm, interest = Fraction(0), Fraction(0)

        def value(t):
            v = s.deposit + interest - comm
            for k, q in pos.items():
                m = s.specs[k][0]
                if q != 0:
                    b, a = quote_at(k, t)
                    p = b if q > 0 else a
                    if p is None:
                        return None
                    v += m * (q * p - basis[k])
                else:
                    v -= m * basis[k]
            return v

        tol = Fraction(1, 10**8) * s.scale() / 100
        for i in range(n):
            e = tr[i]
            t = times[i]
            interest += F(e.profit_on_idle_cash)
            pre = value(t)
            if pre is not None and abs(pre - F(e.context_pre.nlv)) > tol:
                r.fail("pre-nlv-not-replayable", entry=i, reported=float(e.context_pre.nlv), replayed=float(pre),
                       theorem="checkpoint_nlv_eq_ledger / entry_is_actual")
            for trd in e.trades:
                k = trd.contract.symbol
                q = F(trd.quantity)
                b, a = quote_at(k, t)
                px = a if q > 0 else b
                if px is not None and F(trd.acq_price) != px:
                    r.fail("trade-price-not-quote", entry=i, key=k, price=float(trd.acq_price), quote=float(px),
                           theorem="rebalance_trades_use_current_quotes (C08)")
                px = F(trd.acq_price)
                pos[k] += q
                basis[k] += q * px
                fee = s.fixed + abs(px * q * s.specs[k][0]) * s.prop
                comm += fee
                if abs(F(trd.cost_of_commissions) - fee) > tol:
                    r.fail("commission", entry=i, key=k, reported=float(trd.cost_of_commissions), expected=float(fee))
            post = value(t)
            if post is not None and abs(post - F(e.context_post.nlv)) > tol:
                r.fail("post-nlv-not-replayable", entry=i, reported=float(e.context_post.nlv), replayed=float(post),
                       theorem="checkpoint_nlv_eq_ledger / entry_is_actual")
            # each snapshot is consistent in itself: recorded cash + recorded margins + liquidation value of the
            # recorded fully-paid positions = the NLV recorded in the same snapshot (all taken at one moment)
            for which, ctx in (("pre", e.context_pre), ("post", e.context_post)):
                try:
                    cash_rec = sum(F(v) for c, v in ctx.nr_contracts.items() if type(c).__name__ == "Cash")
                    marg_rec = sum(F(v) for c, v in ctx.margins.items())
                    spot = Fraction(0)
                    okq = True
                    for c, v in ctx.nr_contracts.items():
                        if type(c).__name__ == "Cash" or v == 0 or c.symbol not in s.specs:
                            continue
                        mlt, creq, mr = s.specs[c.symbol]
                        if creq == 0:
                            continue
                        b, a = quote_at(c.symbol, t)
                        px = b if v > 0 else a
                        if px is None:
                            okq = False
                            break
                        spot += F(v) * mlt * px
                    if okq and abs(cash_rec + marg_rec + spot - F(ctx.nlv)) > tol:
                        r.fail("snapshot-inconsistent", entry=i, which=which, cash=float(cash_rec), margins=float(marg_rec),
                               fully_paid=float(spot), nlv=float(ctx.nlv),
                               clause="the NLV, holdings ... it reports are the values the account actually had (one moment)",
                               theorem="nlv_decomposition (C05) / entry_is_actual")
                except (AttributeError, TypeError):
                    pass
            held = {c.symbol: F(v) for c, v in e.context_post.nr_contracts.items() if c.symbol != "USD" and v != 0}
            mine = {k: v for k, v in pos.items() if v != 0}
            if any(abs(held.get(k, 0) - mine.get(k, 0)) > Fraction(1, 10**6) for k in set(held) | set(mine)):
                r.fail("recorded-holdings", entry=i, recorded={k: float(v) for k, v in held.items()},
                       replayed={k: float(v) for k, v in mine.items()}, theorem="entry_is_actual")
        # (3) rewards
        rk = case.get("reward", "simple")
        j = 0
        rets = []
        for o in steps:
            if not o["status"].startswith("ok"):
                break
            if o.get("traded"):
                j += 1
            if j == 0 or o.get("nlv") is None:
                continue
            pre = F(tr[j - 1].context_pre.nlv)
            now = o["nlv"]
            ratio = float(now / pre)
            if rk == "simple":
                want = ratio - 1
                rets.append(o["reward"])
            elif rk == "pnl":
                want = float(now - pre)
            elif rk == "log":
                want = math.log(ratio)
            else:
                sc, cl, ra = (float(Fraction(x)) for x in rk[1:])
                want = max(-cl, min(cl, math.log(ratio) / sc))
                if want < 0:
                    want *= 1 + ra
            if abs(float(o["reward"]) - want) > 1e-9 * max(1.0, abs(want), float(abs(now - pre)) if rk == "pnl" else 1.0):
                r.fail("reward", reward=float(o["reward"]), expected=want, kind=str(rk), theorem="reward_def")
        # (4) simple returns compound when nothing happens between a step's end and the next snapshot
        if rk == "simple" and rets and not case.get("latency") and "rate" not in r.tags and s.markup == 0 and n >= 1:
            prod = 1.0
            for x in rets:
                prod *= 1 + float(x)
            first = float(tr[0].context_pre.nlv)
            last = [o for o in steps if o["status"].startswith("ok")][-1]["nlv"]
            if last is not None and abs(prod - float(last) / first) > 1e-9:
                r.fail("returns-do-not-compound", product=prod, final_over_initial=float(last) / first,
                       theorem="simple_returns_compound")
        # (5) the summary frames agree with the entries
        if n:
            df = tr.net_liquidation_value()
            col = [F(x) for x in df.iloc[:, 0].tolist()]
            if col != [F(tr[i].context_pre.nlv) for i in range(n)]:
                r.fail("nlv-frame", theorem="entry_is_actual")
            tc = tr.transaction_costs(cumulative=False)
            fees = [F(x) for x in tc["Broker fees"].tolist()]
            mine = [sum((F(t_.cost_of_commissions) for t_ in tr[i].trades), Fraction(0)) for i in range(n)]
            if any(abs(a - b) > tol for a, b in zip(fees, mine)):
                r.fail("transaction-costs-frame")
            # spread column: |quantity| x multiplier x (ask - bid) of each recorded trade, at the recorded quotes
            spr = [F(x) for x in tc["Spread"].tolist()]
            mine_s = [sum((abs(F(t_.quantity)) * F(t_.contract.multiplier) * (F(t_.ask_price) - F(t_.bid_price))
                           for t_ in tr[i].trades), Fraction(0)) for i in range(n)]
            if any(abs(a - b) > tol for a, b in zip(spr, mine_s)):
                r.fail("transaction-costs-frame", column="Spread", reported=[float(x) for x in spr][:6],
                       expected=[float(x) for x in mine_s][:6])
            intr = [F(x) for x in tc["Profit on idle Cash"].tolist()]
            if any(abs(a - F(tr[i].profit_on_idle_cash)) > tol for i, a in enumerate(intr)):
                r.fail("transaction-costs-frame", column="Profit on idle Cash")
            # the weights frames report the snapshots' weights (float32 frames: 1e-5 relative)
            import warnings
            with warnings.catch_warnings():
                warnings.simplefilter("ignore")
                for before, pick in ((True, lambda e_: e_.context_pre), (False, lambda e_: e_.context_post)):
                    try:
                        wa = tr.weights_actual(before_rebalancing=before)
                    except Exception as ex_:  # noqa
                        r.trace.append(f"weights_actual raised {type(ex_).__name__}")
                        continue
                    for i in range(n):
                        ctxw = pick(tr[i]).weights
                        for c_, w_ in ctxw.items():
                            if c_ in wa.columns:
                                got_w = float(wa.iloc[i][c_])
                                if got_w == got_w and abs(got_w - float(w_)) > 1e-5 * max(1.0, abs(float(w_))):
                                    r.fail("weights-frame", entry=i, before=before, key=str(c_), reported=got_w, expected=float(w_))
            # each snapshot's weights are position x liquidation price x multiplier / NLV of the same snapshot
            for i in range(n):
                for which, ctx in (("pre", tr[i].context_pre), ("post", tr[i].context_post)):
                    nlv_ = F(ctx.nlv)
                    if nlv_ == 0:
                        continue
                    for c_, w_ in ctx.weights.items():
                        if type(c_).__name__ == "Cash" or c_.symbol not in s.specs:
                            continue
                        q_ = F(ctx.nr_contracts.get(c_, 0.0))
                        if q_ == 0:
                            continue
                        b_, a_ = quote_at(c_.symbol, times[i])
                        px_ = b_ if q_ > 0 else a_
                        if px_ is None:
                            continue
                        want_w = q_ * px_ * s.specs[c_.symbol][0] / nlv_
                        if abs(F(w_) - want_w) > Fraction(1, 10**8) * max(1, abs(want_w)):
                            r.fail("snapshot-inconsistent", entry=i, which=which, key=c_.symbol, weight=float(w_),
                                   expected=float(want_w), clause="each reported weight equals position x liquidation "
                                   "price x multiplier / NLV", theorem="weight_def (C05)")
        return r


PROP = C07()
