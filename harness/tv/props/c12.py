"""C12 - trade filtering: threshold, liquidations and whole lots."""
from __future__ import annotations

import math
from fractions import Fraction

from .. import brokerstream as bs
from ..core import F, fr
from ..runner import Prop


def trunc(x: Fraction) -> Fraction:
    return Fraction(math.trunc(x))


class C12(Prop):
    id = "C12"
    driver = "Broker"
    quick_n = 600
    thorough_n = 100000
    rule = ("exact (dyadic) regime so that doubles and rationals decide every comparison identically: deposit 65536, "
            "prices powers of two, zero spread and fees (NLV stays dyadic), integer / quarter holdings reached by "
            "trades, targets k/8 (weights) or k/4 contracts, thresholds k/8 or 0, fractional and whole-lot modes; "
            "imbalance weights land exactly at, just below and just above the threshold; lot imbalances in (-1, 1) are "
            "forced; imbalances of less than 1e-7 contracts that are a large share of the account (units worth 2^24+ "
            "accounts) or tiny targets in numbers of contracts, opening a position and topping one up; targets in contracts a hair (2^-36 .. 2^-45) inside a whole number of lots; in 5/8 of the main family the allocation is handed over as numpy float32 "
            "/ float64 scalars or arrays or a tuple (all values exactly representable). Non-trivial = some imbalance weight equals the threshold exactly, or a held contract is absent "
            "from the target with a positive threshold, or a sub-lot imbalance occurs in whole-lot mode; distinct = "
            "distinct cases")
    nontrivial_tags = {"at-threshold", "liquidation-under-threshold", "sub-lot", "whole-lot", "tiny-quantity"}
    assumptions = [
        "exact regime: every double operation of the implementation on these inputs is exact, so the emitted trade "
        "set is compared with zero tolerance",
        "cash book quoted 1.0:1.0, reference-rate book seeded",
    ]
    COMPARE = {"rebal", "lasttrades", "pos", "nrec"}

    def gen_trunc_vs_threshold(self, rng):
        """whole lots whose truncation moves the imbalance weight across the threshold (both directions)"""
        price = Fraction(rng.choice([2048, 4096, 8192]))
        mult = Fraction(rng.choice([1, 2]))
        lotw = price * mult / 65536
        key = "S0" if mult == 1 else "U0"
        contracts = [dict(key=key, kind="ETF")] if mult == 1 else [dict(key=key, kind="user", mult=str(mult), cashReq="1", mr="0")]
        t = bs.T0
        ops = [["q", key, t, fr(price), fr(price)]]
        held = rng.randint(-3, 3)
        if held:
            ops.append(["tradeq", key, fr(Fraction(held)), t + 1])
        m = rng.randint(1, 3)
        margin = (m + Fraction(rng.choice([1, 2, 3]), 4)) * lotw       # strictly between m and m+1 lots
        frac = Fraction(rng.choice([1, 2, 3, 5, 7]), 8)                 # imbalance = m + frac lots, or m+1 lots exactly
        lots = m + frac if rng.random() < 0.8 else Fraction(m + 1)
        sign = rng.choice([1, -1])
        target = held * lotw + sign * lots * lotw
        ops.append(["rebal", t + 10, 1, 1, 0, fr(margin), {key: fr(target)}])
        return dict(contracts=contracts, fees=["0", "0", "0"], deposit="65536", exact=True, ops=ops)

    def gen_tiny_open(self, rng):
        """an imbalance of a tiny fraction of a contract (below the broker's flush-to-zero epsilon, 1e-7) that is
        nevertheless a large share of the account - one unit is worth 2^24 .. 2^28 accounts - or a tiny target in
        numbers of contracts; in a contract that is not held yet, and as a top-up of one that is. The rule does not
        look at the size in contracts: non-zero imbalance, weight at least the threshold -> a trade."""
        t = bs.T0
        contracts = [dict(key="S0", kind="ETF"), dict(key="S1", kind="ETF")]
        by_weight = rng.random() < 0.6
        big = Fraction(2 ** rng.randint(40, 44))
        ops = [["q", "S0", t, fr(big), fr(big)] if by_weight else ["q", "S0", t, "16", "16"], ["q", "S1", t, "8", "8"]]
        if rng.random() < 0.5:
            ops.append(["tradeq", "S1", fr(Fraction(rng.choice([-64, 32, 256]))), t + 1])
        if rng.random() < 0.3:
            ops.append(["tradeq", "S0", "1", t + 2] if not by_weight else ["tradeq", "S1", "1", t + 2])
        if by_weight:
            margin = Fraction(rng.choice([0, 1, 2]), 8)
            tgt = {"S0": fr(Fraction(rng.choice([-6, -4, 3, 4, 5]), 8))}
        else:
            margin = Fraction(0)
            held0 = any(op[0] == "tradeq" and op[1] == "S0" for op in ops)
            tgt = {"S0": fr((1 if held0 else 0) + Fraction(rng.choice([-1, 1]), 2 ** rng.randint(24, 30)))}
        if rng.random() < 0.5:
            tgt["S1"] = fr(Fraction(rng.randint(-2, 2), 8) if by_weight else Fraction(rng.randint(-8, 8)))
        ops.append(["rebal", t + 10, int(by_weight), 1, 1, fr(margin), tgt])
        return dict(contracts=contracts, fees=["0", "0", "0"], deposit="65536", exact=True, ops=ops,
                    probe_make_trades=rng.random() < 0.5, tiny_open=True)

    def gen(self, rng, tier):
        if rng.random() < 0.15:
            return self.gen_trunc_vs_threshold(rng)
        if rng.random() < 0.08:
            return self.gen_tiny_open(rng)
        n = rng.randint(1, 3)
        contracts, ops, t = [], [], bs.T0
        price, mult = {}, {}
        for i in range(n):
            if rng.random() < 0.5:
                contracts.append(dict(key=f"S{i}", kind="ETF"))
                mult[f"S{i}"] = Fraction(1)
            else:
                m = rng.choice([1, 2, 4])
                fut = rng.random() < 0.5
                contracts.append(dict(key=f"U{i}", kind="user", mult=str(m), cashReq="0" if fut else "1",
                                      mr=rng.choice(["1/2", "1/4"]) if fut else "0"))
                mult[f"U{i}"] = Fraction(m)
        keys = [c["key"] for c in contracts]
        for k in keys:
            price[k] = Fraction(rng.choice([1, 2, 4, 8, 16, 32, 64])) if rng.random() < 0.85 else Fraction(1, 2)
            if rng.random() < 0.35:
                # one lot is a sizeable fraction of NLV (1/32 .. 1/4): truncating the imbalance to whole lots moves
                # its weight across the threshold, so "which quantity is the threshold applied to" becomes visible
                price[k] = Fraction(rng.choice([2048, 4096, 8192, 16384]))
            ops.append(["q", k, t, fr(price[k]), fr(price[k])])
        nlv = Fraction(65536)
        whole = rng.random() < 0.5
        by_weight = rng.random() < 0.7
        margin = Fraction(rng.choice([0, 0, 1, 1, 2, 3]), 8) if rng.random() < 0.8 else Fraction(1, 64)
        # prior holdings
        held_keys = set()
        for k in keys:
            if rng.random() < 0.6:
                lots = nlv / price[k] / mult[k]
                q = lots * Fraction(rng.randint(-6, 6), 8)
                if margin and rng.random() < 0.35:
                    # a position worth less than the threshold: closing it must still go through
                    q = lots * margin * Fraction(rng.choice([-3, -2, -1, 1, 2, 3]), 4)
                if whole and rng.random() < 0.5:
                    q += Fraction(rng.choice([-3, -1, 1, 3]), 4)  # leaves a sub-lot imbalance later
                if q != 0:
                    t += 1
                    ops.append(["tradeq", k, fr(q), t])
                    held_keys.add(k)
        tgt = {}
        hair = False
        for k in rng.sample(keys, rng.randint(0, len(keys))):
            if rng.random() < 0.25:
                tgt[k] = "0"      # an explicit zero target: dropped by the allocation, i.e. "absent from the target"
                continue
            if by_weight:
                w = Fraction(rng.randint(-8, 8), 8)
                if margin and rng.random() < 0.5:
                    # land the imbalance weight exactly on / next to the threshold
                    w = margin * rng.choice([1, -1]) + Fraction(rng.choice([0, 0, 1, -1]), 64)
                    w += Fraction(rng.randint(-6, 6), 8) if rng.random() < 0.3 else 0
                tgt[k] = fr(w)
            else:
                tgt[k] = fr(Fraction(rng.randint(-64, 64), 4))
                if rng.random() < 0.2 and k not in held_keys:
                    # (only on a contract that is not held: hair minus a large holding would need more than 53 bits)
                    # a hair (2^-36 .. 2^-45 of a lot) inside a whole number of lots: truncation, not rounding
                    kk = rng.choice([-3, -2, -1, 1, 2, 3])
                    tgt[k] = fr(Fraction(kk) - (1 if kk > 0 else -1) * Fraction(1, 2 ** rng.randint(36, 45)))
                    hair = True
        t += 10
        ops.append(["rebal", t, int(by_weight), 1, int(not whole), fr(margin), tgt])
        if rng.random() < 0.5:
            ops.append(["rebal", t + 1, int(by_weight), 1, int(not whole), fr(margin), tgt])
        # exact regime: every value is a small dyadic, exactly representable in float32 too, so the form in which the
        # allocation is handed over (Python floats, numpy float32 / float64 scalars or arrays, a tuple) changes nothing
        return dict(contracts=contracts, fees=["0", "0", "0"], deposit="65536", exact=True, ops=ops,
                    probe_make_trades=rng.random() < 0.5,
                    # (a hair target needs 40+ bits of mantissa: not handed over as float32)
                    alloc_form=rng.choice([None, None, None, "np64", "arr", "tuple"] + ([] if hair else ["f32", "f32arr"])))

    def run_impl(self, case):
        r, s = bs.run_case(case, self.COMPARE)
        for i, o in enumerate(s.obs):
            if o["op"][0] != "rebal":
                continue
            rb = o["rebal"]
            tgt = {k: v for k, v in rb["target"].items() if k != "USD" and v != 0}
            nlv = o.get("exp_nlv_pre")
            if nlv is None or nlv <= 0:
                continue
            held = {k: q for k, q in o["pos_before"].items() if q != 0}
            # independent computation of the expected trade set, from the property text
            expected = {}
            ok = True
            for k in list(tgt) + [k for k in held if k not in tgt]:
                m = s.specs[k][0]
                b, a = o["quotes"].get(k, (None, None))
                if b is None or a is None:
                    ok = False
                    break
                if k in tgt:
                    v = tgt[k]
                    want = v * nlv / (a if v > 0 else b) / m if rb["byWeight"] else v
                else:
                    want = Fraction(0)
                imb = want - held.get(k, Fraction(0))
                if imb == 0:
                    continue
                px = a if imb > 0 else b
                wt = m * imb * px / nlv
                q = imb if rb["fractional"] else trunc(imb)
                if not rb["fractional"]:
                    r.tags.add("whole-lot")
                    if abs(imb) < 1:
                        r.tags.add("sub-lot")
                if abs(wt) == rb["margin"] and rb["margin"] > 0:
                    r.tags.add("at-threshold")
                if k not in tgt and rb["margin"] > 0 and abs(wt) < rb["margin"]:
                    r.tags.add("liquidation-under-threshold")
                emit = q != 0 and not (abs(wt) < rb["margin"] and k in tgt)
                if emit:
                    expected[k] = q
            if not ok:
                continue
            if case.get("tiny_open") and any(0 < abs(v) < Fraction(1, 10 ** 7) for v in expected.values()):
                r.tags.add("tiny-quantity")
            if o.get("status") != "ok":
                r.fail("rebalance-failed", op_index=i, op=o["op"], expected_trades={k: float(v) for k, v in expected.items()},
                       theorem="sub_lot_skipped / trade_emitted_iff",
                       clause="imbalances smaller than one lot are skipped rather than failing")
                continue
            got = {k: q for (k, q, px) in o.get("trade_list", [])}
            if got != expected:
                r.fail("trade-set", op_index=i, op=o["op"], emitted={k: float(v) for k, v in got.items()},
                       expected={k: float(v) for k, v in expected.items()}, theorem="trade_emitted_iff",
                       clause="trade iff imbalance != 0 and (|imbalance weight| >= threshold or contract absent from target)")
            for k, q in got.items():
                if q == 0 or k == "USD":
                    r.fail("zero-or-cash-trade", key=k, theorem="no_cash_no_zero_trade")
                if not rb["fractional"] and q.denominator != 1:
                    r.fail("fractional-lot", key=k, qty=float(q), theorem="whole_lot_quantity")
        return r


PROP = C12()
