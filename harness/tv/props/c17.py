"""C17 - only in-space actions are executed, as the allocation they denote."""
from __future__ import annotations

import math
from fractions import Fraction

from .. import envstream as es
from ..core import F, fr
from ..runner import Prop


class C17(Prop):
    id = "C17"
    driver = "Env"
    quick_n = 300
    thorough_n = 25000
    rule = ("episodes with box spaces (various bounds, with and without the cash contract in the contract list, weights "
            "or numbers of contracts) and discrete spaces, delays 0..3; at a random step a malformed action is "
            "injected: wrong length, out of bounds by one ulp and by a lot, NaN entry, negative / too large / "
            "non-integer index, a vector for a discrete space, an index for a box space, arbitrary Python objects; "
            "in-space actions exactly on the bounds; box spaces whose contracts have their own bounds (array low / high) with an "
            "entry outside the bounds of its own contract but inside the loosest bounds of the vector; in 30% of the cases an "
            "earlier episode on the same environment is abandoned with decisions still queued; with no delay and no latency "
            "a refused array is handed over again (the same object) and must be refused again. Non-trivial = a malformed action was injected (and became due), "
            "or an in-space action on a bound, or a cash entry in the action; distinct = distinct cases")
    rule = rule + es.CONTEXT_RULE
    nontrivial_tags = {"malformed-due", "on-bound", "cash-entry", "nr-contracts", "second-episode", "per-contract-bounds"}
    assumptions = [
        "arbitrary Python objects as actions are sampled by the harness but are all `junk` to the model's action type",
    ]
    COMPARE = {"ereset", "step", "stepi", "stepj", "state", "nrec", "log"}

    def gen(self, rng, tier):
        case, grid, keys = es.gen_episode(rng, tier, markov=False, warmup=None, extra_events=rng.random() < 0.3,
                                          delay=rng.choice([0, 0, 1, 2, 3]))
        if rng.random() < 0.7:
            lo, hi = rng.choice([("-1", "1"), ("0", "1"), ("-3/2", "2"), ("0", "1/2")])
            skeys = list(keys)
            if rng.random() < 0.4:
                skeys.insert(rng.randint(0, len(skeys)), "USD")
            as_w = rng.random() < 0.8
            if not as_w:
                lo, hi = "-50", "50"
            case["space"] = dict(kind="box", low=lo, high=hi, keys=skeys, asWeights=int(as_w), fractional=1, margin="0")
            if as_w and len(skeys) > 1 and rng.random() < 0.3:
                # every contract has its own bounds (array `low` / `high`): e.g. one long-only leg capped at 30 %
                pool = [("-1", "1"), ("0", "1"), ("0", "3/10"), ("-1/2", "0"), ("-3/2", "2"), ("0", "1/2")]
                bs = [rng.choice(pool) for _ in skeys]
                if len(set(bs)) == 1:
                    bs[0] = ("0", "3/10") if bs[0] != ("0", "3/10") else ("-1", "1")
                case["space"]["lows"] = [b[0] for b in bs]
                case["space"]["highs"] = [b[1] for b in bs]
        else:
            allocs = [[fr(Fraction(rng.randint(-4, 8), 8)) for _ in keys] for _ in range(rng.randint(2, 5))]
            allocs[0] = ["0"] * len(keys)
            case["space"] = dict(kind="disc", keys=keys, allocs=allocs, asWeights=1, fractional=1)
        sp = case["space"]
        n = len(sorted(set(case["grid"]))) - 1
        bad_at = rng.randint(0, max(0, n - 1)) if rng.random() < 0.8 else None
        ops = [["reset", None, 0]]
        for i in range(n):
            if i == bad_at:
                ops.append(self.malformed(rng, sp))
            else:
                ops.append(self.wellformed(rng, sp))
        if rng.random() < 0.3 and n >= 2:
            # an earlier episode on the same environment, abandoned with decisions still waiting in the delay queue:
            # the second episode starts from null decisions again
            k = rng.randint(1, n)
            first = [["reset", None, 0]] + [self.wellformed(rng, sp) for _ in range(k)]
            ops = first + ops
            case["_two_episodes"] = True
        case["ops"] = ops
        case["retry_refused"] = True
        return case

    @staticmethod
    def bounds(sp):
        if sp.get("lows") is not None:
            return [(Fraction(a), Fraction(b)) for a, b in zip(sp["lows"], sp["highs"])]
        return [(Fraction(sp["low"]), Fraction(sp["high"]))] * len(sp["keys"])

    def wellformed(self, rng, sp):
        if sp["kind"] == "box":
            n = len(sp["keys"])
            v = []
            for lo, hi in self.bounds(sp):
                c = rng.random()
                if c < 0.15:
                    x = hi
                elif c < 0.3:
                    x = lo
                else:
                    x = lo + (hi - lo) * Fraction(rng.randint(0, 16), 16)
                if sp["asWeights"]:
                    x = x / n if abs(x) > 0 and c >= 0.3 else x
                v.append(fr(F(float(x))))
            return ["step", v]
        return ["stepi", rng.randrange(len(sp["allocs"]))]

    def malformed(self, rng, sp):
        if sp["kind"] == "box":
            lo, hi = float(Fraction(sp["low"])), float(Fraction(sp["high"]))
            n = len(sp["keys"])
            kind = rng.choice(["short", "long", "above-ulp", "below-ulp", "far", "nan", "nan", "index", "junk"])
            base = [fr(F(lo + (hi - lo) / 2))] * n
            if sp.get("lows") is not None:
                bs = self.bounds(sp)
                base = [fr(F(float(a + (b - a) / 2))) for a, b in bs]
                if kind in ("above-ulp", "below-ulp", "far", "nan") or rng.random() < 0.5:
                    # outside the bounds of its own contract, inside the loosest bounds of the whole vector
                    glo, ghi = min(a for a, _ in bs), max(b for _, b in bs)
                    cands = [(i, x) for i, (a, b) in enumerate(bs)
                             for x in ([ghi] if b < ghi else []) + ([glo] if a > glo else [])
                             + ([float(b) + (float(ghi) - float(b)) / 4] if b < ghi else [])
                             + ([math.nextafter(float(b), math.inf)] if b < ghi else [])
                             + ([math.nextafter(float(a), -math.inf)] if a > glo else [])]
                    if cands:
                        i, x = rng.choice(cands)
                        v = list(base); v[i] = fr(F(float(x))); return ["step", v]
            # a bad entry in the *cash* slot is the sneaky one: the allocation ignores that slot
            pick = (lambda: sp["keys"].index("USD")) if "USD" in sp["keys"] and rng.random() < 0.6 else (lambda: rng.randrange(n))
            if kind == "short":
                return ["step", base[:-1]] if n > 1 else ["stepj", "none"]
            if kind == "long":
                return ["step", base + [base[0]]]
            if kind == "above-ulp":
                v = list(base); v[pick()] = fr(F(math.nextafter(hi, math.inf))); return ["step", v]
            if kind == "below-ulp":
                v = list(base); v[pick()] = fr(F(math.nextafter(lo, -math.inf))); return ["step", v]
            if kind == "far":
                v = list(base); v[pick()] = fr(F(hi + 10)); return ["step", v]
            if kind == "nan":
                v = list(base); v[pick()] = "nan"; return ["step", v]
            if kind == "index":
                return ["stepi", 0]
            return ["stepj", rng.choice(["str", "none", "nested", "2d", "bigarr"])]
        n = len(sp["allocs"])
        kind = rng.choice(["neg", "big", "float", "float", "vec", "junk"])
        if kind == "neg":
            return ["stepi", -1]
        if kind == "big":
            return ["stepi", n + rng.randint(0, 3)]
        if kind == "float":
            return ["stepj", rng.choice(["float", "floatidx", "npfloat", "npneg", "arr1", "arr2d", "arr0f", "f32", "npfloatint"])]
        if kind == "vec":
            return ["step", ["0"] * len(sp["keys"])]
        return ["stepj", rng.choice(["str", "none", "nested"])]

    def in_space(self, sp, op):
        if op is None:
            return True
        if sp["kind"] == "box":
            if op[0] != "step":
                return False
            if len(op[1]) != len(sp["keys"]) or any(v == "nan" for v in op[1]):
                return False
            return all(F(float(lo)) <= F(float(Fraction(v))) <= F(float(hi)) for v, (lo, hi) in zip(op[1], self.bounds(sp)))
        return op[0] == "stepi" and 0 <= op[1] < len(sp["allocs"])

    def run_impl(self, case):
        r, s = es.run_case(case, self.COMPARE)
        if s.env is None:
            return r
        sp, d = case["space"], case.get("delay", 0)
        if "USD" in sp["keys"]:
            r.tags.add("cash-entry")
        if not sp.get("asWeights", 1):
            r.tags.add("nr-contracts")
        episodes, cur = [], None
        for o in s.obs:
            if o["op"][0] == "reset":
                cur = []
                episodes.append(cur)
            elif cur is not None:
                cur.append(o)
        if len(episodes) > 1:
            r.tags.add("second-episode")
        for steps in episodes:
            self.judge_episode(r, sp, d, steps)
        return r

    def judge_episode(self, r, sp, d, steps):
        for i, o in enumerate(steps):
            due = None if i < d else steps[i - d]["op"]
            ok_due = self.in_space(sp, due)
            st = o["status"]
            if not ok_due:
                r.tags.add("malformed-due")
                if st.startswith("ok") or o["pos"] != o["pos_before"] or o["nrec_after"] != o["nrec_before"]:
                    r.fail("out-of-space-action-executed", step=i, action=due, status=st,
                           theorem="invalid_action_rejected",
                           clause="an action outside the space is rejected no later than the step at which it is due: no trade, no record entry")
                break  # the queue has shifted; later behaviour is compared by the correspondence only
            if due is not None and sp["kind"] == "box" and due[0] == "step":
                if any(Fraction(v) in b for v, b in zip(due[1], self.bounds(sp))):
                    r.tags.add("on-bound")
                if sp.get("lows") is not None:
                    r.tags.add("per-contract-bounds")
            if st == "err rejected" and "does not belong" in (o.get("exc") or ""):
                r.fail("in-space-action-rejected", step=i, action=due, theorem="contains_box / contains_discrete")
            if st.startswith("ok") and o.get("traded"):
                reb = o["info"]["_rebalancing"]
                got = {c.symbol: F(v) for c, v in reb.allocation.items()}
                if due is None:
                    vals = [Fraction(0)] * len(sp["keys"]) if sp["kind"] == "box" else [Fraction(x) for x in sp["allocs"][0]]
                elif due[0] == "step":
                    vals = [F(float(Fraction(v))) for v in due[1]]
                else:
                    vals = [F(float(Fraction(x))) for x in sp["allocs"][due[1]]]
                exp = {k: v for k, v in zip(sp["keys"], vals) if k != "USD" and v != 0}
                if got != exp:
                    r.fail("wrong-allocation", step=i, executed={k: float(v) for k, v in got.items()},
                           expected={k: float(v) for k, v in exp.items()}, theorem="valid_action_request / cash_entry_ignored",
                           clause="an in-space action is executed as the allocation it denotes, the cash entry ignored")
        return r


PROP = C17()
