"""C10 - episodes are reproducible and environments are isolated."""
from __future__ import annotations

import copy
import datetime as dt
from fractions import Fraction

from .. import envstream as es
from ..core import F, fr, us
from ..runner import ImplRun, Prop
from .c02 import record_dump, snapshot


def chain_episode(rng, month):
    """A daily episode around the roll of the ES contract of `month` (3, 6 or 9 of 2019) trading the chain."""
    import tradingenv.contracts as tc

    fut = tc.ES(2019, month)
    ltd = fut.last_trading_date
    start = ltd - dt.timedelta(days=rng.randint(3, 6))
    days = [start + dt.timedelta(days=i) for i in range(rng.randint(6, 10))]
    grid = [us(d) for d in days]
    events = []
    syms = ["ESH19", "ESM19", "ESU19", "ESZ19"]
    mids = {s: Fraction(rng.randint(9000, 12000), 4) for s in syms}
    for t in grid:
        for s_ in syms:
            mids[s_] = mids[s_] * Fraction(rng.randint(98, 102), 100)
            half = mids[s_] * Fraction(rng.choice([0, 1]), 4000)
            events.append(["q", s_, t, fr(F(float(mids[s_] - half))), fr(F(float(mids[s_] + half)))])
    case = dict(contracts=[], chains=[dict(name="es", cls="ES", start="2019-03", end="2020-01", month=0)],
                fees=rng.choice([["0", "0", "0"], ["0", "1/2000", "0"]]), deposit="1000000", grid=grid, events=events,
                latency=0, delay=rng.choice([0, 1]), markov=False, warmup=None,
                space=dict(kind="box", low="-1", high="1", keys=["@es"], asWeights=1, fractional=1, margin="0"),
                reward=rng.choice(["simple", "pnl"]))
    n = len(grid) - 1
    case["ops"] = [["reset", None, 0]] + [["step", [fr(Fraction(rng.randint(-8, 8), 16))]] for _ in range(n)]
    return case


class C10(Prop):
    id = "C10"
    driver = "Env"
    quick_n = 90
    thorough_n = 8000
    rule = ("(a) replay: an episode (spot, futures, a futures chain across a roll; fees, latency, delay, folds), then a "
            "second episode on the same environment after the first was completed, abandoned mid-way or ended by an "
            "error (malformed action), and the same episode on a freshly built identical environment: all traces must "
            "be identical. (b) isolation: two environments in one process (two chain environments rolling at different "
            "dates, or a chain environment and a spot one), their reset/step calls interleaved by a random schedule: "
            "each must produce exactly its solo trace. The interleaved schedule is also run through the model (named "
            "environments sharing one contract clock). (c) a fifth of the single-environment cases go through env.backtest(policy) "
            "with a state that records its history: the returned track record (entries and state history) must not change "
            "when a later backtest / abandoned episode runs on the same environment, and must equal a fresh environment's. "
            "Non-trivial = a chain environment interleaved with another "
            "environment, or an episode abandoned / ended by an error before the replay; distinct = distinct cases")
    nontrivial_tags = {"chain-interleaved", "abandoned", "error-then-reset", "pair", "windowed-first", "backtest-entry-point"}
    assumptions = [
        "aliasing through mutable default arguments, module-level state of third-party packages and the global NumPy "
        "RNG are runtime behaviours the model does not exhibit; the episode window (start index) is fixed",
    ]
    shrink_key = None
    COMPARE = {"ereset", "log", "step", "stepi", "stepj", "state", "nrec", "nlv"}

    def gen(self, rng, tier):
        if rng.random() < 0.55:
            a = chain_episode(rng, rng.choice([3, 6]))
            if rng.random() < 0.6:
                b = chain_episode(rng, rng.choice([6, 9]))
            else:
                b, _, _ = es.gen_episode(rng, tier, markov=False, warmup=None)
                b["ops"] = [["reset", None, 0]] + es.gen_actions(rng, b, len(sorted(set(b["grid"]))) - 1)
            # either environment may abandon its episode and start again (a reset landing between two steps of
            # the other environment is the interesting schedule: `reset` moves the shared contract clock too)
            for env_case in (a, b):
                if rng.random() < 0.5 and len(env_case["ops"]) > 3:
                    k = rng.randint(1, len(env_case["ops"]) - 1)   # 1 = reset, reset: abandoned after zero steps
                    env_case["ops"] = env_case["ops"][:k] + env_case["ops"]
            sched = ["A"] * len(a["ops"]) + ["B"] * len(b["ops"])
            # random interleaving that keeps each environment's own order
            rng.shuffle(sched)
            return dict(kind="pair", A=a, B=b, schedule=sched)
        if rng.random() < 0.4:
            case = chain_episode(rng, rng.choice([3, 6, 9]))
        else:
            case, grid, keys = es.gen_episode(rng, tier, markov=rng.random() < 0.2)
            case["ops"] = [["reset", None, 0]] + es.gen_actions(rng, case, len(grid) - 1)
        if rng.random() < 0.2 and case["space"]["kind"] == "box":
            # the alternative entry point: env.backtest(policy=...) returns the episode's track record (with the state
            # history); what it returned must not change when later episodes are run on the same environment
            case["state_save"] = True
            return dict(kind="backtest", base=case, cut=rng.randint(1, max(1, len(case["ops"]) - 1)),
                        then=rng.choice(["backtest-shorter", "abandoned-episode", "backtest-same"]))
        mode = rng.choice(["complete", "abandon", "error", "windowed-first", "windowed-first"])
        # (cut 0 = the earlier episode is abandoned right after its reset, before any step)
        return dict(kind="replay", base=case, mode=mode, cut=rng.randint(0, max(1, len(case["ops"]) - 1)))

    def run_impl(self, case):
        from tradingenv.contracts import AbstractContract

        saved = AbstractContract.now
        try:
            if case["kind"] == "pair":
                return self.run_pair(case)
            if case["kind"] == "backtest":
                return self.run_backtest(case)
            return self.run_replay(case)
        finally:
            AbstractContract.now = saved

    def trace(self, obs):
        return [snapshot(o) for o in obs]

    def run_replay(self, case):
        base = case["base"]
        ops = base["ops"]
        first = list(ops)
        if case["mode"] == "abandon":
            first = ops[:case["cut"] + 1]
        elif case["mode"] == "error":
            first = ops[:case["cut"] + 1] + [["stepj", "str"]]
        elif case["mode"] == "windowed-first":
            # an earlier episode over a sampled window (reset(fold, episode_length=m), start forced), completed or not
            m = max(2, min(4, len(ops) - 2))
            first = [["reset", None, case["cut"] % 3, m]] + ops[1:1 + (m - 1 if case["cut"] % 2 else 1)]
        full = dict(base)
        full["ops"] = first + list(ops)
        r, s = es.run_case(full, self.COMPARE)
        if s.env is None:
            return r
        r.tags.add({"abandon": "abandoned", "error": "error-then-reset", "complete": "completed",
                    "windowed-first": "windowed-first"}[case["mode"]])
        second = self.trace(s.obs[len(first):])
        rec2 = record_dump(s.env, 10**6)
        # a freshly built identical environment
        rf = ImplRun()
        sf = es.EnvSession(base, rf)
        for op in ops:
            sf.do(op)
        fresh = self.trace(sf.obs)
        if second != fresh or rec2 != record_dump(sf.env, 10**6):
            i = next((j for j, (x, y) in enumerate(zip(second, fresh)) if x != y), None)
            r.fail("replay-differs-from-fresh", mode=case["mode"], first_difference=i,
                   differs=None if i is None else {k: (str(second[i][k])[:150], str(fresh[i][k])[:150]) for k in second[i] if second[i][k] != fresh[i][k]},
                   theorem="reset_ignores_clock (reset is a function of configuration, window and start only)")
        if case["mode"] == "complete":
            one = self.trace(s.obs[:len(first)])
            if one != second:
                r.fail("second-episode-differs", theorem="reset_ignores_clock")
        return r

    def run_backtest(self, case):
        import numpy as np
        from tradingenv.policy import AbstractPolicy

        base = case["base"]
        actions = [np.array([float(Fraction(v)) for v in op[1]], dtype=float) for op in base["ops"] if op[0] == "step"]

        class Scripted(AbstractPolicy):
            def __init__(self, acts):
                self.acts, self.i = list(acts), 0

            def act(self, state):
                a = self.acts[self.i] if self.i < len(self.acts) else self.action_space.null_action()
                self.i += 1
                return a

        def dump(tr):
            ents = []
            for i in range(len(tr)):
                e = tr[i]
                ents.append((us(e.time), F(e.profit_on_idle_cash), F(e.context_pre.nlv), F(e.context_post.nlv),
                             sorted((t.contract.symbol, F(t.quantity), F(t.acq_price)) for t in e.trades)))
            hist = getattr(tr, "state_history", None)
            def plain(v):
                # numbers and arrays only (an observation may also carry the feature objects themselves)
                if isinstance(v, dict):
                    return sorted((str(k), plain(x)) for k, x in v.items() if isinstance(x, (np.ndarray, float, int, dict)))
                return np.asarray(v, dtype=float).tolist()
            hs = None if hist is None else sorted((us(k), repr(plain(v))[:300]) for k, v in hist.items())
            return ents, hs

        r = ImplRun()
        r.tags.add("backtest-entry-point")
        s = es.EnvSession(base, r)
        if s.env is None:
            return r
        try:
            tr1 = s.env.backtest(policy=Scripted(actions))
        except Exception as e:  # noqa  (an episode the library ends with an error: the replay family covers those)
            r.skipped = f"backtest raised {type(e).__name__}"
            return r
        d1 = dump(tr1)
        if not d1[1]:
            r.trace.append("empty state history")
        # later activity on the same environment
        try:
            if case["then"] == "backtest-shorter":
                s.env.backtest(policy=Scripted(actions[::-1]), episode_length=max(1, min(len(actions) - 1, case["cut"])))
            elif case["then"] == "backtest-same":
                s.env.backtest(policy=Scripted(actions))
            else:
                s.env.reset()
                for a in actions[:case["cut"]][::-1]:
                    s.env.step(a)
        except Exception:  # noqa
            pass
        d1_after = dump(tr1)
        if d1_after != d1:
            what = "entries" if d1_after[0] != d1[0] else "state_history"
            r.fail("returned-track-record-changed", what=what, then=case["then"],
                   before=str(d1[1] if what == "state_history" else d1[0])[:200], after=str(d1_after[1] if what == "state_history" else d1_after[0])[:200],
                   clause="an episode's ... track record are a function only of the configuration, the fold and the submitted actions")
        # a freshly built identical environment
        rf = ImplRun()
        sf = es.EnvSession(base, rf)
        try:
            df = dump(sf.env.backtest(policy=Scripted(actions)))
        except Exception as e:  # noqa
            df = None
        if df is not None and df != d1:
            r.fail("replay-differs-from-fresh", mode="backtest", theorem="reset_ignores_clock")
        r.lines = []
        return r

    def run_pair(self, case):
        r = ImplRun()
        r.tags.add("pair")
        sa = es.EnvSession(case["A"], r, name="A", emit_use=True)
        sb = es.EnvSession(case["B"], r, name="B", emit_use=True)
        if sa.env is None or sb.env is None:
            return r
        if case["A"].get("chains") or case["B"].get("chains"):
            r.tags.add("chain-interleaved")
        ia = ib = 0
        for who in case["schedule"]:
            if who == "A":
                sa.do(case["A"]["ops"][ia]); ia += 1
            else:
                sb.do(case["B"]["ops"][ib]); ib += 1
        # solo runs
        for name, sess, cfg in (("A", sa, case["A"]), ("B", sb, case["B"])):
            rs = ImplRun()
            solo = es.EnvSession(cfg, rs, name=name)
            for op in cfg["ops"]:
                solo.do(op)
            t1, t2 = self.trace(sess.obs), self.trace(solo.obs)
            if t1 != t2 or record_dump(sess.env, 10**6) != record_dump(solo.env, 10**6):
                i = next((j for j, (x, y) in enumerate(zip(t1, t2)) if x != y), None)
                r.fail("interleaved-differs-from-solo", env=name, first_difference=i,
                       differs=None if i is None else {k: (str(t1[i][k])[:200], str(t2[i][k])[:200]) for k in t1[i] if t1[i][k] != t2[i][k]},
                       theorem="isolation / envStep_mod_clock",
                       clause="two environments stepped in any interleaving each produce exactly the results they produce alone")
        r.lines = [(l, e if l.split()[0] in self.COMPARE or l == "build" or l.startswith("use") else None, t) for l, e, t in r.lines]
        return r


PROP = C10()
