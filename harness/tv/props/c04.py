"""C04 - event delivery is complete, exactly-once, on time and in timestamp order."""
from __future__ import annotations

import bisect

from .. import envstream as es
from fractions import Fraction

from ..core import F, fr, us
from ..runner import Prop


def is_market(kind: str) -> bool:
    return len(kind) > 1 and kind[1] == ":" and kind[0] in "qdc"


def expected_delivery(sess, lo, hi, start):
    """Independent re-computation of what must be delivered, from the property text.
    Returns (steps, reset_batch, [(latent, nonlatent) per later step]) as lists of (kind, time)."""
    from tradingenv.events import EventContractDiscontinued, EventNBBO

    case = sess.case
    grid = sorted(set(case["grid"]))
    raw = []
    for e in sess.tx.events:
        if isinstance(e, EventNBBO):
            raw.append(("q:" + e.contract.symbol, us(e.time)))
        elif isinstance(e, EventContractDiscontinued):
            raw.append(("d:" + e.contract.symbol, us(e.time)))
        else:
            raw.append((f"c:{e.ident}", us(e.time)))
    evs = [e for e in raw if e[1] <= grid[-1]]
    evs.sort(key=lambda e: e[1])  # stable
    if case.get("markov"):
        evs = [e for e in evs if e[1] >= grid[0]]

    def bucket(e):
        return grid[bisect.bisect_left(grid, e[1])]

    def prev(g):
        i = grid.index(g)
        return grid[i - 1] if i > 0 else None

    steps = sorted({bucket(e) for e in evs})
    steps = [s for s in steps if lo <= s <= hi]
    if case.get("eplen") is not None:
        steps = steps[start:start + case["eplen"] + 1]
    if not steps:
        return steps, [], []
    first = steps[0]
    wu = case.get("warmup")
    if case.get("markov"):
        reset_batch = [e for e in evs if bucket(e) == first]
    else:
        origin = first - wu if wu else None
        reset_batch = [e for e in evs if (origin is None or origin <= bucket(e)) and bucket(e) <= first]
    lat = case.get("latency", 0)
    later = []
    for s in steps[1:]:
        mine = [e for e in evs if bucket(e) == s]
        p = prev(s)
        latent = [e for e in mine if p is not None and e[1] - p <= lat]
        nonlatent = [e for e in mine if not (p is not None and e[1] - p <= lat)]
        later.append((latent, nonlatent, p))
    return steps, reset_batch, later


class C04(Prop):
    id = "C04"
    driver = "Env"
    quick_n = 300
    thorough_n = 25000
    rule = ("episodes over regular/irregular daily and intraday grids (duplicated and unsorted grid input), a quote per "
            "contract per bar or exactly one contract per bar, extra quotes and custom events placed at / inside / exactly "
            "at / just after the latency bound and anywhere in the bar, events before and after the grid, shuffled "
            "insertion order, latency 0 .. min gap - 1 s, warm-up horizons, markov reset, delays, episode lengths; the "
            "observer log (kind, stamp, env.now()) of reset + all steps (+ one step after the end) is compared "
            "exactly. Non-trivial = latency > 0 with history replayed, or a date change on a one-event batch, or "
            "duplicated/unsorted grid input, or an event exactly at the latency bound, or markov/warm-up set, or a "
            "second episode on the same environment; distinct = distinct cases")
    rule = (rule + "; 4% of the cases hand the data over as a price frame (TradingEnv(prices=...)) spanning more than two years "
            "of rows 20-30 days apart with a configured episode length and a start near the end: everything earlier is replayed; 4% use pandas Timestamps at nanosecond resolution (grid points with a "
            "sub-microsecond part, quotes on a grid point and 400 ns .. 3 us after one), judged by the oracle alone" + es.CONTEXT_RULE)
    nontrivial_tags = {"nanosecond-stamps", "prices-route", "latency-history", "one-event-date-change", "messy-grid", "at-bound", "markov", "warmup",
                       "second-episode"}
    assumptions = [
        "latency and event offsets are whole microseconds; the implementation compares timedelta.total_seconds() "
        "(a rounded quotient) with a float, which agrees with the integer comparison on these magnitudes",
        "a zero warm-up timedelta is falsy in Python and means 'no horizon' (mirrored by the model)",
        "the episode start index is an input (numpy's sampler is intercepted inside the harness process)",
    ]
    COMPARE = {"ereset", "log", "step", "stepi", "stepj", "nrec"}

    def exhaustive_cases(self, tier):
        # thorough tier: every placement of two extra events around a three-point grid (see small_scope_episodes)
        return es.small_scope_episodes() if tier == "thorough" else []

    def gen_prices_route(self, rng):
        """The convenience route `TradingEnv(prices=frame)`: no Transmitter is built by the caller, hence no warm-up
        horizon and no markov reset can have been set - every event of the earlier timesteps is replayed at reset,
        however long ago. More than a year of daily prices, a configured episode length, a start near the end."""
        # (a sparse grid keeps the model run short: what matters is the *span* of more than a year before the start)
        n = rng.randint(26, 34)
        gap = rng.choice([20, 25, 30])
        grid = [es.T0 + i * gap * es.DAY for i in range(n)]
        px, events = Fraction(rng.randint(50, 200)), []
        for t in grid:
            px = px * Fraction(rng.randint(990, 1011), 1000)
            p = fr(F(float(px)))
            events.append(["q", "S0", t, p, p])
        eplen = rng.randint(2, 4)
        start = rng.randint(n - eplen - 6, n - eplen - 2)
        case = dict(contracts=[dict(key="S0", kind="ETF")], fees=["0", "0", "0"], deposit="10000", grid=grid, events=events,
                    latency=0, delay=0, markov=False, warmup=None, reward="simple", pre_env_latency=None, sibling=False,
                    via_prices=True, eplen=eplen,
                    space=dict(kind="box", low="0", high="1", keys=["S0"], asWeights=1, fractional=1, margin="0"))
        case["ops"] = [["reset", None, start]] + [["step", [fr(Fraction(rng.randint(0, 8), 8))]] for _ in range(eplen + 1)]
        return case

    def gen(self, rng, tier):
        if rng.random() < 0.04:
            return es.gen_ns_case(rng, 0)
        if rng.random() < 0.04:
            return self.gen_prices_route(rng)
        case, grid, keys = es.gen_episode(rng, tier)
        if rng.random() < 0.25:
            case["eplen"] = rng.randint(1, max(1, len(grid) - 1))
        nsteps = rng.randint(0, len(grid) + 1)
        start = rng.randint(0, 3)
        gs = sorted(set(grid))
        if case.get("eplen") and 0 < start < len(gs) and not case.get("markov") and rng.random() < 0.5:
            # the warm-up horizon lands exactly on an earlier timestep (inclusive bound)
            case["warmup"] = gs[start] - gs[rng.randint(0, start - 1)]
        ops = [["reset", None, start]] + es.gen_actions(rng, case, nsteps)
        if rng.random() < 0.3:
            ops += [["reset", None, rng.randint(0, 3)]] + es.gen_actions(rng, case, rng.randint(0, len(grid)))
        case["ops"] = ops
        return case

    def run_impl(self, case):

        if case.get("kind") == "ns":
            # nanosecond-resolution pandas stamps: judged by the oracle alone (the model's unit is the microsecond)
            from ..runner import ImplRun as _IR
            r = _IR()
            es.judge_ns_case(r, case, es.run_ns_case(case), exec_prices=bool(case.get("latency_ns")))
            return r
        r, s = es.run_case(case, self.COMPARE)
        if s.env is None:
            return r
        judge_c04(r, s)
        return r


def judge_c04(r, s):
    case = s.case
    grid = sorted(set(case["grid"]))
    if case["grid"] != grid:
        r.tags.add("messy-grid")
    if case.get("markov"):
        r.tags.add("markov")
    if case.get("warmup"):
        r.tags.add("warmup")
    qkeys = {e[1] for e in case["events"] if e[0] == "q"}
    episodes, cur = [], None
    for o in s.obs:
        if o["op"][0] == "reset":
            cur = dict(reset=o, steps=[])
            episodes.append(cur)
        elif cur is not None:
            cur["steps"].append(o)
    if len(episodes) > 1:
        r.tags.add("second-episode")
    for ep in episodes:
        ro = ep["reset"]
        if not ro["status"].startswith("ok"):
            continue
        steps, reset_batch, later = expected_delivery(s, ro["lo"], ro["hi"], ro["start"])
        lat = case.get("latency", 0)
        if lat > 0 and len(reset_batch) > 1 and not case.get("markov"):
            r.tags.add("latency-history")
        full = list(ro["log"])
        got = [(k, us(t)) for k, t, c in ro["log"] if is_market(k)]
        if got != reset_batch:
            r.fail("reset-delivery", expected=reset_batch[:60], delivered=got[:60], theorem="episode_delivery",
                   clause="events of timesteps up to the episode's first one are replayed at reset, once, in timestamp order")
        last_delivered = reset_batch[-1][1] if reset_batch else None
        for k_i, so in enumerate(ep["steps"]):
            full += so["log"]
            if k_i >= len(later):
                if so["status"].startswith("ok") or any(is_market(k) for k, t, c in so["log"]):
                    r.fail("delivery-after-last-step", step=k_i, status=so["status"], theorem="episode_delivery")
                continue
            if not so["status"].startswith("ok"):
                break
            latent, nonlatent, p = later[k_i]
            got = [(k, us(t)) for k, t, c in so["log"] if is_market(k)]
            if got != latent + nonlatent:
                r.fail("step-delivery", step=k_i, expected=(latent + nonlatent)[:60], delivered=got[:60],
                       theorem="episode_delivery / partition_concat")
            if lat > 0 and p is not None and any(e[1] - p == lat for e in latent):
                r.tags.add("at-bound")
            # applied before the execution iff within latency: the execution is stamped with the last event
            # delivered before it
            if so.get("traded") and so["nrec_after"] == so["nrec_before"] + 1:
                rec = so.get("rec_time")
                want = latent[-1][1] if latent else last_delivered
                if rec is not None and want is not None and rec != want:
                    r.fail("latency-iff", step=k_i, execution_stamp=rec, expected=want, latency=lat,
                           theorem="applied_before_execution_iff",
                           clause="an event is applied before the pending execution iff it falls within latency "
                                  "seconds after the preceding timestep")
            if latent or nonlatent:
                last_delivered = (latent + nonlatent)[-1][1]
        # whole observer log of the episode
        prev_t, prev_market = None, None
        for j, (k, t, c) in enumerate(full):
            tu, cu = (None if t is None else us(t)), (None if c is None else us(c))
            if tu != cu:
                r.fail("clock-not-event-time", index=j, event=k, stamp=tu, clock=cu, theorem="clock_eq_event_time",
                       clause="during every dispatch env.now() is the event's time")
            if prev_t is not None and tu is not None and tu < prev_t:
                r.fail("stamps-decrease", index=j, event=k, stamp=tu, previous=prev_t, theorem="observer_stamps_monotone")
            if k in ("reset", "step", "done") and prev_market is not None and tu != prev_market:
                r.fail("notification-stamp", index=j, event=k, stamp=tu, latest_market_event=prev_market,
                       theorem="observer_stamps_monotone",
                       clause="reset/step/done are stamped with the time of the latest market event processed")
            if k == "newdate":
                nxt = full[j + 1] if j + 1 < len(full) else None
                if prev_market is not None and tu != prev_market:
                    r.fail("newdate-stamp", index=j, stamp=tu, previous_event=prev_market, theorem="observer_stamps_monotone")
                if nxt is None or nxt[1] is None or (tu is not None and us(nxt[1]) // es.DAY == tu // es.DAY):
                    r.fail("spurious-newdate", index=j, stamp=tu, theorem="observer_stamps_monotone",
                           clause="a new-date notification precedes the first event of a new date")
            elif is_market(k) and prev_market is not None and tu // es.DAY != prev_market // es.DAY:
                if j == 0 or full[j - 1][0] != "newdate":
                    r.fail("missing-newdate", index=j, event=k, stamp=tu, theorem="observer_stamps_monotone")
                r.tags.add("date-change")
            if tu is not None:
                prev_t = tu
            if is_market(k):
                prev_market = tu
        if len(qkeys) == 1 and "date-change" in r.tags and not any(e[0] == "c" for e in case["events"]):
            r.tags.add("one-event-date-change")


PROP = C04()
