"""C03 - rebalancing reaches the requested target allocation."""
from __future__ import annotations

from fractions import Fraction

from .. import brokerstream as bs
from ..core import F, fr
from ..runner import Prop

EPS = Fraction(1, 10**7)


class C03(Prop):
    id = "C03"
    driver = "Broker"
    quick_n = 350
    thorough_n = 60000
    rule = ("prior holdings reached through a random trade history (long, short, leveraged, mixed spot/futures), then a "
            "rebalance to target weights (negative, > 1, zeros) or numbers of contracts with no threshold, then an "
            "immediate second rebalance to the same target; fees and spreads of all kinds; in a quarter of the cases a request "
            "that has to buy a contract whose ask has just disappeared is refused first, the ask comes back and every quote "
            "moves. Non-trivial = non-empty "
            "prior holdings and (a held contract absent from the target, or a short/leveraged target, or a margined "
            "contract targeted under a spread, or the nr-contracts measure); distinct = distinct cases")
    nontrivial_tags = {"untargeted-held", "short-target", "leveraged-target", "margined-spread", "nr-contracts", "interest-credited"}
    assumptions = [
        "cash book quoted 1.0:1.0 and reference-rate book seeded, as TradingEnv.reset does",
        "targets below the broker's epsilon (1e-7 contracts) are the recorded known finding K1",
        "the trade list is not compared (order and float dust only affect rounding); positions, NLV and weights are",
    ]
    COMPARE = {"pos", "nlv", "rebal", "weights", "nrec"}

    def gen(self, rng, tier):
        c = bs.gen_history(rng, tier, allow={"q", "tradeq"}, nmax=14,
                           fees=rng.choice([["0", "0", "0"], ["0", "1/1000", "0"], ["0", "1/4096", "1/128"], ["0", "0", "0"]]))
        keys = [k["key"] for k in c["contracts"]]
        exact = c["exact"]
        t = max(op[-1] if op[0] == "tradeq" else op[2] for op in c["ops"] if op[0] in ("q", "tradeq")) + bs.DAY
        by_weight = rng.random() < 0.75
        tgt = {}
        for kk in rng.sample(keys, rng.randint(0, len(keys))):
            if by_weight:
                v = Fraction(rng.randint(-12, 12), 8) if exact else F(round(rng.uniform(-1.3, 1.3), 3))
            else:
                v = Fraction(rng.randint(-40, 40)) if exact or rng.random() < 0.5 else F(round(rng.uniform(-30, 30), 2))
            tgt[kk] = fr(v)
        if rng.random() < 0.15:
            tgt["USD"] = fr(Fraction(1, 4))  # an entry for the cash contract is ignored
        c["ops"] = [op for op in c["ops"] if op[0] != "nlv"]
        if rng.random() < 0.6:
            # a non-zero reference rate and an interest clock started earlier: the rebalance credits interest first,
            # and the target must be sized on the NLV *after* that credit (the NLV measured just before trading)
            rr = rng.choice(["1/32", "1/10", "3/100", "1/5"])
            c["ops"] = [["q", "RATE", bs.T0, rr, rr], ["accrue", bs.T0, 1]] + c["ops"]
            c["interest"] = True
        if rng.random() < 0.25 and keys:
            # a refused request first: the ask of one contract disappears, a request that has to buy it is refused while
            # its trades are being built, the ask comes back and every quote moves; the request that follows must be
            # sized on the account as it is then
            kq = rng.choice(keys)
            lastq = {}
            for op in c["ops"]:
                if op[0] == "q" and op[1] != "RATE" and "nan" not in (op[3], op[4]):
                    lastq[op[1]] = op
            if kq in lastq:
                b0, a0 = lastq[kq][3], lastq[kq][4]
                pre = [["q", kq, t - 4, b0, "nan"], ["rebal", t - 3, 1, 1, 1, "0", {kq: "1/4"}], ["q", kq, t - 2, b0, a0]]
                for kk, op in lastq.items():
                    mid = (Fraction(op[3]) + Fraction(op[4])) / 2
                    _, b2, a2 = bs.gen_price(rng, exact, mid)
                    pre.append(["q", kk, t - 1, fr(b2), fr(a2)])
                c["ops"] += pre
                c["_refused_first"] = True
        first = ["rebal", t, int(by_weight), 1, 1, "0", tgt]
        if rng.random() < 0.25 and keys:
            # the request is previewed with make_trades(), a quote then moves, and the same request object is executed:
            # it must reach the target at the quotes and the NLV of the moment it is executed
            kq = rng.choice(keys)
            last_q = [op for op in c["ops"] if op[0] == "q" and op[1] == kq and "nan" not in (op[3], op[4])]
            if last_q:
                mid = (Fraction(last_q[-1][3]) + Fraction(last_q[-1][4])) / 2
                _, b2, a2 = bs.gen_price(rng, exact, mid)
                first = first + [["q", kq, t, fr(b2), fr(a2)]]
        c["ops"] += [first, ["weights"], ["nlv", 0],
                     ["rebal", t + 1, int(by_weight), 1, 1, "0", tgt], ["nlv", 0]]
        return c

    def run_impl(self, case):
        r, s = bs.run_case(case, self.COMPARE)
        judge_c03(r, s)
        return r

    def classify(self, failure, case):
        if failure.get("kind") in ("target-not-reached", "nr-contracts-not-reached") and failure.get("sub_epsilon"):
            return "K1"
        return None


def judge_c03(r, s):
    rebs = [o for o in s.obs if o["op"][0] == "rebal"]
    if not rebs:
        return
    if s.case.get("_refused_first"):
        # the planted request that has to buy an unquoted contract: refused, and not the one being judged
        r.tags.add("refused-request-first")
        if rebs[0].get("status") == "ok":
            r.fail("unpriced-leg-not-refused", theorem="rebalance_missing_quote_errors (C13)")
        rebs = rebs[1:]
        if not rebs:
            return
    first = rebs[0]
    i0 = s.obs.index(first)
    if first.get("status") != "ok":
        r.tags.add("rebalance-refused")
        return
    rb = first["rebal"]
    if first.get("reb") is not None and F(first["reb"].profit_on_idle_cash) != 0:
        r.tags.add("interest-credited")
    tgt = {k: v for k, v in rb["target"].items() if k != "USD" and v != 0}
    nlv_pre = first["nlv_pre"]
    tol = first["tol"] * 10
    # "the NLV measured just before trading" is the account's NLV at that moment: the recorded figure is checked against
    # the independent ledger (deposit + interest - commissions + marked positions), and the ledger's is the reference
    led = first.get("exp_nlv_pre")
    if led is not None and nlv_pre is not None and abs(led - nlv_pre) > tol:
        r.fail("pre-trade-nlv-wrong", recorded=float(nlv_pre), ledger=float(led), theorem="nlv_identity (C01)",
               clause="... equal to w x the NLV measured just before trading")
    if led is not None:
        nlv_pre = led
    quotes = first["quotes"]
    before = first["pos_before"]
    if any(q != 0 for q in before.values()):
        r.tags.add("prior-holdings")
    frictionless = s.fixed == 0 and s.prop == 0
    for k, v in tgt.items():
        m, cr, mr = s.specs[k]
        b, a = quotes.get(k, (None, None))
        px = a if v > 0 else b
        if px is None:
            continue
        if b != a:
            frictionless = False
            if mr != 0:
                r.tags.add("margined-spread")
        got = first["pos"].get(k, Fraction(0))
        if rb["byWeight"]:
            if v < 0:
                r.tags.add("short-target")
            if abs(v) > 1:
                r.tags.add("leveraged-target")
            want_value = v * nlv_pre
            qstar = want_value / px / m
            if abs(got * m * px - want_value) > tol:
                r.fail("target-not-reached", key=k, weight=float(v), position=float(got), expected_position=float(qstar),
                       value=float(got * m * px), expected_value=float(want_value), sub_epsilon=abs(qstar) < EPS,
                       theorem="weights_target_value / tradeFor_exact / transact_reaches",
                       clause="position x multiplier x execution-side quote = w x NLV before trading")
        else:
            r.tags.add("nr-contracts")
            if abs(got - v) > max(Fraction(1, 10**9) * abs(v), Fraction(1, 10**12)):
                r.fail("nr-contracts-not-reached", key=k, target=float(v), position=float(got), sub_epsilon=abs(v) < EPS,
                       theorem="transact_reaches / targeted_entry")
    for k, q in before.items():
        if q != 0 and k not in tgt:
            r.tags.add("untargeted-held")
            b, a = quotes.get(k, (None, None))
            if b != a:
                frictionless = False
            if first["pos"].get(k, Fraction(0)) != 0:
                r.fail("untargeted-not-closed", key=k, before=float(q), after=float(first["pos"].get(k)),
                       theorem="untargeted_closed_entry / tradeFor_exact")
    if frictionless and rb["byWeight"]:
        r.tags.add("frictionless")
        if abs(first["nlv_post"] - nlv_pre) > tol:
            r.fail("frictionless-nlv-changed", pre=float(nlv_pre), post=float(first["nlv_post"]), theorem="trade_delta (C01)")
        wobs = next((o for o in s.obs[i0 + 1:] if o.get("weights") is not None), None)
        if wobs is not None:
            for k, v in tgt.items():
                if abs(wobs["weights"].get(k, Fraction(0)) - v) > Fraction(1, 10**8):
                    r.fail("frictionless-weights", key=k, reported=float(wobs["weights"].get(k, 0)), target=float(v))
        if len(rebs) > 1 and rebs[1].get("status") == "ok":
            second = rebs[1]
            tot = Fraction(0)
            for (k, q, px) in second["trades"]:
                tot += abs(q * px * s.specs[k][0])
            if tot > Fraction(1, 10**9) * max(nlv_pre, 1):
                r.fail("second-rebalance-trades", notional=float(tot), nlv=float(nlv_pre),
                       theorem="targeted_entry (imbalance is exactly 0 in a field)")


PROP = C03()
