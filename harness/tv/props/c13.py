"""C13 - missing prices fail loudly; a rebalance is all-or-nothing."""
from __future__ import annotations

from fractions import Fraction

from .. import brokerstream as bs
from ..core import F, fr
from ..runner import Prop


class C13(Prop):
    id = "C13"
    driver = "Broker"
    quick_n = 400
    thorough_n = 80000
    rule = ("fault stream: a broker history, then any subset of contracts loses its bid, its ask, both, or is "
            "discontinued (held long, short or flat; targeted or not), then valuation queries (raising and not), "
            "weights, values and a rebalance (weights or nr-contracts, with and without threshold). Non-trivial = some "
            "contract with a non-zero position lost the side needed to liquidate it, or a flat contract lost its "
            "quotes, or a rebalance was refused; distinct = distinct cases")
    nontrivial_tags = {"held-unpriced", "flat-unpriced", "rebalance-refused", "acq-side-missing"}
    assumptions = [
        "cash book quoted 1.0:1.0 and reference-rate book seeded, as TradingEnv.reset does",
        "errors are compared as {ok, end-of-episode, rejected}; the property only says 'raise an error'",
    ]
    COMPARE = {"pos", "nlv", "values", "weights", "rebal", "nrec", "q", "d", "tradeq"}

    def gen_loop_rejection(self, rng, tier):
        """The rejection happens late: every held position is priced (the up-front valuation passes), a healthy
        contract is targeted first, and a later, flat targeted contract has a one-sided book whose acquisition
        side is present (weights) or any missing side (numbers of contracts) - the trade constructor refuses it
        after trades for the earlier contracts have been built."""
        for _ in range(20):
            c = bs.gen_history(rng, tier, allow={"q", "tradeq", "nlv"}, nmax=8)
            keys = [k["key"] for k in c["contracts"]]
            traded = {op[1] for op in c["ops"] if op[0] == "tradeq"}
            flat = [k for k in keys if k not in traded]
            if len(keys) >= 2 and flat:
                break
        else:
            return None
        t = max([op[2] for op in c["ops"] if op[0] == "q"] + [op[-1] for op in c["ops"] if op[0] == "tradeq"]) + bs.DAY
        bad = rng.choice(flat)
        good = [k for k in keys if k != bad]
        rng.shuffle(good)
        by_weight = rng.random() < 0.6
        long_bad = rng.random() < 0.5
        if by_weight:
            # the side needed to size the trade is there, the other one is not
            b, a = ("nan", "51") if long_bad else ("50", "nan")
        else:
            b, a = rng.choice([("nan", "51"), ("50", "nan"), ("nan", "nan")])
        if not by_weight and rng.random() < 0.3:
            c["ops"].append(["d", bad, t])
        else:
            c["ops"].append(["q", bad, t, b, a])
        tgt = {}
        first = good[: rng.randint(1, len(good))]
        for kk in first:
            tgt[kk] = fr(Fraction(rng.choice([-3, -2, 2, 3, 4]), 8) if by_weight else Fraction(rng.choice([-7, -2, 3, 9])))
        tgt[bad] = fr((Fraction(2, 8) if long_bad else Fraction(-2, 8)) if by_weight else Fraction(5 if long_bad else -5))
        c["ops"].append(["nlv", 0])
        # with a no-trade threshold the weight of the imbalance has to be priced too (same acquisition side).
        # Dyadic thresholds: an imbalance weight of exactly 1/1000 (5 x 50 / 250000) against the double 0.001 is
        # decided by rounding, which is not what this family is about (exact boundaries are C12's regime)
        c["ops"].append(["rebal", t + 10, int(by_weight), 1, 1, rng.choice(["0", "0", "1/64", "1/1024"]), tgt])
        c["ops"].append(["nlv", 0])
        return c

    def gen(self, rng, tier):
        if rng.random() < 0.3:
            c = self.gen_loop_rejection(rng, tier)
            if c is not None:
                return c
        c = bs.gen_history(rng, tier, allow={"q", "tradeq", "nlv", "mark"}, nmax=12)
        keys = [k["key"] for k in c["contracts"]]
        t = max([op[2] for op in c["ops"] if op[0] == "q"] + [op[-1] for op in c["ops"] if op[0] == "tradeq"]) + bs.DAY
        # faults
        for kk in rng.sample(keys, rng.randint(0, len(keys))):
            how = rng.choice(["bid", "ask", "both", "disc", "disc"])
            if how == "disc":
                c["ops"].append(["d", kk, t])
                if rng.random() < 0.3:
                    c["ops"].append(["q", kk, t + 1, "10", "11"])  # dead books ignore later quotes
            else:
                b = "nan" if how in ("bid", "both") else "50"
                a = "nan" if how in ("ask", "both") else "51"
                c["ops"].append(["q", kk, t, b, a])
        q = [["nlv", 1], ["nlv", 0], ["weights"], ["values", "liq"], ["values", "notional"]]
        rng.shuffle(q)
        c["ops"] += q[: rng.randint(1, 5)]
        tgt = {}
        by_weight = rng.random() < 0.7
        for kk in rng.sample(keys, rng.randint(0, len(keys))):
            tgt[kk] = fr(Fraction(rng.randint(-8, 8), 8) if by_weight else Fraction(rng.randint(-20, 20)))
        reb = ["rebal", t + 10, int(by_weight), 1, int(rng.random() < 0.8), rng.choice(["0", "0", "1/50"]), tgt]
        if any(op[0] == "tradeq" and op[2] not in ("nan", "0") and abs(Fraction(op[2])) < Fraction(1, 10**6) for op in c["ops"]):
            # a position carrying float dust (a trade of a few 1e-8 contracts) and whole lots: whether the liquidation
            # is 1 or 2 lots is decided by rounding (1.99999999998 against 2.0) - not this family's subject
            reb[4] = 1
        c["ops"].append(reb)
        c["ops"].append(["nlv", 0])
        if tgt and rng.random() < 0.25:
            # the request object was executed by another account of the same exchange before the faults, and is the one
            # now sent to the account under test: it must be judged against the books of this moment
            first_fault = next((i for i, op in enumerate(c["ops"]) if (op[0] == "d" or op[0] == "q") and op[2] >= t), len(c["ops"]))
            c["ops"].insert(first_fault, ["shadow_rebal", t - 5] + reb[2:7])
            c["shadow"] = c.get("shadow") or "after"
        return c

    def run_impl(self, case):
        r, s = bs.run_case(case, self.COMPARE)
        for i, o in enumerate(s.obs):
            kind = o["op"][0]
            unpriced = []
            for k, q in o["pos"].items():
                b, a = o["quotes"].get(k, (None, None))
                if q > 0 and b is None or q < 0 and a is None:
                    unpriced.append(k)
            for k in s.specs:
                b, a = o["quotes"].get(k, (None, None))
                if o["pos"].get(k, Fraction(0)) == 0 and (a is None or b is None) and k in o["quotes"]:
                    r.tags.add("flat-unpriced")
            if unpriced:
                r.tags.add("held-unpriced")
            if kind in ("nlv", "weights", "values"):
                st = o.get("status")
                if unpriced and st != "err rejected":
                    r.fail("unpriced-position-valued", op_index=i, op=o["op"], status=st, unpriced=unpriced,
                           nlv=None if o.get("nlv") is None else float(o["nlv"]),
                           theorem="valuation_missing_quote_errors / weights_missing_quote_errors")
                if not unpriced and st == "err rejected":
                    r.fail("flat-position-demands-quote", op_index=i, op=o["op"], theorem="flat_needs_no_quote")
            if kind == "rebal":
                st = o.get("status")
                if st != "ok":
                    r.tags.add("rebalance-refused")
                if unpriced and st == "ok":
                    r.fail("unpriced-position-rebalanced", op_index=i, unpriced=unpriced, theorem="rebalance_missing_quote_errors")
                if st == "err rejected" and o.get("record_probe") and o["nrec_after"] == o["nrec_before"]:
                    pb, pa = o["record_probe"]
                    if pb != pa:
                        r.fail("partial-rebalance", op_index=i, record_before=str(pb)[:160], record_after=str(pa)[:160],
                               theorem="rebalance_fails_before_trading",
                               clause="a rejected rebalance leaves ... the track record unchanged (length, last entry, what it prints)")
                if st == "err rejected":
                    changed = {k: (float(o["pos_before"].get(k, 0)), float(o["pos"].get(k, 0)))
                               for k in set(o["pos"]) | set(o["pos_before"])
                               if o["pos"].get(k, Fraction(0)) != o["pos_before"].get(k, Fraction(0))}
                    if changed or o["nrec_after"] != o["nrec_before"]:
                        r.fail("partial-rebalance", op_index=i, changed=changed, records=(o["nrec_before"], o["nrec_after"]),
                               theorem="rebalance_fails_before_trading",
                               clause="a rejected rebalance leaves every position and the track record unchanged")
                # a target whose acquisition side is missing must be refused
                tgt = o["rebal"]["target"]
                for k, v in tgt.items():
                    if k == "USD" or v == 0:
                        continue
                    b, a = o["quotes"].get(k, (None, None))
                    if (a is None or b is None):
                        r.tags.add("acq-side-missing")
                    # numbers of contracts: the imbalance is known without any price; neither its weight (threshold)
                    # nor its trade can be priced when the side it would be acquired on is missing
                    if o["op"][2] == 0 and o["op"][3] == 1 and k in o["quotes"] and st == "ok":
                        imb = F(float(Fraction(v))) - o["pos_before"].get(k, Fraction(0))
                        if abs(imb) >= 1 and (a is None if imb > 0 else b is None):
                            r.fail("unpriced-leg-not-refused", op_index=i, contract=k, imbalance=float(imb),
                                   bid=None if b is None else float(b), ask=None if a is None else float(a),
                                   position_after=float(o["pos"].get(k, 0)), threshold=o["op"][5],
                                   theorem="rebalance_missing_quote_errors",
                                   clause="a rebalance that needs a missing quote fails before any trade is executed")
        return r


PROP = C13()
