"""C06 - interest on cash: compounding, sign, markup and no double accrual."""
from __future__ import annotations

import math
from fractions import Fraction

from .. import brokerstream as bs
from ..core import F, fr
from ..runner import ImplRun, Prop

SEC = 1_000_000
YEAR_US = 31536000 * SEC


class C06(Prop):
    id = "C06"
    driver = "Broker"
    quick_n = 500
    thorough_n = 100000
    rule = ("interest streams: cash of either sign (optionally with a margined position held, so that margin exists), "
            "reference rate in [-0.05, 0.24], markup in {0, .005, .01, .03}, (a tenth of the cases: a net rate of 1e-9 .. 9e-8 on balances up to 1e12 over years), interval from 1 s to 40 years cut into "
            "0-6 sub-intervals by accruing calls, query-only calls, repeated calls at the same instant, calls at an "
            "earlier time, and rebalances that trade nothing; each case is also run with the single direct accrual "
            "(split invariance). Cash balances include exactly 0; in 12% of the cases the balance is driven to exactly 0 "
            "by a fee-free purchase made right after an accrual, stays there over accruals / queries / a same-instant "
            "pair / an earlier-time call, and comes back through a sale made right after another accrual (so the balance "
            "is constant between accruals, as with Broker.rebalance): no interest for the zero period, the zero-cash "
            "accrual still moves the interest clock. Non-trivial = at least one cut and (negative cash or rate < markup "
            "or a query interleaved or margin held), or a zero-cash period; distinct = distinct cases")
    nontrivial_tags = {"loan", "floor", "query", "margin-held", "rebalance-no-trade", "cuts>=2", "zero-cash-period"}
    assumptions = [
        "the power function is a leaf: Real.rpow in the theorems, C pow (via Lean Float) in the executed model, "
        "Python float ** in the implementation; compared at 1e-9 relative",
        "reference rate constant over the interval (the property's hypothesis)",
    ]
    shrink_key = "cuts"

    def gen(self, rng, tier):
        cash = rng.choice(["100000", "1234.5", "-5000", "-250000.25", "1", "777777.75", "-1", "0", "0"])
        rate = F(round(rng.uniform(-0.05, 0.24), rng.choice([2, 3, 6])))
        markup = Fraction(rng.choice(["0", "0.005", "0.01", "0.03", "0.1"]))
        if 1 + rate - markup <= Fraction(1, 100):
            markup = Fraction(0)
        length = rng.choice([SEC, 3600 * SEC, 86400 * SEC, 30 * 86400 * SEC, YEAR_US, 10 * YEAR_US, 40 * YEAR_US,
                             rng.randint(1, 10**7) * SEC])
        tiny = rng.random() < 0.1
        if tiny:
            # a net rate that is tiny but not zero (1e-9 .. 9e-8 a year): on a large balance over years it is real money
            k = Fraction(rng.randint(1, 90), 10**9)
            base = Fraction(rng.choice(["0", "0", "0.01", "0.03"]))
            cash = rng.choice(["1000000000000", "250000000", "-1000000000", cash])
            markup = base
            rate = F(float((base if Fraction(cash) > 0 else -base) + k * rng.choice([1, 1, -1])))
            length = rng.choice([YEAR_US, 10 * YEAR_US, 30 * YEAR_US])
        ncut = rng.choice([0, 1, 1, 2, 3, 6])
        pts = sorted(rng.randint(0, length // SEC) * SEC for _ in range(ncut))
        cuts = []
        for p in pts:
            kind = rng.choice(["accrue", "accrue", "query", "same", "earlier", "rebal"])
            cuts.append([kind, p])
        return dict(tiny_net_rate=tiny, cash=cash, rate=fr(rate), markup=fr(markup), length=length, cuts=cuts,
                    margin_held=rng.random() < 0.3, zero_trip=rng.random() < 0.12,
                    tz_mode=rng.choice([None, None, None, None, "utc", "mixed", "mixed"]))

    def build(self, case, direct: bool):
        t0 = bs.T0
        ops = [["q", "RATE", t0, case["rate"], case["rate"]], ["q", "FUT", t0, "100", "100"]]
        if case["margin_held"] and Fraction(case["cash"]) > 1000:
            ops.append(["tradeq", "FUT", "2", t0])
        ops.append(["accrue", t0, 1])
        nreb = 0
        if not direct:
            for kind, p in case["cuts"]:
                t = t0 + p
                if kind == "accrue":
                    ops.append(["accrue", t, 1])
                elif kind == "query":
                    ops.append(["accrue", t, 0])
                elif kind == "same":
                    ops.append(["accrue", t, 1])
                    ops.append(["accrue", t, 1])
                elif kind == "earlier":
                    ops.append(["accrue", t, 1])
                    if p > 0:
                        ops.append(["accrue", t - 1, rng_flag(p)])
                elif kind == "rebal":
                    if Fraction(case["cash"]) > 0 and not case["margin_held"]:
                        nreb += 1
                        ops.append(["rebal", t, 1, 1, 1, "0", {}])
                    else:
                        ops.append(["accrue", t, 1])
        ops.append(["accrue", t0 + case["length"], 1])
        return dict(contracts=[dict(key="FUT", kind="user", mult="10", cashReq="0", mr="1/4")],
                    fees=["0", "0", case["markup"]], deposit=case["cash"], ops=ops, tz_mode=case.get("tz_mode"))

    def run_zero_trip(self, case):
        """The cash balance is driven to *exactly* zero by a fee-free purchase, stays there over an accrual (or a
        query, or a same-instant pair), comes back through a sale, and is accrued again: no interest may be paid
        for the time the balance was zero, the zero-cash accrual must still move the interest clock (an earlier
        time is rejected afterwards)."""
        t0 = bs.T0
        n = max(1, len(case["cuts"]))
        seg = max(SEC, case["length"] // (n + 3))
        ops = [["q", "RATE", t0, case["rate"], case["rate"]], ["q", "SPOT", t0, "100", "100"],
               ["accrue", t0, 1], ["tradeq", "SPOT", "200", t0]]
        t = t0
        for kind, _ in (case["cuts"] or [["accrue", 0]]):
            t += seg
            if kind == "query":
                ops.append(["accrue", t, 0])
            elif kind == "same":
                ops += [["accrue", t, 1], ["accrue", t, 1]]
            elif kind == "earlier":
                ops += [["accrue", t, 1], ["accrue", t - seg // 2 - 1, 1]]
            elif kind == "rebal":
                ops.append(["rebal", t, 0, 1, 1, "0", {"SPOT": "200"}])
            else:
                ops.append(["accrue", t, 1])
        t_zero_end = t
        # as `Broker.rebalance` does: accrue first (on the zero balance), then trade
        ops += [["accrue", t, 1], ["tradeq", "SPOT", "-100", t], ["accrue", t + seg, 1]]
        main = dict(contracts=[dict(key="SPOT", kind="ETF")], fees=["0", "0", case["markup"]], deposit="20000", ops=ops,
                    tz_mode=case.get("tz_mode"))
        r, s = bs.run_case(main, {"accrue", "rebal", "tradeq", "pos"})
        r.tags.add("zero-cash-period")
        rate, markup = float(Fraction(case["rate"])), float(Fraction(case["markup"]))
        accr = [o for o in s.obs if o["op"][0] == "accrue"]
        last_t = None
        for o in accr:
            _, tt, flag = o["op"]
            if o["status"] == "ok":
                if last_t is not None and tt < last_t:
                    r.fail("earlier-accepted", time=tt, last=last_t, theorem="earlier_time_rejected")
                if last_t is not None and tt == last_t and flag and o["amount"] != 0:
                    r.fail("same-instant", amount=float(o["amount"]), theorem="accrue_same_instant_zero")
                if flag or last_t is None:
                    last_t = tt
        # the last accrual covers exactly one segment on a balance of 10000
        final = accr[-1]
        if final["status"] == "ok":
            years = seg / YEAR_US
            want = 10000.0 * ((1 + rate - markup) ** years - 1) if rate >= markup else 0.0
            if abs(float(final["amount"]) - want) > 1e-9 * max(abs(want), 1.0):
                r.fail("closed-form", reported=float(final["amount"]), expected=want, years=years,
                       clause="no interest for the time the balance was zero", theorem="idle_growth / accrue_spec")
        for o in accr[1:-1]:
            if o["status"] == "ok" and o["amount"] != 0:
                r.fail("closed-form", reported=float(o["amount"]), expected=0.0, clause="zero balance accrues nothing")
        return r

    def run_impl(self, case):
        if case.get("zero_trip"):
            return self.run_zero_trip(case)
        main = self.build(case, direct=False)
        r, s = bs.run_case(main, {"accrue", "state", "rebal"})
        direct = self.build(case, direct=True)
        r2, s2 = bs.run_case(direct, None)
        rate, markup = F(float(Fraction(case["rate"]))), F(float(Fraction(case["markup"])))
        cash_final, cash_direct = s.obs[-1]["cash"], s2.obs[-1]["cash"]
        scale = max(abs(cash_final), abs(cash_direct), 1)
        tol = scale * Fraction(1, 10**9)
        if abs(cash_final - cash_direct) > tol:
            r.fail("split-invariance", final=float(cash_final), direct=float(cash_direct),
                   diff=float(cash_final - cash_direct), theorem="accrue_split / bal_fold")
        # closed form on the direct run
        start = None
        for o in s2.obs:
            if o["op"][0] == "accrue":
                start = o["cash"]
                break
        years = case["length"] / YEAR_US
        c0 = float(start)
        if c0 > 0:
            want = c0 * (1 + float(rate) - float(markup)) ** years if rate >= markup else c0
            r.tags.add("floor" if rate < markup else "idle")
        elif c0 < 0:
            want = c0 * (1 + float(rate) + float(markup)) ** years
            r.tags.add("loan")
        else:
            want = 0.0
        if abs(float(cash_direct) - want) > 1e-9 * max(abs(want), 1):
            r.fail("closed-form", reported=float(cash_direct), expected=want, cash0=c0, years=years,
                   theorem="idle_growth / idle_floor / loan_growth")
        # per-call clauses on the main run
        last_t, prev_cash = None, None
        for i, o in enumerate(s.obs):
            if o["op"][0] != "accrue":
                prev_cash = o["cash"]
                continue
            _, t, flag = o["op"]
            if o["status"] == "ok":
                if prev_cash is not None and prev_cash > 0 and o["amount"] < 0:
                    r.fail("positive-charged", op_index=i, amount=float(o["amount"]), theorem="positive_never_charged")
                if not flag:
                    r.tags.add("query")
                    if o["cash"] != prev_cash:
                        r.fail("query-changed-balance", op_index=i, theorem="query_changes_nothing")
                if last_t is not None and t == last_t and flag and o["amount"] != 0:
                    r.fail("same-instant", op_index=i, amount=float(o["amount"]), theorem="accrue_same_instant_zero")
                if last_t is not None and t < last_t:
                    r.fail("earlier-accepted", op_index=i, theorem="earlier_time_rejected")
                if flag:
                    last_t = t
                elif last_t is None:
                    last_t = t
            else:
                if last_t is not None and t >= last_t:
                    r.fail("valid-time-rejected", op_index=i)
                if o["cash"] != prev_cash:
                    r.fail("rejected-changed-balance", op_index=i, theorem="earlier_time_rejected")
            prev_cash = o["cash"]
        if any(o["op"][0] == "rebal" for o in s.obs):
            r.tags.add("rebalance-no-trade")
        if any(o["margins"].get("FUT") for o in s.obs):
            r.tags.add("margin-held")
        if len(case["cuts"]) >= 2:
            r.tags.add("cuts>=2")
        return r


def rng_flag(p):
    return 1 if p % 2 else 0


PROP = C06()
