"""C09 - insolvency safety: an account with NLV <= 0 never trades and the episode ends."""
from __future__ import annotations

from fractions import Fraction

from .. import envstream as es
from ..core import F, fr, us
from ..runner import Prop


class C09(Prop):
    id = "C09"
    driver = "Env"
    quick_n = 250
    thorough_n = 20000
    rule = ("ruin stream: leveraged long / short positions in spot and margined contracts (box spaces up to +-5, or "
            "numbers of contracts), price paths that gap adversely by a factor 2..50 at a random step so that NLV "
            "crosses zero before a decision (latent quote), during a step's post-trade events, on the first step or "
            "later; all four reward functions; delays; after the ruin the harness keeps calling step. Non-trivial = "
            "NLV <= 0 reached at some point of the episode; distinct = distinct cases")
    rule = rule + es.CONTEXT_RULE
    nontrivial_tags = {"ruin-before-decision", "ruin-during-events", "ruin-first-step", "ruin-later"}
    assumptions = [
        "errors are compared as {ok, end-of-episode, rejected}",
        "K2 (EndOfEpisodeError escaping from the reward when NLV <= 0 is first reached during a step's post-trade "
        "events) is a recorded known finding; every other way of violating C09 is reported",
    ]
    COMPARE = {"ereset", "step", "stepi", "state", "nrec", "nlv", "log"}

    def gen(self, rng, tier):
        lev = rng.choice([2, 3, 5])
        short = rng.random() < 0.4
        reward = rng.choice(["simple", "pnl", "log", ["logret", "1/100", "2", "1/10"]])
        intraday = rng.random() < 0.5
        latency = None if rng.random() < 0.5 else 0
        case, grid, keys = es.gen_episode(rng, tier, n_contracts=rng.choice([1, 1, 2]), delay=rng.choice([0, 0, 1]),
                                          reward=reward, markov=False, warmup=None, extra_events=False,
                                          intraday=intraday, latency=latency, spread=rng.choice([0, 1]),
                                          fees=rng.choice([["0", "0", "0"], ["0", "1/1000", "0"]]))
        case["space"] = dict(kind="box", low=str(-lev), high=str(lev), keys=keys, asWeights=1, fractional=1, margin="0")
        # a benchmark account on the same exchange, valued at every quote (i.e. before the environment values its own)
        case["bench_account"] = rng.random() < 0.3
        grid = sorted(set(case["grid"]))
        # adverse gap at a random step: either exactly at a timestep (processed after the execution of the
        # step that lands there) or just after the previous timestep within the latency (processed before it)
        j = rng.randint(1, len(grid) - 1)
        factor = Fraction(rng.choice([2, 3, 10, 50]))
        k0 = keys[0]
        evs = []
        mode = rng.choice(["at-step", "latent"])
        lat = case["latency"]
        for e in case["events"]:
            if e[0] == "q" and e[1] == k0 and e[2] >= grid[j]:
                b, a = Fraction(e[3]), Fraction(e[4])
                b, a = (b * factor, a * factor) if short else (b / factor, a / factor)
                evs.append(["q", k0, e[2], fr(F(float(b))), fr(F(float(a)))])
            else:
                evs.append(e)
        if mode == "latent" and lat > 0:
            src = next(e for e in evs if e[0] == "q" and e[1] == k0 and e[2] == grid[j])
            evs.append(["q", k0, grid[j - 1] + max(1, lat // 2), src[3], src[4]])
        case["events"] = evs
        w = Fraction(-lev if short else lev) * Fraction(rng.randint(6, 8), 8)
        if rng.random() < 0.25:
            # exact family: no spread, no fees, a spot contract quoted at 100 and a gap that makes NLV *exactly* 0
            # (2x long and the price halves, 4x long and -25%, 1x short and the price doubles)
            # ... or the asset goes to exactly zero / its bids vanish at zero while an offer remains (NLV < 0)
            options = [(2, "50", "50"), (4, "75", "75"), (-1, "200", "200")]
            if case["delay"] == 0 and j >= 2:
                # (only once a position is open: sizing a purchase at a zero price divides by zero in the library, which
                # is not what this property is about)
                options += [(2, "0", "0"), (3, "0", "1")]
            L, ruin, ruin_ask = rng.choice(options)
            case["contracts"] = [dict(key=k0, kind="ETF")] + case["contracts"][1:]
            case["fees"] = ["0", "0", "0"]
            case["space"] = dict(kind="box", low="-5", high="5", keys=keys, asWeights=1, fractional=1, margin="0")
            evs2 = []
            for e in evs:
                if e[0] == "q" and e[1] == k0:
                    latent_copy = mode == "latent" and lat > 0 and e[2] == grid[j - 1] + max(1, lat // 2)
                    gone = e[2] >= grid[j] or latent_copy
                    evs2.append(["q", k0, e[2], ruin if gone else "100", ruin_ask if gone else "100"])
                else:
                    evs2.append(e)
            case["events"] = evs2
            w = Fraction(L)
            case["_exact_zero"] = True
        n = len(grid) + 2
        ops = [["reset", None, 0]]
        for i in range(n):
            v = [fr(w if kk == k0 else Fraction(0)) for kk in keys]
            if i >= j and rng.random() < 0.5:
                v = ["0"] * len(keys)
            ops.append(["step", v])
        case["ops"] = ops
        case["_ruin_at"] = j
        return case

    def run_impl(self, case):
        r, s = es.run_case(case, self.COMPARE)
        if s.env is None or not s.obs:
            return r
        steps = [o for o in s.obs if o["op"][0] != "reset"]
        if any(o.get("nlv") is not None and abs(o["nlv"]) < Fraction(1, 10**6) and (o["nlv"] != 0 or not case.get("_exact_zero"))
               for o in s.obs):
            # (a double NLV of exactly 0.0 outside the exact family is a rounding accident too: the rational NLV of
            # the same inputs is a tiny non-zero number)
            # NLV within rounding distance of zero: which side of the `<= 0` test the doubles land on is not
            # decided by the logic (exactly-zero NLV is covered by the dyadic corpus case)
            r.skipped = "NLV within rounding distance of zero"
            return r
        ended = False
        prev_nlv = s.obs[0].get("nlv")

        fixed_fee, prop_fee, markup = (Fraction(x) for x in case.get("fees", ["0", "0", "0"]))
        no_interest = markup == 0 and not any(e[0] == "q" and e[1] == "RATE" and Fraction(e[3]) != 0 for e in case["events"]
                                              if e[3] != "nan")
        book = dict(basis={}, comm=Fraction(0), seen=0)

        def ledger_nlv(o):
            """NLV recomputed from the fills reported so far and the last quotes of the *input* stream: deposit -
            commissions + sum of multiplier x (position x liquidation quote - sum of quantity x fill price), for fully
            paid and margined contracts alike; independent of the valuation and of the marking under test"""
            tr_rec = s.env.broker.track_record
            while book["seen"] < min(len(tr_rec), o.get("nrec", 0)):
                for tr in tr_rec[book["seen"]].trades:
                    k, q, px = tr.contract.symbol, F(tr.quantity), F(tr.acq_price)
                    m = s.specs[k][0]
                    book["basis"][k] = book["basis"].get(k, Fraction(0)) + q * px
                    book["comm"] += fixed_fee + prop_fee * abs(q) * px * m
                book["seen"] += 1
            if o.get("now") is None or not no_interest:
                return None
            now = us(o["now"])
            tot = s.deposit - book["comm"]
            for k in set(o["pos"]) | set(book["basis"]):
                q = o["pos"].get(k, Fraction(0))
                m = s.specs[k][0]
                val = Fraction(0)
                if q != 0:
                    qs = [e for e in case["events"] if e[0] == "q" and e[1] == k and e[2] <= now]
                    if not qs:
                        return None
                    last = max(qs, key=lambda e: e[2])
                    px = last[3] if q > 0 else last[4]
                    if px == "nan":
                        return None
                    val = q * Fraction(px)
                tot += m * (val - book["basis"].get(k, Fraction(0)))
            return tot

        prev_ledger = ledger_nlv(s.obs[0])
        for i, o in enumerate(steps):
            st = o["status"]
            nlv = o.get("nlv")
            insolvent_before = prev_nlv is not None and prev_nlv <= 0
            if ended:
                if st != "err eoe":
                    r.fail("step-accepted-after-end", step=i, status=st, theorem="done_refuses")
                if o["pos"] != o["pos_before"] or o["nrec_after"] != o["nrec_before"]:
                    r.fail("state-changed-after-end", step=i, theorem="done_refuses")
                continue
            traded = o["pos"] != o["pos_before"] or o["nrec_after"] != o["nrec_before"]
            if insolvent_before and traded and not o["log"]:
                # insolvent when the decision was due (no latent event could have rescued it) and yet it traded
                r.fail("insolvent-account-traded", step=i, nlv_before=float(prev_nlv), theorem="insolvent_rebalance_no_trade")
            led = ledger_nlv(o)
            if st.startswith("ok"):
                if o.get("reward") is not None and nlv is not None and nlv <= 0:
                    r.fail("non-positive-nlv-reported", step=i, nlv=float(nlv), theorem="raising_valuation_positive")
                if led is not None and led <= -Fraction(1, 10**6) * s.deposit and not o["done"]:
                    # by the independent ledger the account is insolvent at the end of this step, yet the step neither
                    # reported done nor signalled the end of the episode
                    r.fail("insolvency-not-detected", step=i, ledger_nlv=float(led), reported_nlv=None if nlv is None else float(nlv),
                           theorem="valuation_raises_iff / ruin_step_reports_done",
                           clause="the episode ends at the first step after which NLV <= 0")
                if o["done"]:
                    ended = True
            elif st == "err rejected" and prev_ledger is not None and prev_ledger <= 0 and not o["log"] and not o["done_flag"]:
                # the account was insolvent when the decision was due (by the independent ledger; no latent event could
                # have rescued it): the step must end the episode, not fail with some other error and leave it running
                r.fail("insolvent-decision-did-not-end-episode", step=i, nlv_before=float(prev_ledger), error=o.get("exc"),
                       theorem="insolvent_decision_ends_episode / valuation_raises_iff",
                       clause="valuation signals end-of-episode ...; a decision arriving in that state ... ends the episode")
            elif st == "err eoe":
                r.tags.add("ruin-first-step" if i == 0 else "ruin-later")
                if not traded:
                    # the decision found the account insolvent: no trade, no record entry; the flag must be set
                    # (the call itself ends with the signal - the behaviour the suite pins)
                    r.tags.add("ruin-before-decision")
                    if not o["done_flag"]:
                        r.fail("insolvent-decision-did-not-end-episode", step=i, theorem="insolvent_decision_ends_episode")
                    ended = True
                else:
                    # the decision was executed (a record entry exists) and the account became insolvent during
                    # this step's post-trade events: step failed instead of reporting done
                    r.tags.add("ruin-during-events")
                    r.fail("ruin-step-raises", step=i, nlv=None if nlv is None else float(nlv), traded=traded,
                           theorem="ruin_step_reports_done (K2: false of the code; see ruin_step_escapes_witness)",
                           clause="the step during which the account first becomes insolvent reports done rather than failing")
                    if o["done_flag"]:
                        ended = True
            prev_nlv = nlv
            prev_ledger = led
        if ended and s.env is not None:
            # the episode has ended; a reset that the library refuses (an episode length that cannot fit) does not
            # reopen it: the next step is still refused - no trade, no record entry. (Implementation only: what a refused
            # reset leaves behind is not modelled.)
            try:
                s.env.reset(episode_length=10**6)
                refused = False
            except Exception:  # noqa
                refused = True
            if refused:
                r.tags.add("refused-reset-after-end")
                n0 = len(s.env.broker.track_record)
                try:
                    out = s.env.step(s.space.null_action())
                    r.fail("step-accepted-after-end", after="a refused reset", done=bool(out[2]),
                           records=(n0, len(s.env.broker.track_record)), theorem="done_refuses",
                           clause="from then on every further step is refused")
                except Exception:  # noqa
                    pass
        return r

    def classify(self, failure, case):
        if failure.get("kind") == "ruin-step-raises" and failure.get("traded"):
            return "K2"
        if failure.get("kind") == "ruin-step-raises":
            return "K2"
        return None


PROP = C09()
