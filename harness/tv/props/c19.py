"""C19 - futures calendars: expiry rules, cut-off before expiry, ordered chains."""
from __future__ import annotations

import calendar
import datetime as dt

from ..runner import ImplRun, Prop

CLASSES = ["ES", "NK", "VX", "ZQ", "ZT", "ZF", "ZN", "ZB"]
CODES = {1: "F", 2: "G", 3: "H", 4: "J", 5: "K", 6: "M", 7: "N", 8: "Q", 9: "U", 10: "V", 11: "X", 12: "Z"}
EPOCH = dt.datetime(1970, 1, 1)


def dn(d) -> int:
    if hasattr(d, "to_pydatetime"):
        d = d.to_pydatetime()
    return (d - EPOCH).days


def nth_friday(y, m, n):
    c = [d for d in range(1, calendar.monthrange(y, m)[1] + 1) if calendar.weekday(y, m, d) == 4]
    return dt.datetime(y, m, c[n - 1])


def spec_expiry(cls, y, m):
    """The rule as the property states it, computed with the standard library only."""
    if cls == "ES":
        return nth_friday(y, m, 3)
    if cls == "NK":
        return nth_friday(y, m, 2)
    if cls == "VX":
        y2, m2 = (y + 1, 1) if m == 12 else (y, m + 1)
        return nth_friday(y2, m2, 3) - dt.timedelta(days=30)
    last = calendar.monthrange(y, m)[1]
    d = dt.datetime(y, m, last)
    while d.weekday() > 4:
        d -= dt.timedelta(days=1)
    return d


class C19(Prop):
    id = "C19"
    driver = "Calendar"
    quick_n = 40
    thorough_n = 4000
    exhaustive_flag = True
    shrink_key = None
    rule = ("EXHAUSTIVE over the property's whole domain: every (class, year, month) with class in the eight built-in "
            "futures and year 1970..2099 (12 480 contracts): expiry, last trading date and symbol compared exactly with "
            "the model and with the rule computed from the standard library (refused constructor calls - a float year, month 13, a string year - interleaved); plus chain spans: all built-in classes, "
            "random (start, end) month pairs inside 1970..2099 including the full span, listing / ordering / unique "
            "symbols / discontinuation events, the latter two also with the shared simulation clock moved inside and past the span, and the events again after the caller edited the list it was given. Non-trivial = every case (each covers a whole class or a whole chain); "
            "distinct = distinct (class) / (class, span)")
    assumptions = [
        "pandas.date_range month/quarter-end enumeration is modelled (listing) and compared, not trusted",
        "dates are midnight datetimes; day numbers are days since 1970-01-01",
    ]

    def exhaustive_cases(self, tier):
        return [dict(kind="table", cls=c) for c in CLASSES]

    def gen(self, rng, tier):
        cls = rng.choice(CLASSES)
        y1 = rng.randint(1970, 2098)
        y2 = rng.randint(y1, min(2099, y1 + rng.choice([0, 1, 3, 12, 129])))
        m1, m2 = rng.randint(1, 12), rng.randint(1, 12)
        if (y1, m1) > (y2, m2):
            m1, m2 = m2, m1
        return dict(kind="chain", cls=cls, start=[y1, m1], end=[y2, m2])

    def run_impl(self, case):
        import tradingenv.contracts as tc

        r = ImplRun()
        cls = getattr(tc, case["cls"])
        name = case["cls"]
        if case["kind"] == "table":
            for y in range(1970, 2100):
                if y % 3 == 0:
                    # a constructor call the library refuses (a float year) right before the contracts of that very
                    # year are built: the refusal leaves nothing behind
                    for bad in ((y, 13), (str(y), 6), (float(y), 3)):
                        try:
                            cls(*bad)
                        except Exception:  # noqa
                            pass
                for m in range(1, 13):
                    f = cls(y, m)
                    e, l = f.expiry, f.last_trading_date
                    r.op(f"exp {name} {y} {m}", f"{dn(e)} {dn(l)} {f.symbol}")
                    want = spec_expiry(name, y, m)
                    e_py = e.to_pydatetime() if hasattr(e, "to_pydatetime") else e
                    if e_py != want:
                        r.fail("expiry-rule", cls=name, year=y, month=m, expiry=str(e_py.date()), expected=str(want.date()),
                               theorem="es_expiry_third_friday_domain / nk_... / vx_expiry_domain / treasury_expiry_domain")
                    if not (l < e):
                        r.fail("cutoff-not-before-expiry", cls=name, year=y, month=m, ltd=str(l), expiry=str(e), theorem="ltd_lt_expiry")
                    sym = name + CODES[m] + f"{y % 100:02d}"
                    if f.symbol != sym:
                        r.fail("symbol", cls=name, year=y, month=m, symbol=f.symbol, expected=sym, theorem="symbol_spec")
                    evs = f.make_events()
                    if len(evs) != 1 or evs[0].time != e or evs[0].contract is not f:
                        r.fail("discontinuation-event", cls=name, year=y, month=m)
            r.tags.add("table")
            return r
        (y1, m1), (y2, m2) = case["start"], case["end"]
        start, end = dt.datetime(y1, m1, 1), dt.datetime(y2, m2, calendar.monthrange(y2, m2)[1])
        try:
            ch = tc.FutureChain(cls, start, end)
        except Exception as e:  # noqa
            r.op(f"listing {name} {dn(start)} {dn(end)}", "err")
            r.fail("chain-cannot-be-built", cls=name, start=str(start.date()), end=str(end.date()),
                   error=f"{type(e).__name__}: {str(e)[:120]}", theorem="listing / chain_strictly_increasing",
                   clause="a chain built from any built-in class over any span lists its contracts ...")
            return r
        syms = [c.symbol for c in ch.contracts]
        r.op(f"listing {name} {dn(start)} {dn(end)}", ",".join(syms) if syms else "-")
        exps = [c.expiry for c in ch.contracts]
        ltds = [c.last_trading_date for c in ch.contracts]
        if any(b <= a for a, b in zip(exps, exps[1:])) or any(b <= a for a, b in zip(ltds, ltds[1:])):
            r.fail("chain-not-increasing", cls=name, theorem="chain_strictly_increasing_*")
        if y2 - y1 < 100 and len(set(syms)) != len(syms):
            r.fail("symbols-not-unique", cls=name, theorem="symbols_unique_within_century")
        evs = ch.make_events()
        if [(e.time, e.contract.symbol) for e in evs] != list(zip(exps, syms)):
            r.fail("chain-events", cls=name)
        # the list handed out belongs to the caller: whatever the caller does to it (merging the events of several
        # chains with +=, draining it, trimming it) the chain still answers with one event per contract
        mine = ch.make_events()
        how = (len(syms) + y1 + m1) % 3
        if how == 0:
            mine += ch.make_events()
        elif how == 1:
            mine.clear()
        else:
            del mine[len(mine) // 2:]
        again = ch.make_events()
        if [(e.time, e.contract.symbol) for e in again] != list(zip(exps, syms)):
            r.fail("chain-events", cls=name, after="the caller edited the list returned earlier", events=len(again), contracts=len(syms),
                   clause="exactly one discontinuation event per contract stamped at its expiry")
        # "exactly one discontinuation event per contract" whatever the shared simulation clock shows: the clock is a
        # class attribute left wherever the previous environment of the process stopped
        saved = tc.AbstractContract.now
        try:
            mid = start + (end - start) / 2
            for label, clock in (("mid-span", mid), ("after-span", end + dt.timedelta(days=400)),
                                 ("on-an-expiry", exps[len(exps) // 2] if exps else mid)):
                clock = clock.to_pydatetime() if hasattr(clock, "to_pydatetime") else clock
                tc.AbstractContract.now = clock
                evs2 = ch.make_events()
                if [(e.time, e.contract.symbol) for e in evs2] != list(zip(exps, syms)):
                    r.fail("chain-events", cls=name, clock=label, events=len(evs2), contracts=len(syms),
                           clause="exactly one discontinuation event per contract stamped at its expiry")
                    break
                ch2 = tc.FutureChain(cls, start, end)
                if [c.symbol for c in ch2.contracts] != syms:
                    r.fail("chain-listing", cls=name, clock=label, theorem="listing",
                           clause="a chain built over a span lists its contracts (whatever the clock shows)")
                    break
        finally:
            tc.AbstractContract.now = saved
        # the listing: contract months whose month end lies in the span, at the class's frequency
        want = []
        y, m = y1, m1
        while (y, m) <= (y2, m2):
            if name == "VX" or m % 3 == 0:
                want.append(name + CODES[m] + f"{y % 100:02d}")
            y, m = (y + 1, 1) if m == 12 else (y, m + 1)
        if syms != want:
            r.fail("chain-listing", cls=name, listed=len(syms), expected=len(want), theorem="listing")
        r.tags.add("chain")
        return r


PROP = C19()
