"""C08 - decision-to-execution timing: FIFO delay and latency pricing."""
from __future__ import annotations

from fractions import Fraction

from .. import envstream as es
from ..core import F, us
from ..runner import Prop
from .c04 import expected_delivery, is_market


class C08(Prop):
    id = "C08"
    driver = "Env"
    quick_n = 250
    thorough_n = 20000
    rule = ("bar-shaped episodes with a distinct action at every step (a constant action cannot reveal reordering), "
            "execution delays 0..4, box and discrete spaces, latency 0 .. min gap - 1 s with extra quotes exactly at, "
            "inside and just after the latency bound, all episode lengths up to the grid. Non-trivial = delay >= 1 "
            "with more steps than the delay, or a quote inside (t, t+latency] that changes the execution price, or a "
            "discrete space with delay, or a repeated episode on the same environment; distinct = distinct cases")
    rule = rule + "; a few per cent of the cases use pandas Timestamps at nanosecond resolution (grid points with a sub-microsecond part, quotes 400 ns .. 3 us after a grid point, a latency of 1.5 us in C08), judged by the oracle alone" + es.CONTEXT_RULE
    nontrivial_tags = {"nanosecond-stamps", "delay-active", "latent-reprices", "discrete-delay", "repeated-episode"}
    assumptions = [
        "the box space contains the zero vector whenever delay > 0 (otherwise the implementation's own null action is "
        "out of its space and the first step is refused - documented in DESIGN.md)",
        "latency and offsets are whole microseconds",
    ]
    COMPARE = {"ereset", "log", "step", "stepi", "state", "nrec"}

    def gen(self, rng, tier):
        if rng.random() < 0.05:
            return es.gen_ns_case(rng, rng.choice([0, 1500, 1500]))
        case, grid, keys = es.gen_episode(rng, tier, delay=rng.choice([0, 1, 1, 2, 3, 4]), markov=False, warmup=None)
        sp = case["space"]
        if sp["kind"] == "box" and case["delay"] > 0 and not (Fraction(sp["low"]) <= 0 <= Fraction(sp["high"])):
            sp["low"] = "0"
        nsteps = rng.randint(1, len(grid) - 1)
        ops = [["reset", None, 0]]
        used = set()
        for i in range(nsteps):
            if sp["kind"] == "box":
                while True:
                    v = [str(Fraction(rng.randint(0, 64), 64) * (Fraction(sp["high"]) - max(Fraction(sp["low"]), 0)) / len(sp["keys"]))
                         for _ in sp["keys"]]
                    if tuple(v) not in used:
                        used.add(tuple(v))
                        break
                ops.append(["step", v])
            else:
                ops.append(["stepi", (i + rng.randint(0, 1)) % len(sp["allocs"])])
        if rng.random() < 0.35:
            # repeated episodes on one environment: the timing claims hold in every episode, not only the first
            again = [["reset", None, 0]] + [list(o) for o in ops[1:]]
            rng.shuffle(again[1:]) if False else None
            ops = ops + again
        case["ops"] = ops
        return case

    def run_impl(self, case):

        if case.get("kind") == "ns":
            # nanosecond-resolution pandas stamps: judged by the oracle alone (the model's unit is the microsecond)
            from ..runner import ImplRun as _IR
            r = _IR()
            es.judge_ns_case(r, case, es.run_ns_case(case), exec_prices=bool(case.get("latency_ns")))
            return r
        r, s = es.run_case(case, self.COMPARE)
        if s.env is None:
            return r
        d = case.get("delay", 0)
        sp = case["space"]
        episodes, cur = [], None
        for o in s.obs:
            if o["op"][0] == "reset":
                cur = dict(reset=o, steps=[])
                episodes.append(cur)
            elif cur is not None:
                cur["steps"].append(o)
        if len(episodes) > 1:
            r.tags.add("repeated-episode")
        quotes = _quotes_by_event(s)
        for ep in episodes:
            self.judge_episode(r, s, case, ep["reset"], ep["steps"], d, sp, quotes)
        return r

    def judge_episode(self, r, s, case, reset, steps_obs, d, sp, quotes):
        if not reset["status"].startswith("ok"):
            return
        if d >= 1 and len(steps_obs) > d:
            r.tags.add("delay-active")
        if d >= 1 and sp["kind"] == "disc":
            r.tags.add("discrete-delay")
        steps, reset_batch, later = expected_delivery(s, reset["lo"], reset["hi"], reset["start"])
        delivered = list(reset_batch)
        for k_i, so in enumerate(steps_obs):
            if not so["status"].startswith("ok") or k_i >= len(later):
                if k_i < len(later) and so["status"] != "ok" and "does not belong" in (so.get("exc") or ""):
                    # a due, in-space action must not be refused
                    r.fail("step-refused", step=k_i, status=so["status"], exc=so.get("exc"),
                           theorem="null_action_in_space / fifo_delay",
                           clause="a null action is executed for the first d steps")
                break
            latent, nonlatent, p = later[k_i]
            # --- which decision is executed now
            want = None if k_i < d else steps_obs[k_i - d]["op"]
            reb = so["info"].get("_rebalancing") if so.get("info") else None
            if reb is not None:
                got = {c.symbol: F(v) for c, v in reb.allocation.items()}
                exp = _denote(sp, want)
                if got != exp:
                    r.fail("wrong-decision-executed", step=k_i, delay=d, executed={k: float(v) for k, v in got.items()},
                           expected={k: float(v) for k, v in exp.items()}, theorem="fifo_delay_get",
                           clause="the allocation executed is the one submitted d decisions earlier (null for the first d)")
                # --- pricing: last quote per contract among reset batch + ... + this step's latent batch
                seen = delivered + latent
                for tr in reb.trades:
                    k = tr.contract.symbol
                    bidask = _last_quote(quotes, seen, k)
                    if bidask is not None:
                        px = bidask[1] if tr.quantity > 0 else bidask[0]
                        if F(tr.acq_price) != px:
                            r.fail("execution-price", step=k_i, key=k, price=float(tr.acq_price), expected=float(px),
                                   theorem="execution_books / rebalance_trades_use_current_quotes",
                                   clause="priced at the last quotes stamped <= t + latency")
                        pre = _last_quote(quotes, delivered, k)
                        if pre is not None and pre != bidask:
                            r.tags.add("latent-reprices")
            delivered += latent + nonlatent


def _quotes_by_event(s):
    from tradingenv.events import EventNBBO

    out = {}
    for e in s.tx.events:
        if isinstance(e, EventNBBO):
            out.setdefault(("q:" + e.contract.symbol, us(e.time)), []).append((F(e.bid_price), F(e.ask_price)))
    return out


def _last_quote(quotes, seen, k):
    """bid/ask of the last delivered quote for k (ties at the same timestamp: insertion order)."""
    count = {}
    last = None
    for kd, t in seen:
        if kd == "q:" + k:
            i = count.get((kd, t), 0)
            count[(kd, t)] = i + 1
            last = quotes[(kd, t)][i]
    return last


def _denote(sp, op):
    keys = sp["keys"]
    if op is None:
        vals = [Fraction(0)] * len(keys) if sp["kind"] == "box" else [Fraction(x) for x in sp["allocs"][0]]
    elif op[0] == "step":
        vals = [F(float(Fraction(v))) for v in op[1]]
    else:
        vals = [F(float(Fraction(x))) for x in sp["allocs"][op[1]]]
    return {k: v for k, v in zip(keys, vals) if k != "USD" and v != 0}


PROP = C08()
