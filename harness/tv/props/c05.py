"""C05 - margin account invariant and NLV decomposition."""
from __future__ import annotations

from fractions import Fraction

from .. import brokerstream as bs
from ..runner import Prop
from .c01 import tags_for


class C05(Prop):
    id = "C05"
    driver = "Broker"
    quick_n = 350
    thorough_n = 40000
    rule = ("same broker histories as C01; observation after every trade, mark-to-market call and valuation; "
            "non-trivial = a margined contract is held short or flipped, or >= 2 margined contracts are held at once, "
            "or a user-defined margin requirement other than the built-ins is used, or a spot contract with "
            "multiplier != 1 is valued; distinct = distinct canonical histories")
    rule = rule + bs.HISTORY_RULE
    nontrivial_tags = {"short-margined", "flip", "two-margined", "user-mr", "spot-mult"}
    assumptions = [
        "cash book quoted 1.0:1.0 and reference-rate book seeded, as TradingEnv.reset does",
        "real-valued observables compared within 1e-9 x gross scale",
    ]
    COMPARE = {"state", "nlv", "values", "weights", "mark", "markall", "tradeq", "trade"}

    def exhaustive_cases(self, tier):
        # thorough tier: every history of up to 4 operations over a small two-contract alphabet (11 110 histories)
        return bs.small_scope_histories(4) if tier == "thorough" else []

    def gen(self, rng, tier):
        return bs.gen_history(rng, tier)

    def run_impl(self, case):
        r, s = bs.run_case(case, self.COMPARE)
        judge_c05(r, s)
        return r


def judge_c05(r, s):
    tags_for(r, s)
    from .c01 import snap_fired
    if snap_fired(s):
        r.skipped = "epsilon snap fired (K1)"
        return
    for c in s.case["contracts"]:
        if c["kind"] == "user" and c["mr"] not in ("0",):
            r.tags.add("user-mr")
    for i, o in enumerate(s.obs):
        tol = o["tol"] * 10
        kind = o["op"][0]
        # which contracts must satisfy the margin invariant at this observation point
        if kind in ("tradeq", "trade") and o.get("status") == "ok":
            must = [o["traded"]]
        elif kind in ("mark",):
            must = o["marked"]
        elif kind in ("markall", "nlv", "weights") or (kind == "rebal" and o.get("status") == "ok"):
            must = list(s.specs) if o.get("status", "ok") == "ok" or kind == "markall" else []
        else:
            must = []
        for k in s.specs:
            m, cr, mr = s.specs[k]
            mg = o["margins"].get(k, Fraction(0))
            q = o["pos"].get(k, Fraction(0))
            if mr == 0:
                if mg != 0:
                    r.fail("spot-margin", op_index=i, op=o["op"], key=k, margin=float(mg), theorem="spot_margin_zero")
                continue
            if q < 0:
                r.tags.add("short-margined")
            b0, a0 = o["quotes"].get(k, (None, None))
            priced = q == 0 or (b0 if q > 0 else a0) is not None
            if mg < -tol and priced and k in must:
                # (the property speaks of the moments the account is valued or marked and, for the traded contract, right
                # after a trade; a held position without a quote on its liquidation side cannot be marked at all)
                r.fail("margin-negative", op_index=i, op=o["op"], key=k, margin=float(mg), theorem="margin_nonneg")
            if k in must:
                b, a = o["quotes"].get(k, (None, None))
                p = b if q > 0 else a if q < 0 else Fraction(0)   # flat: zero margin, whatever the book (F11)
                if p is None:
                    continue
                want = mr * m * abs(q) * p
                if abs(mg - want) > tol:
                    r.fail("margin-invariant", op_index=i, op=o["op"], key=k, margin=float(mg), expected=float(want),
                           theorem="mtm_margin_eq / transact_margin_eq",
                           clause="margin = requirement x multiplier x |position| x liquidation price")
        if o.get("ctx") is not None:
            # Broker.context(): the quantities, cash and margins it reports are those of the account at that moment (the
            # marked state the NLV in the same snapshot was computed from)
            cx = o["ctx"]
            bad = abs(cx["cash"] - o["cash"]) > tol
            for k in s.specs:
                if abs(cx["pos"].get(k, Fraction(0)) - o["pos"].get(k, Fraction(0))) > tol:
                    bad = True
                if abs(cx["margins"].get(k, Fraction(0)) - o["margins"].get(k, Fraction(0))) > tol:
                    bad = True
            if bad:
                r.fail("context-snapshot-inconsistent", op_index=i, reported_cash=float(cx["cash"]), cash=float(o["cash"]),
                       theorem="nlv_decomposition", clause="cash + all posted margins + liquidation value of fully-paid "
                       "positions equals the reported NLV (fields of one Broker.context() snapshot)")
        if o.get("nlv") is not None:
            tot, ok = o["cash"], True
            for k, (m, cr, mr) in s.specs.items():
                q = o["pos"].get(k, Fraction(0))
                tot += o["margins"].get(k, Fraction(0))
                if mr == 0 and q != 0:
                    b, a = o["quotes"].get(k, (None, None))
                    p = b if q > 0 else a
                    if p is None:
                        ok = False
                        break
                    tot += m * q * p
            if ok and abs(tot - o["nlv"]) > tol:
                r.fail("nlv-decomposition", op_index=i, op=o["op"], reported=float(o["nlv"]), recomputed=float(tot),
                       theorem="nlv_decomposition")
        if o.get("weights") is not None and o.get("status") == "ok":
            # weight = pos * liq * mult / NLV, with NLV recomputed from the decomposition
            nlv = o["cash"]
            vals = {}
            ok = True
            for k, (m, cr, mr) in s.specs.items():
                q = o["pos"].get(k, Fraction(0))
                nlv += o["margins"].get(k, Fraction(0))
                if q != 0:
                    b, a = o["quotes"].get(k, (None, None))
                    p = b if q > 0 else a
                    if p is None:
                        ok = False
                        break
                    vals[k] = q * p * m
                    if mr == 0:
                        nlv += m * q * p
            if ok and nlv > 0:
                for k, v in vals.items():
                    got = o["weights"].get(k, Fraction(0))
                    if abs(got - v / nlv) > Fraction(1, 10**8) * max(1, abs(v / nlv)):
                        r.fail("weight-def", op_index=i, op=o["op"], key=k, reported=float(got), expected=float(v / nlv),
                               theorem="weight_def")


PROP = C05()
