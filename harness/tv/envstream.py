"""Episodes: build the real TradingEnv from a case, observe it through a recording Feature and public
API, emit the same configuration and operations as protocol lines for the Lean Env driver.

Used by C02, C04, C07, C08, C09, C10, C15, C17 (each compares / judges only its own observables)."""
from __future__ import annotations

import datetime as dt
import math
from fractions import Fraction

from .brokerstream import DAY, T0, make_contract, spec_of
from .core import F, fr, from_us, us
from .runner import ImplRun

LO, HI = us(dt.datetime(1900, 1, 1)), us(dt.datetime(2200, 1, 1))
SEC = 1_000_000


def _classes():
    from tradingenv.events import IEvent
    from tradingenv.features import Feature

    class EvCustom(IEvent):
        def __init__(self, time, ident):
            self.time = time
            self.ident = ident

    class Recorder(Feature):
        """Subscribed to every event type; logs (kind, event.time, env.now())."""

        def __init__(self, sink, holder):
            super().__init__()
            self.sink = sink
            self.holder = holder

        def _rec(self, kind, event):
            env = self.holder.get("env")
            self.sink.append((kind, event.time, env.now() if env is not None else None))

        def _bench(self, event):
            # a benchmark account kept by this feature on the environment's own Exchange object: it buys or sells a few
            # units of every contract at its first two-sided quote and is valued at every quote, i.e. between the quote
            # update and the environment's own valuation of the same step
            if not self.holder.get("bench") or self.exchange is None:
                return
            try:
                import math
                from tradingenv.broker.broker import Broker
                from tradingenv.broker.trade import Trade

                if getattr(self, "_acct_ex", None) is not self.exchange:
                    self._acct = Broker(self.exchange, deposit=54321.0)
                    self._acct_ex, self._acct_pos = self.exchange, set()
                c = event.contract
                if type(c).__name__ not in ("Cash", "Rate") and c.symbol not in self._acct_pos:
                    book = self.exchange[c]
                    if math.isfinite(book.bid_price) and math.isfinite(book.ask_price):
                        q = 3.0 if len(self._acct_pos) % 2 == 0 else -2.0
                        self._acct.transact(Trade(event.time, c, q, book.bid_price, book.ask_price, self._acct.fees))
                        self._acct_pos.add(c.symbol)
                self._acct.net_liquidation_value(False)
            except Exception:  # noqa  (whatever happens to the benchmark account is not what is being judged)
                pass

        def process_EventNBBO(self, event):
            self._rec("q:" + event.contract.symbol, event)
            self._bench(event)

        def process_EventContractDiscontinued(self, event):
            self._rec("d:" + event.contract.symbol, event)

        def process_EvCustom(self, event):
            self._rec(f"c:{event.ident}", event)

        def process_EventNewDate(self, event):
            self._rec("newdate", event)

        def process_EventReset(self, event):
            self._rec("reset", event)

        def process_EventStep(self, event):
            self._rec("step", event)

        def process_EventDone(self, event):
            self._rec("done", event)

    class Age(Feature):
        """A feature that observes no event and keeps its state in `parse` (the number of observations served since the
        start of the episode): `reset` re-runs `__init__`, so it starts afresh with every episode."""

        def __init__(self):
            import gymnasium.spaces
            import numpy as np

            super().__init__(space=gymnasium.spaces.Box(0.0, np.inf, (1,), float))
            self.n = 0

        def parse(self):
            import numpy as np

            self.n += 1
            return np.array([float(self.n)])

    return EvCustom, Recorder, Age


def _feature_obs(obs):
    """what the parse-only feature contributed to the observation (None when the state serves no dictionary)"""
    try:
        v = obs["Age"]
        return float(v[0])
    except Exception:  # noqa
        return None


def ot(t) -> str:
    return "none" if t is None else str(us(t))


class EnvSession:
    def __init__(self, case: dict, run: ImplRun, name: str = "A", emit_use: bool = False):
        import numpy as np
        from tradingenv.broker.fees import BrokerFees
        from tradingenv.contracts import Cash, Rate
        from tradingenv.env import TradingEnv
        from tradingenv.events import EventContractDiscontinued, EventNBBO
        from tradingenv.spaces import BoxPortfolio, DiscretePortfolio
        from tradingenv.state import IState
        from tradingenv.transmitter import Transmitter
        import tradingenv.rewards as rw

        EvCustom, Recorder, Age = _classes()
        self.case, self.r, self.name = case, run, name
        self.emit_use = emit_use
        r = run
        self.objs = {c["key"]: make_contract(c) for c in case["contracts"]}
        self.chains = {}
        for ch in case.get("chains", []):
            from tradingenv.contracts import FutureChain
            import tradingenv.contracts as tc
            self.chains[ch["name"]] = FutureChain(getattr(tc, ch["cls"]), ch["start"], ch["end"], month=ch.get("month", 0))
            for c in self.chains[ch["name"]].contracts:
                self.objs.setdefault(c.symbol, c)
        self.specs = {k: (F(o.multiplier), F(o.cash_requirement), F(o.margin_requirement)) for k, o in self.objs.items()}
        fixed, prop, markup = (float(Fraction(x)) for x in case.get("fees", ["0", "0", "0"]))
        self.fixed, self.prop, self.markup = F(fixed), F(prop), F(markup)
        self.rate = Rate("RATE")
        folds = None
        if case.get("folds"):
            folds = {k: [from_us(a), from_us(b)] for k, (a, b) in case["folds"].items()}
        wu = case.get("warmup")
        grow = case.get("grow_after") if folds else None
        grid_all = sorted(set(case["grid"]))
        if grow is not None and not (1 <= grow < len(grid_all)):
            grow = None
        tx = Transmitter([from_us(t) for t in (grid_all[:grow] if grow is not None else case["grid"])], folds,
                         bool(case.get("markov", False)), None if wu is None else dt.timedelta(microseconds=wu))
        evs = []
        for e in case["events"]:
            if e[0] == "q":
                _, k, t, b, a = e
                obj = self.rate if k == "RATE" else self.objs[k]
                evs.append(EventNBBO(from_us(t), obj, float("nan") if b == "nan" else float(Fraction(b)),
                                     float("nan") if a == "nan" else float(Fraction(a))))
            elif e[0] == "d":
                evs.append(EventContractDiscontinued(from_us(e[2]), self.objs[e[1]]))
            else:
                evs.append(EvCustom(from_us(e[2]), e[1]))
        if grow is None:
            tx.add_events(evs)
        else:
            cut = from_us(grid_all[grow - 1])
            tx.add_events([e for e in evs if e.time <= cut])
        sp = case["space"]
        keys = []
        for k in sp["keys"]:
            keys.append(Cash() if k == "USD" else self.chains[k[1:]] if k.startswith("@") else self.objs[k])
        if sp["kind"] == "box" and sp.get("lows") is not None:
            # a box with its own bounds for every contract (array `low` / `high`)
            space = BoxPortfolio(keys, np.array([float(Fraction(x)) for x in sp["lows"]]),
                                 np.array([float(Fraction(x)) for x in sp["highs"]]),
                                 as_weights=bool(sp.get("asWeights", 1)), fractional=bool(sp.get("fractional", 1)),
                                 margin=float(Fraction(sp.get("margin", "0"))))
        elif sp["kind"] == "box":
            space = BoxPortfolio(keys, float(Fraction(sp["low"])), float(Fraction(sp["high"])),
                                 as_weights=bool(sp.get("asWeights", 1)), fractional=bool(sp.get("fractional", 1)),
                                 margin=float(Fraction(sp.get("margin", "0"))))
        else:
            space = DiscretePortfolio(keys, [[float(Fraction(x)) for x in a] for a in sp["allocs"]],
                                      as_weights=bool(sp.get("asWeights", 1)), fractional=bool(sp.get("fractional", 1)))
        rk = case.get("reward", "simple")
        if rk == "simple":
            reward = rw.RewardSimpleReturn()
        elif rk == "pnl":
            reward = rw.RewardPnL()
        elif rk == "log":
            reward = rw.RewardLogReturn()
        else:
            _, sc, cl, ra = rk
            reward = rw.LogReturn(float(Fraction(sc)), float(Fraction(cl)), float(Fraction(ra)))
        self.sink: list = []
        self.holder: dict = {}
        if case.get("bench_account"):
            self.holder["bench"] = True
            run.tags.add("second-account-on-exchange")
        rec = Recorder(self.sink, self.holder)
        lat_us = int(case.get("latency", 0))
        self.deposit = F(float(Fraction(case.get("deposit", "100000"))))
        self.build_error = None
        if grow is not None:
            # the Transmitter first holds only the beginning of the data and serves another environment on every
            # fold; the rest of the timesteps and events is appended afterwards (add_timesteps / add_events), and the
            # environment under test is then built on it: its episodes are those of the whole data
            try:
                if sp["kind"] == "box":
                    space0 = BoxPortfolio(keys, float(Fraction(sp.get("low", "0"))), float(Fraction(sp.get("high", "1"))))
                else:
                    space0 = DiscretePortfolio(keys, [[float(Fraction(x)) for x in a] for a in sp["allocs"]])
                env0 = TradingEnv(action_space=space0, transmitter=tx, initial_cash=float(self.deposit),
                                  broker_fees=BrokerFees(markup, self.rate, prop, fixed), latency=lat_us / 1e6, steps_delay=0)
                for fold0 in folds:
                    try:
                        env0.reset(fold0)
                        env0.step(space0.null_action())
                    except Exception:  # noqa  (a fold that is still empty, ...)
                        pass
            except Exception:  # noqa
                pass
            cut = from_us(grid_all[grow - 1])
            tx.add_timesteps([from_us(t) for t in grid_all[grow:]])
            tx.add_events([e for e in evs if e.time > cut])
            run.tags.add("transmitter-grown")
        if case.get("pre_env_latency") is not None:
            # the same Transmitter object first serves another environment, built with a different latency and
            # run for a reset and a step: nothing of that may leak into the environment under test
            try:
                if sp["kind"] == "box":
                    space0 = BoxPortfolio(keys, float(Fraction(sp["low"])), float(Fraction(sp["high"])))
                else:
                    space0 = DiscretePortfolio(keys, [[float(Fraction(x)) for x in a] for a in sp["allocs"]])
                env0 = TradingEnv(action_space=space0, transmitter=tx, initial_cash=float(self.deposit),
                                  broker_fees=BrokerFees(markup, self.rate, prop, fixed),
                                  latency=int(case["pre_env_latency"]) / 1e6, steps_delay=0)
                env0.reset()
                env0.step(space0.null_action())
            except Exception:  # noqa  (whatever happens to the other environment is not what is being judged)
                pass
            run.tags.add("shared-transmitter")
        # a state that records its history deep-copies every observation: the recording observer (which holds the
        # whole environment) is left out of it then; such cases do not use the observer log
        feats = [Age()] if case.get("state_save") else [rec, Age()]
        try:
            if case.get("via_prices"):
                # the convenience route: the market data is handed over as a price frame (`prices=`), the library
                # builds the Transmitter itself (one quote per row and column, no spread). The case's events are
                # exactly those quotes.
                import pandas as pd

                cols = {}
                for e in case["events"]:
                    assert e[0] == "q" and e[3] == e[4], "via_prices: one bid=ask quote per grid point and contract"
                    cols.setdefault(e[1], {})[from_us(e[2])] = float(Fraction(e[3]))
                frame = pd.DataFrame({self.objs[k]: pd.Series(v) for k, v in cols.items()}).sort_index()
                self.env = TradingEnv(action_space=space, state=IState(feats, save=bool(case.get("state_save", False))),
                                      reward=reward, prices=frame, initial_cash=float(self.deposit),
                                      broker_fees=BrokerFees(markup, self.rate, prop, fixed), latency=lat_us / 1e6,
                                      steps_delay=int(case.get("delay", 0)), episode_length=case.get("eplen"))
                tx = self.env._transmitter
                run.tags.add("prices-route")
            else:
                self.env = TradingEnv(action_space=space, state=IState(feats, save=bool(case.get("state_save", False))), reward=reward, transmitter=tx,
                                      initial_cash=float(self.deposit), broker_fees=BrokerFees(markup, self.rate, prop, fixed),
                                      latency=lat_us / 1e6, steps_delay=int(case.get("delay", 0)),
                                      episode_length=case.get("eplen"))
            self.holder["env"] = self.env
        except ValueError as e:
            self.env = None
            self.build_error = str(e)
        self.tx = tx
        self.space = space
        self.sibling = None
        if case.get("sibling") and self.env is not None:
            # another live environment of the same process (own transmitter, own broker, a delay of one step),
            # stepped with null actions right before every step of the environment under test
            try:
                # its own data: a sub-grid of the same timesteps and the default single fold (same fold *name*,
                # another window)
                g1 = sorted(set(case["grid"]))
                g1 = g1[1:-1] if len(g1) >= 5 else g1
                tx1 = Transmitter([from_us(t) for t in g1], None, bool(case.get("markov", False)),
                                  None if wu is None else dt.timedelta(microseconds=wu))
                tx1.add_events(list(evs))
                if sp["kind"] == "box":
                    space1 = BoxPortfolio(keys, float(Fraction(sp["low"])), float(Fraction(sp["high"])))
                else:
                    space1 = DiscretePortfolio(keys, [[float(Fraction(x)) for x in a] for a in sp["allocs"]])
                env1 = TradingEnv(action_space=space1, transmitter=tx1, initial_cash=float(self.deposit),
                                  broker_fees=BrokerFees(markup, self.rate, prop, fixed), latency=lat_us / 1e6,
                                  steps_delay=1)
                env1.reset()
                self.sibling = (env1, space1)
                run.tags.add("sibling-environment")
            except Exception:  # noqa
                self.sibling = None
        self.seen = 0
        self.obs: list[dict] = []
        # ---- protocol: configuration
        if emit_use:
            r.op(f"use {name}")
        for k, (m, cr, mr) in self.specs.items():
            r.op(f"spec {k} {fr(m)} {fr(cr)} {fr(mr)} 0")
        r.op("spec USD 1 1 0 1")
        r.op(f"fees {fr(self.fixed)} {fr(self.prop)} {fr(self.markup)} RATE")
        r.op(f"deposit {fr(self.deposit)}")
        r.op("grid " + " ".join(str(t) for t in case["grid"]))
        # every event the transmitter holds (the constructor adds the contracts' own events), in its order
        for e in tx.events:
            if isinstance(e, EventNBBO):
                r.op(f"evq {e.contract.symbol} {us(e.time)} {fr(e.bid_price)} {fr(e.ask_price)}")
            elif isinstance(e, EventContractDiscontinued):
                r.op(f"evd {e.contract.symbol} {us(e.time)}")
            else:
                r.op(f"evc {e.ident} {us(e.time)}")
        r.op(f"latency {lat_us}")
        r.op(f"delay {int(case.get('delay', 0))}")
        r.op(f"markov {int(bool(case.get('markov', False)))}")
        r.op(f"warmup {'none' if wu is None else wu}")
        for name_, ch in self.chains.items():
            r.op("chain @{} {} {}".format(name_, ch._month, " ".join(
                f"{us(c.last_trading_date)}:{c.symbol}" for c in ch.contracts)))
        if sp["kind"] == "box" and sp.get("lows") is not None:
            r.op("space boxv {} {} {} {} {} {}".format(
                int(sp.get("asWeights", 1)), int(sp.get("fractional", 1)), fr(float(Fraction(sp.get("margin", "0")))),
                len(sp["lows"]),
                " ".join("{}:{}".format(fr(float(Fraction(a))), fr(float(Fraction(b)))) for a, b in zip(sp["lows"], sp["highs"])),
                " ".join(sp["keys"])))
        elif sp["kind"] == "box":
            r.op("space box {} {} {} {} {} {}".format(
                fr(float(Fraction(sp["low"]))), fr(float(Fraction(sp["high"]))), int(sp.get("asWeights", 1)),
                int(sp.get("fractional", 1)), fr(float(Fraction(sp.get("margin", "0")))), " ".join(sp["keys"])))
        else:
            r.op("space disc {} {} {}".format(int(sp.get("asWeights", 1)), int(sp.get("fractional", 1)), " ".join(sp["keys"])))
            for a in sp["allocs"]:
                r.op("alloc " + " ".join(fr(float(Fraction(x))) for x in a))
        if rk in ("simple", "pnl", "log"):
            r.op(f"reward {rk}")
        else:
            r.op("reward logret {} {} {}".format(*(fr(float(Fraction(x))) for x in rk[1:])))
        el = case.get("eplen")
        r.op(f"eplen {'none' if el is None else el + 1}")
        r.op("build", "ok" if self.env is not None else "err rejected")

    # ------------------------------------------------------------------ helpers
    def fold_bounds(self, fold):
        if self.case.get("folds") and fold in self.case["folds"]:
            a, b = self.case["folds"][fold]
            return a, b
        return LO, HI

    def new_log(self):
        new = self.sink[self.seen:]
        self.seen = len(self.sink)
        return new

    def log_line(self, entries):
        return ";".join(f"{k}@{ot(t)}@{ot(c)}" for k, t, c in entries) if entries else "-"

    def positions(self):
        hq = self.env.broker.holdings_quantity
        return {c.symbol: F(v) for c, v in hq.items() if c.symbol != "USD"}

    def state_line(self):
        hq, hm = self.env.broker.holdings_quantity, self.env.broker.holdings_margins
        from .brokerstream import kv
        cash = [F(v) for c, v in hq.items() if c.symbol == "USD"]
        pos = {c.symbol: F(v) for c, v in hq.items() if c.symbol != "USD"}
        mar = {c.symbol: F(v) for c, v in hm.items() if c.symbol != "USD"}
        return f"{fr(cash[0] if cash else 0)} pos={kv(pos)} margin={kv(mar)}"

    def scale(self):
        return max(abs(self.deposit), 1) * 100

    # ------------------------------------------------------------------ ops
    def do(self, op):
        import numpy as np
        from tradingenv.broker.broker import EndOfEpisodeError

        r = self.r
        if getattr(self, "dead", False) and op[0] != "reset":
            return None
        self.dead = False
        if self.emit_use:
            r.op(f"use {self.name}")
        kind = op[0]
        o = dict(op=op, env=self.name)
        tol = Fraction(1, 10**9) * self.scale()
        if kind == "reset":
            fold = op[1] if len(op) > 1 and op[1] else "training-set"
            start = op[2] if len(op) > 2 else 0
            ep_override = op[3] if len(op) > 3 else None   # reset(fold, episode_length=m): m states
            lo, hi = self.fold_bounds(fold)
            self.sink.clear()
            self.seen = 0
            captured = {}
            orig = np.random.choice

            def fake_choice(a, p=None, **kw):
                captured["n"] = len(a)
                captured["p"] = None if p is None else [float(x) for x in p]
                if len(a) == 0:
                    return orig(a, p=p, **kw)  # let numpy raise as it would
                return list(a)[min(start, len(a) - 1)]

            np.random.choice = fake_choice
            try:
                try:
                    if ep_override is not None:
                        obs0 = self.env.reset(fold, episode_length=ep_override)
                    elif fold != "training-set" or self.case.get("folds"):
                        obs0 = self.env.reset(fold)
                    else:
                        obs0 = self.env.reset()
                    o["feature_obs"] = _feature_obs(obs0)
                    st = f"ok {'true' if self.env._done else 'false'} {ot(self.env.now())}"
                except EndOfEpisodeError:
                    st = "err eoe"
                except Exception as e:  # noqa
                    r.trace.append(f"   reset raised {type(e).__name__}: {str(e)[:100]}")
                    st = "err rejected"
            finally:
                np.random.choice = orig
            eff_start = min(start, captured["n"] - 1) if captured.get("n") else 0
            r.op(f"ereset {lo} {hi} {eff_start}" + (f" {ep_override}" if ep_override is not None else ""), st)
            o.update(status=st, sampler=captured, start=eff_start, lo=lo, hi=hi)
            if not st.startswith("ok"):
                # the implementation is left half-reset; nothing further is meaningful on this environment
                self.dead = True
                o.update(log=[], pos={}, now=None, nrec=0, nlv=None)
                self.obs.append(o)
                r.trace.append(f"[{self.name}] {op} -> {st}")
                return o
        elif kind in ("step", "stepi", "stepj"):
            if kind == "step":
                vals = [float("nan") if v == "nan" else float(Fraction(v)) for v in op[1]]
                action = np.array(vals, dtype=float)
                if self.case.get("inplace_null") and self.case["space"]["kind"] == "box" and len(vals) == len(self.case["space"]["keys"]):
                    # the caller builds its decision in place on top of the array handed out by the public accessor
                    # `action_space.null_action()` (w = space.null_action(); w[:] = ...; env.step(w))
                    try:
                        base = self.space.null_action()
                        base[...] = action
                        action = base
                        self.r.tags.add("decision-written-into-null-action")
                    except Exception:  # noqa
                        pass
                line = "step " + " ".join(fr(v) for v in vals) if vals else "stepj"
            elif kind == "stepi":
                action = int(op[1])
                line = f"stepi {int(op[1])}"
            else:
                what = op[1]
                action = {"str": "buy", "none": None, "float": 0.5, "nested": [[0.1]], "2d": np.zeros((2, 2)),
                          "floatidx": 1.0, "bigarr": np.zeros(7), "npfloat": np.float64(1.5), "npneg": np.float64(-0.5),
                          "arr1": np.array([1]), "arr2d": np.array([[0]]), "arr0f": np.array(0.7),
                          "f32": np.float32(2.9), "npfloatint": np.float64(1.0)}.get(what, "junk")
                line = "stepj"
            n_before = len(self.env.broker.track_record)
            pos_before = self.positions()
            if self.case.get("peek_chain"):
                # a term-structure policy looks at the contract after the lead (a public accessor, implicit clock)
                # between two steps; the chain keeps resolving to its own lead
                for ch in self.chains.values():
                    try:
                        nxt = ch.lead_contract(month=1)
                        _ = self.env.exchange[nxt].mid_price
                    except Exception:  # noqa
                        pass
                r.tags.add("policy-peeks-at-next-contract")
            if self.sibling is not None:
                try:
                    self.sibling[0].step(self.sibling[1].null_action())
                except Exception:  # noqa  (the sibling's own fate is not what is being judged)
                    pass
            try:
                obs, reward, done, info = self.env.step(action)
                o["feature_obs"] = _feature_obs(obs)
                traded = "_rebalancing" in info
                st = (f"ok {fr(reward)} {'true' if done else 'false'} {'true' if traded else 'false'} "
                      f"{len(self.env.broker.track_record)} {ot(self.env.now())}")
                o.update(reward=F(reward), done=bool(done), traded=traded, info=info)
            except EndOfEpisodeError:
                st = "err eoe"
            except Exception as e:  # noqa
                r.trace.append(f"   step raised {type(e).__name__}: {str(e)[:120]}")
                st = "err rejected"
                o["exc"] = f"{type(e).__name__}: {str(e)[:80]}"
                if ("does not belong" in str(e) and self.case.get("retry_refused") and not int(self.case.get("delay", 0))
                        and not int(self.case.get("latency", 0))):
                    # the caller retries with the very same object (with no delay and no latency a refused step leaves
                    # nothing behind, so the retry is refused in exactly the same way)
                    try:
                        self.env.step(action)
                        r.fail("out-of-space-action-executed", retry="the same object handed over again", action=str(op[1])[:80],
                               clause="an action outside the declared action space is never executed")
                    except Exception:  # noqa
                        r.tags.add("refused-object-retried")
            rtol = Fraction(1, 10**9) * max(abs(self.deposit), 1) * 10 if self.case.get("reward") == "pnl" else Fraction(1, 10**8)
            r.op(line, st, rtol if st.startswith("ok") else 0)
            o.update(status=st.split()[0] + ("" if st.startswith("ok") else " " + st.split()[1]), action=op[1] if len(op) > 1 else None,
                     nrec_before=n_before, nrec_after=len(self.env.broker.track_record), pos_before=pos_before,
                     done_flag=bool(self.env._done))
        else:
            raise ValueError(op)
        if self.case.get("resend_last") and kind != "reset" and len(self.env.broker.track_record):
            # the caller sends the broker another request stamped like the last recorded one (a retry): it needs no
            # trade (every held contract targeted, a threshold of 1000 %) and is refused as a duplicate; the refusal
            # leaves the record as it was
            try:
                from tradingenv.broker.rebalancing import Rebalancing

                brk = self.env.broker
                last = brk.track_record[-1]
                held = [c for c, q in brk.holdings_quantity.items() if q != 0 and c.symbol != "USD"]
                brk.rebalance(Rebalancing(contracts=held, allocation=[0.5] * len(held), margin=10.0, time=last.time))
                r.fail("duplicate-time-stamp-accepted", clause="exactly one entry per executed decision, in strictly increasing time order")
            except ValueError:
                r.tags.add("refused-duplicate-request")
            except Exception:  # noqa
                pass
        if self.case.get("read_frames") and kind != "reset":
            # a progress log / live dashboard reads the track record's frames while the episode is still running
            trk = self.env.broker.track_record
            for fn in (lambda: trk.net_liquidation_value(), lambda: trk.transaction_costs(cumulative=False),
                       lambda: trk.transaction_costs(), lambda: trk.weights_actual(before_rebalancing=True),
                       lambda: trk.weights_actual(before_rebalancing=False), lambda: trk.weights_target(),
                       lambda: trk.cost_of_spread(), lambda: trk.cost_of_commissions()):
                try:
                    fn()
                except Exception:  # noqa  (an empty record, ...)
                    pass
            r.tags.add("frames-read-mid-episode")
        if kind != "reset" and len(self.env.broker.track_record) == o.get("nrec_before", -2) + 1:
            o["rec_time"] = us(self.env.broker.track_record[-1].time)
        entries = self.new_log()
        r.op("log", self.log_line(entries))
        r.op("state", self.state_line(), tol)
        r.op("nrec", str(len(self.env.broker.track_record)))
        o.update(log=entries, pos=self.positions(), now=self.env.now(), nrec=len(self.env.broker.track_record))
        o["cash"] = sum((F(v) for c, v in self.env.broker.holdings_quantity.items() if c.symbol == "USD"), Fraction(0))
        o["margins"] = {c.symbol: F(v) for c, v in self.env.broker.holdings_margins.items() if c.symbol != "USD"}
        try:
            o["nlv"] = F(self.env.broker.net_liquidation_value(False))
            r.op("nlv", fr(o["nlv"]), tol)
        except Exception:  # missing price
            o["nlv"] = None
            r.op("nlv", "err rejected")
        self.obs.append(o)
        r.trace.append(f"[{self.name}] {op} -> {st} | log {self.log_line(entries)[:300]} | pos { {k: float(v) for k, v in o['pos'].items() if v} } nlv {None if o['nlv'] is None else float(o['nlv'])}")
        return o


def run_case(case: dict, compare: set[str] | None = None) -> tuple[ImplRun, EnvSession]:
    from tradingenv.contracts import AbstractContract

    r = ImplRun()
    saved = AbstractContract.now
    try:
        s = EnvSession(case, r)
        if s.env is None:
            r.tags.add("build-rejected")
            return r, s
        for op in case["ops"]:
            s.do(op)
    finally:
        AbstractContract.now = saved
    if compare is not None:
        r.lines = [(l, e if l.split()[0] in compare or l == "build" else None, t) for l, e, t in r.lines]
    return r, s


# ---------------------------------------------------------------------- generators
CONTEXT_RULE = (" Process context: in a quarter of the generated episodes the same Transmitter object first serves another "
                "environment built with a different (mostly the largest admissible) latency, which is reset and stepped "
                "once; in 15% a sibling environment (own transmitter, delay 1) stays alive and is stepped with null "
                "actions right before every step of the environment under test; in 15% a feature keeps a benchmark account (a second "
                "Broker) on the environment's own Exchange object, trades every contract once and values that account at "
                "every quote; in 20% every decision of a box space is written in place into the array returned by "
                "action_space.null_action().")


def gen_grid(rng, n, intraday):
    if intraday:
        gap = rng.choice([60, 600, 3600]) * SEC
        base = T0 + rng.randint(0, 20) * DAY + rng.choice([0, 9 * 3600 * SEC, 23 * 3600 * SEC + 50 * 60 * SEC])
        pts = [base]
        for _ in range(n - 1):
            pts.append(pts[-1] + gap * rng.choice([1, 1, 1, 2, 5]))
    else:
        base = T0 + rng.randint(0, 300) * DAY
        pts = [base]
        for _ in range(n - 1):
            pts.append(pts[-1] + DAY * rng.choice([1, 1, 1, 2, 3, 4]))
    return pts


def gen_episode(rng, tier="quick", *, intraday=None, latency=None, delay=None, n_contracts=None, spread=None,
                fees=None, extra_events=True, space=None, reward=None, markov=None, warmup="rand", one_per_bar=None):
    """A bar-shaped episode: a quote for every contract (or exactly one contract) at every timestep, plus extras."""
    intraday = rng.random() < 0.5 if intraday is None else intraday
    n = rng.randint(3, 9 if tier == "quick" else 25)
    grid = gen_grid(rng, n, intraday)
    gaps = [b - a for a, b in zip(grid, grid[1:])]
    mingap = min(gaps) if gaps else DAY
    if latency is None:
        latency = 0 if rng.random() < 0.4 else rng.choice([SEC, 5 * SEC, 30 * SEC, mingap // 2, mingap - SEC])
    latency = max(0, min(latency, mingap - SEC))
    nc = n_contracts or rng.randint(1, 3)
    contracts = []
    for i in range(nc):
        k = rng.random()
        if k < 0.6:
            contracts.append(dict(key=f"S{i}", kind=rng.choice(["ETF", "Index", "Stock"])))
        elif k < 0.8:
            contracts.append(dict(key=f"F{i}", kind="user", mult=str(rng.choice([1, 2, 50])), cashReq="0",
                                  mr=rng.choice(["1/2", "1/4", "1/10"])))
        else:
            contracts.append(dict(key=f"M{i}", kind="user", mult=str(rng.choice([2, 10])), cashReq="1", mr="0"))
    keys = [c["key"] for c in contracts]
    one_per_bar = (rng.random() < 0.25) if one_per_bar is None else one_per_bar
    mids = {k: Fraction(rng.randint(40, 800), 4) for k in keys}
    events = []

    def quote(k, t):
        mids[k] = max(Fraction(1), mids[k] * Fraction(rng.randint(90, 112), 100))
        half = mids[k] * Fraction(rng.choice([0, 0, 1, 10]) if spread is None else spread, 2000)
        b, a = F(float(mids[k] - half)), F(float(mids[k] + half))
        events.append(["q", k, t, fr(b), fr(a)])

    for gi, t in enumerate(grid):
        for k in (keys if not one_per_bar else [keys[0]]):
            quote(k, t)
        if extra_events and gi + 1 < len(grid):
            nxt = grid[gi + 1]
            # extra quotes placed around the latency boundary of the next bar and custom events
            for _ in range(rng.choice([0, 0, 1, 2, 3])):
                where = rng.choice(["at", "inside", "bound", "after", "mid", "late"])
                off = {"at": 0, "inside": latency // 2, "bound": latency, "after": latency + 1,
                       "mid": (nxt - t) // 2, "late": nxt - t - 1}[where]
                te = t + max(0, min(off, nxt - t - 1)) if where != "at" else t
                if te <= t and where != "at":
                    te = t + 1
                if rng.random() < 0.7:
                    quote(rng.choice(keys), te)
                else:
                    events.append(["c", rng.randint(0, 3), te])
    if extra_events and rng.random() < 0.4:
        # events before the grid, after the grid, and exactly at grid points in unsorted insertion order
        events.append(["c", 7, grid[0] - rng.choice([1, SEC, DAY])])
        events.append(["c", 8, grid[-1] + rng.choice([1, SEC, DAY])])
        quote(keys[0], grid[-1] + SEC)
        rng.shuffle(events)
    grid_in = list(grid)
    if rng.random() < 0.3:
        grid_in += [rng.choice(grid) for _ in range(2)]
        rng.shuffle(grid_in)
    if space is None:
        if rng.random() < 0.75:
            space = dict(kind="box", low=rng.choice(["-1", "0", "-3/2"]), high=rng.choice(["1", "3/2", "2"]),
                         keys=keys + (["USD"] if rng.random() < 0.2 else []), asWeights=1, fractional=1, margin="0")
        else:
            allocs = [[fr(Fraction(rng.randint(-4, 8), 8)) for _ in keys] for _ in range(rng.randint(2, 4))]
            allocs[0] = ["0"] * len(keys)
            space = dict(kind="disc", keys=keys, allocs=allocs, asWeights=1, fractional=1)
    delay = rng.choice([0, 0, 1, 2, 3]) if delay is None else delay
    markov = (rng.random() < 0.2) if markov is None else markov
    if warmup == "rand":
        warmup = None if rng.random() < 0.6 else rng.choice([mingap, 3 * mingap, DAY, 0])
    pre_env_latency = None
    if rng.random() < 0.25:
        # mostly the largest admissible latency: whatever it leaves behind in the shared transmitter then differs
        # most from what the environment under test (smaller latency) needs
        pre_env_latency = max(0, min(rng.choice([0, SEC, mingap // 2, mingap - SEC, mingap - SEC, mingap - SEC]), mingap - SEC))
    case = dict(pre_env_latency=pre_env_latency, sibling=rng.random() < 0.15, bench_account=rng.random() < 0.15, inplace_null=rng.random() < 0.2, contracts=contracts, fees=fees or rng.choice([["0", "0", "0"], ["0", "1/1000", "0"], ["1/4", "1/2000", "1/200"]]),
                deposit=rng.choice(["100000", "10000"]), grid=grid_in, events=events, latency=latency, delay=delay,
                markov=markov, warmup=warmup, space=space,
                reward=reward or rng.choice(["simple", "pnl", "log", ["logret", "1/100", "2", "1/10"]]))
    return case, grid, keys


def gen_actions(rng, case, nsteps, distinct=True):
    sp = case["space"]
    ops = []
    for i in range(nsteps):
        if sp["kind"] == "box":
            lo, hi = Fraction(sp["low"]), Fraction(sp["high"])
            v = []
            for _ in sp["keys"]:
                x = Fraction(rng.randint(0, 16), 16) * (hi - lo) / max(1, len(sp["keys"])) + lo / max(1, len(sp["keys"]))
                x = min(hi, max(lo, x))
                v.append(fr(F(float(x))))
            ops.append(["step", v])
        else:
            ops.append(["stepi", rng.randrange(len(sp["allocs"]))])
    return ops


def small_scope_episodes():
    """Every placement of two extra custom events around a three-point intraday grid (one second before / at /
    one microsecond after each grid point, inside the latency window, exactly at the latency bound, one microsecond
    beyond it, mid-bar; before the grid and after it), both insertion orders, for latency 0 and 10 s, with and
    without markov reset and a one-bar warm-up horizon, starting at the first or the second timestep: the bounded
    part of the search for a failing input (it supports the correspondence, it is not the proof)."""
    t0 = 1546423200 * 1_000_000          # 2019-01-02 10:00:00
    bar = 60 * SEC
    grid = [t0, t0 + bar, t0 + 2 * bar]
    lat = 10 * SEC
    offs = [-SEC, 0, 1, lat // 2, lat, lat + 1, bar // 2]
    places = sorted({g + o for g in grid for o in offs} | {t0 - 5 * SEC, grid[-1] + 5 * SEC})
    out = []
    for latency in (0, lat):
        for markov, warmup in ((False, None), (True, None), (False, bar)):
            for eplen, start, nsteps in ((None, 0, 3), (1, 0, 2), (1, 1, 2)):
                for i, a in enumerate(places):
                    for b in places[i:]:
                        for order in (0, 1):
                            if a == b and order == 1:
                                pass  # same stamp, other insertion order: ties in insertion order
                            events = [["q", "S0", g, "100", "101"] for g in grid]
                            extra = [["c", 1, a], ["c", 2, b]]
                            if order:
                                extra.reverse()
                            # the extra events are inserted before the quotes of later bars: insertion order matters
                            events = events[:1] + extra + events[1:]
                            case = dict(contracts=[dict(key="S0", kind="ETF")], fees=["0", "0", "0"], deposit="10000",
                                        grid=list(grid), events=events, latency=latency, delay=0, markov=markov,
                                        warmup=warmup, reward="pnl", pre_env_latency=None, sibling=False,
                                        space=dict(kind="box", low="0", high="1", keys=["S0"], asWeights=1, fractional=1, margin="0"))
                            if eplen is not None:
                                case["eplen"] = eplen
                            case["ops"] = [["reset", None, start]] + [["step", ["1/2"]] for _ in range(nsteps)]
                            out.append(case)
    return out


# ---------------------------------------------------------------------- nanosecond stamps (implementation only)
def gen_ns_case(rng, latency_ns=0):
    """Timesteps and quotes given as pandas Timestamps at nanosecond resolution (datetime cannot carry them): grid points
    with a sub-microsecond part, quotes stamped exactly on a grid point and 400 ns .. 3 us after one. The model's time
    unit is the microsecond, so these cases are judged by the oracle alone."""
    t0 = 1_551_693_600_000_000_000 + rng.choice([0, 500, 999])          # 2019-03-04 10:00:00 (+ a sub-microsecond part)
    bar = rng.choice([10_000, 60_000_000_000])                            # 10 us or one minute, in ns
    n = rng.randint(4, 7)
    grid = [t0 + i * bar for i in range(n)]
    quotes, px = [], 100.0
    for g in grid:
        px = round(px * rng.choice([0.97, 1.02, 1.05]), 4)
        quotes.append((g, px))
        if g != grid[-1]:
            off = rng.choice([400, 999, 1000, 2000, 3000]) if not latency_ns else rng.choice([1000, 2000, 2000, 3000])
            px = round(px * rng.choice([0.9, 1.1, 1.2]), 4)
            quotes.append((g + off, px))
    return dict(kind="ns", grid_ns=grid, quotes=quotes, latency_ns=latency_ns)


def run_ns_case(case):
    """-> list of records (grid point, clock in ns, mid after the step, execution price of the step or None)"""
    import numpy as np
    import pandas as pd
    from tradingenv.contracts import ETF
    from tradingenv.env import TradingEnv
    from tradingenv.events import EventNBBO
    from tradingenv.spaces import BoxPortfolio
    from tradingenv.transmitter import Transmitter

    import warnings

    warnings.filterwarnings("ignore", message="Discarding nonzero nanoseconds")   # the track record's own conversion
    c = ETF("S0")
    tx = Transmitter([pd.Timestamp(t) for t in case["grid_ns"]])
    tx.add_events([EventNBBO(pd.Timestamp(t), c, p, p) for t, p in case["quotes"]])
    env = TradingEnv(action_space=BoxPortfolio([c], 0.0, 1.0), transmitter=tx, initial_cash=1000.0,
                     latency=case["latency_ns"] / 1e9, steps_delay=0)
    out = []
    env.reset()
    out.append((case["grid_ns"][0], pd.Timestamp(env.now()).value, float(env.exchange[c].mid_price), None))
    w = 0.25
    for g in case["grid_ns"][1:]:
        w = 0.75 - w if w != 0.25 else 0.5
        _, _, done, info = env.step(np.array([w]))
        px = None
        reb = info.get("_rebalancing")
        if reb is not None and reb.trades:
            px = float(reb.trades[0].acq_price)
        out.append((g, pd.Timestamp(env.now()).value, float(env.exchange[c].mid_price), px))
        if done:
            break
    return out


def judge_ns_case(r, case, recs, exec_prices=False):
    """the book after the step that lands on grid point g shows the last quote stamped <= g (nanoseconds compared
    exactly), the clock is the stamp of that event; with `exec_prices`, the trades of the step that lands on g were priced
    at the last quote stamped <= previous grid point + latency"""
    qs = sorted(case["quotes"])
    prev = None
    for g, now, mid, px in recs:
        seen = [(t, p) for t, p in qs if t <= g]
        if seen and (mid != seen[-1][1] or now != seen[-1][0]):
            later = [t for t, p in qs if p == mid and t > g]
            r.fail("ns-delivery", grid_point=g, clock=now, mid=mid, expected_mid=seen[-1][1], expected_clock=seen[-1][0],
                   shows_a_quote_stamped_after_the_step=bool(later),
                   clause="an event is delivered at the first timestep at or after its timestamp / nothing stamped after t is visible at t")
            break
        if exec_prices and px is not None and prev is not None:
            ok = [(t, p) for t, p in qs if t <= prev + case["latency_ns"]]
            if ok and px != ok[-1][1]:
                r.fail("execution-price", grid_point=g, price=px, expected=ok[-1][1], latency_ns=case["latency_ns"],
                       clause="priced at the last quotes stamped <= t + latency")
                break
        prev = g
    r.tags.add("nanosecond-stamps")
