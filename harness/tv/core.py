"""Shared machinery of the checks: exact numbers over the line protocol, the Lean
driver runner, proof-obligation audit, outcome decision, evidence and replay files.

Run with /venv/bin/python (imports `tradingenv` from the live /repo working tree).
"""
from __future__ import annotations

import hashlib
import json
import math
import os
import random
import re
import subprocess
import sys
import time
import traceback
from fractions import Fraction
from pathlib import Path

VERIF = Path(__file__).resolve().parents[2]
LEAN = VERIF / "lean"
EVIDENCE = VERIF / "evidence"
REPLAYS = VERIF / "replays"
CORPUS = VERIF / "harness" / "corpus"
ALLOWED_AXIOMS = {"propext", "Classical.choice", "Quot.sound"}
FORBIDDEN = re.compile(
    r"\bsorry\b|\badmit\b|^\s*axiom\s|native_decide|bv_decide|implemented_by|\bunsafe\s|maxHeartbeats\s+0\b"
)


class Infra(Exception):
    """Harness / toolchain failure: exit 2, never a VIOLATION."""


# --------------------------------------------------------------------------- numbers
def fr(x) -> str:
    """Exact `p/q` rendering of a Python number (float, int, Fraction, numpy scalar)."""
    if x is None:
        return "nan"
    if isinstance(x, Fraction):
        return str(x.numerator) if x.denominator == 1 else f"{x.numerator}/{x.denominator}"
    if isinstance(x, bool):
        return "1" if x else "0"
    if isinstance(x, int):
        return str(x)
    x = float(x)
    if math.isnan(x):
        return "nan"
    if math.isinf(x):
        raise Infra("infinite number cannot cross the protocol")
    p, q = x.as_integer_ratio()
    return str(p) if q == 1 else f"{p}/{q}"


def F(x) -> Fraction | None:
    """Fraction of a Python number; NaN -> None."""
    if x is None:
        return None
    if isinstance(x, Fraction):
        return x
    if isinstance(x, int):
        return Fraction(x)
    x = float(x)
    if math.isnan(x):
        return None
    return Fraction(x)


def parse_num(tok: str):
    """Parse a protocol token: Fraction, None for nan, or NotImplemented if not a number."""
    if tok == "nan":
        return None
    try:
        return Fraction(tok)
    except (ValueError, ZeroDivisionError):
        return NotImplemented


def us(dt) -> int:
    """naive datetime / pandas Timestamp -> integer microseconds since 1970-01-01."""
    import datetime as _dt

    if hasattr(dt, "to_pydatetime"):
        dt = dt.to_pydatetime()
    d = dt - _dt.datetime(1970, 1, 1)
    return (d.days * 86400 + d.seconds) * 1_000_000 + d.microseconds


def from_us(t: int):
    import datetime as _dt

    return _dt.datetime(1970, 1, 1) + _dt.timedelta(microseconds=t)


# --------------------------------------------------------------------------- lean
_built = False


def lake_build(targets=()):
    """`lake build` (default target or the given modules). Returns (ok, log)."""
    cmd = ["lake", "build", *targets]
    p = subprocess.run(cmd, cwd=LEAN, capture_output=True, text=True, timeout=3000)
    return p.returncode == 0, p.stdout + p.stderr


def ensure_model_built():
    global _built
    if _built:
        return
    ok, log = lake_build([])
    if not ok:
        raise Infra("model/driver libraries do not build:\n" + log[-4000:])
    _built = True


def run_lean(driver: str, lines: list[str], timeout=1800) -> list[str]:
    """Pipe protocol lines to `Drivers/<driver>.lean`; one answer line per input line."""
    ensure_model_built()
    data = "\n".join(lines) + "\n"
    p = subprocess.run(
        ["lake", "env", "lean", "--run", f"Drivers/{driver}.lean"],
        cwd=LEAN, input=data, capture_output=True, text=True, timeout=timeout,
    )
    if p.returncode != 0:
        raise Infra(f"lean driver {driver} failed rc={p.returncode}:\n{p.stderr[-3000:]}\n{p.stdout[-1000:]}")
    out = p.stdout.split("\n")
    if out and out[-1] == "":
        out.pop()
    if len(out) != len(lines):
        raise Infra(f"lean driver {driver}: {len(lines)} lines in, {len(out)} lines out")
    return out


def run_lean_parallel(driver: str, blocks: list[list[str]], jobs: int = 1) -> list[list[str]]:
    """Run independent blocks (each starts with its own `reset`) through `jobs` driver processes."""
    if not blocks:
        return []
    jobs = max(1, min(jobs, len(blocks)))
    if jobs == 1:
        flat = [l for b in blocks for l in b]
        out = run_lean(driver, flat)
        res, i = [], 0
        for b in blocks:
            res.append(out[i:i + len(b)])
            i += len(b)
        return res
    from concurrent.futures import ThreadPoolExecutor

    ensure_model_built()
    chunks = [blocks[i::jobs] for i in range(jobs)]
    with ThreadPoolExecutor(jobs) as ex:
        outs = list(ex.map(lambda ch: run_lean_parallel(driver, ch, 1), chunks))
    res = [None] * len(blocks)
    for j, ch_out in enumerate(outs):
        for n, o in enumerate(ch_out):
            res[j + n * jobs] = o
    return res


# --------------------------------------------------------------------------- obligations
def _strip_comments(src: str) -> str:
    # remove /- ... -/ (nested not handled beyond one level; none used) and -- comments
    out, i, depth = [], 0, 0
    while i < len(src):
        if src.startswith("/-", i):
            depth += 1
            i += 2
        elif depth and src.startswith("-/", i):
            depth -= 1
            i += 2
        elif depth:
            if src[i] == "\n":
                out.append("\n")
            i += 1
        elif src.startswith("--", i):
            j = src.find("\n", i)
            i = len(src) if j < 0 else j
        else:
            out.append(src[i])
            i += 1
    return "".join(out)


def audit_sources() -> list[str]:
    """Forbidden tokens anywhere in the project; foreign imports in Model/."""
    problems = []
    for p in sorted(LEAN.rglob("*.lean")):
        if ".lake" in p.parts:
            continue
        src = _strip_comments(p.read_text())
        for n, line in enumerate(src.split("\n"), 1):
            if FORBIDDEN.search(line):
                problems.append(f"{p.relative_to(LEAN)}:{n}: forbidden token: {line.strip()[:80]}")
        if "Model" in p.parts:
            for n, line in enumerate(src.split("\n"), 1):
                m = re.match(r"\s*import\s+(\S+)", line)
                if m and not m.group(1).startswith("TradingVerif.Model"):
                    problems.append(f"{p.relative_to(LEAN)}:{n}: model file imports {m.group(1)}")
    return problems


def load_obligations(prop: str) -> list[str]:
    table = json.loads((VERIF / "harness" / "obligations.json").read_text())
    return table[prop]


def check_obligations(prop: str, thorough: bool = False) -> dict:
    """Build Props/<prop> + Audit/<prop>, read `#print axioms`, audit the sources.

    Returns dict(obligations, discharged, failures[list of str], axioms{thm: [..]}).
    """
    required = load_obligations(prop)
    failures = list(audit_sources())
    axioms: dict[str, list[str]] = {}
    mods = [f"TradingVerif.Props.{prop}"]
    # the audit file may draw on theorems of another property's module (e.g. C02's tabular clause lives in C18)
    for m in re.findall(r"^import\s+(TradingVerif\.Props\.\S+)", (LEAN / "TradingVerif" / "Audit" / f"{prop}.lean").read_text(), re.M):
        if m not in mods:
            mods.append(m)
    if thorough:
        # rebuild the property's own proof module from source
        for ext in ("olean", "ilean", "trace", "hash", "olean.hash", "ilean.hash", "c", "c.hash"):
            for f in (LEAN / ".lake" / "build").rglob(f"Props/{prop}.{ext}"):
                f.unlink()
    ok, log = lake_build(mods)
    if not ok:
        failures.append(f"lake build {mods[0]} failed: " + _first_error(log))
    else:
        p = subprocess.run(
            ["lake", "env", "lean", f"TradingVerif/Audit/{prop}.lean"],
            cwd=LEAN, capture_output=True, text=True, timeout=1800,
        )
        text = p.stdout + p.stderr
        if p.returncode != 0:
            failures.append(f"audit file for {prop} does not check: " + _first_error(text))
        flat = re.sub(r"\s+", " ", text)
        for m in re.finditer(r"'([^']+)' depends on axioms: \[([^\]]*)\]", flat):
            axioms[m.group(1)] = [a.strip() for a in m.group(2).split(",") if a.strip()]
        for m in re.finditer(r"'([^']+)' does not depend on any axioms", flat):
            axioms[m.group(1)] = []
    discharged = 0
    for thm in required:
        full = thm if thm.startswith("TV.") else "TV." + thm
        ax = axioms.get(full, axioms.get(thm))
        if ax is None:
            if ok:
                failures.append(f"theorem {thm} missing from the audit of {prop}")
            continue
        bad = [a for a in ax if a not in ALLOWED_AXIOMS]
        if bad:
            failures.append(f"theorem {thm} depends on non-standard axioms {bad}")
        else:
            discharged += 1
    if thorough and ok:
        p = subprocess.run(
            ["lake", "env", "leanchecker", f"TradingVerif.Props.{prop}"],
            cwd=LEAN, capture_output=True, text=True, timeout=3000,
        )
        if p.returncode != 0:
            failures.append("leanchecker rejected Props." + prop + ": " + (p.stdout + p.stderr)[-500:])
    return dict(obligations=len(required), discharged=discharged, failures=failures,
                axioms=axioms, theorems=required)


def _first_error(log: str) -> str:
    for line in log.split("\n"):
        if "error" in line:
            return line.strip()[:300]
    return log.strip()[-300:]


# --------------------------------------------------------------------------- comparison
def compare_tokens(expected: str, got: str, tol: Fraction | float = 0) -> str | None:
    """Token-wise comparison of two protocol lines; numbers within `tol` (absolute)."""
    e, g = expected.split(), got.split()
    if len(e) != len(g):
        return f"shape: expected {expected!r} got {got!r}"
    for a, b in zip(e, g):
        if a == b:
            continue
        pa, pb = _parse_composite(a), _parse_composite(b)
        if pa is NotImplemented or pb is NotImplemented or len(pa) != len(pb):
            return f"token {a!r} != {b!r}"
        for x, y in zip(pa, pb):
            if x is None or y is None or isinstance(x, str) or isinstance(y, str):
                if x != y:
                    return f"token {a!r} != {b!r}"
            elif abs(x - y) > tol:
                return f"number {float(x)!r} != {float(y)!r} (|d|={float(abs(x - y)):.3e} > tol={float(tol):.3e})"
    return None


def _parse_composite(tok: str):
    parts = re.split(r"([,;:=])", tok)
    out = []
    for p in parts:
        if p in ",;:=" or p == "":
            out.append(p)
            continue
        v = parse_num(p)
        out.append(p if v is NotImplemented else v)
    return out


# --------------------------------------------------------------------------- results
class Case(dict):
    """A generated case: JSON-able dict."""


def case_hash(case) -> str:
    return hashlib.sha256(json.dumps(case, sort_keys=True, default=str).encode()).hexdigest()[:12]


def load_known() -> list[dict]:
    p = VERIF / "KNOWN_FINDINGS.json"
    if not p.exists():
        return []
    return json.loads(p.read_text())["findings"]


def write_replay(prop: str, seed: int, payload: dict) -> str:
    REPLAYS.mkdir(exist_ok=True)
    h = case_hash(payload)
    path = REPLAYS / f"{prop}-{seed}-{h}.json"
    path.write_text(json.dumps(payload, indent=1, default=str))
    return str(path.relative_to(VERIF))


def write_evidence(prop: str, tier: str, seed: int, coverage: dict, wall: float, violations: int,
                   assumptions: list[str]):
    EVIDENCE.mkdir(exist_ok=True)
    ev = dict(property_id=prop, tier=tier, seed=seed, level="proof", coverage=coverage,
              assumptions=assumptions, wall_s=round(wall, 2), violations=violations)
    (EVIDENCE / f"{prop}.json").write_text(json.dumps(ev, indent=1, default=str))


def rng_for(seed: int, prop: str, i: int) -> random.Random:
    return random.Random(f"{seed}:{prop}:{i}")
