"""Generic check procedure (DESIGN.md section 6): proof obligations, corpus + generated
cases through implementation and model, property oracle, decision, evidence, replay."""
from __future__ import annotations

import json
import os
import subprocess
import sys
import time
import traceback
from collections import Counter
from fractions import Fraction

from . import core
from .core import Infra


class ImplRun:
    """What one case produced on the implementation side."""

    def __init__(self):
        self.lines: list[tuple[str, str | None, object]] = []  # (protocol line, expected answer | None, tol)
        self.failures: list[dict] = []   # property-oracle failures on the implementation trace
        self.tags: set[str] = set()      # branches hit (for the distribution / non-triviality)
        self.trace: list = []            # human-readable implementation trace (goes to replays)
        self.skipped: str | None = None  # reason if the case is ambiguous / out of the property's domain

    def op(self, line: str, expected: str | None = None, tol=0):
        self.lines.append((line, expected, tol))

    def fail(self, kind: str, **detail):
        self.failures.append(dict(kind=kind, **detail))


class Prop:
    id = "C00"
    driver: str | None = None        # Lean driver name, None = no model run for this stream
    rule = ""
    assumptions: list[str] = []
    nontrivial_tags: set[str] = set()
    shrink_key: str | None = "ops"
    quick_n = 200
    thorough_n = 5000
    search_n = (300, 5000)
    jobs = 1

    def gen(self, rng, tier: str) -> dict:  # pragma: no cover
        raise NotImplementedError

    def corpus(self) -> list[dict]:
        d = core.CORPUS / self.id
        out = []
        if d.is_dir():
            for p in sorted(d.glob("*.json")):
                out.append(json.loads(p.read_text()))
        return out

    def exhaustive_cases(self, tier: str) -> list[dict]:
        return []

    def run_impl(self, case: dict) -> ImplRun:  # pragma: no cover
        raise NotImplementedError

    def classify(self, failure: dict, case: dict) -> str | None:
        """Return the id of the KNOWN_FINDINGS entry this failure is an instance of, if any."""
        return None

    def mutate(self, case: dict, rng) -> dict:
        return self.gen(rng, "quick")

    def is_nontrivial(self, tags: set[str]) -> bool:
        return bool(tags & self.nontrivial_tags) if self.nontrivial_tags else True

    def post_model(self, case: dict, run: "ImplRun", outs: list[str]) -> str | None:
        """Called with the model's answers before comparison; return a reason to skip the case."""
        return None

    def extra_coverage(self) -> dict:
        return {}


def _safe_impl(prop: Prop, case: dict) -> ImplRun:
    try:
        return prop.run_impl(case)
    except Infra:
        raise
    except Exception as e:  # harness bug or an exception class the harness does not map
        r = ImplRun()
        r.fail("unmapped-exception", error=f"{type(e).__name__}: {e}", tb=traceback.format_exc()[-1500:])
        return r


def _pool_impl(args):
    prop, case = args
    return _safe_impl(prop, case)


def run_cases(prop: Prop, cases: list[dict], jobs: int = 1, with_model: bool = True):
    """-> list of (case, ImplRun, disagreements[list of dict])"""
    if jobs > 1 and len(cases) > 8:
        import multiprocessing as mp

        with mp.get_context("fork").Pool(jobs) as pool:
            runs = pool.map(_pool_impl, [(prop, c) for c in cases], chunksize=max(1, len(cases) // (jobs * 8)))
    else:
        runs = [_safe_impl(prop, c) for c in cases]
    results = []
    by_driver: dict[str, tuple[list, list]] = {}
    for i, r in enumerate(runs):
        drv = getattr(r, "driver", None) or prop.driver
        if with_model and drv and r.lines and not r.skipped:
            blocks, idx = by_driver.setdefault(drv, ([], []))
            blocks.append(["reset"] + [l for l, _, _ in r.lines])
            idx.append(i)
    model_out = {}
    for drv, (blocks, idx) in by_driver.items():
        outs = core.run_lean_parallel(drv, blocks, jobs=min(jobs, 8)) if blocks else []
        model_out.update({i: o[1:] for i, o in zip(idx, outs)})
    for i, (c, r) in enumerate(zip(cases, runs)):
        dis = []
        if i in model_out:
            why_skip = prop.post_model(c, r, model_out[i])
            if why_skip:
                r.skipped = why_skip
                results.append((c, r, []))
                continue
            for n, ((line, exp, tol), got) in enumerate(zip(r.lines, model_out[i])):
                if got == "bad-op":
                    raise Infra(f"{prop.id}: model driver rejected protocol line {line!r}")
                if exp is None:
                    continue
                why = core.compare_tokens(exp, got, tol)
                if why:
                    dis.append(dict(op_index=n, op=line, implementation=exp, model=got, why=why))
                    break  # first differing observable; later ones are consequences
        results.append((c, r, dis))
    return results


def shrink(prop: Prop, case: dict, still_fails, budget: int = 150) -> dict:
    key = prop.shrink_key
    if not key or key not in case or not isinstance(case[key], list):
        return case
    cur = dict(case)
    n = 0
    progress = True
    while progress and n < budget:
        progress = False
        ops = cur[key]
        # try dropping halves, then single ops (last to first)
        chunk = max(1, len(ops) // 2)
        while chunk >= 1 and n < budget:
            i = 0
            while i < len(cur[key]) and n < budget:
                ops = cur[key]
                cand = dict(cur)
                cand[key] = ops[:i] + ops[i + chunk:]
                n += 1
                if len(cand[key]) < len(ops) and still_fails(cand):
                    cur = cand
                    progress = True
                else:
                    i += chunk
            chunk //= 2
    return cur


def main(prop: Prop, argv: list[str]) -> int:
    t0 = time.time()
    tier = "quick"
    replay = None
    args = list(argv)
    while args:
        a = args.pop(0)
        if a in ("quick", "thorough"):
            tier = a
        elif a == "--replay":
            replay = args.pop(0)
    tier = os.environ.get("VERIF_TIER", tier) if tier not in ("thorough",) else tier
    if tier not in ("quick", "thorough"):
        tier = "quick"
    seed = int(os.environ.get("VERIF_SEED", "0") or 0)
    jobs = int(os.environ.get("VERIF_JOBS", "12" if tier == "thorough" else str(prop.jobs)))
    try:
        if replay:
            return _replay(prop, replay)
        return _check(prop, tier, seed, jobs, t0)
    except Infra as e:
        print(f"INFRASTRUCTURE FAILURE ({prop.id}): {e}", file=sys.stderr)
        return 2
    except subprocess.TimeoutExpired as e:  # pragma: no cover
        print(f"TIMEOUT ({prop.id}): {e}", file=sys.stderr)
        return 2


def _replay(prop: Prop, path: str) -> int:
    payload = json.loads(open(path).read())
    case = payload.get("case")
    if case is None:
        print(f"replay {path}: no concrete input recorded ({payload.get('reason')})")
        ob = core.check_obligations(prop.id)
        for f in ob["failures"]:
            print("obligation:", f)
        return 1 if ob["failures"] else 0
    (c, r, dis), = run_cases(prop, [case])
    for f in r.failures:
        print("oracle failure:", json.dumps(f, default=str)[:2000])
    for d in dis:
        print("disagreement:", json.dumps(d, default=str)[:2000])
    for t in r.trace[-40:]:
        print("  ", t)
    if r.failures or dis:
        print(f"VIOLATION property={prop.id} replay={path}")
        return 1
    print("replay passes on the current tree")
    return 0


def _check(prop: Prop, tier: str, seed: int, jobs: int, t0: float) -> int:
    thorough = tier == "thorough"
    ob = core.check_obligations(prop.id, thorough=thorough)
    known = {k["id"]: k for k in core.load_known() if k["property"] == prop.id and k.get("status") == "known"}

    cases = list(prop.corpus())
    n_corpus = len(cases)
    ex_cases = prop.exhaustive_cases(tier)
    cases += ex_cases
    n = prop.thorough_n if thorough else prop.quick_n
    for i in range(n):
        cases.append(prop.gen(core.rng_for(seed, prop.id, i), tier))
    results = run_cases(prop, cases, jobs=jobs)

    tags = Counter()
    distinct = set()
    skipped = Counter()
    violations, known_hits, disagreements = [], {}, []
    samples = []
    validated = 0
    for c, r, dis in results:
        if r.skipped:
            skipped[r.skipped] += 1
            continue
        for t in r.tags:
            tags[t] += 1
        if prop.is_nontrivial(r.tags):
            distinct.add(core.case_hash(c))
        if prop.driver and r.lines:
            validated += 1
        for f in r.failures:
            kid = prop.classify(f, c)
            if kid and kid in known:
                known_hits.setdefault(kid, (c, f))
            else:
                violations.append((c, r, f))
        if dis:
            disagreements.append((c, r, dis[0]))
        if len(samples) < 3 and r.lines and prop.is_nontrivial(r.tags):
            samples.append(dict(case=c, protocol=[l for l, _, _ in r.lines][:30]))
    if not samples and results:
        samples.append(dict(case=results[0][0]))

    exit_code = 0
    out_lines = []
    for kid, (c, f) in known_hits.items():
        out_lines.append(f"KNOWN-FINDING: property={prop.id} {kid}: {known[kid]['what']}")

    searched = 0
    if violations:
        c, r, f = violations[0]

        def still(cand):
            rr = _safe_impl(prop, cand)
            return any(g["kind"] == f["kind"] and not (prop.classify(g, cand) in known) for g in rr.failures)

        small = shrink(prop, c, still)
        rr = _safe_impl(prop, small)
        ff = next((g for g in rr.failures if g["kind"] == f["kind"]), f)
        path = core.write_replay(prop.id, seed, dict(
            property=prop.id, kind="oracle", clause=ff.get("kind"), failure=ff, case=small,
            implementation_trace=rr.trace[-200:], original_case_ops=len(c.get(prop.shrink_key or "", []) or []),
            contradicts=ff.get("theorem")))
        out_lines.append(f"VIOLATION property={prop.id} replay={path}")
        exit_code = 1
    elif disagreements or ob["failures"]:
        # the correspondence or a proof obligation broke but the oracle held on that input:
        # targeted search for a failing input on the implementation (mutations + fresh cases)
        budget = prop.search_n[1 if thorough else 0]
        found = None
        base = [c for c, _, _ in disagreements] or [c for c, _, _ in results[:20]]
        batch = []
        for i in range(budget):
            rng = core.rng_for(seed + 7919, prop.id, i)
            batch.append(prop.mutate(base[i % len(base)], rng) if base else prop.gen(rng, tier))
        for c, r, _ in run_cases(prop, batch, jobs=jobs, with_model=False):
            searched += 1
            for f in r.failures:
                kid = prop.classify(f, c)
                if not (kid and kid in known):
                    found = (c, r, f)
                    break
            if found:
                break
        if found:
            c, r, f = found
            path = core.write_replay(prop.id, seed, dict(property=prop.id, kind="oracle-after-break", failure=f,
                                                         case=c, implementation_trace=r.trace[-200:],
                                                         broke=[d for _, _, d in disagreements[:3]] + ob["failures"][:3]))
            out_lines.append(f"VIOLATION property={prop.id} replay={path}")
        else:
            if disagreements:
                c, r, d = disagreements[0]

                def still(cand):
                    res = run_cases(prop, [cand])
                    return bool(res[0][2])

                small = shrink(prop, c, still, budget=60)
                (sc, sr, sd), = run_cases(prop, [small])
                d = sd[0] if sd else d
                payload = dict(property=prop.id, kind="correspondence", correspondence=d, case=small,
                               implementation_trace=sr.trace[-200:],
                               reason="model and implementation differ; no input violating the property was found",
                               searched=searched)
            else:
                payload = dict(property=prop.id, kind="proof-obligation", obligation_failures=ob["failures"],
                               case=None, reason="a theorem or the source audit no longer checks; "
                               "no input violating the property was found", searched=searched)
            path = core.write_replay(prop.id, seed, payload)
            out_lines.append(f"VIOLATION property={prop.id} replay={path} no-failing-input-found")
        exit_code = 1

    wall = time.time() - t0
    coverage = dict(
        obligations=ob["obligations"], discharged=ob["discharged"],
        checker_cmd=f"cd lean && lake build TradingVerif.Props.{prop.id} && lake env lean TradingVerif/Audit/{prop.id}.lean"
                    + (f" && lake env leanchecker TradingVerif.Props.{prop.id}" if thorough else ""),
        trusted_base=[
            "Lean 4.33.0 kernel" + (" + leanchecker re-check" if thorough else ""),
            "Mathlib v4.33.0 as compiled on this image",
            "axioms of every listed theorem within {propext, Classical.choice, Quot.sound}: "
            + json.dumps({k: v for k, v in ob["axioms"].items()}, sort_keys=True)[:3000],
            "hand-written model tied to /repo by this run's differential correspondence (not a translation)",
        ],
        theorems=ob["theorems"], obligation_failures=ob["failures"],
        evaluations=len(results), distinct_nontrivial=len(distinct), rule=prop.rule,
        samples=samples, traces_validated_against_impl=validated,
        corpus_cases=n_corpus, exhaustive_cases=len(ex_cases), exhaustive=bool(ex_cases) and getattr(prop, "exhaustive_flag", False),
        branch_distribution=dict(tags.most_common()), skipped=dict(skipped),
        correspondence_disagreements=len(disagreements), oracle_failures=len(violations),
        known_findings_hit=sorted(known_hits), search_after_break=searched,
    )
    coverage.update(prop.extra_coverage())
    core.write_evidence(prop.id, tier, seed, coverage, wall, 1 if exit_code else 0, prop.assumptions)
    for l in out_lines:
        print(l)
    print(f"{prop.id} {tier}: obligations {ob['discharged']}/{ob['obligations']}, cases {len(results)} "
          f"(nontrivial {len(distinct)}, skipped {sum(skipped.values())}), disagreements {len(disagreements)}, "
          f"oracle failures {len(violations)}, known {len(known_hits)}, {wall:.1f}s -> exit {exit_code}")
    if ob["failures"]:
        for f in ob["failures"][:10]:
            print("  obligation:", f)
    return exit_code
