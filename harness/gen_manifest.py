"""Regenerates MANIFEST.json from harness/manifest_src.json (per-property texts) so that the
manifest always lists exactly the checks that exist."""
import json, pathlib
here = pathlib.Path(__file__).resolve().parent
src = json.loads((here / "manifest_src.json").read_text())
props = [json.loads(l) for l in (here.parent / "properties.jsonl").read_text().splitlines() if l.strip()]
checks, na = [], []
for p in props:
    pid = p["id"]
    c = src["checks"].get(pid)
    if c is None:
        na.append(dict(property_id=pid, reason=src["not_applicable"].get(pid, "check not built yet in this session; no claim is made")))
        continue
    checks.append(dict(
        property_id=pid,
        quick_cmd=f"./check {pid} quick",
        thorough_cmd=f"./check {pid} thorough",
        evidence_file=f"evidence/{pid}.json",
        replay_cmd_template=f"./check {pid} --replay {{path}}",
        engine="lean4-proof+correspondence",
        level_claimed=dict(category="proof", text=c["text"], design_ref=c.get("design_ref", f"DESIGN.md section 7, {pid}")),
        level_note=c["note"],
        technique=c.get("technique", "Lean 4 theorems over a hand-written executable model + differential correspondence with the implementation + independent property oracle"),
    ))
m = dict(
    version=1,
    setup_cmd="cd lean && lake build TradingVerif TradingVerif.Props.All",
    hooks=dict(guard="TRADINGENV_VERIF", enable="no hooks: every observation point is public API; nothing in /repo is guarded",
               baseline_off_cmd="cd /repo && /venv/bin/python -m pytest -ra -q -p no:cacheprovider --timeout=900 --continue-on-collection-errors",
               source_commits=[], add_only=True),
    engines=[dict(name="lean4-proof+correspondence", path="check", serves_properties=[c["property_id"] for c in checks],
                  kind_free_text="Lean 4 (kernel-checked theorems, lake project lean/) + Python differential harness harness/tv")],
    checks=checks,
    notes=src.get("notes", ""),
    not_applicable=na,
)
(here.parent / "MANIFEST.json").write_text(json.dumps(m, indent=1) + "\n")
print("checks:", [c["property_id"] for c in checks], "not claimed:", [n["property_id"] for n in na])
