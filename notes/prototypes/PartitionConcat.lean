import Mathlib.Data.List.Basic
import Mathlib.Tactic.Linarith

/-- first grid point ≥ x (what bisect_left finds on a sorted grid) -/
def bucket (ts : List Int) (x : Int) : Option Int := ts.find? (fun t => decide (x ≤ t))

theorem bucket_cons (t0 : Int) (rest : List Int) (x : Int) :
    bucket (t0 :: rest) x = if x ≤ t0 then some t0 else bucket rest x := by
  unfold bucket
  by_cases h : x ≤ t0 <;> simp [List.find?, h]

/-- a sorted list splits at a threshold -/
theorem sorted_split (es : List Int) (hes : es.Pairwise (· ≤ ·)) (c : Int) :
    es = es.filter (fun e => decide (e ≤ c)) ++ es.filter (fun e => !decide (e ≤ c)) := by
  induction es with
  | nil => simp
  | cons a as ih =>
    have hpa := List.pairwise_cons.mp hes
    by_cases h : a ≤ c
    · simp only [List.filter_cons, h, decide_true, Bool.not_true, if_true, List.cons_append]
      simp only [Bool.false_eq_true, if_false]
      exact congrArg _ (ih hpa.2)
    · -- a > c, so everything after is > c as well: first filter is empty
      have hall : ∀ e ∈ a :: as, ¬ e ≤ c := by
        intro e he
        rcases List.mem_cons.mp he with rfl | he'
        · exact h
        · have := hpa.1 e he'; omega
      have h1 : (a :: as).filter (fun e => decide (e ≤ c)) = [] := by
        apply List.filter_eq_nil_iff.mpr
        intro e he; simpa using hall e he
      have h2 : (a :: as).filter (fun e => !decide (e ≤ c)) = a :: as := by
        apply List.filter_eq_self.mpr
        intro e he; simpa using hall e he
      rw [h1, h2]; rfl

theorem concat_buckets (ts : List Int) (hts : ts.Pairwise (· < ·)) :
    ∀ (es : List Int), es.Pairwise (· ≤ ·) →
    ts.flatMap (fun t => es.filter (fun e => decide (bucket ts e = some t)))
      = es.filter (fun e => decide (∃ t ∈ ts, e ≤ t)) := by
  induction ts with
  | nil => intro es _; simp
  | cons t0 rest ih =>
    intro es hes
    have hp := List.pairwise_cons.mp hts
    -- events after t0
    set es' := es.filter (fun e => !decide (e ≤ t0)) with hes'
    have hes'sorted : es'.Pairwise (· ≤ ·) := hes.filter _
    have ih' := ih hp.2 es' hes'sorted
    -- head bucket
    have hhead : es.filter (fun e => decide (bucket (t0 :: rest) e = some t0))
        = es.filter (fun e => decide (e ≤ t0)) := by
      apply List.filter_congr
      intro e _
      rw [bucket_cons]
      by_cases h : e ≤ t0
      · simp [h]
      · simp only [h, if_false, decide_false]
        -- bucket rest e = some t0 impossible: t0 ∉ rest
        have : bucket rest e ≠ some t0 := by
          intro hb
          have hm : t0 ∈ rest := by
            unfold bucket at hb; exact List.mem_of_find?_eq_some hb
          exact absurd (hp.1 t0 hm) (lt_irrefl _)
        simp [this]
    -- tail buckets
    have htail : rest.flatMap (fun t => es.filter (fun e => decide (bucket (t0 :: rest) e = some t)))
        = rest.flatMap (fun t => es'.filter (fun e => decide (bucket rest e = some t))) := by
      apply List.flatMap_congr
      intro t ht
      rw [hes', List.filter_filter]
      apply List.filter_congr
      intro e _
      rw [bucket_cons]
      have hne : t0 ≠ t := ne_of_lt (hp.1 t ht)
      by_cases h : e ≤ t0
      · simp [h, hne]
      · simp [h]
    rw [List.flatMap_cons, hhead, htail, ih']
    -- recombine
    conv_rhs => rw [sorted_split es hes t0, List.filter_append]
    congr 1
    · symm; rw [List.filter_filter]; apply List.filter_congr
      intro e _
      by_cases h : e ≤ t0
      · simp [h]
      · simp [h]
    · rw [hes', List.filter_filter, List.filter_filter]; apply List.filter_congr
      intro e _
      by_cases h : e ≤ t0
      · simp [h]
      · simp [h]
#print axioms concat_buckets
