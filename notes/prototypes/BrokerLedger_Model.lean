-- import-free, polymorphic prototype of the broker core (fixed-code semantics)
namespace TV
abbrev Key := String

structure Spec (α : Type) where
  mult : α
  cashReq : α
  marginReq : α

structure Quote (α : Type) where
  bid : α
  ask : α

structure Broker (α : Type) where
  cash : α
  pos : Key → α
  margin : Key → α
  lastMark : Key → α
  -- ghost ledger
  comm : α
  basis : Key → α

variable {α : Type} [Add α] [Sub α] [Mul α] [Div α] [Neg α] [LT α] [DecidableLT α] [OfNat α 0]

def upd (f : Key → α) (k : Key) (v : α) : Key → α := fun k' => if k' = k then v else f k'
def absv (x : α) : α := if x < 0 then -x else x
def liq (q : Quote α) (pos : α) : α := if 0 < pos then q.bid else if pos < 0 then q.ask else (q.bid + q.ask) / (OfNat.ofNat 0 + (q.bid+q.ask)/(q.bid+q.ask) + (q.bid+q.ask)/(q.bid+q.ask))

/-- mark one margined contract to market (quote present) -/
def mark (s : Spec α) (k : Key) (q : Quote α) (b : Broker α) : Broker α :=
  let p := liq q (b.pos k)
  let m1 := b.margin k + b.pos k * s.mult * (p - b.lastMark k)
  let target := p * absv (b.pos k) * s.mult * s.marginReq
  let excess := m1 - target
  { b with margin := upd b.margin k (m1 - excess), cash := b.cash + excess, lastMark := upd b.lastMark k p }

/-- transact on a margined contract, fixed reference price -/
def transact (s : Spec α) (k : Key) (q : Quote α) (dq px fee : α) (b0 : Broker α) : Broker α :=
  let b := mark s k q b0
  let qOld := b.pos k
  let qNew := qOld + dq
  let mexp := px * absv qNew * s.mult * s.marginReq
  let mdiff := mexp - b.margin k
  let ref := if qNew < 0 ∨ 0 < qNew then (if qOld < 0 ∨ 0 < qOld then (qOld * b.lastMark k + dq * px) / qNew else px) else px
  let b1 : Broker α := { b with
    cash := b.cash - fee - mdiff
    margin := upd b.margin k (b.margin k + mdiff)
    pos := upd b.pos k qNew
    lastMark := upd b.lastMark k ref
    comm := b.comm + fee
    basis := upd b.basis k (b.basis k + dq * px) }
  mark s k q b1

/-- the quote-independent ledger quantity restricted to one margined contract k -/
def ledger1 (s : Spec α) (k : Key) (b : Broker α) : α :=
  b.cash + (b.margin k - b.pos k * s.mult * b.lastMark k) + s.mult * b.basis k + b.comm
end TV
