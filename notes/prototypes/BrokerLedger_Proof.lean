import Mathlib.Tactic.Ring
import Mathlib.Tactic.Linarith
import Mathlib.Tactic.FieldSimp
import Mathlib.Algebra.Order.Field.Basic
import P.Model
open TV
variable {K : Type} [Field K] [LinearOrder K] [IsStrictOrderedRing K]

@[simp] theorem upd_same (f : Key → K) (k : Key) (v : K) : upd f k v k = v := by simp [upd]

theorem mark_ledger (s : Spec K) (k : Key) (q : Quote K) (b : Broker K) :
    ledger1 s k (mark s k q b) = ledger1 s k b := by
  simp only [ledger1, mark, upd_same]
  ring

theorem transact_ledger (s : Spec K) (k : Key) (q : Quote K) (dq px fee : K) (b : Broker K) :
    ledger1 s k (transact s k q dq px fee b) = ledger1 s k b := by
  unfold transact
  simp only []
  rw [mark_ledger]
  set b' := mark s k q b with hb'
  have h0 : ledger1 s k b' = ledger1 s k b := mark_ledger s k q b
  rw [← h0]
  simp only [ledger1, upd_same]
  split_ifs with h1 h2
  · have hne : b'.pos k + dq ≠ 0 := by rcases h1 with h | h <;> [exact ne_of_lt h; exact ne_of_gt h]
    field_simp
    ring
  · have : b'.pos k = 0 := by
      rcases lt_trichotomy (b'.pos k) 0 with h | h | h
      · exact absurd (Or.inl h) h2
      · exact h
      · exact absurd (Or.inr h) h2
    rw [this]; ring
  · have : b'.pos k + dq = 0 := by
      rcases lt_trichotomy (b'.pos k + dq) 0 with h | h | h
      · exact absurd (Or.inl h) h1
      · exact h
      · exact absurd (Or.inr h) h1
    rw [this]; ring
#print axioms mark_ledger
#print axioms transact_ledger
