import warnings; warnings.filterwarnings('ignore')
import numpy as np, pandas as pd
from tradingenv.env import TradingEnvXY
rng=np.random.default_rng(0)
idx=pd.date_range('2019-01-01', periods=60, freq='D')
Y=pd.DataFrame({'A':100*np.exp(np.cumsum(rng.normal(0,0.01,60))), 'B':50*np.exp(np.cumsum(rng.normal(0,0.01,60)))}, idx)
X=pd.DataFrame(rng.normal(0,1,(60,3)), idx, columns=['f0','f1','f2'])
X.iloc[5:8,1]=np.nan
for window,stride in [(1,None),(4,None),(5,2)]:
    env=TradingEnvXY(X,Y,transformer='z-score',window=window,stride=stride,spread=0.01,calendar='NYSE')
    obs=env.reset()
    ok=True; n=0
    done=False
    while not done:
        t=env._transmitter._current_time if False else None
        now=env.exchange.last_update
        rows=env.X.loc[:now].iloc[-window:].values
        if stride: rows=rows[::-stride][::-1]
        if obs.shape!=env.observation_space.shape or not np.array_equal(rows, obs): ok=False; print('mismatch at', now, obs, rows); break
        a=env.exchange[env.action_space.contracts[0]]
        p=env.Y.loc[now].iloc[0]
        if not (np.isclose(a.bid_price,p*(1-0.005)) and np.isclose(a.ask_price,p*(1+0.005))): print('quote mismatch', now, a, p); break
        obs,r,done,info=env.step(env.action_space.sample()*0); n+=1
    print(window,stride,'ok',ok,'steps',n,'first ts',env._transmitter.timesteps[0],'X start',env.X.index[0],'obs shape',obs.shape)
import pandas_market_calendars as pmc
h=pmc.get_calendar('NYSE').holidays().holidays
print([t for t in env._transmitter.timesteps if np.datetime64(t.date()) in set(h)][:3], 'weekends in steps:', sum(t.weekday()>=5 for t in env._transmitter.timesteps))
