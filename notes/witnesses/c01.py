import warnings; warnings.filterwarnings('ignore')
from datetime import datetime
from tradingenv.broker.broker import Broker
from tradingenv.broker.trade import Trade
from tradingenv.broker.fees import BrokerFees
from tradingenv.exchange import Exchange
from tradingenv.events import EventNBBO
from tradingenv.contracts import ES, ETF, Cash, AbstractContract, Rate

class Spot2(AbstractContract):
    multiplier=2.0; cash_requirement=1.0; margin_requirement=0.0
    def __init__(s, sym): s._s=sym
    @property
    def symbol(s): return s._s

def mk():
    ex=Exchange(); ex.process_EventNBBO(EventNBBO(datetime(2019,1,1), Cash(), 1.,1.))
    return ex, Broker(ex, deposit=100000.)
t=datetime(2019,1,1)
# (a) add to margined long with spread
ex,b=mk(); es=ES(2019,3)
ex.process_EventNBBO(EventNBBO(t, es, 99., 101.))
print('nlv0', b.net_liquidation_value())
b.transact(Trade(t, es, 1, 99., 101.)); print('after buy1', b.net_liquidation_value(), 'expected', 100000+50*(1*99-1*101))
b.transact(Trade(t, es, 1, 99., 101.)); print('after buy2', b.net_liquidation_value(), 'expected', 100000+50*(2*99-2*101))
b.transact(Trade(t, es, -3, 99., 101.)); print('after sell3 (flip)', b.net_liquidation_value(), 'expected', 100000+50*(-1*101-(2*101-3*99)))
print(b.holdings_quantity, b.holdings_margins)
# (b) spot-like multiplier 2
ex,b=mk(); s=Spot2('X')
ex.process_EventNBBO(EventNBBO(t, s, 100., 100.))
b.transact(Trade(t, s, 10, 100., 100.)); print('spot2 after buy', b.net_liquidation_value(), 'expected 100000')
# ETF sanity
ex,b=mk(); s=ETF('SPY')
ex.process_EventNBBO(EventNBBO(t, s, 99., 101.))
b.transact(Trade(t, s, 10, 99., 101.)); print('etf after buy', b.net_liquidation_value(), 'expected', 100000-20)
b.transact(Trade(t, s, 10, 99., 101.)); print('etf after buy2', b.net_liquidation_value(), 'expected', 100000-40)
