import warnings; warnings.filterwarnings('ignore')
from datetime import datetime, timedelta
import numpy as np
from tradingenv.env import TradingEnv
from tradingenv.transmitter import Transmitter
from tradingenv.events import EventNBBO
from tradingenv.contracts import ETF
from tradingenv.features import Feature
from tradingenv.state import IState
class Rec(Feature):
    log=[]
    def process_EventNBBO(self, event): Rec.log.append(('NBBO', event.time))
spy=ETF('SPY')
d0=datetime(2019,1,1)
ts=[d0+timedelta(minutes=10*i) for i in range(5)]
tr=Transmitter(ts, folds={'training-set':[ts[0],ts[2]], 'test':[ts[3],ts[4]]})
ev=[]
for i,t in enumerate(ts):
    ev.append(EventNBBO(t, spy, 100.+i, 100.+i))
    ev.append(EventNBBO(t+timedelta(seconds=5), spy, 100.5+i, 100.5+i))   # latent if latency>=5
tr.add_events(ev)
env=TradingEnv([spy], state=IState([Rec()]), transmitter=tr, latency=10)
env.reset(fold='test')
for l in Rec.log: print(l)
print('book after reset', env.exchange[spy], 'now', env.now())
