import warnings; warnings.filterwarnings('ignore')
import numpy as np, pandas as pd
from tradingenv.env import TradingEnvXY
rng=np.random.default_rng(1)
idx=pd.date_range('2019-01-01', periods=80, freq='D')
def data(seed_future, cut):
    r=np.random.default_rng(1)
    Y=pd.DataFrame({'A':100*np.exp(np.cumsum(r.normal(0,0.01,80))), 'B':50*np.exp(np.cumsum(r.normal(0,0.01,80)))}, idx)
    X=pd.DataFrame(r.normal(0,1,(80,3)), idx, columns=['f0','f1','f2'])
    rate=pd.Series(0.01+0.001*r.normal(0,1,80), idx, name='rf')
    r2=np.random.default_rng(seed_future)
    m=idx>cut
    Y.loc[m]*=np.exp(r2.normal(0,0.05,(m.sum(),2)))
    X.loc[m]=r2.normal(0,3,(m.sum(),3))
    rate.loc[m]=0.02
    return X,Y,rate
cut=pd.Timestamp('2019-02-20')
def run(seed_future, **kw):
    X,Y,rate=data(seed_future,cut)
    env=TradingEnvXY(X,Y,rate=rate,transformer='z-score',transformer_end='2019-02-10',calendar='NYSE',**kw)
    obs=env.reset(); out=[]; np.random.seed(0)
    acts=np.random.default_rng(5).uniform(-1,1,(200,2))
    k=0; done=False
    while not done:
        o,r,done,info=env.step(acts[k]); k+=1
        t=env.exchange.last_update
        if t<=cut: out.append((t, o.tobytes(), r, tuple(sorted((str(c),q) for c,q in env.broker.holdings_quantity.items())), env.broker.net_liquidation_value()))
    return out
for kw in [dict(window=1), dict(window=5,stride=2,steps_delay=0), dict(window=3,latency=0,spread=0.01,fee=0.001)]:
    a=run(11,**kw); b=run(22,**kw)
    print(kw, len(a), len(b), 'IDENTICAL' if a==b else 'DIFFER at %s'%next((x[0] for x,y in zip(a,b) if x!=y),None))
