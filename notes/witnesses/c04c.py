import warnings; warnings.filterwarnings('ignore')
from datetime import datetime, timedelta
import numpy as np, traceback
from tradingenv.env import TradingEnv
from tradingenv.transmitter import Transmitter
from tradingenv.events import EventNBBO
from tradingenv.contracts import ETF
spy=ETF('SPY')
d0=datetime(2019,1,1, 12)
ts=[d0+timedelta(days=i) for i in range(4)]
tr=Transmitter(ts)
ev=[]
for i,t in enumerate(ts):
    ev.append(EventNBBO(t, spy, 100.+i, 100.+i))
    ev.append(EventNBBO(t+timedelta(seconds=5), spy, 100.5+i, 100.5+i))
tr.add_events(ev)
env=TradingEnv([spy], transmitter=tr, latency=10)
env.reset()
try:
    for k in range(3):
        o,r,d,info=env.step(np.array([0.5])); print(k, r, d, info['_rebalancing'].time, [ (t.time,t.acq_price) for t in info['_rebalancing'].trades], env.now())
except Exception as e: traceback.print_exc(limit=1)
