import warnings; warnings.filterwarnings('ignore')
from datetime import datetime, timedelta
import numpy as np, traceback
from tradingenv.env import TradingEnv
from tradingenv.transmitter import Transmitter
from tradingenv.events import EventNBBO
from tradingenv.contracts import ETF, ES, FutureChain
from tradingenv.spaces import BoxPortfolio
def mk(start):
    chain=FutureChain(ES,'2019-01','2019-12')
    ts=[start+timedelta(days=i) for i in range(6)]
    tr=Transmitter(ts)
    ev=[]
    for i,t in enumerate(ts):
        for j,c in enumerate(chain.contracts):
            ev.append(EventNBBO(t, c, 2000.+10*j+i, 2000.+10*j+i))
    tr.add_events(ev)
    return TradingEnv(BoxPortfolio([chain],-1,1), transmitter=tr, initial_cash=1e6), chain
def trace_alone(start, k=4):
    env,ch=mk(start); env.reset(); out=[]
    for i in range(k):
        o,r,d,info=env.step(np.array([0.5])); out.append((round(r,12), [(str(t.contract), t.quantity) for t in info['_rebalancing'].trades]))
    return out
A0=datetime(2019,3,1); B0=datetime(2019,9,1)   # A trades ESH19..., B trades ESU19/ESZ19
a=trace_alone(A0); b=trace_alone(B0)
envA,_=mk(A0); envB,_=mk(B0); envA.reset(); envB.reset()
ia=[];ib=[]
try:
    for i in range(4):
        o,r,d,info=envA.step(np.array([0.5])); ia.append((round(r,12), [(str(t.contract), t.quantity) for t in info['_rebalancing'].trades]))
        o,r,d,info=envB.step(np.array([0.5])); ib.append((round(r,12), [(str(t.contract), t.quantity) for t in info['_rebalancing'].trades]))
except Exception as e: traceback.print_exc(limit=1)
print('A alone', a[:2]); print('A inter', ia[:2]); print('B alone', b[:2]); print('B inter', ib[:2])
