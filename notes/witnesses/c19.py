import warnings; warnings.filterwarnings('ignore')
from datetime import datetime, timedelta, date
import calendar
from tradingenv.contracts import ES, NK, VX, ZN, ZQ, ZT, ZF, ZB, FutureChain
import time
def nth_weekday(y,m,wd,n):
    d=date(y,m,1); off=(wd-d.weekday())%7; return d+timedelta(days=off+7*(n-1))
bad=[]
t0=time.time()
for y in range(1970,2100):
    for m in range(1,13):
        e=ES(y,m); 
        if e.expiry.date()!=nth_weekday(y,m,4,3): bad.append(('ES',y,m,e.expiry))
        if not e.last_trading_date<e.expiry: bad.append(('ESltd',y,m))
        n=NK(y,m)
        if n.expiry.date()!=nth_weekday(y,m,4,2): bad.append(('NK',y,m,n.expiry))
        v=VX(y,m)
        ny,nm=(y,m+1) if m<12 else (y+1,1)
        exp=nth_weekday(ny,nm,4,3)-timedelta(days=30)
        if v.expiry.date()!=exp or v.expiry.weekday()!=2: bad.append(('VX',y,m,v.expiry,exp))
        if not v.last_trading_date<v.expiry: bad.append(('VXltd',y,m))
        z=ZN(y,m)
        ld=date(y,m,calendar.monthrange(y,m)[1])
        while ld.weekday()>=5: ld-=timedelta(days=1)
        if z.expiry.date()!=ld: bad.append(('ZN',y,m,z.expiry,ld))
        if not z.last_trading_date<z.expiry: bad.append(('ZNltd',y,m,z.last_trading_date,z.expiry))
        for c in (e,n,v,z):
            code='FGHJKMNQUVXZ'[c.expiry.month-1]
            if c.symbol!=type(c).__name__+code+('%02d'%(c.expiry.year%100)): bad.append(('sym',c.symbol,y,m))
print(len(bad), bad[:10], time.time()-t0)
print(VX(2020,12).symbol, VX(2020,12).expiry, type(VX(2020,1).last_trading_date), ZN(2020,3).expiry, type(ZN(2020,3).expiry), ZN(2020,3).last_trading_date)
# symbol month vs requested month
mm=[(y,m,VX(y,m).expiry.month) for y in range(1970,2100) for m in range(1,13) if VX(y,m).expiry.month!=m]
print('VX expiry month != contract month:', len(mm), mm[:5])
ch=FutureChain(ZN,'1970-01','2099-12'); 
ltd=[c.last_trading_date for c in ch.contracts]; ex=[c.expiry for c in ch.contracts]
print(len(ch.contracts), all(a<b for a,b in zip(ltd,ltd[1:])), all(a<b for a,b in zip(ex,ex[1:])), len(set(c.symbol for c in ch.contracts)))
