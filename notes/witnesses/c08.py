import warnings; warnings.filterwarnings('ignore')
from datetime import datetime, timedelta
import numpy as np, traceback
from tradingenv.env import TradingEnv
from tradingenv.transmitter import Transmitter
from tradingenv.events import EventNBBO
from tradingenv.contracts import ETF, ES, VX, FutureChain
from tradingenv.spaces import DiscretePortfolio, BoxPortfolio
from tradingenv.broker.fees import BrokerFees
spy=ETF('SPY')
d0=datetime(2019,1,1)
ts=[d0+timedelta(days=i) for i in range(5)]
def mk(space, prices=None, **kw):
    tr=Transmitter(ts)
    prices = prices or [100.+i for i in range(5)]
    tr.add_events([EventNBBO(t, spy, p, p) for t,p in zip(ts,prices)])
    return TradingEnv(space, transmitter=tr, **kw)
print('--- C08 discrete null action with delay')
try:
    env=mk(DiscretePortfolio([spy], [[0.],[1.]]), steps_delay=1)
    env.reset(); print(env._queue_actions, type(env._queue_actions[0]))
    print(env.step(1)[1:3])
except Exception as e: traceback.print_exc(limit=1)
print('--- C09 ruin during step')
try:
    env=mk(BoxPortfolio([spy], -3, 3), prices=[100., 100., 10., 10., 10.])
    env.reset()
    print(env.step(np.array([3.]))[1:3])
    print(env.step(np.array([3.]))[1:3])
except Exception as e: traceback.print_exc(limit=1)
print('done flag', env._done, 'nlv', env.broker.net_liquidation_value(False))
try:
    print(env.step(np.array([3.]))[1:3])
except Exception as e: print(type(e).__name__, e)
print('done flag', env._done, len(env.broker.track_record))
print('--- C12 whole lot second rebalance')
try:
    env=mk(BoxPortfolio([spy], 0, 1, fractional=False), prices=[100.]*5)
    env.reset()
    print(env.step(np.array([0.5]))[1:3], env.broker.holdings_quantity)
    print(env.step(np.array([0.505]))[1:3], env.broker.holdings_quantity)
except Exception as e: traceback.print_exc(limit=1)
print('--- C11 VX chain')
try:
    c=FutureChain(VX, '2018-01', '2018-12'); print(c.contracts)
except Exception as e: print(type(e).__name__, e)
try:
    c=FutureChain(ES, '2018-01', '2018-12'); print(c.contracts, c._last_trading_dates)
except Exception as e: print(type(e).__name__, e)
