import warnings; warnings.filterwarnings('ignore')
from datetime import datetime, timedelta
import numpy as np
from tradingenv.broker.broker import Broker
from tradingenv.broker.rebalancing import Rebalancing
from tradingenv.exchange import Exchange
from tradingenv.events import EventNBBO, EventContractDiscontinued
from tradingenv.contracts import ES, ETF, Cash, Rate
t=datetime(2019,1,1)
def mk():
    ex=Exchange(); ex.process_EventNBBO(EventNBBO(t, Cash(), 1.,1.)); ex.process_EventNBBO(EventNBBO(t, Rate('FED funds rate'), 0.,0.))
    return ex, Broker(ex, deposit=1000.)
a,b,c=ETF('A'),ETF('B'),ES(2019,6)
nan=float('nan')
def attempt(name, setup, req):
    ex,br=mk(); setup(ex,br)
    before=(dict(br.holdings_quantity), len(br.track_record))
    try:
        br.rebalance(req); res='OK'
    except Exception as e: res=type(e).__name__+': '+str(e)[:50]
    after=(dict(br.holdings_quantity), len(br.track_record))
    same={k:v for k,v in before[0].items() if k!=Cash()}=={k:v for k,v in after[0].items() if k!=Cash() and (v!=0 or k in before[0])}
    print(name,'|',res,'| positions unchanged:',same,'| tr',before[1],after[1], after[0])
def s1(ex,br):
    ex.process_EventNBBO(EventNBBO(t,a,10.,10.))   # b never quoted
attempt('target unquoted B', s1, Rebalancing([a,b],[0.3,0.3],time=t))
def s2(ex,br):
    ex.process_EventNBBO(EventNBBO(t,a,10.,10.)); ex.process_EventNBBO(EventNBBO(t,b,nan,20.))
attempt('B bid nan, long target', s2, Rebalancing([a,b],[0.3,0.3],time=t))
attempt('B bid nan, short target', s2, Rebalancing([a,b],[0.3,-0.3],time=t))
def s3(ex,br):
    ex.process_EventNBBO(EventNBBO(t,a,10.,10.)); ex.process_EventNBBO(EventNBBO(t,b,20.,20.))
    br.rebalance(Rebalancing([a,b],[0.3,0.3],time=t)); 
    ex.process_EventContractDiscontinued(EventContractDiscontinued(t,b))
attempt('held B discontinued, target A only', s3, Rebalancing([a],[0.5],time=t+timedelta(days=1)))
def s4(ex,br):
    ex.process_EventNBBO(EventNBBO(t,a,10.,10.)); ex.process_EventNBBO(EventNBBO(t,c,2000.,2000.))
    br.rebalance(Rebalancing([a,c],[0.3,0.3],time=t)); 
    ex.process_EventContractDiscontinued(EventContractDiscontinued(t,c))
attempt('held future discontinued', s4, Rebalancing([a],[0.5],time=t+timedelta(days=1)))
ex,br=mk(); s4(ex,br)
try: print('nlv', br.net_liquidation_value())
except Exception as e: print('nlv raises', e)
