import warnings; warnings.filterwarnings('ignore')
from datetime import datetime, timedelta
import numpy as np, traceback
from tradingenv.env import TradingEnv
from tradingenv.transmitter import Transmitter
from tradingenv.events import EventNBBO
from tradingenv.contracts import ETF, Cash
from tradingenv.spaces import DiscretePortfolio, BoxPortfolio
a,b=ETF('A'),ETF('B')
d0=datetime(2019,1,1); ts=[d0+timedelta(days=i) for i in range(8)]
def mk(space, **kw):
    tr=Transmitter(ts)
    tr.add_events([EventNBBO(t, a, 100.+i, 100.+i) for i,t in enumerate(ts)]+[EventNBBO(t, b, 50.+i, 50.+i) for i,t in enumerate(ts)])
    return TradingEnv(space, transmitter=tr, **kw)
def probe(name, space, act, **kw):
    env=mk(space, **kw); env.reset()
    env.step(space.sample()*0 if isinstance(space,BoxPortfolio) else 0)
    before=(dict(env.broker.holdings_quantity), len(env.broker.track_record))
    try:
        r=env.step(act); res='EXECUTED alloc=%s'%dict(env.broker.track_record[-1].allocation)
    except Exception as e: res='REJECT '+type(e).__name__+' '+str(e)[:40]
    after=(dict(env.broker.holdings_quantity), len(env.broker.track_record))
    print(f'{name:28s}', res, '| unchanged' if before==after else '| CHANGED %s'%(after,))
box=BoxPortfolio([a,b],-1,1)
probe('box ok', box, np.array([0.5,-0.25]))
probe('box list', box, [0.5,-0.25])
probe('box nan', box, np.array([np.nan,0.1]))
probe('box oob', box, np.array([1.0000001,0.1]))
probe('box shape3', box, np.array([0.1,0.1,0.1]))
probe('box shape 2x1', box, np.array([[0.1],[0.1]]))
probe('box scalar', box, 0.3)
probe('box inf', box, np.array([np.inf,0.]))
probe('box string', box, 'abc')
probe('box int array', box, np.array([1,0]))
boxc=BoxPortfolio([Cash(),a,b],0,1)
probe('box w/ cash', boxc, np.array([0.7,0.2,0.1]))
disc=DiscretePortfolio([a,b],[[0,0],[1,0],[0.5,0.5],[-0.5,0.25]])
probe('disc ok 3', disc, 3)
probe('disc np.int64', disc, np.int64(2))
probe('disc 4 (oob)', disc, 4)
probe('disc -1', disc, -1)
probe('disc 1.0 float', disc, 1.0)
probe('disc True', disc, True)
probe('disc array([1])', disc, np.array([1]))
probe('disc nan', disc, float('nan'))
