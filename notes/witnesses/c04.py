import warnings; warnings.filterwarnings('ignore')
from datetime import datetime, timedelta
import numpy as np
from tradingenv.env import TradingEnv
from tradingenv.transmitter import Transmitter
from tradingenv.events import EventNBBO, IEvent
from tradingenv.contracts import ETF
from tradingenv.features import Feature
from tradingenv.state import IState

class Rec(Feature):
    log=[]
    def process_EventNBBO(self, event): Rec.log.append(('NBBO', event.time, event.contract, self.env_now()))
    def process_EventNewDate(self, event): Rec.log.append(('NewDate', event.time, None, self.env_now()))
    def process_EventReset(self, event): Rec.log.append(('Reset', event.time, None, self.env_now()))
    def process_EventStep(self, event): Rec.log.append(('Step', event.time, None, self.env_now()))
    def process_EventDone(self, event): Rec.log.append(('Done', event.time, None, self.env_now()))
    env=None
    def env_now(self): return Rec.env.now() if Rec.env else None

spy=ETF('SPY')
d0=datetime(2019,1,1)
ts=[d0+timedelta(days=i) for i in range(4)]
tr=Transmitter(ts)
tr.add_events([EventNBBO(t, spy, 100.+i, 100.+i) for i,t in enumerate(ts)])
env=TradingEnv([spy], state=IState([Rec()]), transmitter=tr)
Rec.env=env
env.reset()
done=False
while not done:
    _,r,done,info=env.step(np.array([0.5]))
for l in Rec.log: print(l)
print([ (k, v.time) for k,v in env.broker.track_record._rebalancing.items()])
