import warnings; warnings.filterwarnings('ignore')
from datetime import datetime
from tradingenv.broker.broker import Broker
from tradingenv.broker.trade import Trade
from tradingenv.exchange import Exchange
from tradingenv.events import EventNBBO
from tradingenv.contracts import ES, Cash
t=datetime(2019,1,1); es=ES(2019,3)
ex=Exchange(); ex.process_EventNBBO(EventNBBO(t, Cash(), 1.,1.)); b=Broker(ex, deposit=100000.)
ex.process_EventNBBO(EventNBBO(t, es, 99., 101.))
b.transact(Trade(t, es, 2, 99., 101.)); print('buy2', b.net_liquidation_value(), 'exp', 100000+50*(2*99-2*101))
b.transact(Trade(t, es, -1, 95., 97.)); print('reduce off-market @95', b.net_liquidation_value(), 'exp', 100000+50*(1*99-(2*101-1*95)))
b.transact(Trade(t, es, -1, 95., 97.)); print('close off-market @95', b.net_liquidation_value(), 'exp', 100000+50*(0-(2*101-2*95)))
print(b.holdings_quantity, b.holdings_margins)
