import warnings; warnings.filterwarnings('ignore')
import numpy as np, pandas as pd
import tradingenv
idx=pd.date_range('2019-01-01', periods=6, freq='B')
s=pd.Series([1.,1.01,1.03,0.99,1.02,1.03], idx)
def tryit(name, ser, f=lambda x: x.cagr()):
    try: print(name, 'OK', f(ser))
    except Exception as e: print(name, 'REJECT', type(e).__name__, str(e)[:60])
tryit('valid', s)
x=s.copy(); x.iloc[2]=np.nan; tryit('nan', x)
x=s.copy(); x.iloc[2]=0.; tryit('zero', x)
x=s.copy(); x.iloc[2]=-1.; tryit('neg', x)
x=s.copy(); x.index=list(idx[:2])+[idx[1]]+list(idx[3:]); tryit('dup', x)
x=s.iloc[::-1]; tryit('unsorted', x)
x=s.copy(); x.index=range(6); tryit('intindex', x)
for m in ['simple_returns','log_returns','volatility','drawdown','max_drawdown','value_at_risk','expected_shortfall','downside_volatility','upside_volatility','martin_risk','sharpe_ratio','sortino_ratio','calmar_ratio','martin_ratio','nr_years','nr_calendar_days','cumulative_return']:
    x=s.copy(); x.iloc[2]=np.nan
    tryit('nan/'+m, x, lambda z: getattr(z,m)() is not None)
# intraday
idx2=pd.to_datetime(['2019-01-01 10:00','2019-01-01 16:00','2019-01-02 10:00','2019-01-02 16:00','2019-01-03 16:00'])
s2=pd.Series([1.,1.1,1.05,1.2,1.3], idx2)
print(s2.simple_returns()); print(s2.cagr(), s2.nr_years())
print((3*s).sharpe_ratio()==s.sharpe_ratio(), (3*s).volatility(), s.volatility())
