import warnings; warnings.filterwarnings('ignore')
from datetime import datetime, timedelta
import numpy as np, traceback
from tradingenv.env import TradingEnv
from tradingenv.transmitter import Transmitter
from tradingenv.events import EventNBBO
from tradingenv.contracts import ETF
spy=ETF('SPY')
d0=datetime(2019,1,1)
ts=[d0+timedelta(days=i) for i in range(8)]
def mk(**kw):
    tr=Transmitter(ts, folds={'training-set':[ts[1],ts[6]]})
    tr.add_events([EventNBBO(t, spy, 100., 100.) for t in ts])
    return TradingEnv([spy], transmitter=tr, **kw)
for n in range(1,8):
    try:
        env=mk(episode_length=n)
        starts=set(); counts=set()
        for rep in range(200):
            env.reset(); s=env.now(); k=0; done=False; times=[s]
            while not done:
                _,_,done,_=env.step(np.array([0.])); k+=1; times.append(env.now())
            starts.add(s.day); counts.add(k)
            st=list(env._transmitter._steps); assert all(ts[1]<=t<=ts[6] for t in st) and len(st)==n+1, st
        print('ctor n',n,'decisions',counts,'starts',sorted(starts))
    except Exception as e: print('ctor n',n, type(e).__name__, str(e)[:70])
for n in range(1,8):
    try:
        env=mk(); counts=set()
        for rep in range(20):
            env.reset(episode_length=n); k=0; done=env._done
            while not done:
                _,_,done,_=env.step(np.array([0.])); k+=1
            counts.add(k)
        print('reset n',n,'decisions',counts)
    except Exception as e: print('reset n',n, type(e).__name__, str(e)[:70])
tr=Transmitter(ts); f=tr.walk_forward(3,2); print(f.train_start,f.train_end,f.test_start,f.test_end)
f=tr.walk_forward(3,2,False); print(f.train_start,f.train_end,f.test_start,f.test_end)
