#!/bin/sh
# Everything that must hold before a commit of /verif: the whole Lean project builds, every quick check exits 0 on the
# current (clean) tree, MANIFEST.json and every evidence file validate against their schemas, /repo is clean.
cd "$(dirname "$0")" || exit 2
git -C /repo status --short | grep -q . && { echo "/repo is not clean"; exit 1; }
(cd lean && lake build TradingVerif TradingVerif.Props.All) > /tmp/precommit_build.log 2>&1 || { echo "lake build failed"; grep -m3 error /tmp/precommit_build.log; exit 1; }
./run_all.sh > /tmp/precommit_checks.log 2>&1 || { echo "a check did not exit 0"; grep -E "VIOLATION|exit [12]" /tmp/precommit_checks.log | head; exit 1; }
/venv/bin/python harness/gen_manifest.py > /dev/null || exit 1
/venv/bin/python - <<'PY' || exit 1
import json, jsonschema, glob, sys
jsonschema.validate(json.load(open('MANIFEST.json')), json.load(open('/root/.vp/MANIFEST.schema.json')))
es = json.load(open('/root/.vp/EVIDENCE.schema.json'))
for f in sorted(glob.glob('evidence/*.json')):
    e = json.load(open(f))
    jsonschema.validate(e, es)
    if e.get('tier') != 'quick':
        print(f, 'is not quick-tier evidence'); sys.exit(1)
print('manifest and', len(glob.glob('evidence/*.json')), 'evidence files valid')
PY
rm -f /tmp/precommit_build.log /tmp/precommit_checks.log
echo "precommit ok"
