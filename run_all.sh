#!/bin/sh
# Self-test: setup + every quick check on the current tree; prints one line per check.
cd "$(dirname "$0")" || exit 2
(cd lean && lake build TradingVerif TradingVerif.Props.All) >/dev/null 2>&1 || { echo "setup failed"; exit 2; }
rc=0
for i in 01 02 03 04 05 06 07 08 09 10 11 12 13 14 15 16 17 18 19; do
  out=$(./check C$i ${1:-quick} 2>/dev/null); st=$?
  echo "$out" | grep -E "^(VIOLATION|KNOWN-FINDING|C$i )" | cut -c1-200
  [ $st -ne 0 ] && rc=1
done
exit $rc
